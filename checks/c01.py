#!/usr/bin/env python3
"""C01 — post-processing preserves observable behaviour."""
import os, re, sys
sys.path.insert(0, os.path.join(os.path.dirname(os.path.abspath(__file__)), "..", "tools"))
import vlib


def signature(msg, case_lines):
    m = re.search(r"pass=(\S+)", msg) or re.search(r"first_changed_boundary=\d+:(\S+)", msg)
    return "pass:" + (m.group(1) if m else "?")


vlib.standard_check({
    "prop": "C01",
    "lean_modules": ["GateryModel.Properties.C01"],
    "prop_file": "GateryModel/Properties/C01.lean",
    "prop_module": "GateryModel.Properties.C01",
    "exe": "gv_c01",
    "harness": "c01",
    # harness args after the seed: ncases nsteps
    "streams": {"quick": [[600, 30], [150, 80], [4000, "rw"]], "thorough": [[20000, 30], [4000, 100], [20000, 10], [200000, "rw"]]},
    "search": [[5000, 30], [1000, 100], [50000, "rw"]],
    "signature": signature,
    "eval_key": "ops",
    "nontrivial": lambda t: t.get("boundaries_with_changed_trace", 0) + t.get("cases", 0),
    "rule": "random typed designs from harness/designgen.h (arith/logic/compare/mux/slice/cat/ext/shift/rotate, IF/ELSE trees, registers with "
            "reset/enable, accumulators with feedback, named signals), built twice (default and minimal post-processing); the pin trace under a random "
            "stimulus is taken before post-processing, after every pass (GATERY_VERIF hook) and at the end; non-trivial = designs + pass boundaries at which "
            "the printed trace changed; backbone: the netlist (cone of the output pins, registers cut) of the design as constructed and of the "
            "post-processed design is dumped with the simulator's value of every node at every cycle, and every node value is recomputed by the driver "
            "with Gatery.Nodes.evalNode from the values of its inputs (node_values_rechecked_with_lean_semantics); every register value at a sample point is "
            "recomputed with Gatery.Nodes.regEdge from the data/enable/reset-value and register values at the previous sample point "
            "(register_transitions_rechecked_with_lean_semantics; the transition during which the reset is released is skipped); "
            "autonomous run: the Lean clocked simulator Gatery.Nodes.seqRun is run on both netlists from the stimulus alone (register state carried by the "
            "model from cycle to cycle, restarted from the simulator's registers only where the reset changes) and every node value at every cycle is compared "
            "with the reference simulator (seqrun_node_values_compared); "
            "stream rw: Node_Rewire::optimize() is called on generated rewire operations (zero-width ranges, constant all-zero/all-one/mixed/partly undefined "
            "drivers behind signal nodes, shared drivers, unconnected inputs, ranges continuing each other); the driver replays Gatery.C01.rewireOptimize (DIFF) "
            "and evaluates the operation before and after with evalRewire on the driver values (PROPFAIL)",
    "trusted_base": ["Lean 4.33 kernel", "axioms: propext, Classical.choice, Quot.sound only (audited per theorem)",
                     "harness/c01.cpp + designgen.h + Driver/C01.lean", "gatery's ReferenceSimulator as the semantics of both circuits (its own correctness is C03/C04/C08)"],
    "level_text": "Lean theorems: congruence (one locally sound node replacement preserves F on every node value of any netlist; any number of "
                  "replacements preserves identity on defined runs and compatibility), lifted to clocked netlists for stimuli of any length (induction over cycles), "
                  "value-level soundness of the rewrites of the optimisation passes of Circuit::optimizeSubnet plus insertConstUndefinedNodes/disconnectZeroBitConnections for all four-state values; F is evaluated on implementation pin traces of generated designs at every pass boundary and at the end.",
    "extra_cov": lambda t: {"netlists_rechecked": t.get("netlists_rechecked", 0), "node_values_rechecked_with_lean_semantics": t.get("node_values_rechecked_with_lean_semantics", 0),
                            "register_transitions_rechecked_with_lean_semantics": t.get("register_transitions_rechecked_with_lean_semantics", 0),
                            "register_transitions_with_enable": t.get("register_transitions_with_enable", 0),
                            "seqrun_node_values_compared": t.get("seqrun_node_values_compared", 0), "seqrun_cycles": t.get("seqrun_cycles", 0),
                            "rewire_optimize_cases": t.get("rewire_optimize_cases", 0), "rewire_optimize_changed": t.get("rewire_optimize_changed", 0)},
    "assumptions": ["'run free of undefined values' = stimulus and every node output of the unprocessed circuit defined at every sample point",
                    "a design on which post-processing throws is counted (postprocess_threw), not judged"],
})
