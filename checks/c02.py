#!/usr/bin/env python3
"""C02 — exported VHDL behaves like the reference simulation."""
import os, re, sys
sys.path.insert(0, os.path.join(os.path.dirname(os.path.abspath(__file__)), "..", "tools"))
import vlib


def signature(msg, case_lines):
    what = (re.search(r"what=(\S+)", msg) or [None, "?"])[1]
    flag = lambda k: (re.search(r"\b%s=(\S+)" % k, msg) or [None, "?"])[1]
    if what == "check_precedes_first_set":
        return "recorder:check_written_before_first_set"
    if what == "illegal_vhdl":
        if "parenthesised expression" in msg:
            return "illegal_vhdl:index_of_parenthesised_expression"
        if "ambiguous operand types" in msg:
            return "illegal_vhdl:ambiguous_operand_types"
        if "std_logic literal" in msg:
            return "illegal_vhdl:bad_std_logic_literal"
        return "illegal_vhdl:other"
    if what in ("check_mismatch_metavalue", "check_mismatch_uninitialised") and flag("tri") == "2":
        return "tristate:released_pin_recorded_as_X"
    if (flag("undef") == "1" or flag("rundef") == "1") and what == "check_mismatch_metavalue":
        # what=check_mismatch_metavalue: at EVERY failing CHECK the VHDL value of the checked pin itself holds a metavalue at a bit the
        # reference defines, and no checked bit is defined on both sides with different values. Only then, and only when the reference run
        # itself contained undefined values (undefined stimuli, multiplexer without an input for its selector value, uninitialised memory
        # ...), is it the known X-pessimism of the exported VHDL (CASE ... OTHERS => 'X', numeric_std). A defined-versus-defined
        # difference (what=check_mismatch_value) is never classed as this finding, whatever else the design contains.
        return "xprop:metavalue_where_reference_defined"
    if what == "check_mismatch_value_through_metavalue" and (flag("undef") == "1" or flag("rundef") == "1"):
        # defined on both sides but different, and at EVERY such CHECK every differing element of the checked pin is TAINTED in the Lean
        # interpreter (Kernel.lean `taintExpr` / `texecStmt`): it was computed by a relational operator / to_integer / index with a metavalue
        # operand, assigned (or kept) under an IF / CASE whose condition or selector was tainted, or derived from such values. The
        # metavalue itself is the known X-pessimism; numeric_std's FALSE / `X = '1'` being FALSE turn it into a defined wrong value.
        # An untainted defined-versus-defined difference is what=check_mismatch_value and stays a violation.
        return "xprop:defined_through_metavalue_decision"
    if what == "vhdl_runtime_error" and "out of range" in msg and "index" in msg:
        return "vhdl_runtime_error:index_out_of_range"
    if what == "check_mismatch_uninitialised":
        return "power_on_value_missing:U_where_reference_defined"
    return "what:" + what + (":undefined_stimulus" if flag("undef") == "1" else "")


def extra_cov(t):
    return {"level_note": "The VHDL side is interpreted with this project's Lean model of IEEE 1076 / std_logic_1164 / numeric_std "
                          "(lean/GateryModel/C02/Vhdl/{Parse,Sem,Kernel}.lean) - trusted, NOT a second VHDL simulator (no GHDL/NVC in the sandbox).",
            "constructs_exercised": t.get("constructs", {}),
            "files_parsed": t.get("files", 0), "entities": t.get("entities", 0), "instances": t.get("instances", 0),
            "defined_bits_checked": t.get("defined_bits_checked", 0), "delta_cycles": t.get("delta_cycles", 0),
            "designs_not_exportable_skipped": t.get("skipped", 0)}


vlib.standard_check({
    "prop": "C02",
    "lean_modules": ["GateryModel.Properties.C02"],
    "prop_file": "GateryModel/Properties/C02.lean",
    "prop_module": "GateryModel.Properties.C02",
    "exe": "gv_c02",
    "harness": "c02",
    # harness args after the seed: ncases nsteps flags
    #   flags: 1 hierarchy 2 reset kinds 4 clock edges 8 output modes 16 memories/tristate/wide arithmetic 32 undefined stimuli
    #          64 stimuli at power-on 128 bidirectional pins released with 'Z'
    #          1024 out-of-range addresses of non power-of-two memories (stream 1823 = 799 + 1024: index error in VHDL, known finding)
    #          256 clock frequencies whose period is not a whole number of ps 512 runs ending 100 ps behind a clock edge
    #   optional: only-case (-1 = all), long-run cycles (last stream: a few designs x 2500..3100 cycles)
    "streams": {"quick": [[1200, 25, 799], [300, 45, 799], [300, 20, 831], [200, 15, 991], [8, 8, 799, -1, 2500], [200, 20, 1823]],
                "thorough": [[30000, 25, 799], [6000, 60, 799], [4000, 25, 831], [2000, 20, 991], [60, 10, 799, -1, 3000], [3000, 20, 1823]]},
    "search": [[300, 25, 799]],
    "signature": signature,
    "eval_key": "ops",
    "nontrivial": lambda t: t.get("ops", 0),
    "extra_cov": extra_cov,
    "rule": "generated designs (designgen recipes: logic, arithmetic, compare, mux, rewire, registers with enable, condition trees; plus hierarchy via Area "
            "entities, reset none/sync/async x polarity, rising/falling/both-edge clocks, single file / file per entity / file per partition, "
            "inferred memories, tristate pins, arithmetic up to 130 bits) are exported with the real exporter while a FileBasedTestbenchRecorder records "
            "a reference-simulator run; every exported file is parsed by the Lean VHDL parser and interpreted under the recorded SET/RST/ADV stream; "
            "every CHECK line (defined bits only) must hold at its time. evaluations = CHECK lines evaluated",
    "trusted_base": ["Lean 4.33 kernel", "axioms: propext, Classical.choice, Quot.sound only (audited per theorem)",
                     "Vhdl/Parse.lean + Vhdl/Sem.lean + Vhdl/Kernel.lean: this project's MODEL of VHDL-2008 (LRM 14 simulation cycle, std_logic_1164 tables, "
                     "numeric_std) and of the recorded testbench (clock generators, vector interpreter) - not a second simulator",
                     "harness/c02.cpp + Driver/C02.lean line protocol", "reference semantics of node kinds on defined values (ExprSpec.lean; C03 is about those)"],
    "level_text": "Lean model of the VHDL subset gatery emits (AST, parser, delta-cycle semantics) and of the exporter (formatExpression per node kind, "
                  "mux/prio/tristate statements, list scheduler, RegisterProcess). Proved for all widths/values/lists: the emitted clocked process implements "
                  "register semantics (reset kinds x polarity x enable x edge); formatted logic/compare/mux/rewire/constant/arithmetic expressions evaluate "
                  "to the reference value; the scheduler emits a topological permutation. Tied to the code by parsing and interpreting really exported files "
                  "under recorded test vectors.",
    "assumptions": ["VHDL semantics = project model, no GHDL", "theorems (a) assume fully defined operand values; zero-width compare and registers with unconnected data + enable are excluded",
                    "External nodes / vendor primitives / generics are outside the parsed subset (DIFF)"],
})
