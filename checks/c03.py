#!/usr/bin/env python3
"""C03 — operators compute their mathematical definition at every width."""
import os, re, sys
sys.path.insert(0, os.path.join(os.path.dirname(os.path.abspath(__file__)), "..", "tools"))
import vlib

# the shared node model lives in GateryModel/Nodes, the lemma files also use GateryModel/C08 (order lemmas): audit them too
_audit = vlib.audit_sources
vlib.audit_sources = lambda paths: _audit(list(paths) + [os.path.join("GateryModel", "Nodes"), os.path.join("GateryModel", "C08")])


def signature(msg, case_lines):
    """operator + input-shape class (computed by the driver from the *inputs*, never from the outcome)"""
    m = re.search(r"op=(\S+) class=(\S+)", msg)
    if not m:
        return "op:?"
    cls = m.group(2)
    for pre in ("xsound/",):
        if cls.startswith(pre):
            cls = cls[len(pre):]
    for suf in ("/result-shape", "/unsafe-netlist", "/built-but-illformed"):
        if cls.endswith(suf):
            cls = cls[:-len(suf)]
    return "op:%s/%s" % (m.group(1), cls)


vlib.standard_check({
    "prop": "C03",
    "lean_modules": ["GateryModel.Properties.C03"],
    "prop_file": "GateryModel/Properties/C03.lean",
    "prop_module": "GateryModel.Properties.C03",
    "exe": "gv_c03",
    "harness": "c03",
    # harness args after the seed: <ncases> <mode> [stimuli per case]
    "streams": {
        "quick": [[8000, "op", 6], [2000, "dag", 6], [2500, "dags", 6], [1500, "const", 1], [5000, "lit"]],
        "thorough": [[120000, "op", 8], [30000, "dag", 8], [40000, "dags", 8], [20000, "const", 1], [100000, "lit"]],
    },
    "search": [[20000, "op", 8], [5000, "dag", 8], [5000, "const", 1]],
    "signature": signature,
    "eval_key": "ops",
    "nontrivial": lambda t: t.get("spec_checks", 0) + t.get("xsound_checks", 0),
    "rule": "every case builds operators through the real frontend (Bit/UInt/SInt/BVec) on input pins or literals, widths from "
            "{0,1,2,3,7,8,31,32,33,63,64,65,127,128,129,191,200} ∪ uniform 0..200, operand values {0,1,all-ones,2^(w-1),2^(w-1)-1,small,random} "
            "with none/few/many/all bits undefined; modes: op (one operator), dag/dags (expression DAGs, depth ≤ 6, wide / narrow, including IF (sel == k) and IF (c) "
            "assignment chains with repeated k and tapped intermediate values; one case in three is simulated again after design.postprocess() on the same "
            "stimuli and every tapped expression compared with the value of the design as constructed), const (literal "
            "operands: construction-time vs run-time evaluation), lit (literal parsing). Evaluations = node evaluations + frontend-operator "
            "evaluations re-computed by the Lean model; non-trivial = comparisons of the simulator's result with the mathematical definition "
            "(fully defined operands: equality; partially undefined operands: every defined result bit against 3 concretisations).",
    "extra_cov": lambda t: {"node_kinds": t.get("node_kinds", {}), "operators": t.get("hist", {}), "result_widths": t.get("widths", {}),
                            "operand_definedness": t.get("definedness", {}), "unsafe_cases_not_simulated": t.get("unsafe_cases", 0),
                            "crashes_of_code_under_test": t.get("crash_cases", 0), "post_processed_runs": t.get("post_processed_runs", 0),
                            "post_processed_values_compared": t.get("post_processed_values", 0), "frontend_rejections": t.get("error_cases", 0)},
    "trusted_base": ["Lean 4.33 kernel", "axioms: propext, Classical.choice, Quot.sound only (audited per theorem)",
                     "C03/Spec.lean (the definitions on Nat / Int / bit lists)",
                     "harness/c03.cpp netlist dump + Driver/Nodes*.lean line protocol (correspondence on generated cases, not proved)",
                     "bit-array meaning of BitVectorState operations (word level is C18)", "boost cpp_int arithmetic modelled as Int"],
    "level_text": "Lean theorems: every modelled core node (both the uint64 and the BigInt path) and the frontend lowering of Bit/UInt/SInt/BVec "
                  "operators equal their Nat/Int/bit-list definition for all widths and all fully defined operands; model tied to the code by "
                  "differential execution (every node value and every operator result of generated designs is recomputed by the model and by the definition).",
    "assumptions": ["Node_Shift with a 64-bit amount, rotate of a zero-width vector, rewire ranges outside their input: undefined behaviour in the "
                    "simulator; such netlists are reported structurally and not simulated",
                    "PriorityConditional / mux tables with entries of different widths, BitReduce forms of ext, shr(UInt, UInt, Bit), swapEndian, muxWord not generated",
                    "construction-time evaluation is compared with run-time simulation on the implementation only (it re-uses simulateEvaluate after post-processing)"],
})
