#!/usr/bin/env python3
"""C04 — registers, clocks, resets and enables follow synchronous-logic semantics."""
import os, re, sys
sys.path.insert(0, os.path.join(os.path.dirname(os.path.abspath(__file__)), "..", "tools"))
import vlib

# the shared event-loop model lives in GateryModel/Sched: include it in the forbidden-token audit
_audit = vlib.audit_sources
vlib.audit_sources = lambda paths: _audit(list(paths) + [os.path.join("GateryModel", "Sched")])


def signature(msg, case_lines):
    kind = re.search(r"kind=([\w-]+)", msg)
    kind = kind.group(1) if kind else "?"
    if kind == "activation-time":
        m = re.search(r"sharing=([\w:-]+)", msg)
        return "activation-time:" + (m.group(1) if m else "?")
    return kind


def nontrivial(t):
    h = t.get("hist", {})
    return sum(v for k, v in h.items() if k.startswith("edge:") or k.startswith("asyncreset:"))


vlib.standard_check({
    "prop": "C04",
    "lean_modules": ["GateryModel.Properties.C04"],
    "prop_file": "GateryModel/Properties/C04.lean",
    "prop_module": "GateryModel.Properties.C04",
    "exe": "gv_c04",
    "harness": "c04",
    # harness args after the seed: <ncases> <nsteps> <mode>; mode 1 = derived clocks kept edge-aligned with a shared pin, 0 = any
    "streams": {"quick": [[4000, 60, 1], [2000, 60, 0]],
                "thorough": [[20000, 100, 1], [6000, 100, 0], [400, 2500, 1]]},
    "search": [[4000, 80, 0], [4000, 80, 1]],
    "signature": signature,
    "eval_key": "ops",
    "nontrivial": nontrivial,
    "rule": "generated clock trees (1-3 root clocks with rational frequencies, 0-3 derived clocks x{1,2,1/2,3/2}, trigger R/F/RF, reset "
            "SYNC/ASYNC/NONE x active H/L, shared and separate clock/reset pins) x register networks (chains, feedback counters, random "
            "NOT/XOR/AND/OR/ADD cones, enables, reset values incl. partly undefined) x stimuli (pin writes incl. undefined bits, "
            "reevaluate, advanceEvent, advance(d)); evaluations = clock edges checked against j/(2f) + register outputs checked against "
            "specInstant at every commit; non-trivial = register activations (load / hold / undefined enable / in reset) and "
            "asynchronous reset applications",
    "trusted_base": ["Lean 4.33 kernel", "axioms: propext, Classical.choice, Quot.sound only (audited per theorem)",
                     "C04/Spec.lean (specEdge, specInstant, specActivationTime) and the statements in Properties/C04.lean",
                     "hand-written model Sched/{Basic,Sim,Clock}.lean of ReferenceSimulator / Node_Register / hlim::Clock / ClockPinAllocation "
                     "(tied to the code by differential execution, not by translation)",
                     "harness/c04.cpp + Driver/C04.lean line protocol, Sched/Expr.lean (Node_Logic/Node_Arithmetic semantics used to "
                     "evaluate the generated combinational cones)",
                     "boost::rational<uint64_t> modelled as Rat (generators stay below the 2^64 cross-product bound)"],
    "level_text": "Lean model of the simulator's event queue/phases/power-on, of Node_Register and of derived clocks with pin sharing and attribute inheritance (deriveDecl, recomputed for every derived clock from the configuration passed to deriveClock); "
                  "theorems for all programs (arbitrary combinational functions), all reachable states and any pop order among "
                  "equal-time events: exact register step, no change at other events, INT_IN_RESET = reset level (active level honoured), "
                  "pre-edge sampling and commit-order irrelevance across domains, j-th clock edge at exactly j/(2f), k-th activation at "
                  "exactly k/f (k/(2f) dual edge) for edge-aligned clocks; model tied to the code by differential execution of generated "
                  "clock trees x register networks x stimuli, the property itself evaluated on the implementation's log.",
    "assumptions": ["logic-driven clocks/resets (Node_Signal2Clk/Rst) are rejected by the simulator and not modelled",
                    "memories, Node_SignalGenerator and other clocked nodes are not part of the C04 model (registers only)",
                    "simProcOverrideRegisterOutput and abort() not modelled",
                    "uint64 overflow of boost::rational outside the stated bound is not covered"],
})
