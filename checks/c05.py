#!/usr/bin/env python3
"""C05 — conditional scopes and assignments have sequential-program semantics."""
import json, os, re, subprocess, sys, tempfile
sys.path.insert(0, os.path.join(os.path.dirname(os.path.abspath(__file__)), "..", "tools"))
import vlib


def signature(msg, case_lines):
    m = re.search(r"sig=(\S+)", msg)
    return m.group(1) if m else "other"


def replay(path):
    """re-run the program of a replay file against the current /repo and print what the driver says"""
    rp = json.load(open(path))
    lines = rp.get("case_lines") or []
    if not lines:
        for d in rp.get("details", []):
            lines = lines or d.get("case_lines") or []
    if not lines:
        print("replay file holds no program (theorem / build failure): " + json.dumps(rp.get("details", rp.get("what")))[:2000])
        sys.exit(1)
    prog = []
    for l in lines:                      # keep the program, drop the recorded valuations
        if l.startswith(("v ", "nout", "ex", "crash", "postcrash")):
            continue
        prog.append(l)
    if not prog or not prog[-1].startswith("end"):
        prog.append("end")
    bdir, log = vlib.build_gatery("plain")
    if bdir is None:
        print(log[-3000:]); sys.exit(1)
    harness, log = vlib.build_harness("c05", bdir)
    ok, log2 = vlib.lake_build(["gv_c05"])
    if harness is None or not ok:
        print((log or "") + (log2 or "")); sys.exit(1)
    with tempfile.NamedTemporaryFile("w", suffix=".case", delete=False) as f:
        f.write("\n".join(prog) + "\n")
    h = subprocess.run([harness, "replay", f.name], stdout=subprocess.PIPE)
    d = subprocess.run([vlib.driver_path("gv_c05")], input=h.stdout, stdout=subprocess.PIPE)
    out = d.stdout.decode()
    print("\n".join(prog))
    print(out)
    bad = [l for l in out.splitlines() if l.startswith(("PROPFAIL", "DIFF"))]
    if bad:
        print("VIOLATION property=C05 replay=%s" % path)
        sys.exit(1)
    sys.exit(0)


if "--replay" in sys.argv:
    replay(sys.argv[sys.argv.index("--replay") + 1])

vlib.standard_check({
    "prop": "C05",
    "lean_modules": ["GateryModel.Properties.C05"],
    "prop_file": "GateryModel/Properties/C05.lean",
    "prop_module": "GateryModel.Properties.C05",
    "exe": "gv_c05",
    "harness": "c05",
    # harness args after the seed: <ncases> <maxStmts> <maxDepth> [exhaustive up to N input bits] [random valuations otherwise]
    # small programs first: the first failing case of a signature is the reported reproducer
    "streams": {"quick": [[1500, 5, 3], [2500, 14, 4], [500, 25, 4]],
                "thorough": [[20000, 5, 3], [60000, 14, 4], [20000, 25, 6], [4000, 40, 8, 10, 512]]},
    "search": [[20000, 8, 4], [10000, 20, 6]],
    "signature": signature,
    "eval_key": "valuations",
    "nontrivial": lambda t: t.get("valuations", 0),
    "extra_cov": lambda t: {"programs": t.get("cases", 0), "input_valuations_compared": t.get("valuations", 0),
                            "netlist_nodes_modelled": t.get("nodes", 0),
                            "valuations_skipped_executed_index_out_of_range": t.get("oor_skipped", 0),
                            "programs_rejected_by_frontend_and_model": t.get("rejected", 0),
                            "observations_postprocess_threw": t.get("obs_postprocess_threw", 0),
                            "observations_postprocess_threw_all_selections_in_range": t.get("obs_postprocess_threw_all_in_range", 0),
                            "statement_histogram": t.get("hist", {})},
    "rule": "programs generated from the seed over the AST of C05/Model.lean (declarations, defaults incl. further BitDefault assignments on already assigned signals, assignments to whole signals / slices / bits / "
            "dynamic bits, parts and slices incl. nested selections, Selection forms (All / From / Range / RangeIncl / Slice / Symbol with negative starts and ends), operators, width-less variables from integer literals / zext / oext (UInt and SInt) re-assigned "
            "wider / narrower / equal literals and each other inside and outside IF / ELSE with copies and comparisons, the alias-cache pattern (part vs dynamic slice keys; x.resetNode() + re-initialisation between uses of the same index signals / selections), "
            "ENIF / IF nests (depth 1..4, any order, ELSE branches) around reg() and memory writes whose ENABLE / wrEnable input is observed, IF / ELSE / ELSEIF / two-scope ELSE IF chains that often repeat a condition "
            "signal, nesting to the given depth, locals inside scopes) + 1/40 malformed programs the frontend must reject; each program is executed against the "
            "real frontend (ConditionalScope objects on the C++ stack), simulated for all input valuations (<= 10 input bits, random sample otherwise) before and "
            "after postprocess(); every valuation is compared with the sequential interpreter (PROPFAIL) and with eval(build) of the Lean model (DIFF); "
            "evaluations = valuations compared, each covering every top-level signal before and after postprocess()",
    "trusted_base": ["Lean 4.33 kernel", "axioms: propext, Classical.choice, Quot.sound only (audited per theorem)",
                     "the sequential interpreter `run` and the operator semantics shared by `run` and the netlist evaluation (C05/Model.lean)",
                     "harness/c05.cpp (AST interpreter performing the real frontend calls) + Driver/C05.lean line protocol",
                     "gtry::sim::ReferenceSimulator as the observer of the built circuit"],
    "level_text": "Lean model of ConditionalScope ctor/dtor bookkeeping (incl. the s_nextId test of the destructor), Bit/BaseBitVector::assign, BitVectorSlice "
                  "read-modify-write and Node_Default as written; full-strength theorem C05_sequential by two inductions over programs (skipped block = frame, "
                  "executed block = simulation of the sequential interpreter) for all programs, nesting depths, chain lengths in both ELSEIF forms and all inputs; "
                  "model tied to the code by differential execution of generated programs on the real frontend, before and after postprocess(). "
                  "Exceptions thrown by postprocess() are counted observations (OBS), not verdicts; a value changed by postprocess() is reported.",
    "assumptions": ["C++ control flow around the macros (loops, early exits, exceptions inside a scope), Compound/struct assignment, registers/EnableScope, "
                    "BVec, SInt beyond literal-initialised variables (compare / assign), reads of never-driven signals (loop semantics) are not modelled",
                    "enable scopes: the observed effect of reg() / mem[a]=d is the value of the node driving the ENABLE / wrEnable input per input valuation "
                    "(update happens iff all enclosing IF and ENIF conditions hold: theorems C05_enable_is_conjunction / C05_enable_push_step on the modelled "
                    "EnableScope stack); what registers and memories store over time is C04/C07's business",
                    "width-less variables (integer literals, zext/oext; width growth) are modelled by buildX/runX (C05/ModelX.lean, sequential semantics on integers) and "
                    "covered by correspondence plus the statement-level theorems C05_int_padding_preserves_integer / C05_int_conditional_assign; the program-level "
                    "theorem C05_sequential is about the fixed-width fragment (build/run)",
                    "operators are abstract (same semantics in interpreter and netlist): C03's business",
                    "defaults: only Bit (UIntDefault asserts in the frontend); a defaulted signal that is later overwritten unconditionally as a whole is outside the model",
                    "values are two-valued; an out-of-range dynamic index inside a *skipped* block is covered by correspondence (model yields [] where the simulator yields undefined, masked)"],
})
