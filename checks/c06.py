#!/usr/bin/env python3
"""C06 — register retiming keeps function and balances latency exactly."""
import os, re, sys
sys.path.insert(0, os.path.join(os.path.dirname(os.path.abspath(__file__)), "..", "tools"))
import vlib


def signature(msg, case_lines):
    # what=autonomous-state-lag / reset-edge-sampling are the two behaviours found on the unchanged tree (see report). The driver prints them only
    # when the concrete prediction holds: autonomous-state-lag iff the hinted design equals, in every cycle, the twin whose counter is delayed by the
    # lag DERIVED FROM THE RECIPE (hints behind the combining step) and the measured register count equals that lag; reset-edge-sampling only in
    # class resetedge and iff the hinted design equals, in every cycle, the explicit-register design predicted from the recipe (registers at the
    # pipestages, reset value = power-on value of their input if any bit is defined). Everything else is keyed by what failed and in which class.
    m = re.search(r"what=(\S+)", msg)
    what = m.group(1) if m else "?"
    if what in ("autonomous-state-lag", "reset-edge-sampling"):
        return "what:" + what
    c = re.search(r"cls=(\S+)", msg)
    return "what:%s/cls:%s" % (what, c.group(1) if c else "?")


def extra(t):
    return {"designs_by_class": t.get("hist", {}).get("class", {}), "reported_stage_counts": t.get("hist", {}).get("stages", {}),
            "reset_modes": t.get("hist", {}).get("reset", {}), "latency_checks": t.get("latency_checks", 0),
            "designs_rejected_by_gatery": t.get("rejected_designs", 0), "stall_cycles": t.get("stall_cycles", 0), "cycles": t.get("cycles", 0),
            "cases_with_holding_circuit": t.get("cases_with_holding_circuit", 0),
            "autonomous_cases_confirmed_against_lag_twin": t.get("autonomous_checked_against_lag_twin", 0),
            "backward_retimed_registers_by_reset_and_enable": t.get("hist", {}).get("backward_retimed_registers", {}),
            "cases_enable_low_directly_after_reset": t.get("cases_enable_low_after_reset", 0),
            "grouped_enable_logic_in_retimed_area": t.get("hist", {}).get("grouped_enable_logic_in_retimed_area", {}),
            "memory_mixed_enables_rejected_not_judged": t.get("memory_mixed_enables_rejected_not_judged", 0),
            "memory_mixed_enables_accepted_and_compared": t.get("memory_mixed_enables_accepted_and_compared", 0),
            "reset_edge_designs_checked_against_prediction": t.get("reset_edge_designs_checked_against_prediction", 0),
            "counter_lags_checked_against_recipe_derivation": t.get("counter_lags_checked_against_derivation", 0)}


vlib.standard_check({
    "prop": "C06",
    "lean_modules": ["GateryModel.Properties.C06"],
    "prop_file": "GateryModel/Properties/C06.lean",
    "prop_module": "GateryModel.Properties.C06",
    "exe": "gv_c06",
    "harness": "c06",
    # harness args after the seed: ncases maxSteps [classMask]
    "streams": {"quick": [[6000, 8], [3000, 16], [1000, 28]],
                "thorough": [[200000, 8], [120000, 16], [60000, 28]]},
    "search": [[20000, 10], [10000, 24]],
    "signature": signature,
    "eval_key": "ops",
    "nontrivial": lambda t: t.get("cases", 0) - t.get("hist", {}).get("stages", {}).get("N0", 0),
    "extra_cov": extra,
    "rule": "generated datapaths (1-4 data inputs of 1-8 bits, 0-2 stall inputs, 1-2 balance groups with all/some/no reset values, clocks with synchronous reset "
            "or power-on initialisation only) of nine classes: a combinational function followed by 1-3 pipestages in series with mixed / missing reset values under a synchronous reset (class "
            "resetedge, compared in every cycle with an explicit-register design predicted from the recipe); in all other classes no register samples on the reset "
            "edge (stall inputs low in cycle 0 or clock without reset); anchored registers and asynchronous-read memory write ports inside the forward-retimed area whose "
            "enable is a grouped input, logic over grouped inputs (compare with constant, AND, NOT, OR, across two groups) with and without an enclosing stall "
            "scope, reset values chosen so that the state is a fixed point under the reset inputs, 1-3 pipestages behind; stateless logic, two groups, feed-forward registers, autonomous counters, movable registers "
            "(with stricter enables -> enable splitting / holding circuits, entry chains without a group), negative registers with compensating register, "
            "memory read-port registers (read latency 1-2; fan-out to 2-3 registers with equal / nested / different enables: a refusal by the library is counted "
            "rejected-not-judged, an accepted design must equal the design as written in every cycle; 1-2 memories, 1-2 registers marked allowRetimingBackward behind logic on each read port, reset value x enable in "
            "all four combinations, reset values the moved logic does not reproduce, several registers per clock and group); enables / stall inputs that stay low for "
            "1-6 cycles during and directly after reset and toggle later; pipestage hints at random places plus pattern seeds (re-convergent fan-out, hints in series, hint before/behind "
            "anchored registers); each design is built with hints and as reference twin with N explicit input registers, both post-processed by the real "
            "gatery code and simulated for 20-35 cycles with random stall sequences; evaluations = compared (output, cycle) pairs; "
            "non-trivial = designs in which at least one stage was spawned",
    "trusted_base": ["Lean 4.33 kernel", "axioms: propext, Classical.choice, Quot.sound only (audited per theorem)",
                     "harness/c06.cpp (recipe -> hinted design / twin / lag twin, structural dump) + Driver/C06.lean line protocol",
                     "gatery ReferenceSimulator as the semantics of both designs (C01/C02 are about it)",
                     "stream semantics of Node_Register (regS in C06/Model.lean)"],
    "level_text": "Stream-level Lean theorems for every retiming step the code performs (forward incl. reset-value rule and enable splitting / holding circuit, "
                  "backward incl. reset-fix multiplexer, negative-register annihilation, spawned delay lines), a register-tree theorem (model latency n + reset rule "
                  "=> equal to the input-delayed twin in every cycle under every stall sequence; without reset rule from the fill cycle) and Mealy-machine theorems "
                  "for regions with internal registers; the planner is not modelled: per generated design the post-processed result is compared with the reference "
                  "twin cycle by cycle and the model's latency of the dumped register graph with the reported stage count.",
    "assumptions": ["the retiming planner (determineAreaToBeRetimedForward/Backward) is validated per design, not proved",
                    "hold registers (data-dependent enable) and feedback state that depends on grouped inputs are outside the property's three region classes and are "
                    "only generated where they are pulled by one hint (movable) - see harness comments",
                    "data inputs are fully defined; undefined values arise only from registers without reset value; hinted output may be defined where the twin is undefined",
                    "external nodes / export overrides around negative registers are not generated (negativeReg is compensated by a frontend register)"],
})
