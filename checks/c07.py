#!/usr/bin/env python3
"""C07 — memories behave as arrays with program-order port semantics at any latency."""
import os, re, sys
sys.path.insert(0, os.path.join(os.path.dirname(os.path.abspath(__file__)), "..", "tools"))
import vlib


def signature(msg, case_lines):
    what = re.search(r"what=(\S+)", msg)
    w = what.group(1) if what else "?"
    if w == "post-rejected":
        r = re.search(r"reason=(\S+)", msg)
        return "post-rejected:" + (r.group(1)[:60] if r else "?")
    if w == "post-readreg":
        # the two known causes of wrong hazard logic are selected by facts of the DESIGN (driver: hazardFacts), checked before the generic
        # signature: a failure in a design with one enable domain and latency <= 2 keeps the generic signature and stays a VIOLATION
        hz0 = re.search(r"hazard=(\S+)", msg); dm = re.search(r"domains=(\S+)", msg); rg = re.search(r"ring=(\S+)", msg)
        if hz0 and hz0.group(1) == "true" and dm and dm.group(1) == "mixed":
            return "what:post-readreg:hazard:mixed-enable-domains"
        if hz0 and hz0.group(1) == "true" and rg and rg.group(1) == "true":
            return "what:post-readreg:hazard:ring-buffer-under-enable"
        hz = re.search(r"hazard=(\S+)", msg); en = re.search(r"port_en=(\S+)", msg); rs = re.search(r"port_rst=(\S+)", msg); dv = re.search(r"dev=(\S+)", msg)
        return "what:post-readreg:%s:%s:%s%s" % ("hazard" if hz and hz.group(1) == "true" else "plain", "enable" if en and en.group(1) == "true" else "noenable",
                                                  "resetvalue" if rs and rs.group(1) == "true" else "noresetvalue", ":dev" + dv.group(1) if dv and dv.group(1) != "0" else "")
    m = re.search(r"memreset=(\S+)", msg)
    d = re.search(r"dev=(\S+)", msg)
    np = re.search(r"pow2=(\S+)", msg)
    return "what:%s%s%s%s" % (w, ":dev" + d.group(1) if d and d.group(1) != "0" else "", ":memreset" if m and m.group(1) == "true" else "",
                              ":nonpow2" if m and m.group(1) == "true" and np and np.group(1) == "false" else "")


vlib.standard_check({
    "prop": "C07",
    "lean_modules": ["GateryModel.Properties.C07"],
    "prop_file": "GateryModel/Properties/C07.lean",
    "prop_module": "GateryModel.Properties.C07",
    "exe": "gv_c07",
    "harness": "c07",
    # harness args after the seed: ncases ncycles mode [salt]
    #   mode 0 no device / 1 Intel / 2 Xilinx / 3 undefined inputs / 4 out-of-range addresses / 5 reset-initialised / 6 guards, 3 write ports, ROMs /
    #   7 writes issued under reset (observation only: counted, never a violation) /
    #   8 reset-logic family: addResetLogic / initZero / reset ROM x sync, async reset x depth 1, 2, pow2, non-pow2 x longer reset x writes during / right after reset /
    #   9 read-register family: read latency registers with/without reset value x no / uniform / per-stage enable scopes, RAM and ROM, enable low after reset
    #   11 power-on initialisation family: ClockConfig initializeRegs x initializeMemory (explicit, all four), sync/async/no reset, memoryResetType
    #      NONE / as reset, declared contents + write port (and ROMs), reads before the first write; contents present iff ROM or initializeMemory
    #   10 = 9 plus read-modify-write while the read ports of the memory run under different enable conditions, and latency 3 (ring buffer
    #      mode of the hazard logic) under an enable: two known findings (harness/examples/c07_finding_hazard_bypass_mixed_enable_domains.cpp.txt)
    "streams": {"quick": [[2000, 300, 0], [500, 200, 1], [500, 200, 2], [300, 200, 3], [150, 200, 4], [300, 300, 5], [200, 100, 6], [100, 100, 7], [500, 60, 8], [700, 80, 9], [400, 80, 10], [500, 60, 11]],
                "thorough": [[12000, 400, 0], [4000, 300, 1], [4000, 300, 2], [2000, 300, 3], [1000, 300, 4], [2000, 400, 5], [1000, 200, 6], [500, 3000, 0, 1], [500, 100, 7], [5000, 80, 8], [8000, 100, 9], [4000, 100, 10], [5000, 80, 11]]},
    "search": [[3000, 300, 0], [600, 200, 1], [600, 200, 2], [600, 300, 5], [2000, 60, 8], [2000, 80, 9], [1500, 80, 10], [2000, 60, 11]],
    "signature": signature,
    "eval_key": "ops",
    "nontrivial": lambda t: t.get("read_after_write_collisions", 0) + t.get("write_write_collisions", 0) + t.get("hazard_cases", 0),
    "rule": "memory designs built through the frontend Memory API: 1-3 read ports and 1-2 write ports (0 and 3 in the guard stream) in random declaration "
            "order, shared/own address pins, IF-conditional and unconditional writes, write data from a pin or pin XOR an earlier read port (read-modify-write: "
            "makes post-processing retime the write ports and generate hazard bypass logic), depth in {2,4,8,16,32,64} and {3,5,6,7,12,17,24,100}, width in "
            "{1,2,3,4,5,8,12,16,33}, MemType x read latency 0..3, no/zero/random/partial declared power-on contents (present iff ROM or the write clock's initializeMemory: explicit initializeRegs x initializeMemory clocks), clock with and without synchronous reset, memory "
            "reset logic (memoryResetType SYNCHRONOUS / ASYNCHRONOUS; initZero, addResetLogic network, reset ROM; depth 1, 2, 2^k, non 2^k; reset held 0..3 cycles longer than required; writes during reset or forced right after it), read latency registers with reset values and/or enable scopes (none / one read enable / per-stage enables with own, shared or no pin; RAMs and ROMs; enables low for 1..4 cycles after reset then toggling independently of the addresses; read-modify-write with the write port in the read enable's scope), checked against ArrMem followed by the proved enable-gated pipeline model (pipeStep), no device / Intel Arria 10, Cyclone 10 / Xilinx Kintex Ultrascale, Zynq-7; random access sequences with "
            "two hot addresses and same-address bursts; every cycle: address / enable / data of every port are DERIVED from the applied pin stimulus and the declared program (ports in declaration order, address pins wider / narrower than the memory address, IF condition and-ed with the enclosing ENIF, read-modify-write data) and the values sampled at the Node_MemPort inputs are only compared with that (DIFF); the number of reset cycles is predicted from the configuration and compared (DIFF); model vs sampled async read data (DIFF), data pins before and after design.postprocess() "
            "vs ArrMem with the declared latency (PROPFAIL); non-trivial = same-cycle read-after-write and write-write collisions + designs with bypass logic",
    "trusted_base": ["Lean 4.33 kernel", "axioms: propext, Classical.choice, Quot.sound only (audited per theorem)",
                     "harness/c07.cpp + Driver/C07.lean line protocol (no value obtained from the implementation is an input of model or specification: stimulus and declared program only)", "gatery's ReferenceSimulator as the semantics of the post-processed netlist (registers, muxes, vendor primitive models)"],
    "level_text": "Lean spec ArrMem; Lean model of Node_MemPort::simulateEvaluate/simulateAdvance proved to refine ArrMem for every port list and access sequence; "
                  "Lean models of convertToReadBeforeWrite, resolveWriteOrder (loop as written) and of the ReadModifyWriteHazardLogicBuilder pipeline proved sound for all "
                  "port counts and all latencies K>=1 and composed into 'post-processed data pin at t+K = ArrMem at t'; the MemPort model is tied to the code by differential "
                  "execution on every cycle, the post-processed netlists (incl. vendor primitives) are compared output-only against ArrMem.",
    "assumptions": ["read-latency registers of one read port under different enable scopes that would have to be retimed (write declared before the read, logic in between) are refused by gatery with an explicit design check (RegisterRetiming.cpp:1416-1431): counted as rejected-not-judged, the guard is modelled (DIFF if it changes)",
                    "addresses fully defined and < depth, enables defined (statement's domain); out-of-range/undefined controls only model-vs-code (modes 3, 4)",
                    "no write is issued while the clock's reset is asserted (first cycle with a synchronous reset; depth+4 cycles with memory reset logic)",
                    "retiming itself (moving registers across the read-before-write muxes) is not modelled; ring-buffer mode (latency > 2), vendor primitives, reset logic only by correspondence",
                    "a data-pin bit counts as correct if ArrMem's bit is undefined (uninitialised memory, undefined write data)"],
})
