#!/usr/bin/env python3
"""C08 — a value the simulator reports as defined is never wrong."""
import os, re, sys
sys.path.insert(0, os.path.join(os.path.dirname(os.path.abspath(__file__)), "..", "tools"))
import vlib

_audit = vlib.audit_sources
vlib.audit_sources = lambda paths: _audit(list(paths) + [os.path.join("GateryModel", "Nodes")])


def signature(msg, case_lines):
    m = re.search(r"(kind=\w+|op=\S+) class=(\S+)", msg)
    return "c08:%s/%s" % (m.group(1), m.group(2)) if m else "c08:?"


vlib.standard_check({
    "prop": "C08",
    "lean_modules": ["GateryModel.Properties.C08"],
    "prop_file": "GateryModel/Properties/C08.lean",
    "prop_module": "GateryModel.Properties.C08",
    "exe": "gv_c08",
    "harness": "c03",
    "streams": {
        "quick": [[8000, "conc", 9], [2500, "concw", 9], [2500, "seq", 7], [3000, "mem"], [3000, "op", 6]],
        "thorough": [[120000, "conc", 12], [30000, "concw", 12], [40000, "seq", 9], [60000, "mem"], [50000, "op", 8]],
    },
    "search": [[20000, "conc", 12], [5000, "concw", 12], [5000, "seq", 9], [20000, "mem"]],
    "signature": signature,
    "eval_key": "ops",
    "nontrivial": lambda t: t.get("conc_pairs", 0),
    "rule": "expression DAGs (depth ≤ 6) over all modelled node kinds built through the real frontend, simulated un-postprocessed under an abstract "
            "stimulus (1..many undefined bits per pin) and 8–11 concretisations of it (2/3 full, 1/3 partial); every node value of every run is "
            "compared with evalNode (correspondence), every node/expression value of a concretised run is compared bit by bit with the abstract run "
            "(a defined abstract bit contradicted = PROPFAIL, reported at the node where it originates). Stream seq: the same with registers "
            "(with/without reset value and enable, feedback) over 6 clock cycles, concretising also the undefined initial register contents; register "
            "outputs are taken from the implementation, all combinational nodes are still recomputed by the model. "
            "Stream mem: two memories of the same shape (2..16 words incl. non powers of two, widths 1..70, EXACT or default undefined-address behaviour, "
            "half of the designs post-processed) share their read address pins, the second holds a concretisation of the partly undefined power-on contents of "
            "the first; every abstract address (0..3 undefined bits) is followed by all its concretisations; every read is recomputed by memRead and the "
            "abstract read data is compared with the read data of every concretisation (address, contents, both). "
            "Non-trivial = (abstract, concretisation) run pairs (per cycle in seq, per read in mem).",
    "extra_cov": lambda t: {"node_kinds": t.get("node_kinds", {}), "operators": t.get("hist", {}), "bits_compared": t.get("compat_bits", 0),
                            "non_monotone_occurrences": t.get("non_monotone", 0), "non_monotone_where": t.get("non_monotone_where", {}),
                            "non_monotone_sources": t.get("non_monotone_sources", {}), "memory_reads": t.get("mem_reads", {})},
    "trusted_base": ["Lean 4.33 kernel", "axioms: propext, Classical.choice, Quot.sound only (audited per theorem)",
                     "statement of ⊑ / compat in Nodes/Bits.lean", "harness/c03.cpp netlist dump + Driver/Nodes*.lean line protocol (correspondence on generated cases, not proved)"],
    "level_text": "Lean theorems: every modelled core node (Logic, Arithmetic, Compare, Shift, Rewire, Multiplexer, PriorityConditional, Constant) is monotone "
                  "in the refinement order, lifted by induction to every combinational netlist; corollaries: a bit defined in the abstract run keeps its value "
                  "in every concretisation (defined_bit_persists / defined_never_wrong), constant folding of fully defined abstract results is sound; the asynchronous memory read (EXACT and default undefined-address "
                  "behaviour) is monotone in address, contents and enable for all sizes and widths; clocked netlists never contradict their concretisations. Model tied "
                  "to the code by node-level differential execution; the property is additionally checked directly on the implementation (abstract vs "
                  "concretised runs of the same compiled program, combinational, with registers over 6 cycles, and memories with all address concretisations).",
    "assumptions": ["theorems cover combinational netlists and asynchronous memory reads; registers are covered by the implementation-level check of stream seq "
                    "only (no Lean model of Node_Register here, see C04); forwarding of pending writes into a read of the same cycle (Node_MemPort.cpp:244-279), "
                    "memory write ports and tristate pins are not covered",
                    "nodes outside the model (External, vendor primitives, SignalGenerator callbacks)"],
})
