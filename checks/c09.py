#!/usr/bin/env python3
"""C09 — the circuit graph stays well formed and memory safe under every mutation.

Custom flow built from vlib pieces (standard_check has no sanitizer stage):
  1. rebuild gatery (plain), Lean theorems + audit (Inv init / preserved by every operation / reachable states, erase loop, bypass)
  2. correspondence + property evaluation: harness c09 (real hlim nodes / real post-processing) | driver gv_c09
       ops streams    : DIFF = model != implementation after some operation; PROPFAIL = implementation's graph violates Inv
       design streams : PROPFAIL = Inv / every-node-grouped / type-width agreement violated at some pass boundary
  3. thorough tier: the same streams with the ASan+UBSan flavour of gatery; a sanitizer abort (or any crash) on a generated case
     is a concrete violation with that case as replay. This part is exploration of memory safety, not proof.
"""
import os, re, subprocess, sys, tempfile
sys.path.insert(0, os.path.join(os.path.dirname(os.path.abspath(__file__)), "..", "tools"))
import vlib

PROP = "C09"
PROP_FILE = "GateryModel/Properties/C09.lean"
PROP_MODULE = "GateryModel.Properties.C09"
STREAMS = {
    "quick": [[1200, 150, "ops"], [120, 400, "ops"], [160, 20, "design"], [16, 45, "design"]],
    "thorough": [[4000, 150, "ops"], [400, 600, "ops"], [700, 20, "design"], [100, 45, "design"]],
}
ASAN_STREAMS = [[600, 150, "ops"], [60, 600, "ops"], [200, 20, "design"], [30, 45, "design"]]
SEARCH = [[3000, 200, "ops"], [300, 25, "design"]]
TRUSTED = ["Lean 4.33 kernel", "axioms: propext, Classical.choice, Quot.sound only (audited per theorem)",
           "harness/c09.cpp (graph dump through the public hlim API; pointer -> handle maps) + Driver/C09.lean (dump parser, checked by a "
           "print/parse round trip on every dump)",
           "GateryModel/C09/Spec.lean: tabulated graph <-> State, type/width requirements of the core node kinds (evaluated, not proved)",
           "pass boundaries: hook hlim::verif_passBoundary (guard GATERY_VERIF) for the real Default/MinimalPostprocessing; the repeated/shuffled variants "
           "replay the DefaultPostprocessing pass sequence through public Circuit methods (copy of Circuit.cpp generalOptimization/run)",
           "ASan/UBSan (gcc 12) for the memory-safety exploration"]


TIMEOUT = {"quick": 150, "thorough": 1500}   # seconds per stream; a hang of the real code is a failure to terminate on a generated case


def cpu_seconds(pid):
    try:
        f = open("/proc/%d/stat" % pid).read().rsplit(")", 1)[1].split()
        return (int(f[11]) + int(f[12])) / os.sysconf("SC_CLK_TCK")
    except Exception:
        return None


def backtrace(pid):
    try:
        r = subprocess.run(["gdb", "-p", str(pid), "-batch", "-ex", "bt 40"], stdout=subprocess.PIPE, stderr=subprocess.DEVNULL, text=True, timeout=60)
        return [l for l in r.stdout.splitlines() if l.startswith("#")][:40]
    except Exception:
        return []


class TStream:
    """harness | tee keep | driver, with a timeout (vlib.Stream has none); same fields as vlib.Stream.
    A timeout counts as "the real code does not terminate" only if the harness was actually computing (CPU time >= half the
    timeout); a harness that sat blocked (machine stalled, pipe not drained) is re-run once and reported in the evidence."""

    def __init__(self, chk, harness, driver, args, tag, timeout, retry=True):
        self.args = [str(x) for x in args]
        self.harness = harness
        self.keep = os.path.join(vlib.BUILD, "streams", "%s-%s.txt" % (chk.prop, tag))
        os.makedirs(os.path.dirname(self.keep), exist_ok=True)
        self.timed_out, self.stalled_retry, self.diag = False, None, {}
        with tempfile.TemporaryFile() as errf:
            henv = dict(os.environ)
            henv.setdefault("MALLOC_PERTURB_", "165")   # glibc poisons freed memory: a stale read crashes instead of passing silently
            h = subprocess.Popen([harness] + self.args, stdout=subprocess.PIPE, stderr=errf, env=henv)
            tee = subprocess.Popen(["tee", self.keep], stdin=h.stdout, stdout=subprocess.PIPE)
            h.stdout.close()
            d = subprocess.Popen([driver], stdin=tee.stdout, stdout=subprocess.PIPE, stderr=subprocess.STDOUT, text=True)
            tee.stdout.close()
            try:
                out, _ = d.communicate(timeout=timeout)
            except subprocess.TimeoutExpired:
                self.timed_out = True
                self.diag = {"harness_cpu_s": cpu_seconds(h.pid), "driver_cpu_s": cpu_seconds(d.pid), "timeout_s": timeout}
                if h.poll() is None:
                    self.diag["harness_backtrace"] = backtrace(h.pid)
                h.kill()
                out, _ = d.communicate()
            h.wait()
            tee.wait()
            errf.seek(0)
            self.herr = errf.read().decode(errors="replace")[-4000:]
        if self.timed_out and retry and (self.diag.get("harness_cpu_s") or 0) < 0.5 * timeout:
            chk.log("stream %s timed out with the harness idle (%s): re-running once" % (tag, self.diag))
            again = TStream(chk, harness, driver, args, tag, timeout, retry=False)
            first = self.diag
            self.__dict__.update(again.__dict__)
            self.stalled_retry = first
            return
        self.lines = out.splitlines()
        self.hrc, self.drc = ("timeout" if self.timed_out else h.returncode), d.returncode
        self.diffs, self.fails, self.summary = vlib.parse_driver(self.lines)
        self.crashed = (self.hrc != 0) or (self.drc != 0) or not self.summary or "_bad_summary" in self.summary


def ops_prefix(case_lines, step):
    """operation lines (with the implementation's outcome) of a case up to and including step `step`, and the dump after it"""
    ops, n, dump, on = [], 0, [], False
    for l in case_lines:
        if l.startswith("op ") or l.startswith("at "):
            n += 1
            if n > step:
                break
            ops.append(l)
            dump = []
        elif l.startswith("r ") and ops:
            ops[-1] += "   -> " + l[2:]
        elif n == step:
            dump.append(l)
    return ops, dump


def last_case(keep, full=False):
    cid, header, at = None, "", ""
    try:
        with open(keep, errors="replace") as f:
            for l in f:
                if l.startswith("case "):
                    cid, header, at = l.split()[1], l.strip(), ""
                elif l.startswith("at ") or l.startswith("op "):
                    at = l.strip()
    except OSError:
        pass
    return (cid, header, at) if full else cid


def signature(msg):
    m = re.search(r"violated=([\w,]+)", msg)
    at = re.search(r"at=(\w*)", msg)
    # one signature per violated clause set and harness mode (not per pass boundary: a broken graph stays broken at every later boundary)
    return "inv:%s@%s" % (m.group(1) if m else "?", "design" if at and at.group(1) else "ops")


def proof_stage():
    """lake build + audit restricted to the import closure of the C09 property file (GateryModel/C09/* and the property file itself;
    they import nothing else), so that other properties' work in progress cannot make this check fail"""
    info = {"theorems": {}, "lean_ok": False, "failed": []}
    ok, log = vlib.lake_build([PROP_MODULE, "gv_c09"])
    info["lean_ok"] = ok
    if not ok:
        errs = [l for l in log.splitlines() if "error" in l][:20]
        info["failed"].append("lake build: " + " | ".join(errs))
        info["build_log_tail"] = log[-3000:]
        return info
    closure = [PROP_FILE, os.path.join("GateryModel", "C09")]
    for f in [PROP_FILE] + [os.path.join("GateryModel", "C09", x) for x in os.listdir(os.path.join(vlib.LEAN, "GateryModel", "C09"))]:
        for l in open(os.path.join(vlib.LEAN, f)):
            m = re.match(r"\s*import\s+(\S+)", l)
            if m and not m.group(1).startswith("GateryModel.C09."):
                info["failed"].append("%s imports %s (outside the audited closure)" % (f, m.group(1)))
    hits, files = vlib.audit_sources(closure)
    if hits:
        info["failed"].append("forbidden tokens: " + "; ".join(sorted(set(hits))))
    thms = vlib.property_theorems(PROP_FILE)
    ax, log = vlib.print_axioms(PROP_MODULE, thms)
    if ax is None:
        info["failed"].append("#print axioms failed: " + log[-1500:])
    else:
        info["theorems"] = ax
        for t, a in ax.items():
            bad = [x for x in a if x not in vlib.ALLOWED_AXIOMS]
            if bad:
                info["failed"].append("theorem %s uses axioms %s" % (t, bad))
    info["files_audited"] = len(files)
    return info


def main():
    a = vlib.std_args(PROP)
    chk = vlib.Check(PROP, a.tier, a.seed)
    bdir, log = vlib.build_gatery("plain")
    if bdir is None:
        chk.log("gatery does not build:\n" + log[-3000:])
        chk.violation("build", {"what": "gatery does not build from /repo's working tree", "log": log[-3000:]}, False)
        chk.finish("proof", {"obligations": 1, "discharged": 0, "checker_cmd": "lake build", "trusted_base": TRUSTED, "explanation": "build failure"})
    chk.log("gatery built")
    info = proof_stage()
    proof_broken = list(info["failed"])
    if proof_broken:
        chk.log("PROOF STAGE BROKEN: " + " || ".join(proof_broken)[:1500])
    else:
        chk.log("theorems checked: %d, axioms clean" % len(info["theorems"]))
    if a.tier == "thorough" and not proof_broken:
        lc = vlib.leanchecker([PROP_MODULE])
        info["leanchecker"] = lc
        if not all(lc.values()):
            proof_broken.append("leanchecker rejected: %s" % [m for m, ok in lc.items() if not ok])
    harness, log = vlib.build_harness("c09", bdir)
    if harness is None:
        chk.log("harness does not build:\n" + log[-3000:])
        chk.violation("harness-build", {"what": "harness no longer compiles against /repo (API changed?)", "log": log[-3000:]}, False)
        chk.finish("proof", {"obligations": max(1, len(info["theorems"])), "discharged": 0, "checker_cmd": "lake build", "trusted_base": TRUSTED,
                             "explanation": "harness build failure"})
    driver = vlib.driver_path("gv_c09")
    total, streams, all_diffs, all_fails, crashed = {}, [], [], [], []

    def run(tag, args, h=harness):
        s = TStream(chk, h, driver, args, tag, TIMEOUT[a.tier])
        streams.append((tag, s))
        vlib.merge_hist(total, s.summary)
        all_diffs.extend((tag, d) for d in s.diffs)
        all_fails.extend((tag, f) for f in s.fails)
        if s.crashed:
            crashed.append((tag, s))
        chk.log("stream %s args=%s: cases=%s dumps=%s diffs=%d propfails=%d%s" % (
            tag, " ".join(s.args), s.summary.get("cases"), s.summary.get("dumps"), len(s.diffs), len(s.fails),
            " CRASHED hrc=%s drc=%s" % (s.hrc, s.drc) if s.crashed else ""))
        return s

    plan = [("gen%d" % i, [a.seed] + list(s)) for i, s in enumerate(STREAMS[a.tier])]
    corpus_dir = os.path.join(vlib.VERIF, "corpus", PROP)
    if os.path.isdir(corpus_dir):
        for f in sorted(os.listdir(corpus_dir)):
            if f.endswith(".args"):
                plan.insert(0, ("corpus-" + f[:-5], open(os.path.join(corpus_dir, f)).read().split()))
    for tag, args in plan:
        run(tag, args)

    # --- sanitizer tier (exploration of memory safety) ----------------------------------------------------------
    san = {"ran": False}
    if a.tier == "thorough":
        os.environ.setdefault("ASAN_OPTIONS", "detect_leaks=0:abort_on_error=0")
        os.environ.setdefault("UBSAN_OPTIONS", "print_stacktrace=1")
        abdir, log = vlib.build_gatery("asan")
        ah = None
        if abdir is not None:
            ah, log = vlib.build_harness("c09", abdir, flavor="asan")
        if ah is None:
            chk.log("sanitizer flavour does not build:\n" + log[-2000:])
            chk.violation("asan-build", {"what": "sanitizer flavour of gatery / harness does not build", "log": log[-3000:]}, False)
        else:
            san = {"ran": True, "streams": []}
            for i, sargs in enumerate(ASAN_STREAMS):
                s = run("asan%d" % i, [a.seed + 500] + list(sargs), h=ah)
                san["streams"].append({"args": s.args, "cases": s.summary.get("cases"), "harness_rc": s.hrc})

    broken = bool(proof_broken or all_diffs or crashed)
    if broken and not all_fails and not crashed:
        for i, sargs in enumerate(SEARCH):
            s = run("search%d" % i, [a.seed + 1000 + i] + list(sargs))
            if s.fails:
                break

    # --- verdict ----------------------------------------------------------------------------------------------------
    sd = dict(streams)
    reported = set()
    for tag, f in all_fails:
        s = sd[tag]
        cid = vlib.case_of(f)
        sig = signature(f)
        if sig in reported:
            continue
        reported.add(sig)
        case_lines = vlib.extract_case(s.keep, cid) if cid is not None else []
        m = re.search(r"step=(\d+)", f)
        ops, dump = ops_prefix(case_lines, int(m.group(1))) if m else ([], [])
        chk.violation("propfail-" + re.sub(r"\W+", "_", sig)[:40],
                      {"what": "the implementation's circuit graph violates the well-formedness invariant on this concrete case",
                       "message": f[:4000], "harness_args": s.args, "case": cid,
                       "history_up_to_failure": ops[-400:], "implementation_graph_after_it": dump[:700],
                       "replay_cmd": "%s %s %s | %s" % (s.harness, " ".join(s.args), cid, driver)}, True, signature=sig)
    for tag, s in crashed:
        if s.hrc == "timeout" and (s.diag.get("harness_cpu_s") or 0) < 0.5 * s.diag.get("timeout_s", 1):
            continue   # twice timed out with an idle harness: says nothing about the code; reported below as "check could not run"
        if s.hrc != 0:
            # the real code crashed (sanitizer abort / signal / exit(1)) on a generated case: concrete failing input
            cid, header, at = last_case(s.keep, True)
            first = next((l for l in s.herr.splitlines() if "ERROR" in l or "runtime error" in l or "Assertion" in l), s.herr[:300])
            sig = "crash:" + (re.sub(r"0x[0-9a-f]+", "ADDR", first)[:160] or ("after " + at.split(" ", 1)[-1].split(" ")[0] if tag.find("design") >= 0 or " design" in header else "signal"))
            if sig in reported:
                continue
            reported.add(sig)
            chk.violation("crash-" + tag, {"what": "the harness running the real code %s on a generated case" %
                                           ("was stopped by the sanitizer" if tag.startswith("asan") else "crashed"),
                                           "first_report": first, "stderr_tail": s.herr, "harness_rc": s.hrc, "case_header": header,
                                           "last_completed_step_before_the_crash": at, "timeout_diagnostics": s.diag, "harness_args": s.args, "case": cid,
                                           "replay_cmd": "MALLOC_PERTURB_=165 %s %s %s" % (s.harness, " ".join(s.args), cid)}, True, signature=sig)
    if not chk.violations and not chk.known_hits and broken:
        what = []
        if proof_broken:
            what.append({"theorems_no_longer_checked": proof_broken, "build_log_tail": info.get("build_log_tail", "")})
        if all_diffs:
            tag, dmsg = all_diffs[0]
            s = sd[tag]
            what.append({"correspondence_broken": "C09 model/implementation correspondence (harness c09 | driver gv_c09)", "first_diff": dmsg[:4000],
                         "n_diffs": len(all_diffs), "harness_args": s.args, "case": vlib.case_of(dmsg)})
        for tag, s in crashed:
            what.append({"stream_crashed": tag, "harness_rc": s.hrc, "driver_rc": s.drc, "stderr": s.herr, "driver_tail": s.lines[-5:],
                         "timeout_diagnostics": s.diag})
        chk.violation("unproved", {"what": "a theorem or the model/implementation correspondence no longer checks; no failing input found by the search",
                                   "details": what}, False)

    # --- evidence ---------------------------------------------------------------------------------------------------
    nthm = len(info["theorems"]) if info["theorems"] else len(vlib.property_theorems(PROP_FILE))
    ev_samples = []
    for tag, s in streams[:3]:
        try:
            with open(s.keep, errors="replace") as f:
                ev_samples.append({"stream": tag, "harness_args": s.args, "first_lines": [next(f).rstrip("\n")[:200] for _ in range(14)]})
        except StopIteration:
            pass
    cov = {
        "obligations": max(1, nthm), "discharged": 0 if proof_broken else nthm,
        "checker_cmd": "cd /verif/lean && lake build %s && lake env lean <#print axioms of every theorem in %s>" % (PROP_MODULE, PROP_FILE),
        "trusted_base": TRUSTED, "theorems_and_axioms": info["theorems"], "proof_stage_failures": proof_broken,
        "correspondence": {"streams": [{"tag": t, "args": s.args, "summary": s.summary, "diffs": len(s.diffs), "propfails": len(s.fails),
                                        "harness_rc": s.hrc, "stalled_then_rerun": s.stalled_retry} for t, s in streams], "totals": total},
        "evaluations": int(total.get("dumps", 0) or 0),
        "distinct_nontrivial": int(total.get("ops", 0) or 0) - int(total.get("hist", {}).get("new", 0)) + int(total.get("dumps", 0) or 0) - int(total.get("ops", 0) or 0),
        "rule": "ops streams: random histories of 150..600 graph operations (incl. createUnconnectedClone + re-attaching the source's clock, copySubnet with/without "
                "copyClocks, destruction of clocks that nodes are attached to, 4 teardown orders) on <=34 live hlim nodes of 9 classes (every operation's full graph dump compared "
                "with the model and checked with Inv); non-trivial = every operation other than node creation. design streams: random frontend designs "
                "(20..45 statements, ~200..600 nodes: arithmetic/logic/compare/mux/slices/shifts/registers/IF-ELSE/areas/memories) dumped after construction "
                "steps and at every pass boundary of 6 post-processing variants; 2/3 of the designs contain zero-width signals (1/3: 30..200 zero-width statements: 0-bit pins, "
                "slices, constants, concatenations, registers, muxes, compares, extensions into wider logic, 0-bit output pins); in 3/4 of the designs the spare capacity of "
                "Circuit::m_nodes is cut to 0..5 before every pass so that node-creating passes reallocate the vector inside the pass (SUMMARY.realloc_inside_pass); harness "
                "runs with MALLOC_PERTURB_ (freed memory poisoned); each dump evaluated with Inv + every-node-grouped + type/width agreement.",
        "samples": ev_samples or ["(no stream ran)"],
        "traces_validated_against_impl": int(total.get("dumps", 0) or 0),
        "sanitizer_exploration": san,
        "explanation": "Lean model of the NodeIO/BaseNode/NodeGroup/Clock/Circuit bookkeeping with the well-formedness invariant proved for every reachable state "
                       "(all operation histories, all arguments); tied to the code by differential execution of generated histories on real hlim nodes and by "
                       "evaluating the same decidable invariant on every graph the real construction / post-processing produces. Memory safety itself is "
                       "explored under ASan+UBSan (thorough tier), not proved.",
    }
    if "leanchecker" in info:
        cov["leanchecker"] = info["leanchecker"]
    chk.finish("proof", cov, ["memory safety of the object code (use-after-free, out-of-bounds) is exploration under sanitizers on generated cases, not proof",
                              "operations are modelled under their C++ preconditions (valid node pointer, port index in range); calls outside them are UB and not generated",
                              "passes other than cullOrphanedSignalNodes are covered by evaluating Inv at their boundaries, not by a model of the pass",
                              "repeated application / shuffled storage order use a replay of the pass sequence through public Circuit methods, not the hook"])


if __name__ == "__main__":
    main()
