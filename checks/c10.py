#!/usr/bin/env python3
"""C10 — results are a function of the design only, not of memory addresses or node order.

Three parts (kept apart in the evidence):
  THEOREM      comparators of StableSet/StableMap translated from the C++ text on every run + container/sort/UnstableMap theorems
               (lean/GateryModel/Properties/C10.lean)
  AUDIT        tools/audit_statics.py: every function-local static / namespace-scope / class-static mutable variable in source/gatery vs the
               reviewed list audit/static_state_sites.json (process-global state = results depending on what ran before in the process)
  AUDIT        tools/audit_unordered.py: every iteration over an address-ordered container / anyOrder() / non-stable sort / ordering
               operator in source/gatery/{hlim,export,simulation,frontend,utils} vs the reviewed list audit/unordered_sites.json
  EXPLORATION  harness/c10.cpp: every generated design built in >= 4 child processes under different heap layouts (ASLR on/off,
               LD_PRELOAD malloc shim, glibc tunables, operator-new arena with reversed / mixed address order), twice per process,
               + node-order shuffles; all emitted files, file lists, test vectors and traces byte-compared

The flow is vlib.standard_check's, with one difference: a broken theorem/translator/audit is reported even when every concrete
failing input found is a *known* finding (standard_check would drop the `unproved` violation in that case).
"""
import os, re, subprocess, sys
sys.path.insert(0, os.path.join(os.path.dirname(os.path.abspath(__file__)), "..", "tools"))
import vlib
import translate_stablecompare
import audit_unordered
import audit_statics

PROP = "C10"
audit_info = {}


def audit_step():
    ok, msg, info = audit_unordered.run()
    audit_info.update(info)
    return ok, msg


statics_info = {}


def statics_step():
    ok, msg, info = audit_statics.run()
    statics_info.update(info)
    return ok, msg


def shim_step():
    """build the LD_PRELOAD malloc shim next to the harness binary"""
    out = os.path.join(vlib.BUILD, "harness-plain")
    os.makedirs(out, exist_ok=True)
    src = os.path.join(vlib.VERIF, "harness", "c10_shim.c")
    so = os.path.join(out, "c10_shim.so")
    if os.path.exists(so) and os.path.getmtime(so) >= os.path.getmtime(src):
        return True, "shim up to date"
    r = vlib.sh(["gcc", "-O1", "-shared", "-fPIC", src, "-o", so, "-ldl"])
    return r.returncode == 0, "c10_shim.so: " + r.stdout[-500:]


def signature(msg):
    m = re.search(r"what=(\S+)", msg)
    return m.group(1) if m else "?"


CFG = {
    "lean_modules": ["GateryModel.Properties.C10"],
    "prop_file": "GateryModel/Properties/C10.lean",
    "prop_module": "GateryModel.Properties.C10",
    "exe": "gv_c10",
    "gen_files": ["lean/GateryModel/Gen/StableCompare.lean"],
    # harness args after the seed: container stream  <ncases> <maxKeys> 1 ; design stream <ncases> <nsteps> 0 <nlayouts>
    "streams": {"quick": [[4000, 20, 1], [60, 25, 0, 4]],
                "thorough": [[200000, 30, 1], [2000, 30, 0, 8], [500, 80, 0, 8]]},
    "search": [[30000, 20, 1], [400, 25, 0, 6]],
    "trusted_base": ["Lean 4.33 kernel", "axioms: propext, Classical.choice, Quot.sound only (audited per theorem)",
                     "tools/translate_stablecompare.py (C++ comparator bodies -> Gen/StableCompare.lean; struct layouts, alias definitions and the "
                     "public interface of UnstableSet/UnstableMap are checked textually)",
                     "std::set/std::map/std::sort modelled by their contracts (libstdc++'s red-black tree / introsort are not modelled)",
                     "tools/audit_unordered.py (regex scanner; name based over-approximation) + the human review in audit/unordered_sites.json",
                     "tools/audit_statics.py (regex/brace scanner for function-local statics, namespace-scope and class-static mutable variables in all of "
                     "source/gatery) + the human review in audit/static_state_sites.json",
                     "harness/c10.cpp + c10_alloc.h + c10_shim.c + Driver/C10.lean line protocol; harness/designgen.h"],
}


def main():
    a = vlib.std_args(PROP)
    chk = vlib.Check(PROP, a.tier, a.seed)
    bdir, log = vlib.build_gatery("plain")
    if bdir is None:
        chk.log("gatery does not build:\n" + log[-3000:])
        chk.violation("build", {"what": "gatery does not build from /repo's working tree", "log": log[-3000:]}, False)
        chk.finish("proof", {"obligations": 1, "discharged": 0, "checker_cmd": "lake build", "trusted_base": CFG["trusted_base"], "explanation": "build failure"})
    chk.log("gatery built")
    # ---- theorem part + audit (both are ties to the source text; either failing breaks the proof stage)
    info = vlib.lean_proof_stage(chk, CFG["lean_modules"], CFG["prop_file"], CFG["prop_module"], exe=CFG["exe"],
                                 gen_steps=[translate_stablecompare.run, audit_step, statics_step, shim_step])
    proof_broken = list(info["failed"])
    if proof_broken:
        chk.log("PROOF/AUDIT STAGE BROKEN: " + " || ".join(proof_broken)[:2500])
        if not info["lean_ok"]:
            vlib.restore_committed(CFG["gen_files"])
            ok, _ = vlib.lake_build([CFG["exe"]])
            chk.log("driver rebuilt from the committed translation: %s" % ok)
    else:
        chk.log("theorems checked: %d, axioms clean; audit: %s unordered-iteration sites + %s static-state sites, all reviewed" % (len(info["theorems"]), audit_info.get("sites_found"), statics_info.get("sites_found")))
    for s in audit_info.get("order_sensitive", []):
        chk.log("audit: reviewed as ORDER-SENSITIVE (finding, reproduced dynamically): " + s)
    if a.tier == "thorough" and not proof_broken:
        lc = vlib.leanchecker([CFG["prop_module"]])
        info["leanchecker"] = lc
        if not all(lc.values()):
            proof_broken.append("leanchecker rejected: %s" % [m for m, ok in lc.items() if not ok])
    # ---- exploration / correspondence
    harness, log = vlib.build_harness("c10", bdir)
    if harness is None:
        chk.log("harness does not build:\n" + log[-3000:])
        chk.violation("harness-build", {"what": "harness no longer compiles against /repo (API changed?)", "log": log[-3000:]}, False)
        chk.finish("proof", {"obligations": max(1, len(info["theorems"])), "discharged": 0, "checker_cmd": "lake build", "trusted_base": CFG["trusted_base"],
                             "explanation": "harness build failure"})
    driver = vlib.driver_path(CFG["exe"])
    total, streams, all_diffs, all_fails, crashed = {}, [], [], [], []
    plan = [("gen%d" % i, [a.seed] + list(s)) for i, s in enumerate(CFG["streams"][a.tier])]
    cdir = os.path.join(vlib.VERIF, "corpus", PROP)
    if os.path.isdir(cdir):
        for f in sorted(os.listdir(cdir)):
            if f.endswith(".args"):
                plan.insert(0, ("corpus-" + f[:-5], open(os.path.join(cdir, f)).read().split()))

    def run(tag, args):
        s = vlib.Stream(chk, harness, driver, args, tag)
        streams.append((tag, s))
        vlib.merge_hist(total, s.summary)
        all_diffs.extend((tag, d) for d in s.diffs)
        all_fails.extend((tag, f) for f in s.fails)
        if s.crashed:
            crashed.append((tag, s))
        chk.log("stream %s args=%s: cases=%s diffs=%d propfails=%d%s" % (tag, " ".join(map(str, args)), s.summary.get("cases"), len(s.diffs), len(s.fails),
                                                                       " CRASHED hrc=%s drc=%s %s" % (s.hrc, s.drc, s.herr[-300:]) if s.crashed else ""))
        return s

    for tag, args in plan:
        run(tag, args)
    # failures explained by a known finding or by a site the audit review already classified as ORDER-SENSITIVE are still reported
    # below, but they are not "the concrete failing input" of a newly broken theorem / translator / audit entry
    known_sigs = {e.get("signature") for e in vlib.load_known_findings(PROP) if e.get("kind") == "known"}
    known_sigs |= set(audit_info.get("order_sensitive_signatures", []))
    unknown = lambda: [(t, f) for t, f in all_fails if signature(f) not in known_sigs]
    broken = bool(proof_broken or all_diffs or crashed)
    if broken and not unknown():
        for i, sargs in enumerate(CFG["search"]):
            s = run("search%d" % i, [a.seed + 1000 + i] + list(sargs))
            if [f for f in s.fails if signature(f) not in known_sigs]:
                break
    # ---- verdict
    reported = set()
    for tag, f in all_fails:
        s = dict(streams)[tag]
        sig = signature(f)
        if sig in reported:
            continue
        reported.add(sig)
        cid = vlib.case_of(f)
        case_lines = vlib.extract_case(s.keep, cid) if cid is not None else []
        ra = list(s.args)
        if len(ra) >= 4 and ra[3] == "0":   # design stream: <seed> <ncases> <nsteps> 0 <nlayouts> <only-case>
            if len(ra) < 5:
                ra.append("4")
            if len(ra) < 6 and cid is not None:
                ra.append(str(cid))
        chk.violation("propfail-" + re.sub(r"\W+", "_", sig)[:48],
                      {"what": "two constructions of the same design differ (or a container/comparator of the implementation is not id-ordered): the property fails on this concrete input",
                       "message": f[:4000], "harness_args": s.args, "case": cid, "case_lines": case_lines[:300],
                       "replay_cmd": "%s %s | %s   # case %s" % (harness, " ".join(ra), driver, cid)}, True, signature=sig)
    if broken and not unknown():
        what = []
        if proof_broken:
            what.append({"theorems_translator_or_audit_no_longer_check": proof_broken, "audit_problems": audit_info.get("problems", []) + statics_info.get("problems", []),
                         "build_log_tail": info.get("build_log_tail", "")})
        if all_diffs:
            tag, dmsg = all_diffs[0]
            s = dict(streams)[tag]
            what.append({"correspondence_broken": "C10 model/implementation correspondence (harness c10 | driver gv_c10)", "first_diff": dmsg[:4000],
                         "n_diffs": len(all_diffs), "harness_args": s.args, "case_lines": vlib.extract_case(s.keep, vlib.case_of(dmsg))[:300]})
        for tag, s in crashed:
            what.append({"stream_crashed": tag, "harness_rc": s.hrc, "driver_rc": s.drc, "stderr": s.herr, "harness_args": s.args, "driver_tail": s.lines[-5:]})
        chk.violation("unproved", {"what": "a theorem, the translator, the audit of unordered iteration sites or the model/implementation correspondence no longer checks; "
                                           "no (new) failing input found by the search", "details": what}, False)
    # ---- evidence
    nthm = len(info["theorems"]) if info["theorems"] else len(vlib.property_theorems(CFG["prop_file"]))
    hist = total.get("hist", {})
    samples = []
    for tag, s in streams[:3]:
        try:
            with open(s.keep, errors="replace") as f:
                samples.append({"stream": tag, "harness_args": s.args, "first_lines": [next(f).rstrip("\n")[:300] for _ in range(10)]})
        except StopIteration:
            pass
    cov = {
        "obligations": max(1, nthm) + 1, "discharged": 0 if proof_broken else nthm + 1,
        "checker_cmd": "cd /verif/lean && lake build GateryModel.Properties.C10 && lake env lean <#print axioms of every theorem>; python3 tools/translate_stablecompare.py; python3 tools/audit_unordered.py",
        "trusted_base": CFG["trusted_base"],
        "theorems_and_axioms": info["theorems"],
        "proof_stage_failures": proof_broken,
        "part_theorem": "comparators (9, translated from C++) are stable comparators; iteration over StableSet/StableMap is address- and insertion-order free "
                        "and id-sorted; std::sort with a stable comparator is a function of the ids; UnstableSet/Map lookup interface is observationally address-free",
        "part_audit": {k: audit_info.get(k) for k in ("files_scanned", "sites_found", "sites_reviewed", "categories", "order_sensitive", "problems",
                                                      "address_ordered_container_names")},
        "part_audit_static_state": {k: statics_info.get(k) for k in ("files_scanned", "sites_found", "sites_reviewed", "categories", "relevant", "problems")},
        "part_exploration": {"streams": [{"tag": t, "args": s.args, "summary": s.summary, "diffs": len(s.diffs), "propfails": len(s.fails)} for t, s in streams],
                             "totals": total},
        "evaluations": int(total.get("ops", 0) or 0),
        "distinct_nontrivial": int(hist.get("variants_full", 0) + hist.get("variants_shuffle", 0) + hist.get("container_ops", 0) + hist.get("unstable_map_ops", 0)
                                   + hist.get("comparator_calls", 0)),
        "rule": "design stream: designs from harness/designgen.h (+ areas marked as partitions, names, comments), heap-allocated-state FSMs and (every 4th case) "
                "registers / memory read ports enabled by 2..4-term conjunctions from nested ENIF scopes and `&` chains that post-processing rebuilds (backward retiming into a "
                "memory read port, pipestage over movable registers, negative registers; unrelated allocations between construction steps) and (every 8th case) "
                "literal-vs-literal comparisons with undefined bits in IF conditions / enables / mux selectors / outputs; export single file / "
                "file per partition, default/GHDL/Quartus/Vivado project writers, with and without the test-bench recorder; each built 2x in each of >=4 (thorough 8) "
                "child processes with different heap layouts + 5 permutations of the node storage order made and observed by the harness (seeded random, reversal, rotation, neighbour swaps, the library's shuffleNodes(); each must be a non-identity permutation of the same nodes); non-trivial = every construction compared byte-for-byte with the reference "
                "construction. container stream: op histories / comparator calls / std::sort / UnstableMap observations on real nodes, clocks, groups whose address "
                "order differs from their id order (operator-new arena); the specification orders by the creation index known to the harness and the reported ids must be unique and increasing in creation order.",
        "samples": samples or ["(no stream ran)"],
        "traces_validated_against_impl": int(total.get("cases", 0) or 0),
        "explanation": "Theorems about the translated comparators and the ordered/unordered containers; the rest of the property (no other address dependence anywhere "
                       "in gatery) is not a theorem: it is audited site by site against a reviewed list and explored dynamically under heap-layout perturbation.",
    }
    if "leanchecker" in info:
        cov["leanchecker"] = info["leanchecker"]
    chk.finish("proof", cov, [
        "keys of one container belong to one circuit (ids unique per kind: Circuit::m_nextNodeId/m_nextClockId/m_nextGroupId)",
        "NodePtr<BaseNode> inside RefCtdNodePort is modelled as the raw pointer",
        "iteration continued from an iterator returned by UnstableMap::find (++it) and the destruction order of container elements are not covered",
        "behaviour of the exported VHDL under node-order shuffles is not evaluated (no VHDL interpreter in this stream); traces are",
        "scanner limits: `auto` variables / containers reached through it->second are matched by name only; scl/ and debug/ are outside the audited directories",
    ])


if __name__ == "__main__":
    main()
