#!/usr/bin/env python3
"""C11 — names, grouping, comments and attributes never change behaviour."""
import os, re, sys
sys.path.insert(0, os.path.join(os.path.dirname(os.path.abspath(__file__)), "..", "tools"))
import vlib


def signature(msg, case_lines):
    m = re.search(r"what=(\S+)", msg)
    if m and m.group(1).startswith("export-"):
        r = re.search(r"reason=(\S+)", msg)
        return "what:%s%s" % (m.group(1), ":" + r.group(1)[:60] if r else "")
    d = re.search(r"deco=\[([^\]]*)\]", msg)
    flags = " ".join(f for f in (d.group(1).split() if d else []) if f.endswith("=1") and not f.startswith("dseed"))
    return "what:%s %s" % (m.group(1) if m else "?", flags)


vlib.standard_check({
    "prop": "C11",
    "lean_modules": ["GateryModel.Properties.C11"],
    "prop_file": "GateryModel/Properties/C11.lean",
    "prop_module": "GateryModel.Properties.C11",
    "exe": "gv_c11",
    "harness": "c11",
    # harness args after the seed: ncases nsteps twins
    "streams": {"quick": [[400, 30, 4], [60, 80, 4]], "thorough": [[12000, 30, 4], [2000, 100, 8]]},
    "search": [[4000, 30, 6]],
    "signature": signature,
    "eval_key": "ops",
    "nontrivial": lambda t: t.get("twins", 0),
    "rule": "generated designs (harness/designgen.h) built as an undecorated twin and 4..8 twins decorated with random subsets of {names, nested "
            "areas, comments, signal attributes, taps, extra named signal copies}; all twins simulated on the same stimulus before and after "
            "post-processing (default 3/4, minimal 1/4); non-trivial = decorated twins compared",
    "trusted_base": ["Lean 4.33 kernel", "axioms: propext, Classical.choice, Quot.sound only (audited per theorem)",
                     "harness/c11.cpp + designgen.h + Driver/C11.lean", "Gatery.Nodes netlist semantics (tied to the simulator by C03/C08)"],
    "level_text": "Lean theorems: pass-through nodes and semantics-free record fields are exactly transparent in every netlist for every stimulus; short-circuiting all chains of pass-through nodes at once (any number, any depth) changes no value, also in clocked netlists at every cycle of stimuli of any length; "
                  "twins of generated designs are compared on the implementation before and after post-processing.",
    "assumptions": ["exported-VHDL behaviour of twins is not yet compared (needs the C02 interpreter)"],
})
