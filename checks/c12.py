#!/usr/bin/env python3
"""C12 — unmarked clock-domain crossings are always rejected, marked ones accepted."""
import os, re, sys
sys.path.insert(0, os.path.join(os.path.dirname(os.path.abspath(__file__)), "..", "tools"))
import vlib


def signature(msg, case_lines):
    m = re.search(r"kind=([\w-]+)", msg)
    return "kind:" + (m.group(1) if m else "?")


def extra_cov(t):
    st = t.get("stats", {})
    return {
        "designs": {k: st.get(k, 0) for k in ("designs.clean", "designs.crossing", "designs.singleDomain", "designs.withUnboundClock",
                                              "designs.otherError", "designs.unusable", "verdict.ok", "verdict.cdc",
                                              "crossingChangedByOptimisation")},
        "graphs_checked_against_real_inferClockDomains": t.get("graphs", 0),
        "graphs_with_signal_loops": st.get("cyclicGraphs", 0),
        "graphs_where_inferred_map_differs_from_denotational_map(order_dependence_of_the_map)": st.get("orderDependentMaps", 0),
        "markers": st.get("markers", 0), "derived_clocks_sharing_a_pin": st.get("clocksSharingPin", 0),
        "generator_statement_histogram": t.get("hist", {}),
    }


vlib.standard_check({
    "prop": "C12",
    "lean_modules": ["GateryModel.Properties.C12"],
    "prop_file": "GateryModel/Properties/C12.lean",
    "prop_module": "GateryModel.Properties.C12",
    "exe": "gv_c12",
    "harness": "c12",
    # <ncases> <statements per design (each design draws 1..2x)>
    "streams": {"quick": [[2500, 12], [300, 40], [600, 3]],
                "thorough": [[80000, 12], [8000, 40], [20000, 3], [1000, 120]]},
    "search": [[6000, 12], [1500, 30]],
    "signature": signature,
    "eval_key": "ops",
    "nontrivial": lambda t: t.get("stats", {}).get("designs.crossing", 0) + t.get("stats", {}).get("designs.clean", 0),
    "extra_cov": extra_cov,
    "rule": "random multi-clock designs built through the real frontend (ClockScope, reg with/without reset and enable, register feedback, pinIn/pinOut, "
            "single-bit flags with logic before/between/behind markers (NOT, NOT NOT, AND/OR/XOR, no-ops), marker outputs used as IF condition (plain, negated, IF/ELSE, "
            "same condition twice, condition then its negation, nested, shared), explicit mux selector, register enable, memory write enable / address / data, "
            "constant conditions, no-op rewires, marker chains; "
            "memories with/without noConflicts, IF-muxes, arithmetic/logic, allowClockDomainCrossing and scl::synchronize with right/random clocks, derived clocks "
            "that share / do not share the pin, default clock, unbound clocks, areas/entities); disciplines: clean / exactly one undisciplined statement / few / wild / "
            "single domain. evaluations = output ports whose inferred domain, output relation and owning node's check were compared between the model and the real code "
            "(graph before and after post-processing); non-trivial = designs whose postprocess() verdict was compared with the path-based specification",
    "trusted_base": ["Lean 4.33 kernel", "axioms: propext, Classical.choice, Quot.sound only (audited per theorem)",
                     "harness/c12.cpp structural dump (node kind classification by dynamic_cast, drivers, clocks) + Driver/C12.lean line protocol",
                     "GateryModel/C12/SpecExec.lean crossingB (label-set evaluation of `Crossing`; cross-checked on every graph against the model verdict that "
                     "verdict_iff_crossing ties to `Crossing`)",
                     "Std.HashMap (lemmas getElem?_insert / getD_insert) as the model of utils::UnstableMap"],
    "level_text": "Lean model of inferClockDomains (all node orders, all retry orders), checkValidInputClocks + overrides and getClockPinSource; theorems: every "
                  "execution ends in a grounded fixed point, and for every grounded fixed point the verdict is exactly the existence of an unmarked / wrongly marked "
                  "crossing in the path sense (soundness, completeness, acceptance of well-marked designs, order independence of the verdict). Tied to the code by "
                  "differential execution: per-port domain map, per-port output relation, per-node check result, pin sources and postprocess() verdict of the real code "
                  "on generated designs vs model; verdict vs path specification.",
    "assumptions": ["\"same physical clock source\" is read from what the design REQUESTS: a derived clock keeps its parent's source unless it is given another name, "
                    "a frequency multiplier != 1 or phaseSynchronousWithParent=false (the generator prints this class per clock as `gps` and the clocks it asked for at every "
                    "register/pin/marker/memory port as `req`; the driver compares getClockPinSource's partition and the nodes' clock slots against them in every design, "
                    "PROPFAIL kind=pin-partition / clock-binding, and judges crossings with the requested classes)",
                    "a clock derived from a non-phase-synchronous clock with only register attributes / reset name / trigger changed (also what scl::synchronize derives "
                    "from its destination clock) shares its parent's source: generated at random again since finding F21 (DerivedClock copied the parent's phase flag) "
                    "was fixed in /repo; the two designs of `c12 quirk` are replayed first on every run (corpus/C12/00-F21-…)",
                    "influence through memory *contents* (write port clock -> read data) is not a path: Node_MemPort::getOutputClockRelation ignores it by design",
                    "Node_External / vendor RAM primitives with their own checkValidInputClocks are not modelled (harness would report them as unsupported)",
                    "the check runs after optimisation: structural crossings that post-processing removes before the check (constant-select mux, mux whose data inputs are equal constants, AND/OR with a constant, "
                    "marker on a constant, unused logic, the order dependency between two read ports of one memory) are kept out of the generated designs; "
                    "hazards that involve only unbound clock slots (reachable only through the hlim API) are compared model-vs-code but not judged as property failures",
                    "Node_Signal2Clk/Signal2Rst inputs (clock/reset overrides) are exempt from the check in the code and in the model"],
})
