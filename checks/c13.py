#!/usr/bin/env python3
"""C13 — exported VHDL is lexically and statically well formed for any legal names."""
import os, re, sys
sys.path.insert(0, os.path.join(os.path.dirname(os.path.abspath(__file__)), "..", "tools"))
import vlib
import translate_vhdl_keywords


def signature(msg, case_lines):
    m = re.search(r"sig=(\S+)", msg)
    return m.group(1) if m else "what:?"


vlib.standard_check({
    "prop": "C13",
    "lean_modules": ["GateryModel.Properties.C13"],
    "prop_file": "GateryModel/Properties/C13.lean",
    "prop_module": "GateryModel.Properties.C13",
    "exe": "gv_c13",
    "harness": "c13",
    "translators": [translate_vhdl_keywords.run],
    "gen_files": ["lean/GateryModel/Gen/VhdlKeywords.lean"],
    # harness args after the seed: ncases mode   (0 random allocator sequences, 1 allocator sweep over all reserved words x 3 cases x 19 kinds,
    # 2 random designs exported, 3 export sweep: one design per reserved word x 3 cases (+ncases random), 4 directed sub-entity/instance-name designs,
    # 5 comment formatters of DefaultCodeFormatting on generated comments (16 calls per case), 6 directed designs with logic-driven resets/clocks
    # over late-assigned signals behind multiplexers (+ comments), 7 directed designs around vector constants of widths 1..7 / 60..70 / 65..140 /
    # 129..200 (mostly not multiples of 4; defined, all-0, all-1, partly undefined) as reset values, operands, mux inputs, named constants, outputs)
    "streams": {"quick": [[40, 3], [0, 1], [3000, 0], [400, 2], [300, 4], [400, 5], [400, 6], [300, 7]],
                "thorough": [[3000, 3], [0, 1], [150000, 0], [40000, 2], [15000, 4], [30000, 5], [20000, 6], [15000, 7]]},
    "search": [[0, 1], [0, 3], [1000, 4], [2000, 2], [1000, 5], [2000, 6], [1500, 7]],
    "signature": signature,
    "eval_key": "ops",
    "nontrivial": lambda t: t.get("alloc_renamed", 0) + t.get("vhdl_assignments", 0) + t.get("vhdl_instances", 0) + t.get("comment_formatter_calls", 0)
                            + t.get("exported_comment_lines_checked", 0) + sum(t.get("hist", {}).get("circuit_names_traced", {}).values()),
    "rule": "allocator: request sequences (19 allocation kinds, scope trees of 1..6 scopes, desired names from 2..6 base names per case in "
            "lower/UPPER/MiXed case, `_2`-style look-alikes, every VHDL-2008 reserved word x 3 letter cases x 19 kinds) through the real NamespaceScope; "
            "exports: generated designs (pins, arithmetic/logic/compare/mux/slice/concat, registers with sync/async/no reset, 1..2 clocks, named signals "
            "and constants, nested entity areas with instance names and component instantiation, plain areas) with all names from the same pools, "
            "one design per reserved word x 3 cases with the word in every name position; directed designs whose derived clocks get logic-driven "
            "resets/clocks (overrideRstWith/overrideClkWith) computed through multiplexers over signals declared first and assigned later; multi-line "
            "designs around vector constants of widths 1..7, 60..70, 65..140, 129..200 (three in four not a multiple of 4; random, all-zero, all-one, "
            "partly undefined) used as register reset values, operands of logic/arithmetic/comparison, multiplexer inputs, named constants and "
            "output drivers — every bit-string literal's width (x\"\" 4/digit, o\"\" 3, b\"\"/\"\" 1) is compared with its target, the declared object "
            "it initialises, the other operand, the CASE selector; multi-line "
            "comments (1..5 lines: empty, indented with blanks/tabs, containing --, quotes, semicolons, VHDL statements, 300..700 characters, CR LF) on "
            "the top entity, sub-entities, areas and nodes of about half of the designs, every comment line carrying a marker; the four comment "
            "formatters called directly on such comments; every emitted file is tokenised, parsed and checked. Non-vacuity of the name quantifier: "
            "the names carried by the objects of the circuit that is exported (read back after postprocess: pins, entities, instance names, clock and "
            "reset pins, named signals, areas; each must have been requested by the generator) must each reappear, mangled as the allocator model "
            "prescribes, as a declared identifier at the matching kind of position (name-lost otherwise); the scratch directory must contain exactly "
            "design.vhd (searched recursively); one design in three is exported a second time one-file-per-entity and must yield exactly one file "
            "per entity/package holding that unit. "
            "ops = allocation requests + identifiers checked in emitted text + formatter calls + marked comment lines; non-trivial = requests whose name "
            "had to be changed + assignments and port-map instances whose widths/names were checked + formatter calls + exported comment lines checked",
    "trusted_base": ["Lean 4.33 kernel", "axioms: propext, Classical.choice, Quot.sound only (audited per theorem)",
                     "tools/translate_vhdl_keywords.py (initializer list of NamespaceScope::NamespaceScope -> Gen/VhdlKeywords.lean)",
                     "the list reserved2008 in C13/Model.lean (IEEE 1076-2008 15.10, 115 words)",
                     "harness/c13.cpp + Driver/C13.lean line protocol", "C13/Comments.lean: line-structured model of the four comment formatters (tied by DIFF)", "C13/Vhdl.lean: tokenizer/parser/checkers for the emitted VHDL subset (not verified)"],
    "level_text": "Lean model of NamespaceScope/CodeFormatting name allocation proved sound for every scope tree and request sequence (basic identifier, "
                  "not reserved given the keyword table is complete, distinct ignoring case along the scope chain, retry loop terminates); keyword table tied "
                  "to the code by a translator and a decide-proof against the VHDL-2008 list; allocator tied by differential execution; model of the comment "
                  "formatters proved to emit only blank or `--` lines for every comment text, tied by differential execution; the remaining clauses "
                  "(declarative-region uniqueness across scopes, declared-before-use, equal widths, write-before-read) are decided on real exports by a Lean "
                  "VHDL front end.",
    "assumptions": ["ASCII names only (VHDL-2008 also admits Latin-1 letters)", "user names equal to identifiers of ieee/std packages or of gatery's helper "
                    "package (unsigned, std_logic, resize, ...) are excluded from generation: hiding of library names is not checked",
                    "memories, external/vendor components, tristate pins, interface packages, testbench files, attributes are not generated",
                    "comments: '\\n' is the only line terminator considered (VT/FF in a comment are not generated)",
                    "operand widths inside expressions and full VHDL type/overload resolution are not checked"],
})
