#!/usr/bin/env python3
"""C14 — condition reasoning (Conjunction in hlim/CNF.cpp) is logically sound."""
import os, re, sys
sys.path.insert(0, os.path.join(os.path.dirname(os.path.abspath(__file__)), "..", "tools"))
import vlib


def signature(msg, case_lines):
    m = re.search(r"what=(\S+)", msg)
    return "what:" + (m.group(1) if m else "?")


vlib.standard_check({
    "prop": "C14",
    "lean_modules": ["GateryModel.Properties.C14"],
    "prop_file": "GateryModel/Properties/C14.lean",
    "prop_module": "GateryModel.Properties.C14",
    "exe": "gv_c14",
    "harness": "c14",
    # harness args after the seed: ncases maxNodes mode
    "streams": {"quick": [[0, 4, 1], [20000, 10, 0], [5000, 40, 0], [4000, 12, 2]],
                "thorough": [[0, 5, 1], [300000, 10, 0], [100000, 40, 0], [80000, 14, 2]]},
    "search": [[0, 4, 1], [30000, 12, 0], [30000, 12, 2]],
    "signature": signature,
    "eval_key": "ops",
    "nontrivial": lambda t: t.get("positive_verdicts_checked", 0) + t.get("builds", 0),
    "rule": "mode 2: half of the atoms are comparisons of one of two shared 3-bit vectors with a constant (either operand order); truth tables then range over all values of the vectors, so related atoms (x==5, x==6) are never both true; cannotBothBeTrue is also queried with checkComparisons=true; condition networks of real hlim nodes (AND/NOT/OR logic, pass-through signals, constants 0/1/x, pins, unconnected inputs): "
            "exhaustive enumeration of all shapes with 2 leaves and <=3 (quick) / <=4 (thorough) internal nodes, plus random DAGs up to 40 nodes; "
            "every analysed form, every positive verdict on every ordered pair of roots and every rebuilt circuit is checked against the full truth table "
            "(<=12 leaves) of the original network; non-trivial = positive verdicts + rebuilt circuits checked",
    "trusted_base": ["Lean 4.33 kernel", "axioms: propext, Classical.choice, Quot.sound only (audited per theorem)",
                     "harness/c14.cpp + Driver/C14.lean line protocol", "Boolean semantics of AND/NOT/OR/signal nodes (eval in C14/Model.lean)"],
    "level_text": "Lean model of Conjunction::parseOutput (explicit-stack loop rendered as DFS) and of the verdict functions, proved sound for every "
                  "condition DAG and valuation; tied to the code by differential execution on generated networks through the real Conjunction API.",
    "assumptions": ["opaque terms (other logic ops, comparisons) are free variables of the valuation", "checkComparisons branch of cannotBothBeTrue compares a driver with itself (dead)"],
})
