#!/usr/bin/env python3
"""C15 — the library FIFO (scl::Fifo) is a loss-free, duplicate-free, order-preserving queue."""
import os, re, sys
sys.path.insert(0, os.path.join(os.path.dirname(os.path.abspath(__file__)), "..", "tools"))
import vlib


def signature(msg, case_lines):
    m = re.search(r"kind=([\w-]+)", msg)
    kind = m.group(1) if m else "?"
    hdr = case_lines[0] if case_lines else ""
    d = re.search(r"dual=(\d)", msg.split(" ev=[")[0]) or re.search(r"dual=(\d)", hdr)
    if kind == "af-optimistic-level-eq-depth-before-first-push-edge":   # known corner, one signature for all variants
        return "kind:" + kind
    if kind == "capacity-below-request":
        return "kind:" + kind
    if kind == "gray-roundtrip" or kind.startswith("array-") or kind.startswith("trans-"):
        return "kind:" + kind
    return "kind:%s;dual:%s" % (kind, d.group(1) if d else "?")


vlib.standard_check({
    "prop": "C15",
    "lean_modules": ["GateryModel.Properties.C15"],
    "prop_file": "GateryModel/Properties/C15.lean",
    "prop_module": "GateryModel.Properties.C15",
    "exe": "gv_c15",
    "harness": "c15",
    # [ncases, eventsPerCase]
    "streams": {"quick": [[300, 2000], [1500, 150], [300, 500, "stream"], [6, 6000, "deep"], [16, 400, "gray"], [300, 600, "array"], [250, 600, "trans"]],
                "thorough": [[1800, 4000], [250, 30000], [12000, 200], [3000, 1000, "stream"], [150, 12000, "deep"], [64, 20000, "gray"], [3000, 800, "array"], [2000, 800, "trans"]]},
    "search": [[1500, 2000], [6000, 300], [2000, 600, "stream"], [30, 8000, "deep"], [16, 2000, "gray"], [2000, 800, "array"], [2000, 800, "trans"]],
    "signature": signature,
    "eval_key": "ops",
    "nontrivial": lambda t: sum(t.get("cov", {}).get(k, 0) for k in ("accepted", "yielded", "push_attempt_at_capacity", "pop_attempt_at_none",
                                                                     "stream_accepted", "stream_yielded", "stream_backpressure_at_capacity", "gray_values",
                                                                     "array_accepted", "array_yielded", "array_push_attempt_at_capacity", "array_pop_attempt_at_none",
                                                                     "trans_accepted", "trans_yielded", "trans_push_rollbacks", "trans_pop_rollbacks", "trans_push_commits", "trans_pop_commits")),
    "extra_cov": lambda t: {"boundary_coverage": t.get("cov", {}), "configurations": t.get("hist", {})},
    "rule": "configurations: depth 2^k (k=0..6, minDepth in (2^(k-1),2^k]), payload width in {1..64}, latency request in {DontCare, Specific 1..7, AtLeast 0..6, AtMost 1..8}, "
            "single clock or dual clock with push:pop frequency ratio from 21 rationals (1:16 .. 16:1, 100:133 ...); schedules switch between random / burst-to-full / drain-to-empty / "
            "push+pop simultaneously / polite / push-heavy / pop-heavy / idle phases long enough to sit at both boundaries and wrap the pointers; payload = running counter, "
            "sometimes random or partly undefined; almost-full/-empty levels constant or varying per edge. A `deep` stream builds only dual-clock FIFOs of depth 128/256/512 (8..10 bit pointers through the gray-code synchronisers, unrelated clock ratios such as 100:77, enough events to pass 2^8/2^9 and wrap); a `gray` stream evaluates scl::grayEncode/grayDecode/round trip at every width 1..16 (exhaustive to 12 bits, boundary + random above) against C15/Gray.lean. An `array` stream drives scl::FifoArray (2/4/8 FIFOs x depth 2..16, at most 64 words) with selectors that differ, change every cycle, rest on different FIFOs (fill one to capacity while the pop selector rests on another), chase the fullest / emptiest FIFO; one abstract queue per FIFO. A `trans` stream drives scl::TransactionalFifo (single clock, depth 1..32, latency 1..5) with push/commitPush(cutoff)/rollbackPush and pop/commitPop/rollbackPop strobes, including deliberately simultaneous pop+rollbackPop, push+rollbackPush and commit+rollback, checked against a queue with tentative suffix/prefix. A further stream drives scl::strm::fifo (ready/valid, latency 0 = fall-through .. 4) with protocol-conforming sources. evaluations = clock-edge events replayed on model AND checked against the queue spec; "
            "non-trivial = accepted + yielded items + refused attempts at capacity / at none",
    "trusted_base": ["Lean 4.33 kernel", "axioms: propext, Classical.choice, Quot.sound only (audited per theorem)",
                     "statements in Properties/C15.lean and the trace-level definitions accepted/yielded/fill/queue/lastAf/lastAe (C15/Spec.lean)",
                     "harness/c15.cpp + Driver/C15.lean line protocol; agreement model/implementation established on the generated cases only",
                     "gatery ReferenceSimulator as the semantics of the generated circuit (no metastability); gray encode/decode modelled in C15/Gray.lean, proved to be inverse at every width and tied to scl/cdc.cpp by the gray stream"],
    "level_text": "Lean model of the circuit built by scl::Fifo::generate/generatePush/generatePop/generateCdc (pointers with wrap bit, registered full/empty/almostFull/almostEmpty, "
                  "memory + registered read, latency-1 register chains resp. in-stage + synchroniser registers). Proved for all depths 2^k, all latencies, all payload types and all schedules "
                  "(single clock; dual clock with arbitrary interleaving of the clock edges; and any adversarial stale-observation sequence): occupancy bounds, refinement to a List queue, "
                  "no accept at capacity, no yield at none, peek = queue head, almost flags not optimistic, liveness within lw-1 pop edges. The model is tied to the real scl::Fifo by "
                  "differential simulation (every interface value before every clock edge) and the queue specification is evaluated directly on the implementation's trace.",
    "assumptions": ["strm::fifo (ready/valid wrapper incl. fall-through, streamFifo.h) is modelled and checked by correspondence + queue spec on its trace only; the theorems are about the inner Fifo",
                    "vendor FIFO primitives (scl/arch/xilinx/FifoPattern.cpp) and technology-mapped memories are outside the model (no target device is set in the harness)",
                    "dual-clock TransactionalFifo (generateCDCReqAck) and storeForwardFifo are not covered; FifoArray with more than 64 data words (needs a user-supplied retimable output register) is not exercised",
                    "requested latency 0 (Specific(0)/AtMost(0)) is excluded: Fifo::generate then loops over Range(0-1) registers",
                    "requests are held low while a reset is asserted; all flag / level / size outputs (full, empty, almostFull, almostEmpty, sizes, valid) are checked against the (empty) queue from power-on, in reset cycles and in the first cycle after release, with unrestricted levels (almostFull(level == depth) before the first non-reset push edge has its own PROPFAIL kind: known finding)",
                    "metastability is outside gatery's simulator and outside the model"],
})
