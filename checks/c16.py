#!/usr/bin/env python3
"""C16 — stream pipeline stages preserve the transfer sequence under any back-pressure."""
import os, re, sys
sys.path.insert(0, os.path.join(os.path.dirname(os.path.abspath(__file__)), "..", "tools"))
import vlib


def signature(msg, case_lines):
    # PROPFAIL case=<id> kind=<what>:<stage kind>[><next stage kind>] ...
    m = re.search(r"kind=(\S+)", msg)
    return m.group(1) if m else "?"


# harness args after the seed: <ncases> <ncycles> <mode>; mode bits:
# 1 = arbitrary stall conditions (default: they do not rise while a beat is offered and not taken). The property demands the
#     output law of every listed stage for every schedule, strm::stall does not keep it: known finding, signature `law:stall`
#     (reserved by the driver for exactly that shape; any other output-law failure has another signature).
# 2 = regDownstreamBlocking may feed a stage whose ready waits for valid (-> reduceWidth): such chains can get stuck for good.
#     Eventual delivery is not part of C16's statement: the driver counts these as observations (`obs` in the evidence);
#     beats that are *lost* (everything idle, emitted < specified) are a PROPFAIL `lost:<stage>` in every stream.
# 8 = also the shapes of Packet.h's widthExtend/widthReduce hit by two defects of the tree as found (repairs in
#     harness/examples/c16_fix_widthextend_sop.diff.txt and c16_fix_byteenable_offset.diff.txt; the Lean model follows the repaired code):
#     widthExtend with ratio > 1 on streams that carry Sop (`seq:pext:sop`, `law:pext`, `frame:*` without the repair), ByteEnable groups
#     wider than one bit or ratios that are no power of two through either (`seq:pext:be`, `seq:pred:be`, elaboration errors without it).
# 4 = mostly chains with reduceWidth directly followed by delay(n>=1) (finding F5, fixed in /repo 553e604; must stay green).
vlib.standard_check({
    "prop": "C16",
    "lean_modules": ["GateryModel.Properties.C16"],
    "prop_file": "GateryModel/Properties/C16.lean",
    "prop_module": "GateryModel.Properties.C16",
    "exe": "gv_c16",
    "harness": "c16",
    "streams": {"quick": [[400, 1000, 0], [60, 400, 1], [60, 400, 2], [100, 400, 4], [150, 500, 8]],
                "thorough": [[3000, 2000, 0], [600, 8000, 0], [300, 1000, 1], [300, 1000, 2], [300, 1000, 4], [1500, 1500, 8]]},
    "search": [[1000, 1000, 0], [300, 1000, 7]],
    "signature": signature,
    "eval_key": "ops",
    "nontrivial": lambda t: t.get("transfers_out", 0),
    "extra_cov": lambda t: {"observations_not_part_of_the_property": t.get("obs", {}), "propfail_signatures": t.get("fails", {})},
    "rule": "random chains (length 1..6) of the real stages regDownstream, regDownstreamBlocking, regReady, regDecouple, delay(0..3), stall, "
            "fifo(minDepth 2..9, latency 0/1/2/3/DontCare), extendWidth(1,2,3,4,8), reduceWidth(1,2,3,4,6,8) over 6 stream types "
            "(RvStream<UInt>, RvPacketStream<UInt>, +TxId+Error, +Sop+Empty, RvStream<UInt,ByteEnable>, RvPacketStream<UInt,ByteEnable,TxId>, and the packet-framed "
            "RvPacketStream<UInt,Sop,TxId>, <UInt,Empty,Error>, <UInt,EmptyBits>, <UInt,Sop,Empty,ByteEnable> with packets of 1..N beats, also through Packet.h widthExtend/widthReduce; "
            "byte enables: one bit per 1..32 payload bits or two per group, narrow-side group <= 8 bits), head width 1..60, random payload, byte enables and meta signals; "
            "law-abiding producer with random / bursty / sparse validity, consumer ready random / bursty / periodic / a combinational "
            "function of the offered valid (ready only while valid, ready dropping when valid rises, ...), random stall conditions, "
            "then a drain phase; per cycle valid/ready/payload at every stage boundary. evaluations = stage-cycles replayed on the model; "
            "non-trivial = beats transferred at chain outputs (each checked against the list specification)",
    "trusted_base": ["Lean 4.33 kernel", "axioms: propext, Classical.choice, Quot.sound only (audited per theorem)",
                     "harness/c16.cpp + Driver/C16.lean line protocol (incl. the packing order of data words: packWords/partWord)",
                     "ReferenceSimulator as the semantics of the generated netlists",
                     "FIFO storage abstracted to a list (pointer/memory refinement is C15)"],
    "level_text": "Mealy-machine models of every listed stream stage (payload type arbitrary) proved to implement their list specification for all "
                  "valid/ready/stall schedules obeying the interface law on the input: in-order, unchanged, at-most-once emission, no emission of "
                  "unaccepted beats, output interface law; closed under composition (compose_preserves, chain_preserves by induction). Models tied to "
                  "the C++ generators by cycle-exact differential simulation at every stage boundary of random chains.",
    "assumptions": ["reduceWidth on ByteEnable streams only with narrow-side enable groups <= 8 bits (its dynamic slice offset is counter width + group width "
                    "bits wide and elaboration cost grows exponentially with it; a 32-bit group exhausts memory)",
                    "eventual delivery (Live/compose_live/chain_live) is proved as an extra under explicit fairness and compatibility side conditions; "
                    "stuck chains outside them (regDownstreamBlocking feeding reduceWidth) are counted as observations, lost beats are violations",
                    "extendWidth/reduceWidth with reset input tied to '0'",
                    "clock-domain-crossing FIFOs, arbiters, field extraction, packet insert/erase outside this property",
                    "stall: output law only under stallOk (condition does not rise while a beat is offered and not taken)"],
})
