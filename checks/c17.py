#!/usr/bin/env python3
"""C17 — library arithmetic and coding primitives equal their mathematical definitions."""
import os, re, sys
sys.path.insert(0, os.path.join(os.path.dirname(os.path.abspath(__file__)), "..", "tools"))
import vlib


def signature(msg, case_lines):
    """key of a failing input for known_findings.json: primitive + the specific shape of the failure.
    The four specific shapes below are the defects found and fixed in /repo (ff2206d, 7605865, 5569e92, b9353d8); they would be
    reported under the same signatures if they came back."""
    m = re.search(r"prim=(\w+)", msg)
    prim = m.group(1) if m else "?"
    if prim == "bpt" and "impl=err" in msg:
        p = re.search(r"params=\[(\d+)\]", msg)
        if p and int(p.group(1)) >= 32:
            return "bpt:width>=32:generator-throws"
    if prim == "petreereg" and "unbalanced-latency" in msg:
        return "petreereg:unbalanced-latency"
    if prim == "updown" and "inc&dec-at-limit" in msg:
        return "updown:inc&dec-at-limit"
    if prim in ("mins", "maxs") and "signed-difference-overflows" in msg:
        # frontend SInt compare = sign of a w-bit subtraction: only inputs whose difference does not fit into w bits
        return "%s:signed-compare-overflow" % prim
    if prim in ("ctr_end", "ctr_w", "ctr_uend"):
        # Counter API usage pattern (which of inc/dec/reset/load are ever called on the instance): 1 inc, 2 dec, 4 reset, 8 load
        m3 = re.search(r"api-mask=(\d+)", msg)
        if m3:
            m = int(m3.group(1))
            calls = "+".join(n for b, n in ((1, "inc"), (2, "dec"), (4, "reset"), (8, "load")) if m & b) or "none"
            return "prim:%s:api=%s" % (prim, calls)
    if prim == "graysync":
        return "prim:graysync:" + ("reset-phase" if "reset-phase" in msg else "settled" if "settled" in msg else "other")
    return "prim:" + prim


vlib.standard_check({
    "prop": "C17",
    "lean_modules": ["GateryModel.Properties.C17"],
    "prop_file": "GateryModel/Properties/C17.lean",
    "prop_module": "GateryModel.Properties.C17",
    "exe": "gv_c17",
    "harness": "c17",
    # harness args after the seed: <ncases> <maxw>; 43 primitive slots per round, one width per slot and round
    # (4 of the slots sweep the 16 Counter API usage patterns: 20 rounds = every pattern for every constructor / kind of limit)
    "streams": {"quick": [[860, 20]], "thorough": [[5590, 130], [1720, 20], [1290, 64]]},
    "search": [[1720, 24], [1720, 70]],
    "signature": signature,
    "eval_key": "ops",
    "nontrivial": lambda t: sum(v for k, v in t.get("hist", {}).items() if not k.endswith(":err")),
    "rule": "one case = one real circuit (primitive x width(s) x parameters: bps, counter limit/reset, CRC widths/polynomial as inputs, "
            "number of adder operands); widths swept 0/1..maxw systematically first, then random with 2^k-1/2^k/2^k+1 bias; vectors exhaustive "
            "when the circuit has <= 12 input bits, else 48-64 structured-random vectors (0, 1, all-ones, 2^k, 2^k-1, sparse, dense, leading/"
            "trailing zero runs); counters: every subset of {inc(), dec(), reset(), load(v)} ever called on the instance (16 usage patterns x 4 constructor/limit kinds, "
            "both placement orders of load/reset), 40-300 clock cycles of inc/dec/both/idle/load/reset runs incl. several calls per cycle, "
            "value/isLast/isFirst/becomesFirst compared every cycle; evaluation = one simulated vector or clock cycle, "
            "each compared with the structural model (DIFF) and with the arithmetic definition (PROPFAIL); pipelined variants (registered priority tree, "
            "pipelined divider) are driven with 40-90 cycle input streams and compared against the delayed definition; synchronizeGrayCode (both overloads, widths 1..24, "
            "every small / random reset values, 2-4 stages, with/without input register, 10 clock-period pairs incl. equal and ratio clocks): every clock-edge "
            "instant from power-on, inputs counting (gray-safe), jumping and held; malformed-parameter stream 'bad' must throw",
    "trusted_base": ["Lean 4.33 kernel", "axioms: propext, Classical.choice, Quot.sound only (audited per theorem)",
                     "GateryModel/C17/Spec.lean (popcount, lowest/highest set bit, reflected Gray code, n/d, Int.tdiv, modulo-E counter, clamp, "
                     "carry-less product / polynomial remainder) as the meaning of 'mathematical definition'",
                     "harness/c17.cpp + Driver/C17.lean line protocol; gatery ReferenceSimulator as the semantics of the built circuits",
                     "utils::nextPow2 / Log2C / BitWidth::count/last modelled as Nat.log2 formulas (values cross-checked per case)"],
    "level_text": "Structural Lean models of the scl generators (same loops, chunking, widths, guards) proved equal to their arithmetic definitions for all "
                  "widths/values/parameters; models tied to the real circuits by simulating them on generated widths and inputs and diffing against model and definition.",
    "assumptions": ["pipelined longDivision (stepsPerPipelineReg > 0, registers placed by retiming) is covered by correspondence on input streams only: "
                    "latency formula + value, no register-level model; priorityEncoderTree(registerStep=true) has a register-level model and a full theorem",
                    "add()'s carry vector and CrcState/crcDef agreement are covered by correspondence + definition check only (no theorem)",
                    "GCD and primitives not named in the property are out of scope",
                    "inputs are fully defined (no 'x' propagation claims)"],
    "extra_cov": lambda t: {"graysync_reset_phase_checks": t.get("graysync_reset_checks", 0), "graysync_settled_checks": t.get("graysync_settled_checks", 0),
                            "counter_api_patterns": t.get("counter_api", {}),
                            "primitives_exercised": sorted(k for k in t.get("hist", {}) if not k.endswith(":err")),
                            "generator_rejections": {k: v for k, v in t.get("hist", {}).items() if k.endswith(":err")},
                            "width_classes": t.get("widths", {})},
})
