#!/usr/bin/env python3
"""C18 — the four-state bit-vector container behaves like a plain array of bits."""
import os, sys
sys.path.insert(0, os.path.join(os.path.dirname(os.path.abspath(__file__)), "..", "tools"))
import vlib
import translate_bitmanip


def signature(msg, case_lines):
    import re
    m = re.search(r"op=\[(\w+)", msg)
    return "op:" + (m.group(1) if m else "?")


vlib.standard_check({
    "prop": "C18",
    "lean_modules": ["GateryModel.Properties.C18"],
    "prop_file": "GateryModel/Properties/C18.lean",
    "prop_module": "GateryModel.Properties.C18",
    "exe": "gv_c18",
    "harness": "c18",
    "translators": [translate_bitmanip.run],
    "gen_files": ["lean/GateryModel/Gen/BitManip.lean"],
    "streams": {"quick": [[6000, 50], [15000, 0], [1500, "sig"], [3000, "bytes"]], "thorough": [[20000, 50], [2000, 400], [20000, 12], [300000, 0], [6000, "sig"], [60000, "bytes"]]},
    "search": [[20000, 50], [5000, 200], [100000, 0], [3000, "sig"], [20000, "bytes"]],
    "signature": signature,
    "eval_key": "ops",
    "nontrivial": lambda t: t.get("ops", 0) - t.get("hist", {}).get("resize", 0) - t.get("hist", {}).get("get", 0) - t.get("hist", {}).get("formatBinary", 0) - t.get("hist", {}).get("formatHex", 0),
    "rule": "stream bytes: createDefaultBitVectorState(byte span) and operator==(state, byte span) on arrays of 0..26 bytes with single undefined bits and single flipped bits, preferably in the last partial word, judged by the driver against the bit-array specification directly (no separate model of these two functions); stream sig: integers through the simulation signal handles; operation sequences on 4 registers of BitVectorState<Default|Extended>; offsets biased to {0,1,7,8,31,32,56,63} mod 64 over 5 words, "
            "sizes biased to {0,1,7,8,63,64,65,127,128,129}; non-trivial = every op other than resize/get (each is compared word-for-word with the model "
            "and bit-for-bit with the array spec); literal stream (ops = 0): parseBitVector on generated b/o/x/d/s literals with optional widths "
            "(valid, too narrow, malformed, 20..50 digits) compared with the model (result words or error class) and with the digit-by-digit grammar spec, "
            "then operator<< in binary and hex against the model",
    "trusted_base": ["Lean 4.33 kernel", "axioms: propext, Classical.choice, Quot.sound only (audited per theorem)",
                     "tools/translate_bitmanip.py (BitManipulation.h leaf functions -> Gen/BitManip.lean)",
                     "harness/c18.cpp + Driver/C18.lean line protocol", "boost cpp_int import/export_bits modelled as Nat<->little-endian words"],
    "level_text": "Word-level Lean model of BitVectorState proved equal to a bit-array spec for all offsets/sizes/contents; model tied to the code by "
                  "translator (leaf bit arithmetic) and by differential execution of generated op sequences against the real template instantiations.",
    "assumptions": ["memcpy with overlapping source/destination (copyRange on the same object) is not modelled", "createRandom*, raw data() users not covered"],
})
