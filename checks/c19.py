#!/usr/bin/env python3
"""C19 — simulation processes run deterministically in the documented phase order."""
import os, re, sys
sys.path.insert(0, os.path.join(os.path.dirname(os.path.abspath(__file__)), "..", "tools"))
import vlib

# shared event-loop model (Sched) and the C04 lemma files the C19 theorems build on are part of the audit
_audit = vlib.audit_sources
vlib.audit_sources = lambda paths: _audit(list(paths) + [os.path.join("GateryModel", "Sched"), os.path.join("GateryModel", "C04")])


def signature(msg, case_lines):
    kind = re.search(r"kind=([\w-]+)", msg)
    kind = kind.group(1) if kind else "?"
    if kind == "resume-order":
        m = re.search(r"phase=(\d)", msg)
        return "resume-order:phase" + (m.group(1) if m else "?")
    return kind


def nontrivial(t):
    h = t.get("hist", {})
    return sum(v for k, v in h.items() if k.startswith("check:") and k not in ("check:no-time-passes",))


vlib.standard_check({
    "prop": "C19",
    "lean_modules": ["GateryModel.Properties.C19"],
    "prop_file": "GateryModel/Properties/C19.lean",
    "prop_module": "GateryModel.Properties.C19",
    "exe": "gv_c19",
    "harness": "c19",
    # harness args after the seed: <ncases> <nsteps> <mode> <reps>; mode 0 = BEFORE-phase clock waits confined to one clock pin
    # (model replay + property), mode 1 = unrestricted (property evaluated on the implementation log only)
    "streams": {"quick": [[2000, 40, 0, 2], [600, 40, 1, 1]],
                "thorough": [[12000, 60, 0, 3], [3000, 60, 1, 2], [300, 400, 0, 2]]},
    "search": [[3000, 50, 0, 2], [1500, 50, 1, 1]],
    "signature": signature,
    "eval_key": "ops",
    "nontrivial": nontrivial,
    "rule": "generated process sets (1-4 started scripts + 0-2 forkable scripts of WaitFor / WaitClock BEFORE|DURING|AFTER on simulated and "
            "free-running clocks / WaitChange / WaitStable / reads / pin writes / forks) on generated clock configurations (1-2 root clocks, "
            "0-2 derived, triggers R/F/RF, reset types) x small register networks; every case is run as coroutine processes (replayed on "
            "the model), as fibers (log must be identical) and both repeated with scheduler perturbation of the fiber threads; "
            "evaluations = property checks on the implementation log (wait-for time, clock-wait phase/instant, change-wait, resume order, "
            "pre/post-edge reads, register capture of BEFORE vs DURING writes, fiber/repeat equality)",
    "trusted_base": ["Lean 4.33 kernel", "axioms: propext, Classical.choice, Quot.sound only (audited per theorem)",
                     "C19/Spec.lean, C04/Spec.lean and the statements in Properties/C19.lean",
                     "hand-written models Sched/{Basic,Sim,Clock,Proc}.lean (event loop, process suspension) and C19/Fiber.lean "
                     "(SimulationFiber hand-off; std::mutex / std::condition_variable semantics with spurious wake-ups), tied to the code by "
                     "differential execution / by reading, not by translation",
                     "harness/c19.cpp + Driver/C19.lean line protocol", "the OS scheduler and libstdc++ threads/coroutines"],
    "level_text": "Lean theorems over the shared event-loop model with process scripts: exact WaitFor time, resume order by insertion id "
                  "(= suspension order), WaitChange iff a watched signal differs from its snapshot, BEFORE/DURING resumptions precede and "
                  "AFTER resumptions follow the clock edge, DURING writes are not latched / BEFORE writes are, processes cannot affect "
                  "registers other than through pins (all C04 theorems hold with any scripts); the SimulationFiber hand-off protocol is "
                  "proved mutually exclusive for every interleaving (exhaustive finite state space, lifted to any number of fibers). Tied to "
                  "the code by differential execution of generated script sets (coroutine and fiber variants, repeated under scheduler "
                  "perturbation); the property itself is evaluated on the implementation's log.",
    "assumptions": ["co_await on a forked process (join), WaitUntil (unimplemented in gatery) and abort() are not modelled",
                    "pop order among hardware events that Event::operator< leaves unordered follows the heap layout of std::priority_queue; "
                    "the model fixes first-inserted, generators of the replayed stream avoid the dependence (mode 0)",
                    "data-race freedom outside SimulationFiber's own members is explored (fiber runs with perturbation), not proved; no TSan build",
                    "the Fiber.lean protocol is a hand transcription of SimulationFiber.cpp (no hook/trace tie)"],
})
