#!/usr/bin/env python3
"""C20 — recorded waveforms (VCD) and test vectors faithfully record the simulation."""
import os, re, sys
sys.path.insert(0, os.path.join(os.path.dirname(os.path.abspath(__file__)), "..", "tools"))
import vlib


def signature(msg, case_lines):
    m = re.search(r"kind=(\S+)", msg)
    return "kind:" + (m.group(1) if m else "?")


vlib.standard_check({
    "prop": "C20",
    "lean_modules": ["GateryModel.Properties.C20"],
    "prop_file": "GateryModel/Properties/C20.lean",
    "prop_module": "GateryModel.Properties.C20",
    "exe": "gv_c20",
    "harness": "c20",
    # harness args after the seed: ncases ncycles mode   (mode bit1: WaitStable + reads right after power-on; bit2: time steps that are
    # bit3: many recorded variables, 100..500 identifier codes;
    # flushed twice (WaitFor(0) after WaitStable, runs ending exactly on a clock edge); bit0: sub-picosecond WaitFor delays)
    "streams": {"quick": [[300, 120, 0], [150, 40, 2], [150, 40, 4], [40, 30, 8]],
                "thorough": [[1500, 300, 0], [150, 3000, 0], [800, 60, 2], [800, 60, 4], [400, 40, 8]]},
    "search": [[150, 100, 0], [60, 60, 6]],
    "signature": signature,
    "eval_key": "ops",
    "nontrivial": lambda t: t.get("value_comparisons", 0) + t.get("replayed_statements", 0),
    "rule": "generated designs (1-2 clocks, the second optionally derived from the first, with different reset/trigger configurations and reset durations given in cycles and/or as a time that is not a clock edge, Bit and UInt pins of widths 1..130, counters, registers with and "
            "without reset, enables, muxes, adders, concatenations, named signals in nested areas, taps, optional memory) simulated by the real "
            "ReferenceSimulator under 1-2 generated simulation processes per clock (AfterClk / OnClk / BeforeClk / WaitFor / WaitStable, partially "
            "undefined stimuli) with a real VCDSink (random signal selection) and a real FileBasedTestbenchRecorder; every commit of every recorded "
            "signal is compared with the value read back from the real .vcd, every clock and reset line as a function of time with what onClock/onReset reported, every line of both files with the model, every CHECK/RST of the real "
            ".testvectors is replayed into a fresh simulator; non-trivial = value comparisons + replayed statements",
    "trusted_base": ["Lean 4.33 kernel", "harness/c20.cpp: the expected variable set, sampled values, pin / reset names and reset ports come from the harness's own construction record, a scan of the circuit with the documented meaning of the add* selections and hlim::Clock queries — never from the sink or the recorder", "axioms: propext, Classical.choice, Quot.sound only (audited per theorem)",
                     "harness/c20.cpp (independent SimulatorCallbacks samplers, replay semantics: a group written exactly on a clock edge acts before "
                     "the edge, as in the generated VHDL test bench) + Driver/C20.lean line protocol",
                     "the VCD reader `decode` as the meaning of a VCD file; ostream << size_t modelled by natToDec; boost::rational by Nat / Rat"],
    "level_text": "Lean models of WaveformRecorder/VCDSink/VCDWriter (encode) with a VCD reader (decode) and of FileBasedTestbenchRecorder; proved: the "
                  "identifier generator never repeats, decode(encode trace) = value at the last commit <= t for all traces/widths/selections, ADV never "
                  "drifts, groups stay inside their flush interval in recording order with CHECKs after the SETs they observed, nothing recorded "
                  "after the clock edges of a time is written at that time; both models are compared "
                  "byte for byte with the real files and the real test vectors are replayed on every run.",
    "assumptions": ["debug/warning/assert message strings in the VCD, GTKWave/Surfer project files and the VHDL/Verilog test bench text are not modelled",
                    "uint64 overflow of boost::rational<uint64_t> time arithmetic is outside the model (Nat/Rat)",
                    "that the replay reproduces every CHECK is established per run by the harness, not by a theorem"],
})
