// C01 harness: generated designs are simulated as constructed (reference trace), after every post-processing pass
// (through the GATERY_VERIF pass-boundary hook) and after the complete post-processing (default and minimal), on the same stimulus.
// Usage: c01 <seed> <ncases> <nsteps> [only-case]
#include <gatery/pch.h>
#include "designgen.h"
#include <gatery/hlim/Circuit.h>
#include <iostream>

using namespace gtry;
using vh::Rng;

struct Ctx {
	vh::Built *built = nullptr;
	vh::Stimulus *stim = nullptr;
	std::vector<std::vector<std::string>> *ref = nullptr;
	std::ostream *o = nullptr;
	size_t idx = 0;
	std::vector<std::vector<std::string>> prev;
};
static Ctx g_ctx;

static void printTrace(std::ostream &o, const char *tag, const std::string &prefix, const std::vector<std::vector<std::string>> &tr) {
	for (size_t c = 0; c < tr.size(); c++) {
		o << tag << ' ' << prefix << c;
		for (auto &v : tr[c]) o << ' ' << v;
		o << '\n';
	}
}

static void boundary(const char *pass, hlim::Circuit &circuit) {
	Ctx &c = g_ctx;
	size_t idx = c.idx++;
	try {
		auto tr = vh::simulate(circuit, *c.built, *c.stim);
		// the full trace is printed whenever it differs from the trace at the previous boundary, so that a violation is
		// attributed to the pass that introduced it
		if (tr == c.prev) { *c.o << "bd " << idx << ' ' << pass << (tr == *c.ref ? " same\n" : " unchanged\n"); return; }
		c.prev = tr;
		if (tr == *c.ref) { *c.o << "bd " << idx << ' ' << pass << " same\n"; return; }
		*c.o << "bd " << idx << ' ' << pass << " diff\n";
		printTrace(*c.o, "bt", std::to_string(idx) + " ", tr);
	} catch (const std::exception &e) {
		std::string msg = e.what(); for (auto &ch : msg) if (ch == '\n' || ch == ' ') ch = '_';
		*c.o << "bd " << idx << ' ' << pass << " nosim " << msg.substr(0, 80) << '\n';
	}
}

static bool runOne(uint64_t k, const vh::Recipe &recipe, bool minimal, bool withUndef, uint64_t stimSeed, size_t ncycles, std::ostream &out) {
	std::ostringstream o;
	try {
		DesignScope design;
		vh::Built b = vh::build(recipe);
		Rng srng(stimSeed);
		vh::Stimulus st = vh::genStimulus(srng, b.inWidths, ncycles, withUndef);
		o << "case " << k << (minimal ? "m" : "d") << " pp=" << (minimal ? "minimal" : "default") << " undef=" << withUndef << " nodes=" << design.getCircuit().getNodes().size() << '\n';
		o << recipe.toString();
		o << "inw"; for (auto w : b.inWidths) o << ' ' << w; o << '\n';
		o << "outw"; for (auto w : b.outWidths) o << ' ' << w; o << '\n';
		for (size_t c = 0; c < st.cycles.size(); c++) { o << "stim " << c; for (auto &v : st.cycles[c]) o << ' ' << v; o << '\n'; }
		bool adef = !withUndef;
		auto ref = vh::simulate(design.getCircuit(), b, st, &adef);
		o << "adef " << adef << '\n';
		printTrace(o, "ref", "", ref);
		g_ctx = Ctx{&b, &st, &ref, &o, 0, ref};
		hlim::verif_passBoundary = &boundary;
		try {
			if (minimal) design.getCircuit().postprocess(hlim::MinimalPostprocessing{}); else design.postprocess();
		} catch (const std::exception &e) {
			hlim::verif_passBoundary = nullptr;
			std::string msg = e.what(); for (auto &ch : msg) if (ch == '\n') ch = ' ';
			o << "ppfail " << msg.substr(0, 200) << "\nend\n";
			out << o.str();
			return true;
		}
		hlim::verif_passBoundary = nullptr;
		auto fin = vh::simulate(design.getCircuit(), b, st);
		o << "nodes_after " << design.getCircuit().getNodes().size() << '\n';
		printTrace(o, "fin", "", fin);
		o << "end\n";
		out << o.str();
		return true;
	} catch (const std::exception &e) {
		hlim::verif_passBoundary = nullptr;
		std::string msg = e.what(); for (auto &ch : msg) if (ch == '\n') ch = ' ';
		out << "# case " << k << " not constructible: " << msg.substr(0, 160) << '\n';
		return false;
	}
}

int main(int argc, char **argv) {
	uint64_t seed = vh::argU64(argc, argv, 1, 1), ncases = vh::argU64(argc, argv, 2, 50), nsteps = vh::argU64(argc, argv, 3, 25), only = vh::argU64(argc, argv, 4, ~0ull);
	std::ios::sync_with_stdio(false);
	std::cout << "# prop=C01 seed=" << seed << " cases=" << ncases << " nsteps=" << nsteps << "\n";
	Rng top(seed * 0x100000001b3ull + 1);
	for (uint64_t k = 0; k < ncases; k++) {
		Rng rng = top.fork();
		if (only != ~0ull && k != only) continue;
		vh::GenOpts go;
		go.nInputs = 2 + rng.below(4);
		go.nSteps = 3 + rng.below(nsteps);
		go.maxWidth = 1 + rng.below(6);
		go.regs = rng.chance(3, 4);
		go.wide = rng.chance(1, 6);
		go.undefinedConsts = rng.chance(1, 8);
		go.fullyDefined = rng.chance(2, 3);
		go.patternBias = rng.chance(1, 3) ? 30 : 8;
		vh::RecipeGen gen(rng, go);
		vh::Recipe recipe = gen.generate();
		bool withUndef = !go.fullyDefined && rng.chance(1, 2);
		uint64_t stimSeed = rng.next();
		size_t ncycles = 6 + rng.below(10);
		runOne(k, recipe, false, withUndef, stimSeed, ncycles, std::cout);
		runOne(k, recipe, true, withUndef, stimSeed, ncycles, std::cout);
	}
	return 0;
}
