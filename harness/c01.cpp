// C01 harness: generated designs are simulated as constructed (reference trace), after every post-processing pass
// (through the GATERY_VERIF pass-boundary hook) and after the complete post-processing (default and minimal), on the same stimulus.
// Usage: c01 <seed> <ncases> <nsteps> [only-case]   |   c01 <seed> <ncases> rw [only-case]  (Node_Rewire::optimize stream)
#include <gatery/pch.h>
#include "designgen.h"
#include "netdump.h"
#include <gatery/hlim/Circuit.h>
#include <iostream>
#include <map>
#include <sstream>
#include <gatery/hlim/coreNodes/Node_Rewire.h>
#include <gatery/hlim/coreNodes/Node_Constant.h>
#include <gatery/hlim/coreNodes/Node_Signal.h>
#include <gatery/hlim/coreNodes/Node_Multiplexer.h>
#include <gatery/hlim/Subnet.h>

using namespace gtry;
using vh::Rng;

struct Ctx {
	vh::Built *built = nullptr;
	vh::Stimulus *stim = nullptr;
	std::vector<std::vector<std::string>> *ref = nullptr;
	std::ostream *o = nullptr;
	size_t idx = 0;
	std::vector<std::vector<std::string>> prev;
};
static Ctx g_ctx;
static bool g_dumpNets = true;

static void printTrace(std::ostream &o, const char *tag, const std::string &prefix, const std::vector<std::vector<std::string>> &tr) {
	for (size_t c = 0; c < tr.size(); c++) {
		o << tag << ' ' << prefix << c;
		for (auto &v : tr[c]) o << ' ' << v;
		o << '\n';
	}
}

static void boundary(const char *pass, hlim::Circuit &circuit) {
	Ctx &c = g_ctx;
	size_t idx = c.idx++;
	try {
		auto tr = vh::simulate(circuit, *c.built, *c.stim);
		// the full trace is printed whenever it differs from the trace at the previous boundary, so that a violation is
		// attributed to the pass that introduced it
		if (tr == c.prev) { *c.o << "bd " << idx << ' ' << pass << (tr == *c.ref ? " same\n" : " unchanged\n"); return; }
		c.prev = tr;
		if (tr == *c.ref) { *c.o << "bd " << idx << ' ' << pass << " same\n"; return; }
		*c.o << "bd " << idx << ' ' << pass << " diff\n";
		printTrace(*c.o, "bt", std::to_string(idx) + " ", tr);
	} catch (const std::exception &e) {
		std::string msg = e.what(); for (auto &ch : msg) if (ch == '\n' || ch == ' ') ch = '_';
		*c.o << "bd " << idx << ' ' << pass << " nosim " << msg.substr(0, 80) << '\n';
	}
}


// Backbone tie: dump the netlist (cone of the output pins, registers cut) in the form Gatery.Nodes understands and the value of
// every dumped node at every sample point, so that the driver can re-evaluate each node with the Lean node semantics.
static void dumpNetAndValues(const char *tag, hlim::Circuit &circuit, const vh::Built &b, const vh::Stimulus &st, std::ostream &o) {
	vh::Net net;
	for (auto *p : b.outPins) net.visit(p->getDriver(0).node);
	net.visitRegInputs();
	if (net.order.size() > 600) { o << "netskip " << tag << " too-large\n"; return; }
	std::map<hlim::Node_Pin*, int> pinIdx;
	for (size_t i = 0; i < b.inPins.size(); i++) pinIdx[b.inPins[i]] = (int) i;
	std::ostringstream body;
	bool known = net.dump(body, pinIdx);
	if (!known) { o << "netskip " << tag << " unmodelled-node-kind\n"; return; }
	for (size_t i = 0; i < net.order.size(); i++) // a rewire range outside its input or a >= 64 bit shift amount is UB in the simulator: not produced by designgen, but do not evaluate such nets
		if (auto *r = dynamic_cast<hlim::Node_Rewire*>(net.order[i]))
			for (const auto &rg : r->getOp().ranges)
				if (rg.source == hlim::Node_Rewire::OutputRange::INPUT && rg.subwidth > 0) {
					auto d = r->getDriver(rg.inputIdx);
					if (d.node && (rg.inputOffset > hlim::getOutputWidth(d) || rg.subwidth > hlim::getOutputWidth(d) - rg.inputOffset)) { o << "netskip " << tag << " unsafe-rewire\n"; return; }
				}
	o << "netbegin " << tag << '\n' << body.str();
	o << "nouts";
	for (auto *p : b.outPins) { auto d = p->getDriver(0); o << ' ' << (d.node ? net.index[d.node] : -1); }
	o << "\nnetend " << tag << '\n';
	sim::ReferenceSimulator sim(false);
	sim.compileProgram(circuit);
	sim.powerOn();
	hlim::ClockRational period = hlim::ClockRational(1, 1) / b.clock->absoluteFrequency();
	sim.advance(period / hlim::ClockRational(4, 1));
	for (size_t c = 0; c < st.cycles.size(); c++) {
		for (size_t i = 0; i < b.inPins.size(); i++)
			sim.simProcSetInputPin(b.inPins[i], sim::convertToExtended(vh::bitsFromString(st.cycles[c][i])));
		sim.reevaluate();
		{ // is the clock's reset asserted at this sample point?
			auto r = sim.getValueOfReset(b.clock->getClk());
			bool asserted = r[sim::DefaultConfig::DEFINED] && (r[sim::DefaultConfig::VALUE] == (b.clock->getClk()->getRegAttribs().resetActive == hlim::RegisterAttributes::Active::HIGH));
			o << "nr " << tag << ' ' << c << ' ' << (asserted ? 1 : 0) << '\n';
		}
		o << "nv " << tag << ' ' << c;
		for (auto *n : net.order) {
			if (n->getNumOutputPorts() == 0 || sim.outputOptimizedAway({.node = n, .port = 0})) { o << " ?"; continue; }
			o << ' ' << vh::bitsToString(sim.getValueOfOutput({.node = n, .port = 0}));
		}
		o << '\n';
		sim.advance(period);
	}
}

static bool runOne(uint64_t k, const vh::Recipe &recipe, bool minimal, bool withUndef, uint64_t stimSeed, size_t ncycles, std::ostream &out) {
	std::ostringstream o;
	try {
		DesignScope design;
		vh::Built b = vh::build(recipe);
		Rng srng(stimSeed);
		vh::Stimulus st = vh::genStimulus(srng, b.inWidths, ncycles, withUndef);
		o << "case " << k << (minimal ? "m" : "d") << " pp=" << (minimal ? "minimal" : "default") << " undef=" << withUndef << " nodes=" << design.getCircuit().getNodes().size() << '\n';
		o << recipe.toString();
		o << "inw"; for (auto w : b.inWidths) o << ' ' << w; o << '\n';
		o << "outw"; for (auto w : b.outWidths) o << ' ' << w; o << '\n';
		for (size_t c = 0; c < st.cycles.size(); c++) { o << "stim " << c; for (auto &v : st.cycles[c]) o << ' ' << v; o << '\n'; }
		bool adef = !withUndef;
		auto ref = vh::simulate(design.getCircuit(), b, st, &adef);
		o << "adef " << adef << '\n';
		printTrace(o, "ref", "", ref);
		if (g_dumpNets) dumpNetAndValues("A", design.getCircuit(), b, st, o);
		g_ctx = Ctx{&b, &st, &ref, &o, 0, ref};
		hlim::verif_passBoundary = &boundary;
		try {
			if (minimal) design.getCircuit().postprocess(hlim::MinimalPostprocessing{}); else design.postprocess();
		} catch (const std::exception &e) {
			hlim::verif_passBoundary = nullptr;
			std::string msg = e.what(); for (auto &ch : msg) if (ch == '\n') ch = ' ';
			o << "ppfail " << msg.substr(0, 200) << "\nend\n";
			out << o.str();
			return true;
		}
		hlim::verif_passBoundary = nullptr;
		auto fin = vh::simulate(design.getCircuit(), b, st);
		o << "nodes_after " << design.getCircuit().getNodes().size() << '\n';
		printTrace(o, "fin", "", fin);
		if (g_dumpNets) { try { dumpNetAndValues("B", design.getCircuit(), b, st, o); } catch (const std::exception &e) { o << "netskip B exception\n"; } }
		o << "end\n";
		out << o.str();
		return true;
	} catch (const std::exception &e) {
		hlim::verif_passBoundary = nullptr;
		std::string msg = e.what(); for (auto &ch : msg) if (ch == '\n') ch = ' ';
		out << "# case " << k << " not constructible: " << msg.substr(0, 160) << '\n';
		return false;
	}
}

// Direct tie of one pass function: Node_Rewire::optimize() on generated rewire operations (ranges of width zero, constant all-zero /
// all-one / mixed / partly undefined drivers behind 0..2 signal nodes, inputs sharing a driver, unconnected inputs, neighbouring ranges
// that continue each other). Printed: the operation and wiring before and after; the driver replays Gatery.C01.rewireOptimize and
// evaluates both operations with Gatery.Nodes.evalRewire on the printed driver values.
static std::string rangesToString(const hlim::Node_Rewire::RewireOperation &op) {
	std::ostringstream o;
	if (op.ranges.empty()) return "-";
	for (size_t k = 0; k < op.ranges.size(); k++) {
		if (k) o << ',';
		const auto &rg = op.ranges[k];
		switch (rg.source) {
			case hlim::Node_Rewire::OutputRange::INPUT: o << "i:" << rg.inputIdx << ':' << rg.inputOffset << ':' << rg.subwidth; break;
			case hlim::Node_Rewire::OutputRange::CONST_ZERO: o << "z:" << rg.subwidth; break;
			case hlim::Node_Rewire::OutputRange::CONST_ONE: o << "o:" << rg.subwidth; break;
			default: o << "u:" << rg.subwidth; break;
		}
	}
	return o.str();
}

static void runRewireOpt(uint64_t k, Rng &rng, std::ostream &out) {
	std::ostringstream o;
	try {
		DesignScope design;
		auto &circ = design.getCircuit();
		auto *grp = circ.getRootNodeGroup();
		// sources: constants (all zero / all one / mixed / with undefined bits) and pins
		struct Src { hlim::NodePort port; char kind; size_t width; std::string value; };
		std::vector<Src> srcs;
		size_t nsrc = 1 + rng.below(4);
		for (size_t i = 0; i < nsrc; i++) {
			size_t w = rng.chance(1, 10) ? 0 : (rng.chance(1, 6) ? 60 + rng.below(80) : 1 + rng.below(12));
			unsigned cls = (unsigned) rng.below(6);
			std::string v;
			char kind = 'n';
			if (cls == 0) { v.assign(w, '0'); kind = 'z'; }
			else if (cls == 1) { v.assign(w, '1'); kind = w == 0 ? 'z' : 'o'; }
			else {
				bool withX = cls == 3 || cls == 5;
				for (size_t b = 0; b < w; b++) v.push_back(withX && rng.chance(1, 3) ? 'x' : (rng.chance(1, 2) ? '1' : '0'));
				bool allDef = v.find('x') == std::string::npos;
				if (cls <= 3) { // a constant that happens to be all zero / all one is classified as such
					if (allDef && v.find('1') == std::string::npos) kind = 'z';
					else if (allDef && v.find('0') == std::string::npos) kind = 'o';
				}
			}
			if (v.empty()) v = "-";
			hlim::NodePort port;
			if (cls <= 3 || w == 0) {
				auto *c = circ.createNode<hlim::Node_Constant>(vh::bitsFromString(v), hlim::ConnectionType{ .type = hlim::ConnectionType::BITVEC, .width = w });
				c->moveToGroup(grp);
				port = {.node = c, .port = 0};
			} else {
				UInt x = pinIn(BitWidth(w));
				port = x.readPort();
				kind = 'n';
			}
			srcs.push_back({port, kind, w, v});
		}
		// connection points: a source directly or through 1..2 signal nodes (each its own driver identity for the deduplication)
		struct Conn { hlim::NodePort port; size_t src; };
		std::vector<Conn> conns;
		for (size_t i = 0; i < srcs.size(); i++) {
			conns.push_back({srcs[i].port, i});
			size_t nsig = rng.below(3);
			hlim::NodePort p = srcs[i].port;
			for (size_t j = 0; j < nsig; j++) {
				auto *sig = circ.createNode<hlim::Node_Signal>();
				sig->moveToGroup(grp);
				sig->connectInput(p);
				p = {.node = sig, .port = 0};
				conns.push_back({p, i});
			}
		}
		size_t nin = rng.below(6);
		auto *rew = circ.createNode<hlim::Node_Rewire>(nin);
		rew->moveToGroup(grp);
		std::vector<int> inConn(nin, -1);
		for (size_t i = 0; i < nin; i++) {
			if (rng.chance(1, 12)) continue; // unconnected
			inConn[i] = (int) rng.below(conns.size());
			rew->connectInput(i, conns[inConn[i]].port);
		}
		hlim::Node_Rewire::RewireOperation op;
		size_t nr = rng.below(9);
		int prevIn = -1; size_t prevEnd = 0;
		for (size_t r = 0; r < nr; r++) {
			unsigned what = (unsigned) rng.below(10);
			if (what < 6 && nin > 0) {
				size_t idx = rng.below(nin);
				size_t width = inConn[idx] < 0 ? 8 : srcs[conns[inConn[idx]].src].width;
				size_t off = width ? rng.below(width) : 0;
				if (prevIn >= 0 && rng.chance(1, 2)) { // continue the previous range: same input port or another port with the same source
					if (rng.chance(2, 3)) idx = (size_t) prevIn;
					else for (size_t j = 0; j < nin; j++) if (inConn[j] >= 0 && inConn[prevIn] >= 0 && conns[inConn[j]].src == conns[inConn[prevIn]].src && rng.chance(1, 2)) { idx = j; break; }
					width = inConn[idx] < 0 ? 8 : srcs[conns[inConn[idx]].src].width;
					off = std::min(prevEnd, width);
				}
				size_t sub = rng.chance(1, 8) ? 0 : (width > off ? 1 + rng.below(std::min<size_t>(width - off, rng.chance(1, 4) ? 70 : 5)) : 0);
				op.ranges.push_back({.subwidth = sub, .source = hlim::Node_Rewire::OutputRange::INPUT, .inputIdx = idx, .inputOffset = off}); // not addInput: it skips width zero
				prevIn = (int) idx; prevEnd = off + sub;
			} else {
				auto t = what == 6 || what == 7 ? hlim::Node_Rewire::OutputRange::CONST_ZERO : what == 8 ? hlim::Node_Rewire::OutputRange::CONST_ONE : hlim::Node_Rewire::OutputRange::CONST_UNDEFINED;
				if (what < 6) t = hlim::Node_Rewire::OutputRange::CONST_ZERO;
				op.ranges.push_back({.subwidth = rng.chance(1, 8) ? 0 : 1 + rng.below(rng.chance(1, 5) ? 70 : 4), .source = t, .inputIdx = 0, .inputOffset = 0});
			}
		}
		bool outBool = false;
		if (nin > 0 && inConn[0] >= 0 && rng.chance(1, 4)) {
			// an identity tiling of input 0 (1..3 consecutive ranges), sometimes perturbed: what removeNoOps looks for
			op.ranges.clear();
			size_t w0 = srcs[conns[inConn[0]].src].width, off = 0, parts = 1 + rng.below(3);
			for (size_t pi = 0; pi < parts; pi++) {
				size_t sub = pi + 1 == parts ? w0 - off : rng.below(w0 - off + 1);
				op.ranges.push_back({.subwidth = sub, .source = hlim::Node_Rewire::OutputRange::INPUT, .inputIdx = 0, .inputOffset = off});
				off += sub;
			}
			unsigned pert = (unsigned) rng.below(8);
			if (pert == 0 && !op.ranges.empty()) op.ranges.back().subwidth += 1;                       // one bit too many
			else if (pert == 1 && op.ranges.back().subwidth > 0) op.ranges.back().subwidth -= 1;       // one bit short
			else if (pert == 2 && op.ranges.size() > 1) std::swap(op.ranges[0], op.ranges[1]);         // order
			else if (pert == 3 && nin > 1) op.ranges.front().inputIdx = 1;                             // other input
			else if (pert == 4) op.ranges.push_back({.subwidth = 1, .source = hlim::Node_Rewire::OutputRange::CONST_ZERO, .inputIdx = 0, .inputOffset = 0});
			else if (pert == 5) outBool = true;                                                        // output declared BOOL
		}
		rew->setOp(op);
		if (outBool) rew->changeOutputType({.type = hlim::ConnectionType::BOOL});
		// reading outside an input is undefined behaviour in the simulator; optimize() and isNoOp() do not look at the widths, but keep the operation legal
		for (auto &rg : rew->getOp().ranges)
			if (rg.source == hlim::Node_Rewire::OutputRange::INPUT && rg.inputIdx < nin && inConn[rg.inputIdx] >= 0 && rg.subwidth > 0 &&
				rg.inputOffset + rg.subwidth > srcs[conns[inConn[rg.inputIdx]].src].width) { out << "# case " << k << "rw skipped: range outside its input\n"; return; }
		bool implNoOp = rew->isNoOp();
		// identities of the directly connected drivers
		std::map<hlim::NodePort, size_t> ids;
		auto idOf = [&](hlim::NodePort p) { auto it = ids.find(p); if (it != ids.end()) return it->second; size_t id = ids.size(); ids[p] = id; return id; };
		o << "case " << k << "rw nodes=" << circ.getNodes().size() << '\n';
		o << "rwk "; if (nin == 0) o << '.'; for (size_t i = 0; i < nin; i++) { if (i) o << ','; o << (inConn[i] < 0 ? 'n' : srcs[conns[inConn[i]].src].kind); } o << '\n';
		o << "rwd "; if (nin == 0) o << '.'; for (size_t i = 0; i < nin; i++) { if (i) o << ','; if (inConn[i] < 0) o << '-'; else o << idOf(conns[inConn[i]].port); } o << '\n';
		for (size_t i = 0; i < nin; i++) if (inConn[i] >= 0) o << "rwv " << idOf(conns[inConn[i]].port) << ' ' << srcs[conns[inConn[i]].src].value << '\n';
		o << "rwr " << rangesToString(rew->getOp()) << '\n';
		o << "rwn " << implNoOp << ' ' << nin << ' ' << (nin > 0 && inConn[0] >= 0 ? std::to_string(srcs[conns[inConn[0]].src].width) : std::string("-")) << ' ' << (outBool ? 0 : 1) << '\n';
		rew->optimize();
		o << "rwod "; if (rew->getNumInputPorts() == 0) o << '.';
		for (size_t i = 0; i < rew->getNumInputPorts(); i++) {
			if (i) o << ',';
			auto d = rew->getDriver(i);
			if (!d.node) o << '-';
			else { auto it = ids.find(d); if (it == ids.end()) o << "?"; else o << it->second; }
		}
		o << '\n';
		o << "rwor " << rangesToString(rew->getOp()) << '\n';
		o << "rwe\nend\n";
		out << o.str();
	} catch (const std::exception &e) {
		std::string msg = e.what(); for (auto &ch : msg) if (ch == '\n') ch = ' ';
		out << "# case " << k << "rw not constructible: " << msg.substr(0, 160) << '\n';
	}
}

// Direct tie of Circuit::removeConstSelectMuxes: a multiplexer with a constant (or non-constant) selector behind 0..2 signal nodes, distinct
// pins as data inputs, an output pin as consumer; after the pass the consumer's driver tells whether and to which input the mux was bypassed.
static void runConstSelect(uint64_t k, Rng &rng, std::ostream &out) {
	std::ostringstream o;
	try {
		DesignScope design;
		auto &circ = design.getCircuit();
		auto *grp = circ.getRootNodeGroup();
		size_t w = 1 + rng.below(6), ndata = 1 + rng.below(5);
		std::vector<hlim::NodePort> data; std::vector<std::string> dataVals;
		for (size_t i = 0; i < ndata; i++) {
			UInt x = pinIn(BitWidth(w));
			auto rp = x.readPort(); hlim::NodePort np{.node = rp.node, .port = rp.port};
			if (dynamic_cast<hlim::Node_Signal*>(np.node)) np = np.node->getNonSignalDriver(0);
			data.push_back(np);
			std::string v; for (size_t b = 0; b < w; b++) v.push_back(rng.chance(1, 6) ? 'x' : (rng.chance(1, 2) ? '1' : '0')); dataVals.push_back(v);
		}
		std::string selTxt; hlim::NodePort selPort;
		if (rng.chance(1, 6)) { UInt sp = pinIn(BitWidth(1 + rng.below(3))); selPort = sp.readPort(); selTxt = "pin"; }
		else {
			size_t sw = rng.chance(1, 8) ? 0 : 1 + rng.below(4);
			std::string v; bool withX = rng.chance(1, 5);
			size_t val = rng.chance(2, 3) ? rng.below(ndata + 1) : rng.below(size_t(1) << sw);
			for (size_t b = sw; b-- > 0;) v.push_back(withX && rng.chance(1, 3) ? 'x' : (((val >> b) & 1) ? '1' : '0'));
			if (v.empty()) v = "-";
			auto *c = circ.createNode<hlim::Node_Constant>(vh::bitsFromString(v), hlim::ConnectionType{ .type = hlim::ConnectionType::BITVEC, .width = sw });
			c->moveToGroup(grp);
			selPort = {.node = c, .port = 0}; selTxt = v;
		}
		for (size_t j = rng.below(3); j-- > 0;) { auto *sig = circ.createNode<hlim::Node_Signal>(); sig->moveToGroup(grp); sig->connectInput(selPort); selPort = {.node = sig, .port = 0}; }
		auto *mux = circ.createNode<hlim::Node_Multiplexer>(ndata);
		mux->moveToGroup(grp);
		mux->connectSelector(selPort);
		for (size_t i = 0; i < ndata; i++) mux->connectInput(i, data[i]);
		UInt y = UInt(SignalReadPort(mux));
		auto outPin = pinOut(y);
		hlim::Subnet subnet = hlim::Subnet::all(circ);
		circ.removeConstSelectMuxes(subnet);
		auto d = outPin.node()->getNonSignalDriver(0);
		std::string res = "?";
		if (d.node == mux) res = "stay";
		else for (size_t i = 0; i < ndata; i++) if (d == data[i]) { res = std::to_string(i); break; }
		o << "case " << k << "cs nodes=" << circ.getNodes().size() << '\n';
		o << "cs " << selTxt << ' ' << w << ' ' << ndata;
		for (auto &v : dataVals) o << ' ' << v;
		o << " -> " << res << "\nend\n";
		out << o.str();
	} catch (const std::exception &e) {
		std::string msg = e.what(); for (auto &ch : msg) if (ch == '\n') ch = ' ';
		out << "# case " << k << "cs not constructible: " << msg.substr(0, 160) << '\n';
	}
}

int main(int argc, char **argv) {
	uint64_t seed = vh::argU64(argc, argv, 1, 1), ncases = vh::argU64(argc, argv, 2, 50), nsteps = vh::argU64(argc, argv, 3, 25), only = vh::argU64(argc, argv, 4, ~0ull);
	std::ios::sync_with_stdio(false);
	std::cout << "# prop=C01 seed=" << seed << " cases=" << ncases << " nsteps=" << nsteps << "\n";
	Rng top(seed * 0x100000001b3ull + 1);
	bool rewireMode = argc > 3 && std::string(argv[3]) == "rw";
	for (uint64_t k = 0; k < ncases; k++) {
		Rng rng = top.fork();
		if (only != ~0ull && k != only) continue;
		if (rewireMode) { if (rng.chance(1, 5)) runConstSelect(k, rng, std::cout); else runRewireOpt(k, rng, std::cout); continue; }
		vh::GenOpts go;
		go.nInputs = 2 + rng.below(4);
		go.nSteps = 3 + rng.below(nsteps);
		go.maxWidth = 1 + rng.below(6);
		go.regs = rng.chance(3, 4);
		go.wide = rng.chance(1, 6);
		go.undefinedConsts = rng.chance(1, 8);
		go.fullyDefined = rng.chance(2, 3);
		go.patternBias = rng.chance(1, 3) ? 30 : 8;
		vh::RecipeGen gen(rng, go);
		vh::Recipe recipe = gen.generate();
		bool withUndef = !go.fullyDefined && rng.chance(1, 2);
		uint64_t stimSeed = rng.next();
		size_t ncycles = 6 + rng.below(10);
		runOne(k, recipe, false, withUndef, stimSeed, ncycles, std::cout);
		runOne(k, recipe, true, withUndef, stimSeed, ncycles, std::cout);
	}
	return 0;
}
