// C01 harness: generated designs are simulated as constructed (reference trace), after every post-processing pass
// (through the GATERY_VERIF pass-boundary hook) and after the complete post-processing (default and minimal), on the same stimulus.
// Usage: c01 <seed> <ncases> <nsteps> [only-case]
#include <gatery/pch.h>
#include "designgen.h"
#include "netdump.h"
#include <gatery/hlim/Circuit.h>
#include <iostream>

using namespace gtry;
using vh::Rng;

struct Ctx {
	vh::Built *built = nullptr;
	vh::Stimulus *stim = nullptr;
	std::vector<std::vector<std::string>> *ref = nullptr;
	std::ostream *o = nullptr;
	size_t idx = 0;
	std::vector<std::vector<std::string>> prev;
};
static Ctx g_ctx;
static bool g_dumpNets = true;

static void printTrace(std::ostream &o, const char *tag, const std::string &prefix, const std::vector<std::vector<std::string>> &tr) {
	for (size_t c = 0; c < tr.size(); c++) {
		o << tag << ' ' << prefix << c;
		for (auto &v : tr[c]) o << ' ' << v;
		o << '\n';
	}
}

static void boundary(const char *pass, hlim::Circuit &circuit) {
	Ctx &c = g_ctx;
	size_t idx = c.idx++;
	try {
		auto tr = vh::simulate(circuit, *c.built, *c.stim);
		// the full trace is printed whenever it differs from the trace at the previous boundary, so that a violation is
		// attributed to the pass that introduced it
		if (tr == c.prev) { *c.o << "bd " << idx << ' ' << pass << (tr == *c.ref ? " same\n" : " unchanged\n"); return; }
		c.prev = tr;
		if (tr == *c.ref) { *c.o << "bd " << idx << ' ' << pass << " same\n"; return; }
		*c.o << "bd " << idx << ' ' << pass << " diff\n";
		printTrace(*c.o, "bt", std::to_string(idx) + " ", tr);
	} catch (const std::exception &e) {
		std::string msg = e.what(); for (auto &ch : msg) if (ch == '\n' || ch == ' ') ch = '_';
		*c.o << "bd " << idx << ' ' << pass << " nosim " << msg.substr(0, 80) << '\n';
	}
}


// Backbone tie: dump the netlist (cone of the output pins, registers cut) in the form Gatery.Nodes understands and the value of
// every dumped node at every sample point, so that the driver can re-evaluate each node with the Lean node semantics.
static void dumpNetAndValues(const char *tag, hlim::Circuit &circuit, const vh::Built &b, const vh::Stimulus &st, std::ostream &o) {
	vh::Net net;
	for (auto *p : b.outPins) net.visit(p->getDriver(0).node);
	net.visitRegInputs();
	if (net.order.size() > 600) { o << "netskip " << tag << " too-large\n"; return; }
	std::map<hlim::Node_Pin*, int> pinIdx;
	for (size_t i = 0; i < b.inPins.size(); i++) pinIdx[b.inPins[i]] = (int) i;
	std::ostringstream body;
	bool known = net.dump(body, pinIdx);
	if (!known) { o << "netskip " << tag << " unmodelled-node-kind\n"; return; }
	for (size_t i = 0; i < net.order.size(); i++) // a rewire range outside its input or a >= 64 bit shift amount is UB in the simulator: not produced by designgen, but do not evaluate such nets
		if (auto *r = dynamic_cast<hlim::Node_Rewire*>(net.order[i]))
			for (const auto &rg : r->getOp().ranges)
				if (rg.source == hlim::Node_Rewire::OutputRange::INPUT && rg.subwidth > 0) {
					auto d = r->getDriver(rg.inputIdx);
					if (d.node && (rg.inputOffset > hlim::getOutputWidth(d) || rg.subwidth > hlim::getOutputWidth(d) - rg.inputOffset)) { o << "netskip " << tag << " unsafe-rewire\n"; return; }
				}
	o << "netbegin " << tag << '\n' << body.str();
	o << "nouts";
	for (auto *p : b.outPins) { auto d = p->getDriver(0); o << ' ' << (d.node ? net.index[d.node] : -1); }
	o << "\nnetend " << tag << '\n';
	sim::ReferenceSimulator sim(false);
	sim.compileProgram(circuit);
	sim.powerOn();
	hlim::ClockRational period = hlim::ClockRational(1, 1) / b.clock->absoluteFrequency();
	sim.advance(period / hlim::ClockRational(4, 1));
	for (size_t c = 0; c < st.cycles.size(); c++) {
		for (size_t i = 0; i < b.inPins.size(); i++)
			sim.simProcSetInputPin(b.inPins[i], sim::convertToExtended(vh::bitsFromString(st.cycles[c][i])));
		sim.reevaluate();
		{ // is the clock's reset asserted at this sample point?
			auto r = sim.getValueOfReset(b.clock->getClk());
			bool asserted = r[sim::DefaultConfig::DEFINED] && (r[sim::DefaultConfig::VALUE] == (b.clock->getClk()->getRegAttribs().resetActive == hlim::RegisterAttributes::Active::HIGH));
			o << "nr " << tag << ' ' << c << ' ' << (asserted ? 1 : 0) << '\n';
		}
		o << "nv " << tag << ' ' << c;
		for (auto *n : net.order) {
			if (n->getNumOutputPorts() == 0 || sim.outputOptimizedAway({.node = n, .port = 0})) { o << " ?"; continue; }
			o << ' ' << vh::bitsToString(sim.getValueOfOutput({.node = n, .port = 0}));
		}
		o << '\n';
		sim.advance(period);
	}
}

static bool runOne(uint64_t k, const vh::Recipe &recipe, bool minimal, bool withUndef, uint64_t stimSeed, size_t ncycles, std::ostream &out) {
	std::ostringstream o;
	try {
		DesignScope design;
		vh::Built b = vh::build(recipe);
		Rng srng(stimSeed);
		vh::Stimulus st = vh::genStimulus(srng, b.inWidths, ncycles, withUndef);
		o << "case " << k << (minimal ? "m" : "d") << " pp=" << (minimal ? "minimal" : "default") << " undef=" << withUndef << " nodes=" << design.getCircuit().getNodes().size() << '\n';
		o << recipe.toString();
		o << "inw"; for (auto w : b.inWidths) o << ' ' << w; o << '\n';
		o << "outw"; for (auto w : b.outWidths) o << ' ' << w; o << '\n';
		for (size_t c = 0; c < st.cycles.size(); c++) { o << "stim " << c; for (auto &v : st.cycles[c]) o << ' ' << v; o << '\n'; }
		bool adef = !withUndef;
		auto ref = vh::simulate(design.getCircuit(), b, st, &adef);
		o << "adef " << adef << '\n';
		printTrace(o, "ref", "", ref);
		if (g_dumpNets) dumpNetAndValues("A", design.getCircuit(), b, st, o);
		g_ctx = Ctx{&b, &st, &ref, &o, 0, ref};
		hlim::verif_passBoundary = &boundary;
		try {
			if (minimal) design.getCircuit().postprocess(hlim::MinimalPostprocessing{}); else design.postprocess();
		} catch (const std::exception &e) {
			hlim::verif_passBoundary = nullptr;
			std::string msg = e.what(); for (auto &ch : msg) if (ch == '\n') ch = ' ';
			o << "ppfail " << msg.substr(0, 200) << "\nend\n";
			out << o.str();
			return true;
		}
		hlim::verif_passBoundary = nullptr;
		auto fin = vh::simulate(design.getCircuit(), b, st);
		o << "nodes_after " << design.getCircuit().getNodes().size() << '\n';
		printTrace(o, "fin", "", fin);
		if (g_dumpNets) { try { dumpNetAndValues("B", design.getCircuit(), b, st, o); } catch (const std::exception &e) { o << "netskip B exception\n"; } }
		o << "end\n";
		out << o.str();
		return true;
	} catch (const std::exception &e) {
		hlim::verif_passBoundary = nullptr;
		std::string msg = e.what(); for (auto &ch : msg) if (ch == '\n') ch = ' ';
		out << "# case " << k << " not constructible: " << msg.substr(0, 160) << '\n';
		return false;
	}
}

int main(int argc, char **argv) {
	uint64_t seed = vh::argU64(argc, argv, 1, 1), ncases = vh::argU64(argc, argv, 2, 50), nsteps = vh::argU64(argc, argv, 3, 25), only = vh::argU64(argc, argv, 4, ~0ull);
	std::ios::sync_with_stdio(false);
	std::cout << "# prop=C01 seed=" << seed << " cases=" << ncases << " nsteps=" << nsteps << "\n";
	Rng top(seed * 0x100000001b3ull + 1);
	for (uint64_t k = 0; k < ncases; k++) {
		Rng rng = top.fork();
		if (only != ~0ull && k != only) continue;
		vh::GenOpts go;
		go.nInputs = 2 + rng.below(4);
		go.nSteps = 3 + rng.below(nsteps);
		go.maxWidth = 1 + rng.below(6);
		go.regs = rng.chance(3, 4);
		go.wide = rng.chance(1, 6);
		go.undefinedConsts = rng.chance(1, 8);
		go.fullyDefined = rng.chance(2, 3);
		go.patternBias = rng.chance(1, 3) ? 30 : 8;
		vh::RecipeGen gen(rng, go);
		vh::Recipe recipe = gen.generate();
		bool withUndef = !go.fullyDefined && rng.chance(1, 2);
		uint64_t stimSeed = rng.next();
		size_t ncycles = 6 + rng.below(10);
		runOne(k, recipe, false, withUndef, stimSeed, ncycles, std::cout);
		runOne(k, recipe, true, withUndef, stimSeed, ncycles, std::cout);
	}
	return 0;
}
