// C02 harness: generated designs are post-processed, exported with the REAL VHDL exporter (single file / file per entity /
// file per partition) while a FileBasedTestbenchRecorder records the SET/CHECK/ADV/RST vectors of a reference-simulator run
// driven by a simulation process.  The exported files, the recorded vectors and the testbench are printed inline (every payload
// line prefixed "| "); lean/Driver/C02.lean parses the files with the Lean VHDL parser, interprets them under the recorded
// stimulus and checks every CHECK line.  The scratch directory lives under /var/tmp and is removed after each case.
//
// usage: c02 <seed> <ncases> <nsteps> [flags] [only-case (-1 = all)] [long-run cycles (0 = 6..17 cycles)]
//   flags (bit mask, default 0xff): 1 hierarchy (Area entities)  2 reset kinds/polarity  4 falling/both-edge clocks  8 output modes
//                                   16 extra blocks (memories, tristate pins, wide arithmetic)  32 undefined stimuli (half of the cases)
//                                   64 first stimuli issued at power-on, before any simulator event (half of the cases)
//                                   256 clock frequencies incl. periods that are not a whole number of ps (300/150/600/3 MHz, 700/3 MHz, 1/7 GHz, 7/3 Hz)
//                                   512 half of the single-edge runs end 100 ps behind a clock edge with reads made right after that edge
//                                   1024 read/write addresses of non power-of-two memories are not reduced modulo the depth
//                                   128 bidirectional pins released with 'Z' by the simulation process while the design drives (half of the cases)
#include <gatery/pch.h>
#include "designgen.h"
#include <gatery/hlim/Circuit.h>
#include <gatery/hlim/NodeGroup.h>
#include <gatery/hlim/Clock.h>
#include <gatery/export/vhdl/VHDLExport.h>
#include <gatery/scl/synthesisTools/GHDL.h>
#include <gatery/simulation/ReferenceSimulator.h>
#include <gatery/export/vhdl/AST.h>
#include <gatery/export/vhdl/Entity.h>
#include <gatery/export/vhdl/Block.h>
#include <gatery/export/vhdl/Process.h>
#include <gatery/export/vhdl/GenericMemoryEntity.h>
#include <gatery/hlim/coreNodes/Node_Signal.h>
#include <gatery/hlim/coreNodes/Node_Logic.h>
#include <gatery/hlim/coreNodes/Node_Arithmetic.h>
#include <gatery/hlim/coreNodes/Node_Compare.h>
#include <gatery/hlim/coreNodes/Node_Rewire.h>
#include <gatery/hlim/coreNodes/Node_Constant.h>
#include <gatery/hlim/coreNodes/Node_Multiplexer.h>
#include <gatery/hlim/coreNodes/Node_PriorityConditional.h>
#include <gatery/hlim/coreNodes/Node_Register.h>
#include <gatery/hlim/coreNodes/Node_Pin.h>
#include <gatery/hlim/supportNodes/Node_ExportOverride.h>
#include <gatery/hlim/supportNodes/Node_Attributes.h>
#include <iostream>
#include <fstream>
#include <filesystem>
#include <unistd.h>

using namespace gtry;
using vh::Rng;
namespace fs = std::filesystem;

struct Opts {
	unsigned resetKind = 1;   // 0 none, 1 synchronous, 2 asynchronous
	bool resetLow = false;
	unsigned trigger = 0;     // 0 rising, 1 falling, 2 both
	unsigned mode = 0;        // 0 single file, 1 file per entity, 2 file per partition
	bool areas = false, names = false;
	unsigned style = 0;       // 0: set, OnClk, read (classic)  1: set, WaitFor(1/3), read, WaitFor(1/3), read, OnClk  2: set, WaitStable, read, OnClk
	bool undefStim = false;
	unsigned freq = 0;        // index into kFrequencies (0 = 100 MHz); several have a period that is not a whole number of ps
	bool endBehindEdge = false; // the run ends 100 ps behind a clock edge with reads made right after that edge (vectors a few ps behind an edge)
	bool oobAddresses = false; // addresses of non power-of-two memories may exceed the depth
	bool triNaive = false;    // bidirectional pin: the simulation process releases the pin with 'Z' while the design drives it
	bool setAtPowerOn = false; // first SETs are issued at power-on (time 0, outside the event loop) instead of after a short wait
	unsigned extra = 0;       // bit mask of extra parts: 1 wide arithmetic, 2 memory, 4 tristate pin, 8 BLOCK (area with an entity inside), 16 shapes of fixed findings, 32 second edge domain (derived clock, same pin, other trigger edge), 64 ROM/RAM with partly defined power-on words, 128 ROM/RAM with read latency 2..3 and per-stage enables, 256 derived clock differing in one RegisterConfig field
	uint64_t extraSeed = 0;
};

// clock frequencies (Hz as a rational): 100 / 125 / 200 MHz have whole-ps periods and half periods; for the others the recorder's
// ADV values (whole ps, remainder carried) and the test bench's `WAIT FOR <half period truncated to fs>` are inexact
static const std::pair<uint64_t, uint64_t> kFrequencies[] = {
	{100'000'000, 1}, {125'000'000, 1}, {200'000'000, 1}, {300'000'000, 1}, {150'000'000, 1}, {600'000'000, 1}, {3'000'000, 1}, {700'000'000, 3}, {1'000'000'000, 7}, {7, 3} };

// ---------------------------------------------------------------------------------------------------------------------
// extra blocks built next to the designgen recipe (own pins, named x_*)

struct Extra {
	std::vector<hlim::Node_Pin*> inPins; std::vector<size_t> inWidths;
	int triPin = -1, triEnable = -1; // indices into inPins: bidirectional pin and its output-enable input
	std::vector<std::pair<int, size_t>> addrPins; // (index into inPins, memory depth): defined stimuli are reduced modulo the depth
	int lateWriteEnable = -1;     // index into inPins of a write enable that stays '0' during the first half of the run (reads before any write)
	std::vector<hlim::Node_Pin*> outPins; std::vector<size_t> outWidths;
	std::string desc;
};

template<class T> static hlim::Node_Pin *pinOf(T &v) { return dynamic_cast<hlim::Node_Pin*>(v.node()->getNonSignalDriver(0).node); }

static void addIn(Extra &x, Bit &b) { x.inPins.push_back(pinOf(b)); x.inWidths.push_back(0); }
static void addIn(Extra &x, UInt &v) { x.inPins.push_back(pinOf(v)); x.inWidths.push_back(v.size()); }

static void buildExtras(Extra &x, const Opts &o, const Clock &clock)
{
	Rng rng(o.extraSeed);
	ClockScope scope(clock);
	if (o.extra & 1) { // wide arithmetic and compare
		size_t w = 30 + rng.below(100);
		UInt a = pinIn(BitWidth(w)).setName("x_wa"); UInt b = pinIn(BitWidth(w)).setName("x_wb");
		addIn(x, a); addIn(x, b);
		UInt s = a + b; UInt d = a - b; Bit lt = a < b; Bit eq = a == b;
		size_t mw = 4 + rng.below(40);
		UInt m = a(0, BitWidth(mw)) * b(0, BitWidth(mw));
		auto p1 = pinOut(s).setName("x_wsum"); auto p2 = pinOut(d).setName("x_wdiff"); auto p3 = pinOut(lt).setName("x_wlt"); auto p4 = pinOut(eq).setName("x_weq"); auto p5 = pinOut(m).setName("x_wmul");
		x.outPins.insert(x.outPins.end(), {p1.node(), p2.node(), p3.node(), p4.node(), p5.node()});
		x.outWidths.insert(x.outWidths.end(), {w, w, 0, 0, mw});
		x.desc += " wide=" + std::to_string(w) + "/" + std::to_string(mw);
	}
	if (o.extra & 2) { // memory: one write port, one read port (asynchronous or registered read)
		size_t aw = 1 + rng.below(5), dw = 1 + rng.below(12);
		bool syncRead = rng.chance(1, 2); bool init = rng.chance(1, 2);
		Memory<UInt> mem(size_t(1) << aw, UInt(BitWidth(dw)));
		if (!syncRead) mem.setType(MemType::DONT_CARE, 0);
		if (init) { // power-on content
			sim::DefaultBitVectorState st; st.resize((size_t(1) << aw) * dw);
			for (size_t i = 0; i < st.size(); i++) { st.set(sim::DefaultConfig::DEFINED, i, true); st.set(sim::DefaultConfig::VALUE, i, rng.chance(1, 2)); }
			mem.fillPowerOnState(st);
		}
		UInt wa = pinIn(BitWidth(aw)).setName("x_mwa"); UInt wd = pinIn(BitWidth(dw)).setName("x_mwd"); Bit we = pinIn().setName("x_mwe"); UInt ra = pinIn(BitWidth(aw)).setName("x_mra");
		addIn(x, wa); addIn(x, wd); addIn(x, we); addIn(x, ra);
		IF (we) mem[wa] = wd;
		UInt rd = mem[ra];
		if (syncRead) rd = reg(rd, {.allowRetimingBackward = true});
		auto p = pinOut(rd).setName("x_mrd"); x.outPins.push_back(p.node()); x.outWidths.push_back(dw);
		x.desc += std::string(" mem=") + std::to_string(aw) + "x" + std::to_string(dw) + (syncRead ? "s" : "a") + (init ? "i" : "");
	}
	if (o.extra & 64) {
		// ROM / RAM on the generic memory path (no target device) whose power-on content is PARTLY defined per word: every word is fully defined,
		// has some undefined bits or is fully undefined; depths include non powers of two; two read ports (both asynchronous or both registered)
		// whose data go straight to output pins x_rrd0 / x_rrd1 — with defined addresses such a read returns the stored word exactly, bit by bit
		// (the driver treats a mismatch on these pins as a violation even though the reference run holds undefined values); a RAM is not written
		// during the first half of the run.
		size_t depth = 2 + rng.below(9), dw = 2 + rng.below(9);
		size_t aw = 1; while ((size_t(1) << aw) < depth) aw++;
		bool rom = rng.chance(1, 2), syncRead = rng.chance(1, 2);
		Memory<UInt> mem(depth, UInt(BitWidth(dw)));
		if (!syncRead) mem.setType(MemType::DONT_CARE, 0);
		sim::DefaultBitVectorState st; st.resize(depth * dw);
		std::string shape;
		for (size_t wd = 0; wd < depth; wd++) {
			unsigned mode = (unsigned) rng.below(4); // 0,1: all defined  2: some undefined  3: all undefined
			shape.push_back(mode < 2 ? 'd' : mode == 2 ? 'p' : 'u');
			for (size_t i = 0; i < dw; i++) {
				bool def = mode < 2 || (mode == 2 && rng.chance(1, 2));
				if (mode == 2 && i == 0) def = true;          // a partly defined word has at least one defined
				if (mode == 2 && i == dw - 1) def = false;    // and one undefined bit
				st.set(sim::DefaultConfig::DEFINED, wd * dw + i, def); st.set(sim::DefaultConfig::VALUE, wd * dw + i, def && rng.chance(1, 2));
			}
		}
		mem.fillPowerOnState(st);
		UInt ra0 = pinIn(BitWidth(aw)).setName("x_rra0"); UInt ra1 = pinIn(BitWidth(aw)).setName("x_rra1");
		addIn(x, ra0); x.addrPins.push_back({(int) x.inPins.size() - 1, depth}); addIn(x, ra1); x.addrPins.push_back({(int) x.inPins.size() - 1, depth});
		if (!rom) {
			UInt wa = pinIn(BitWidth(aw)).setName("x_rwa"); UInt wdat = pinIn(BitWidth(dw)).setName("x_rwd"); Bit we = pinIn().setName("x_rwe");
			addIn(x, wa); x.addrPins.push_back({(int) x.inPins.size() - 1, depth}); addIn(x, wdat); addIn(x, we); x.lateWriteEnable = (int) x.inPins.size() - 1;
			IF (we) mem[wa] = wdat;
		}
		UInt rd0 = mem[ra0]; UInt rd1 = mem[ra1];
		if (syncRead) { rd0 = reg(rd0, {.allowRetimingBackward = true}); rd1 = reg(rd1, {.allowRetimingBackward = true}); }
		auto p0 = pinOut(rd0).setName("x_rrd0"); auto p1 = pinOut(rd1).setName("x_rrd1");
		x.outPins.insert(x.outPins.end(), {p0.node(), p1.node()}); x.outWidths.insert(x.outWidths.end(), {dw, dw});
		x.desc += std::string(" pmem=") + std::to_string(depth) + "x" + std::to_string(dw) + (rom ? "rom" : "ram") + (syncRead ? "s" : "a") + ":" + shape;
	}
	if (o.extra & 256) {
		// a derived clock that shares clock pin AND reset pin with the root but differs in exactly ONE field of the exporter's RegisterConfig
		// (the key that groups registers, memory write ports and read-latency registers into clocked processes): reset polarity, reset type
		// (synchronous / asynchronous / none) or trigger edge; registers with and without enable in both domains in the top entity, and a
		// memory written in the root domain whose two registered read ports (with reset values) sit in the two domains. The power-on reset
		// sequence of the reference simulator exercises both levels of the reset pin.
		auto *rootClk = clock.getClk();
		auto rootType = rootClk->getRegAttribs().resetType;
		bool rootHigh = rootClk->getRegAttribs().resetActive == hlim::RegisterAttributes::Active::HIGH;
		unsigned field = rootType == hlim::RegisterAttributes::ResetType::NONE ? 2 : (unsigned) rng.below(3); // 0 polarity, 1 reset type, 2 trigger edge
		ClockConfig cfg;
		std::string what;
		if (field == 0) { cfg.resetActive = rootHigh ? ClockConfig::ResetActive::LOW : ClockConfig::ResetActive::HIGH; what = "pol"; }
		else if (field == 1) {
			bool toNone = rng.chance(1, 3);
			cfg.resetType = toNone ? ClockConfig::ResetType::NONE : rootType == hlim::RegisterAttributes::ResetType::SYNCHRONOUS ? ClockConfig::ResetType::ASYNCHRONOUS : ClockConfig::ResetType::SYNCHRONOUS;
			what = toNone ? "rtnone" : "rtype";
		} else {
			auto t = rootClk->getTriggerEvent();
			cfg.triggerEvent = t == hlim::Clock::TriggerEvent::RISING ? hlim::Clock::TriggerEvent::FALLING : hlim::Clock::TriggerEvent::RISING;
			what = "edge";
		}
		Clock der = clock.deriveClock(cfg);
		size_t w = 2 + rng.below(5);
		auto rv = [&]() { return ConstUInt(rng.below(size_t(1) << w), BitWidth(w)); };
		UInt a = pinIn(BitWidth(w)).setName("x_ka"); Bit en = pinIn().setName("x_ken");
		addIn(x, a); addIn(x, en);
		bool enRoot = rng.chance(1, 2), enDer = rng.chance(1, 2), withMem = rng.chance(1, 2);
		UInt r1, r2, r3, m0, m1;
		{ std::optional<EnableScope> es; if (enRoot) es.emplace(en); r1 = reg(a, rv()); }
		{ ClockScope ds(der); std::optional<EnableScope> es; if (enDer) es.emplace(en); r2 = reg(a ^ r1, rv()); }
		{ ClockScope ds(der); r3 = reg(r2 + a, rv()); }
		auto p1 = pinOut(r1).setName("x_kr1"); auto p2 = pinOut(r2).setName("x_kr2"); auto p3 = pinOut(r3).setName("x_kr3");
		x.outPins.insert(x.outPins.end(), {p1.node(), p2.node(), p3.node()}); x.outWidths.insert(x.outWidths.end(), {w, w, w});
		if (withMem) {
			Memory<UInt> mem(4, UInt(BitWidth(w)));
			sim::DefaultBitVectorState st; st.resize(4 * w);
			for (size_t i = 0; i < st.size(); i++) { st.set(sim::DefaultConfig::DEFINED, i, true); st.set(sim::DefaultConfig::VALUE, i, rng.chance(1, 2)); }
			mem.fillPowerOnState(st);
			UInt wa = pinIn(2_b).setName("x_kwa"); UInt ra = pinIn(2_b).setName("x_kra");
			addIn(x, wa); addIn(x, ra);
			IF (en) mem[wa] = a;
			UInt rd0 = mem[ra]; UInt rd1 = mem[wa];
			m0 = reg(rd0, rv(), {.allowRetimingBackward = true});
			{ ClockScope ds(der); m1 = reg(rd1, rv(), {.allowRetimingBackward = true}); }
			auto p4 = pinOut(m0).setName("x_km0"); auto p5 = pinOut(m1).setName("x_km1");
			x.outPins.insert(x.outPins.end(), {p4.node(), p5.node()}); x.outWidths.insert(x.outWidths.end(), {w, w});
		}
		x.desc += " cfgtwin=" + what + std::to_string(w) + (enRoot ? "e" : "") + (enDer ? "E" : "") + (withMem ? "m" : "");
	}
	if (o.extra & 128) {
		// generic ROM / RAM with 2..3 cycles of read latency whose read-latency registers sit under enable scopes chosen PER STAGE
		// (different enables, the same enable, or none), enables driven independently by the stimulus; fully defined power-on content;
		// the read data go straight to pin x_rrdl (exact read pin, see extra 64)
		size_t aw = 2 + rng.below(3), dw = 2 + rng.below(9), latency = 2 + rng.below(2);
		bool rom = rng.chance(1, 2);
		Memory<UInt> mem(size_t(1) << aw, UInt(BitWidth(dw)));
		mem.setType(MemType::MEDIUM, latency);
		sim::DefaultBitVectorState st; st.resize((size_t(1) << aw) * dw);
		for (size_t i = 0; i < st.size(); i++) { st.set(sim::DefaultConfig::DEFINED, i, true); st.set(sim::DefaultConfig::VALUE, i, rng.chance(1, 2)); }
		mem.fillPowerOnState(st);
		UInt ra = pinIn(BitWidth(aw)).setName("x_lra"); addIn(x, ra);
		std::vector<Bit> ens;
		for (size_t i = 0; i < 3; i++) { Bit e = pinIn().setName("x_len" + std::to_string(i)); addIn(x, e); ens.push_back(e); }
		if (!rom) {
			UInt wa = pinIn(BitWidth(aw)).setName("x_lwa"); UInt wdat = pinIn(BitWidth(dw)).setName("x_lwd"); Bit we = pinIn().setName("x_lwe");
			addIn(x, wa); addIn(x, wdat); addIn(x, we);
			IF (we) mem[wa] = wdat;
		}
		UInt rd = mem[ra];
		std::string shape;
		unsigned ramSel = (unsigned) rng.below(4);
		for (size_t stg = 0; stg < latency; stg++) {
			// a RAM's read-during-write hazard logic is retimed over these registers: gatery rejects stages with different enables there
			// ("A retiming error occured"), so a RAM uses one enable (or none) for all stages, a ROM any mix
			unsigned sel = rom ? (unsigned) rng.below(4) : ramSel; // 0: no enable, 1..3: enable pin sel-1
			shape.push_back(sel ? char('0' + sel - 1) : '-');
			std::optional<EnableScope> es; if (sel) es.emplace(ens[sel - 1]);
			rd = reg(rd, {.allowRetimingBackward = true});
		}
		auto p = pinOut(rd).setName("x_rrdl"); x.outPins.push_back(p.node()); x.outWidths.push_back(dw);
		x.desc += std::string(" lmem=") + std::to_string(aw) + "x" + std::to_string(dw) + (rom ? "rom" : "ram") + "L" + std::to_string(latency) + ":" + shape;
	}
	if (o.extra & 8) { // a plain area that contains an entity and logic of its own: exported as a BLOCK with local signals
		size_t w = 1 + rng.below(6);
		UInt a = pinIn(BitWidth(w)).setName("x_ba"); UInt b = pinIn(BitWidth(w)).setName("x_bb"); Bit c = pinIn().setName("x_bc");
		addIn(x, a); addIn(x, b); addIn(x, c);
		UInt res = ConstUInt(0, BitWidth(w));
		{
			GroupScope blk(GroupScope::GroupType::AREA, "x_blk"); // NodeGroupType::AREA with an entity inside: Entity::buildFrom makes a Block
			UInt t = a ^ b;
			UInt inner;
			{
				Area ent("x_inner", true);
				inner = reg(t + a, ConstUInt(1, BitWidth(w)));
				IF (c) inner = ~inner;
			}
			res = inner | t;
		}
		auto p = pinOut(res).setName("x_bres"); x.outPins.push_back(p.node()); x.outWidths.push_back(w);
		x.desc += " block=" + std::to_string(w);
	}
	if (o.extra & 16) { // the shapes of two fixed findings: bit 0 of a one bit wide sum; a register that directly drives an OUT port of a sub-entity
		UInt a = pinIn(1_b).setName("x_fa"); Bit d = pinIn().setName("x_fd");
		addIn(x, a); addIn(x, d);
		UInt s = a + a;
		Bit b0 = s[0];
		Bit q;
		{ Area sub("x_sub", true); q = reg(d ^ b0, '1'); }
		auto p1 = pinOut(b0).setName("x_fb0"); auto p2 = pinOut(q).setName("x_fq");
		x.outPins.insert(x.outPins.end(), {p1.node(), p2.node()}); x.outWidths.insert(x.outWidths.end(), {0, 0});
		x.desc += " f45";
	}
	if (o.extra & 32) {
		// a second edge domain on the SAME clock pin: a derived clock that overrides the trigger event (root RISING -> derived FALLING, root
		// FALLING -> derived RISING, root both edges -> either), as scl::detectSingleEnded / analyzePhaseAlignment do. Registers with enables and
		// reset values in both domains, data crossing root -> derived -> root and derived -> derived, a memory written (and optionally read
		// through a register) in the derived domain.
		auto rootTrig = clock.getClk()->getTriggerEvent();
		auto derTrig = rootTrig == hlim::Clock::TriggerEvent::RISING ? hlim::Clock::TriggerEvent::FALLING
			: rootTrig == hlim::Clock::TriggerEvent::FALLING ? hlim::Clock::TriggerEvent::RISING
			: (rng.chance(1, 2) ? hlim::Clock::TriggerEvent::RISING : hlim::Clock::TriggerEvent::FALLING);
		Clock der = clock.deriveClock(ClockConfig{.triggerEvent = derTrig});
		size_t w = 2 + rng.below(6);
		auto rv = [&]() { return ConstUInt(rng.below(size_t(1) << w), BitWidth(w)); };
		UInt a = pinIn(BitWidth(w)).setName("x_ea"); Bit enR = pinIn().setName("x_eenr"); Bit enD = pinIn().setName("x_eend");
		addIn(x, a); addIn(x, enR); addIn(x, enD);
		UInt r1, r2, r2b, r3, mrd;
		bool enOnRoot = rng.chance(1, 2), enOnDer = rng.chance(2, 3), withMem = rng.chance(1, 2), memSync = rng.chance(1, 2);
		{ std::optional<EnableScope> es; if (enOnRoot) es.emplace(enR); r1 = reg(a, rv()); }                       // root domain
		{
			ClockScope ds(der);
			{ std::optional<EnableScope> es; if (enOnDer) es.emplace(enD); r2 = reg(r1 ^ a, rv()); }               // root -> derived
			r2b = reg(r2 + r1, rv());                                                                               // derived -> derived (and root -> derived)
			if (withMem) {
				Memory<UInt> mem(4, UInt(BitWidth(w)));
				if (!memSync) mem.setType(MemType::DONT_CARE, 0);
				sim::DefaultBitVectorState st; st.resize(4 * w);
				for (size_t i = 0; i < st.size(); i++) { st.set(sim::DefaultConfig::DEFINED, i, true); st.set(sim::DefaultConfig::VALUE, i, rng.chance(1, 2)); }
				mem.fillPowerOnState(st);
				UInt wa = pinIn(2_b).setName("x_ewa"); UInt ra = pinIn(2_b).setName("x_era");
				addIn(x, wa); addIn(x, ra);
				IF (enD) mem[wa] = r1;                                                                              // write port clocked by the derived clock
				mrd = mem[ra];
				if (memSync) mrd = reg(mrd, {.allowRetimingBackward = true});
			}
		}
		r3 = reg(r2b | r2, rv());                                                                                   // derived -> root
		auto p1 = pinOut(r1).setName("x_er1"); auto p2 = pinOut(r2).setName("x_er2"); auto p3 = pinOut(r2b).setName("x_er2b"); auto p4 = pinOut(r3).setName("x_er3");
		x.outPins.insert(x.outPins.end(), {p1.node(), p2.node(), p3.node(), p4.node()}); x.outWidths.insert(x.outWidths.end(), {w, w, w, w});
		if (withMem) { auto p5 = pinOut(mrd).setName("x_emrd"); x.outPins.push_back(p5.node()); x.outWidths.push_back(w); }
		x.desc += std::string(" edges=") + (derTrig == hlim::Clock::TriggerEvent::RISING ? "R" : "F") + std::to_string(w) + (enOnRoot ? "e" : "") + (enOnDer ? "E" : "") + (withMem ? (memSync ? "ms" : "ma") : "");
	}
	if (o.extra & 4) { // tristate pin
		size_t w = rng.below(3) == 0 ? 0 : 1 + rng.below(6);
		Bit en = pinIn().setName("x_ten"); addIn(x, en); x.triEnable = (int) x.inPins.size() - 1;
		if (w == 0) {
			Bit v = pinIn().setName("x_tv"); addIn(x, v);
			Bit back = tristatePin(v, en).setName("x_tri");
			addIn(x, back); x.triPin = (int) x.inPins.size() - 1;
			auto p = pinOut(back).setName("x_tback"); x.outPins.push_back(p.node()); x.outWidths.push_back(0);
		} else {
			UInt v = pinIn(BitWidth(w)).setName("x_tv"); addIn(x, v);
			UInt back = tristatePin(v, en).setName("x_tri");
			addIn(x, back); x.triPin = (int) x.inPins.size() - 1;
			auto p = pinOut(back).setName("x_tback"); x.outPins.push_back(p.node()); x.outWidths.push_back(w);
		}
		x.desc += " tri=" + std::to_string(w);
	}
}

// ---------------------------------------------------------------------------------------------------------------------
// dump of the exporter's view of every process (what formatExpression / writeVHDL work on): declared names and types of the
// process' inputs / outputs / locals / constants, the nodes, the register configuration.  Protected members are read through
// member pointers obtained in derived classes (no change to gatery needed).

struct BBAccess : vhdl::BasicBlock { static auto procs() { return &BBAccess::m_processes; } static auto consts() { return &BBAccess::m_constants; } };
struct PrAccess : vhdl::Process { static auto nodes() { return &PrAccess::m_nodes; } static auto consts() { return &PrAccess::m_constants; } static auto name() { return &PrAccess::m_name; } };
struct RpAccess : vhdl::RegisterProcess { static auto cfg() { return &RpAccess::m_config; } };

static const char *dtName(vhdl::VHDLDataType t) {
	switch (t) { case vhdl::VHDLDataType::BOOL: return "BOOL"; case vhdl::VHDLDataType::STD_LOGIC: return "SL"; case vhdl::VHDLDataType::STD_LOGIC_VECTOR: return "SLV"; case vhdl::VHDLDataType::UNSIGNED: return "UNS"; default: return "OTHER"; }
}
static std::string npStr(const hlim::NodePort &np) { return np.node ? std::to_string(np.node->getId()) + ":" + std::to_string(np.port) : std::string("-"); }
static std::string ctStr(const hlim::ConnectionType &ct) { return (ct.isBool() ? "B" : ct.isBitVec() ? "V" : "O") + std::to_string(ct.width); }

static void dumpNode(std::ostream &o, hlim::BaseNode *n)
{
	o << "xnode " << n->getId() << ' ';
	std::ostringstream extra;
	std::string kind = "other";
	if (dynamic_cast<hlim::Node_Signal*>(n)) kind = "signal";
	else if (auto *l = dynamic_cast<hlim::Node_Logic*>(n)) { kind = "logic"; static const char *ops[] = {"AND", "NAND", "OR", "NOR", "XOR", "EQ", "NOT"}; extra << " op=" << ops[l->getOp()]; }
	else if (auto *a = dynamic_cast<hlim::Node_Arithmetic*>(n)) { kind = "arith"; static const char *ops[] = {"ADD", "SUB", "MUL", "DIV", "REM"}; extra << " op=" << ops[a->getOp()]; }
	else if (auto *c = dynamic_cast<hlim::Node_Compare*>(n)) { kind = "compare"; static const char *ops[] = {"EQ", "NEQ", "LT", "GT", "LEQ", "GEQ"}; extra << " op=" << ops[c->getOp()]; }
	else if (auto *r = dynamic_cast<hlim::Node_Rewire*>(n)) {
		kind = "rewire"; extra << " ranges=";
		bool first = true;
		for (auto &rg : r->getOp().ranges) {
			extra << (first ? "" : ";") << rg.subwidth << ','; first = false;
			switch (rg.source) { case hlim::Node_Rewire::OutputRange::INPUT: extra << "I," << rg.inputIdx << ',' << rg.inputOffset; break;
				case hlim::Node_Rewire::OutputRange::CONST_ZERO: extra << "Z"; break; case hlim::Node_Rewire::OutputRange::CONST_ONE: extra << "O"; break; default: extra << "X"; }
		}
		if (first) extra << '-';
	}
	else if (auto *c = dynamic_cast<hlim::Node_Constant*>(n)) { kind = "const"; extra << " val=" << (c->getValue().size() ? vh::bitsToString(c->getValue()) : std::string("-")); }
	else if (dynamic_cast<hlim::Node_Multiplexer*>(n)) kind = "mux";
	else if (dynamic_cast<hlim::Node_PriorityConditional*>(n)) kind = "prio";
	else if (dynamic_cast<hlim::Node_Register*>(n)) kind = "reg";
	else if (auto *p = dynamic_cast<hlim::Node_Pin*>(n)) { kind = "pin"; extra << " dir=" << (p->isBiDirectional() ? "inout" : p->isInputPin() ? "in" : "out"); }
	else if (dynamic_cast<hlim::Node_ExportOverride*>(n)) kind = "expoverride";
	else if (dynamic_cast<hlim::Node_Attributes*>(n)) kind = "attribs";
	else kind = std::string("other:") + n->getTypeName();
	o << kind << " out=";
	for (size_t i = 0; i < n->getNumOutputPorts(); i++) o << (i ? "," : "") << ctStr(n->getOutputConnectionType(i));
	if (n->getNumOutputPorts() == 0) o << '-';
	o << " in=";
	for (size_t i = 0; i < n->getNumInputPorts(); i++) o << (i ? "," : "") << npStr(n->getDriver(i));
	if (n->getNumInputPorts() == 0) o << '-';
	o << extra.str() << '\n';
}

static void dumpProcesses(std::ostream &o, vhdl::BasicBlock *bb, const std::string &entityName)
{
	for (auto &proc : bb->*BBAccess::procs()) {
		auto *reg = dynamic_cast<vhdl::RegisterProcess*>(proc.get());
		auto &ns = proc->getNamespaceScope();
		o << "xproc " << entityName << ' ' << proc.get()->*PrAccess::name() << ' ' << (reg ? "reg" : "comb") << '\n';
		auto decl = [&](const hlim::NodePort &np, const char *cls) {
			const auto &d = ns.get(np);
			o << "xdecl " << npStr(np) << ' ' << d.name << ' ' << dtName(d.dataType) << ' ' << cls << '\n';
		};
		for (auto &np : proc->getInputs()) decl(np, "in");
		for (auto &np : proc->getOutputs()) decl(np, "out");
		for (auto &np : proc->getLocalSignals()) decl(np, "local");
		for (auto &np : proc.get()->*PrAccess::consts()) decl(np, "const");
		for (auto &np : proc->getNonVariableSignals()) decl(np, "nonvar");
		std::set<hlim::BaseNode*> seen;
		std::vector<hlim::BaseNode*> work(( proc.get()->*PrAccess::nodes()).begin(), (proc.get()->*PrAccess::nodes()).end());
		// plus the drivers the nodes refer to (pins, constants used as reset values, named inputs)
		for (size_t i = 0; i < work.size(); i++) {
			auto *n = work[i];
			if (!seen.insert(n).second) continue;
			bool inProc = std::find((proc.get()->*PrAccess::nodes()).begin(), (proc.get()->*PrAccess::nodes()).end(), n) != (proc.get()->*PrAccess::nodes()).end();
			if (auto *pin = dynamic_cast<hlim::Node_Pin*>(n); pin && inProc) { const auto &d = ns.get(pin); o << "xpin " << pin->getId() << ' ' << d.name << ' ' << dtName(d.dataType) << '\n'; }
			dumpNode(o, n);
			if (inProc)
				for (size_t k = 0; k < n->getNumInputPorts(); k++) if (n->getDriver(k).node) work.push_back(n->getDriver(k).node);
			if (auto *r = dynamic_cast<hlim::Node_Register*>(n); r && inProc && r->getClocks()[0]) {
				auto *c = r->getClocks()[0];
				o << "xregclk " << r->getId() << " trig=" << (c->getTriggerEvent() == hlim::Clock::TriggerEvent::RISING ? 'R' : c->getTriggerEvent() == hlim::Clock::TriggerEvent::FALLING ? 'F' : 'B')
				  << " rtype=" << (c->getRegAttribs().resetType == hlim::RegisterAttributes::ResetType::NONE ? "none" : c->getRegAttribs().resetType == hlim::RegisterAttributes::ResetType::SYNCHRONOUS ? "sync" : "async")
				  << " high=" << (c->getRegAttribs().resetActive == hlim::RegisterAttributes::Active::HIGH) << " hasrv=" << (r->getNonSignalDriver(hlim::Node_Register::RESET_VALUE).node != nullptr) << '\n';
			}
			if (auto *r = dynamic_cast<hlim::Node_Register*>(n)) if (auto rv = r->getNonSignalDriver(hlim::Node_Register::RESET_VALUE); rv.node) { o << "xresetval " << r->getId() << ' ' << rv.node->getId() << '\n'; work.push_back(rv.node); }
		}
		o << "xorder"; for (auto *n : proc.get()->*PrAccess::nodes()) o << ' ' << n->getId(); o << '\n';
		if (reg) {
			const auto &cfg = reg->*RpAccess::cfg();
			o << "xregcfg clock=" << ns.getClock(cfg.clock).name << " reset=" << (cfg.reset ? ns.getReset(cfg.reset).name : std::string("-"))
			  << " kind=" << (cfg.reset == nullptr ? "none" : cfg.resetType == hlim::RegisterAttributes::ResetType::SYNCHRONOUS ? "sync" : cfg.resetType == hlim::RegisterAttributes::ResetType::ASYNCHRONOUS ? "async" : "none")
			  << " high=" << cfg.resetHighActive << " trig=" << (cfg.triggerEvent == hlim::Clock::TriggerEvent::RISING ? 'R' : cfg.triggerEvent == hlim::Clock::TriggerEvent::FALLING ? 'F' : 'B') << '\n';
		}
		o << "xend\n";
	}
}

static void dumpExporterView(std::ostream &o, vhdl::AST *ast)
{
	for (auto &e : ast->getEntities()) {
		if (dynamic_cast<vhdl::GenericMemoryEntity*>(e.get())) continue; // written by its own code, not by Process.cpp
		dumpProcesses(o, e.get(), e->getName());
		for (auto &b : e->getBlocks()) dumpProcesses(o, b.get(), e->getName());
	}
}

static void dumpFile(std::ostream &o, const std::string &tag, const fs::path &p)
{
	std::ifstream f(p, std::ios::binary);
	std::vector<std::string> lines; std::string l;
	while (std::getline(f, l)) { if (!l.empty() && l.back() == '\r') l.pop_back(); lines.push_back(l); }
	o << tag << ' ' << p.filename().string() << ' ' << lines.size() << '\n';
	for (auto &s : lines) o << "| " << s << '\n';
}

// "01xz" string, MSB first -> extended state
static sim::ExtendedBitVectorState extFromString(const std::string &str)
{
	sim::ExtendedBitVectorState s; s.resize(str.size());
	for (size_t i = 0; i < str.size(); i++) {
		char c = str[str.size() - 1 - i];
		s.set(sim::ExtendedConfig::DEFINED, i, c == '0' || c == '1');
		s.set(sim::ExtendedConfig::VALUE, i, c == '1');
		s.set(sim::ExtendedConfig::DONT_CARE, i, false);
		s.set(sim::ExtendedConfig::HIGH_IMPEDANCE, i, c == 'z');
	}
	return s;
}

static std::string oneLine(std::string s, size_t n = 200) { for (auto &c : s) if (c == '\n' || c == '\r') c = ' '; return s.substr(0, n); }

static bool runOne(uint64_t k, const vh::Recipe &recipe, const Opts &o, uint64_t decoSeed, uint64_t stimSeed, size_t ncycles, std::ostream &out)
{
	std::ostringstream os;
	fs::path dir = fs::path("/var/tmp") / ("c02_" + std::to_string(getpid()) + "_" + std::to_string(k));
	std::error_code ec;
	fs::remove_all(dir, ec);
	bool ok = false;
	std::string stage = "build";
	Extra x;
	try {
		DesignScope design;
		vh::Decoration deco; deco.seed = decoSeed; deco.areas = o.areas; deco.names = o.names;
		vh::Built b = vh::build(recipe, deco);
		// clock / reset configuration under test (before the extras: a derived clock copies its parent's attributes when it is created)
		auto *clk = b.clock->getClk();
		auto &attr = clk->getRegAttribs();
		attr.resetType = o.resetKind == 0 ? hlim::RegisterAttributes::ResetType::NONE : o.resetKind == 1 ? hlim::RegisterAttributes::ResetType::SYNCHRONOUS : hlim::RegisterAttributes::ResetType::ASYNCHRONOUS;
		attr.resetActive = o.resetLow ? hlim::RegisterAttributes::Active::LOW : hlim::RegisterAttributes::Active::HIGH;
		if (auto *root = dynamic_cast<hlim::RootClock*>(clk)) root->setFrequency(hlim::ClockRational(kFrequencies[o.freq].first, kFrequencies[o.freq].second));
		clk->setTriggerEvent(o.trigger == 0 ? hlim::Clock::TriggerEvent::RISING : o.trigger == 1 ? hlim::Clock::TriggerEvent::FALLING : hlim::Clock::TriggerEvent::RISING_AND_FALLING);
		if (o.extra) buildExtras(x, o, *b.clock);
		if (o.mode == 2) { // every second entity below the root starts a partition
			size_t i = 0;
			for (auto &g : design.getCircuit().getRootNodeGroup()->getChildren()) if (g->getGroupType() == hlim::NodeGroupType::ENTITY && (i++ % 2 == 0)) g->setPartition(true);
		}
		stage = "postprocess";
		design.postprocess();
		stage = "export";
		fs::create_directories(dir);
		sim::ReferenceSimulator sim(false);
		sim.compileProgram(design.getCircuit());
		std::optional<vhdl::VHDLExport> vhdl;
		if (o.mode == 0) vhdl.emplace(dir / "design.vhd"); else vhdl.emplace(dir);
		vhdl->outputMode(o.mode == 0 ? vhdl::OutputMode::SINGLE_FILE : o.mode == 1 ? vhdl::OutputMode::FILE_PER_ENTITY : vhdl::OutputMode::FILE_PER_PARTITION);
		vhdl->targetSynthesisTool(new GHDL());
		vhdl->addTestbenchRecorder(sim, "testbench", false);
		(*vhdl)(design.getCircuit());
		stage = "simulate";
		std::vector<hlim::Node_Pin*> inPins = b.inPins; std::vector<size_t> inWidths = b.inWidths;
		inPins.insert(inPins.end(), x.inPins.begin(), x.inPins.end()); inWidths.insert(inWidths.end(), x.inWidths.begin(), x.inWidths.end());
		std::vector<hlim::Node_Pin*> outPins = b.outPins; outPins.insert(outPins.end(), x.outPins.begin(), x.outPins.end());
		Rng srng(stimSeed);
		vh::Stimulus st = vh::genStimulus(srng, inWidths, ncycles, o.undefStim);
		if (!o.oobAddresses) { // fully defined addresses of the partly initialised memory stay inside a depth that need not be a power of two
			// (an address >= depth is an index error in the exported VHDL — `memory(to_integer(addr))` on `array(NUM_WORDS-1 downto 0)` —
			// while the reference simulator reads "undefined": reported as a finding, harness flag 1024 produces such addresses)
			for (auto &[idx, depth] : x.addrPins)
				for (auto &row : st.cycles) {
					auto &v = row[b.inPins.size() + idx];
					if (v.find('x') != std::string::npos) continue; // to_integer of a metavalue is 0
					size_t n = 0; for (char c : v) n = n * 2 + (c == '1');
					n %= depth;
					for (size_t i = 0; i < v.size(); i++) v[v.size() - 1 - i] = ((n >> i) & 1) ? '1' : '0';
				}
		}
		if (x.lateWriteEnable >= 0)
			for (size_t c = 0; c < st.cycles.size() / 2; c++) st.cycles[c][b.inPins.size() + x.lateWriteEnable] = "0";
		if (x.triPin >= 0) {
			// The recorder cannot express high impedance (a 'Z' drive is written as 'X', FileBasedTestbenchRecorder.cpp:463) and the
			// testbench signal starts with a 'U' driver.  tri=1: the testbench first drives a defined value while the design does not
			// drive, and drives the SAME value as the design whenever the design drives (no contention, resolved(a,a) = a).
			// tri=2: it releases the pin with 'Z' whenever the design drives (what a user would write; recorded as 'X').
			size_t en = b.inPins.size() + x.triEnable, pin = b.inPins.size() + x.triPin, tv = pin - 1;
			st.cycles[0][en] = "0";
			for (auto &c : st.cycles[0][pin]) if (c == 'x') c = '1';
			for (auto &row : st.cycles)
				if (row[en] != "0") row[pin] = o.triNaive ? std::string(row[pin].size(), 'z') : row[tv];
		}
		Clock &clock = *b.clock;
		size_t reads = 0;
		bool refUndefined = false; // some node output of the reference simulation held an undefined bit at a sample point
		auto scanUndefined = [&]() {
			if (refUndefined) return;
			for (auto &n : design.getCircuit().getNodes())
				for (size_t p = 0; p < n->getNumOutputPorts(); p++) {
					if (sim.outputOptimizedAway({.node = n.get(), .port = p})) continue;
					if (auto *pin = dynamic_cast<hlim::Node_Pin*>(n.get()); pin && !pin->isInputPin()) continue;
					auto ct = n->getOutputConnectionType(p);
					if (ct.type != hlim::ConnectionType::BOOL && ct.type != hlim::ConnectionType::BITVEC) continue;
					if (!sim::allDefined(sim.getValueOfOutput({.node = n.get(), .port = p}))) { refUndefined = true; return; }
				}
		};
		// What the harness itself applied and observed (independent of the recorder): `stim <cycle> <time> <pin> <value>` for every value
		// handed to simProcSetInputPin, `obs <cycle> <time> <pin names> <value>` for every value simProcGetValueOfOutput returned. The driver
		// requires the recorded SET / CHECK stream to say exactly this (same pins, same defined bits, same half period of time).
		std::ostringstream io;
		size_t cycle = 0;
		auto timeStr = [&]() { auto t = sim.getCurrentSimulationTime(); return std::to_string(t.numerator()) + "/" + std::to_string(t.denominator()); };
		std::vector<std::string> obsNames; // per output pin: the names under which the recorder may report it (all pins sharing its non-signal driver)
		for (auto *p : outPins) {
			std::string names;
			auto key = p->getNonSignalDriver(0);
			for (auto *q : outPins) if (q->getNonSignalDriver(0) == key) names += (names.empty() ? "" : "|") + q->getName();
			if (auto *ip = dynamic_cast<hlim::Node_Pin*>(key.node)) names += "|" + ip->getName();
			obsNames.push_back(names);
		}
		auto readAll = [&]() {
			for (size_t i = 0; i < outPins.size(); i++) if (outPins[i]->getDriver(0).node) {
				auto v = sim.simProcGetValueOfOutput(outPins[i]->getDriver(0)); reads++;
				io << "obs " << cycle << ' ' << timeStr() << ' ' << obsNames[i] << ' ' << vh::bitsToString(v) << '\n';
			}
			scanUndefined();
		};
		sim.addSimulationProcess([&]() -> SimProcess {
			if (!o.setAtPowerOn) co_await WaitFor(Seconds{1, 16} / clock.absoluteFrequency());
			for (auto &row : st.cycles) {
				for (size_t i = 0; i < inPins.size(); i++)
					if (inPins[i]) {
						sim.simProcSetInputPin(inPins[i], extFromString(row[i]));
						io << "stim " << cycle << ' ' << timeStr() << ' ' << inPins[i]->getName() << ' ' << row[i] << '\n';
					}
				if (o.style == 1) co_await WaitFor(Seconds{1, 3} / clock.absoluteFrequency());
				if (o.style == 2) co_await WaitStable();
				if (o.style != 0) readAll();
				if (o.style == 1) { // second sample point after the opposite clock edge (observes registers of the other edge domain half a period early)
					co_await WaitFor(Seconds{1, 3} / clock.absoluteFrequency());
					readAll();
				}
				co_await OnClk(clock);
				if (o.style == 0) readAll();
				cycle++;
			}
			if (o.endBehindEdge) {
				// reads right after the last clock edge (registers have advanced), then the run ends 100 ps later: the recorder places
				// these CHECKs a few ps behind the edge
				co_await WaitStable();
				readAll();
				co_await WaitFor(Seconds{100, 1'000'000'000'000ull});
				sim.abort();
			}
		});
		sim.powerOn();
		sim.advance(hlim::ClockRational(ncycles + 1, 1) / clock.absoluteFrequency());
		std::ostringstream xview;
		dumpExporterView(xview, vhdl->getAST());
		vhdl.reset(); // flushes the recorder
		stage = "dump";
		os << "case " << k << " reset=" << o.resetKind << (o.resetLow ? "L" : "H") << " trig=" << o.trigger << " mode=" << o.mode << " areas=" << o.areas << " names=" << o.names
		   << " style=" << o.style << " undef=" << o.undefStim << " rundef=" << refUndefined << " pon=" << o.setAtPowerOn << " freq=" << kFrequencies[o.freq].first << "/" << kFrequencies[o.freq].second << " ebe=" << o.endBehindEdge << " tri=" << ((o.extra & 4) ? (o.triNaive ? 2 : 1) : 0) << " extra=" << o.extra << " ncycles=" << ncycles << " reads=" << reads << " nodes=" << design.getCircuit().getNodes().size() << '\n';
		os << "xdesc" << (x.desc.empty() ? " -" : x.desc) << '\n';
		os << recipe.toString();
		std::vector<fs::path> files;
		for (auto &e : fs::directory_iterator(dir)) if (e.path().extension() == ".vhd" && e.path().filename() != "testbench.vhd") files.push_back(e.path());
		std::sort(files.begin(), files.end());
		for (auto &f : files) dumpFile(os, "file", f);
		dumpFile(os, "tb", dir / "testbench.vhd");
		dumpFile(os, "vectors", dir / "testbench.testvectors");
		os << io.str();
		os << xview.str();
		os << "end\n";
		ok = true;
	} catch (const std::exception &e) {
		os.str("");
		os << "# case " << k << " (reset=" << o.resetKind << " trig=" << o.trigger << " mode=" << o.mode << " areas=" << o.areas << " extra=" << o.extra
		   << " xdesc" << x.desc << ") not exportable at stage " << stage << ": " << oneLine(e.what()) << '\n';
		os << "skip " << k << ' ' << stage << '\n';
	}
	if (!getenv("C02_KEEP")) fs::remove_all(dir, ec);
	out << os.str();
	return ok;
}

int main(int argc, char **argv)
{
	uint64_t seed = vh::argU64(argc, argv, 1, 1), ncases = vh::argU64(argc, argv, 2, 20), nsteps = vh::argU64(argc, argv, 3, 20), flags = vh::argU64(argc, argv, 4, 0xff), only = vh::argU64(argc, argv, 5, ~0ull), longCycles = vh::argU64(argc, argv, 6, 0);
	std::ios::sync_with_stdio(false);
	std::cout << "# prop=C02 seed=" << seed << " cases=" << ncases << " nsteps=" << nsteps << " flags=" << flags << "\n";
	Rng top(seed * 0x100000001b3ull + 2);
	for (uint64_t k = 0; k < ncases; k++) {
		Rng rng = top.fork();
		vh::GenOpts go;
		go.nInputs = 2 + rng.below(4);
		go.nSteps = 3 + rng.below(nsteps);
		go.maxWidth = 1 + rng.below(8);
		go.regs = rng.chance(4, 5);
		go.wide = rng.chance(1, 5);
		go.fullyDefined = true;   // no division (not exportable: Process.cpp:404-405), every register has a reset value
		go.undefinedConsts = false;
		go.patternBias = rng.chance(1, 3) ? 25 : 8;
		vh::RecipeGen gen(rng, go);
		vh::Recipe recipe = gen.generate();
		Opts o;
		o.areas = (flags & 1) && rng.chance(1, 2);
		o.names = rng.chance(1, 2);
		if (flags & 2) { o.resetKind = (unsigned) rng.below(3); o.resetLow = rng.chance(1, 3); }
		if (flags & 4) { unsigned t = (unsigned) rng.below(8); o.trigger = t < 5 ? 0 : t < 7 ? 1 : 2; }
		if (flags & 8) o.mode = (unsigned) rng.below(3);
		o.style = (unsigned) rng.below(3);
		o.undefStim = (flags & 32) && rng.chance(1, 2);
		o.setAtPowerOn = (flags & 64) && rng.chance(1, 2);
		if (flags & 16) { if (rng.chance(1, 2)) o.extra = (unsigned) rng.below(512); }
		o.triNaive = (flags & 128) && rng.chance(1, 2);
		if ((o.extra & 4) && o.triNaive) o.setAtPowerOn = false; // at most one of the two recorder findings per case
		o.extraSeed = rng.next();
		uint64_t decoSeed = rng.next(), stimSeed = rng.next();
		size_t ncycles = 6 + rng.below(12);
		if (flags & 256) o.freq = (unsigned) rng.below(sizeof(kFrequencies) / sizeof(kFrequencies[0]));
		if (flags & 512) o.endBehindEdge = rng.chance(1, 2);
		o.oobAddresses = (flags & 1024) != 0;
		if (o.trigger == 2) o.endBehindEdge = false; // a both-edge clock: the 100 ps tail would be cut by nothing, but keep the variant to single-edge roots
		if (longCycles) ncycles = longCycles + rng.below(longCycles / 4 + 1);
		if (only != ~0ull && k != only) continue;
		runOne(k, recipe, o, decoSeed, stimSeed, ncycles, std::cout);
	}
	return 0;
}
