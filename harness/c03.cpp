// C03 / C08 harness: builds operators and expression DAGs through the real gatery frontend (Bit/UInt/SInt/BVec),
// dumps the un-postprocessed netlist of core nodes, simulates it with ReferenceSimulator under generated stimuli
// (fully defined, partially undefined, concretisations) and prints operands, every node value and every expression value.
//
// Usage: c03 <seed> <ncases> <mode> [stimuliPerCase]
//   mode: op    one frontend operator on fresh input pins (widths 0..200)
//         dag   random expression DAG of depth <= 6 over input pins (dags: narrow widths); one case in three is simulated a second
//               time after design.postprocess() on the same stimuli (every expression tapped by an output pin)
//         const expression DAG over literal operands: construction-time evaluation (simu(x).eval()) vs run-time simulation
//         lit   literal parsing
//         conc  (C08) DAG under an abstract stimulus and sampled concretisations of its undefined bits
//         concw (C08) like conc with wide operands
//         mem   (C08) memories (2..16 words, widths 1..70, EXACT / default undefined-address behaviour, partly undefined contents) read
//               asynchronously under abstract addresses and all their concretisations
//         seq   (C08) DAG with registers, several clock cycles, abstract stimulus sequence vs concretisations (also of the
//               undefined initial register contents); <stimuliPerCase> = number of runs
// The C08 DAG modes (conc concw seq) also build tristate / bidirectional pins (tristatePin(data, enable), bidirPin(data)) whose
// read-back is an expression value; the value driven onto the pad is part of the stimulus.
// Undefined bits: the simulator keeps a VALUE plane next to the DEFINED plane.  Every undefined stimulus / constant / register
// bit is given a random VALUE-plane bit (an undefined bit is printed as x whatever its VALUE plane holds), and control operands
// (selectors, conditions, enables, shift amounts, indices) are routed through NOT / XNOR / NAND / NOR now and then, so that both
// polarities reach every consumer that looks at the VALUE plane of a possibly undefined operand.
#include <gatery/pch.h>
#include "simhelp.h"
#include "common.h"
#include <gatery/hlim/coreNodes/Node_Arithmetic.h>
#include <gatery/hlim/coreNodes/Node_Compare.h>
#include <gatery/hlim/coreNodes/Node_Constant.h>
#include <gatery/hlim/coreNodes/Node_Logic.h>
#include <gatery/hlim/coreNodes/Node_Multiplexer.h>
#include <gatery/hlim/coreNodes/Node_Pin.h>
#include <gatery/hlim/coreNodes/Node_PriorityConditional.h>
#include <gatery/hlim/coreNodes/Node_Rewire.h>
#include <gatery/hlim/coreNodes/Node_Shift.h>
#include <gatery/hlim/coreNodes/Node_Signal.h>
#include <gatery/hlim/coreNodes/Node_Register.h>
#include <gatery/frontend/PriorityConditional.h>
#include <iostream>
#include <map>
#include <set>
#include <memory>
#include <functional>

using namespace gtry;
using vh::Rng;

// Own generator for the VALUE plane under undefined bits (does not disturb the case generator); re-seeded per case.
static Rng g_xplane(1);
// "01x" string (MSB first) -> state; the VALUE plane of an undefined bit is random
static sim::DefaultBitVectorState bitsX(const std::string &str) {
	sim::DefaultBitVectorState s = vh::bitsFromString(str);
	for (size_t i = 0; i < s.size(); i++)
		if (!s.get(sim::DefaultConfig::DEFINED, i)) s.set(sim::DefaultConfig::VALUE, i, g_xplane.chance(1, 2));
	return s;
}
static void setPinX(sim::ReferenceSimulator &sim, hlim::Node_Pin *pin, const std::string &bits) {
	sim.simProcSetInputPin(pin, sim::convertToExtended(bitsX(bits)));
}

static const std::vector<size_t> widthClasses = {0, 1, 2, 3, 7, 8, 31, 32, 33, 63, 64, 65, 127, 128, 129, 191, 200};

struct Val {
	char t = 'u'; // b u s v
	size_t w = 0;
	std::unique_ptr<Bit> b;
	std::unique_ptr<UInt> u;
	std::unique_ptr<SInt> s;
	std::unique_ptr<BVec> v;
	hlim::NodePort port;
	hlim::Node_Pin *pin = nullptr;
	int depth = 0;
	std::string lit; // const mode: the literal's bits
	char pol = 'n'; // expansion policy the value carries (Signal.h: SignalReadPort::expansionPolicy)
};

static char polChar(Expansion e) { switch (e) { case Expansion::zero: return 'z'; case Expansion::one: return 'o'; case Expansion::sign: return 's'; default: return 'n'; } }
static Expansion toExp(char p) {
	switch (p) { case 'z': return Expansion::zero; case 'o': return Expansion::one; case 's': return Expansion::sign; default: return Expansion::none; }
}

static std::string concretise(Rng &rng, const std::string &abs, bool full);

struct Builder {
	Rng &rng;
	std::ostream &o;
	std::vector<std::unique_ptr<Val>> vals;
	bool failed = false;      // a construction threw: the case ends with the error marker
	bool constMode = false;
	bool wide = true;
	bool beyond = true;       // static shift/rotate amounts larger than the width are generated
	bool tristate = false;    // tristate / bidirectional pins are generated (C08 DAG modes)
	bool xconst = false;      // operators meeting partly undefined constants in the shapes the no-op / folding passes look at (C08 conc modes)
	unsigned ctlInv = 6;      // one in `ctlInv` control operands is routed through an inverting gate (0 = never)
	int maxDepth = 6;

	Builder(Rng &r, std::ostream &os) : rng(r), o(os) {}

	size_t genWidth(size_t lo = 0, size_t hi = 200) {
		size_t w = genWidth0(lo, hi);
		return w;
	}
	size_t genWidth0(size_t lo, size_t hi) {
		if (!wide) { hi = std::min<size_t>(hi, 12); }
		for (int tries = 0; tries < 8; tries++) {
			size_t w = (wide && rng.chance(1, 2)) ? rng.pick(widthClasses) : rng.range(lo, hi);
			if (w >= lo && w <= hi) return w;
		}
		return rng.range(lo, hi);
	}

	std::string genBits(size_t w, int cls = -1) {
		if (w == 0) return "-";
		std::string r(w, '0'); // MSB first
		if (cls < 0) cls = (int)rng.below(10);
		switch (cls) {
			case 0: break;
			case 1: r[w-1] = '1'; break;
			case 2: r.assign(w, '1'); break;
			case 3: r[0] = '1'; break;                 // 2^(w-1)
			case 4: r.assign(w, '1'); r[0] = '0'; break; // 2^(w-1)-1
			case 5: { // small value
				for (size_t i = 0; i < std::min<size_t>(w, 4); i++) r[w-1-i] = rng.chance(1,2) ? '1' : '0';
			} break;
			default: for (auto &c : r) c = rng.chance(1,2) ? '1' : '0';
		}
		return r;
	}
	// sprinkle undefined bits: kind 0 none, 1 few, 2 many, 3 all
	std::string undefBits(std::string r, int kind) {
		if (r == "-") return r;
		switch (kind) {
			case 1: { size_t k = 1 + rng.below(3); for (size_t i = 0; i < k; i++) r[rng.below(r.size())] = 'x'; } break;
			case 2: for (auto &c : r) if (rng.chance(1,2)) c = 'x'; break;
			case 3: r.assign(r.size(), 'x'); break;
			default: break;
		}
		return r;
	}

	int pushVal(std::unique_ptr<Val> v) { vals.push_back(std::move(v)); return (int)vals.size() - 1; }

	template<class T> int push(T &&sig, char t, int depth) {
		auto v = std::make_unique<Val>();
		v->t = t; v->depth = depth;
		SignalReadPort rp;
		if constexpr (std::is_same_v<std::decay_t<T>, Bit>) { v->b = std::make_unique<Bit>(sig); v->w = 1; rp = v->b->readPort(); }
		else if constexpr (std::is_same_v<std::decay_t<T>, UInt>) { v->u = std::make_unique<UInt>(sig); v->w = v->u->size(); rp = v->u->readPort(); }
		else if constexpr (std::is_same_v<std::decay_t<T>, SInt>) { v->s = std::make_unique<SInt>(sig); v->w = v->s->size(); rp = v->s->readPort(); }
		else { v->v = std::make_unique<BVec>(sig); v->w = v->v->size(); rp = v->v->readPort(); }
		v->port = rp; v->pol = polChar(rp.expansionPolicy);
		return pushVal(std::move(v));
	}

	// a literal operand with the given bits (MSB first, x = undefined)
	int litLeaf(char t, size_t w, const std::string &bits) {
		int idx;
		std::string lit = std::to_string(w) + "b" + (bits == "-" ? std::string() : bits);
		switch (t) {
			case 'b': { Bit x(bits[0]); idx = push(x, 'b', 0); } break;
			case 'u': { UInt x = UInt(lit.c_str()); idx = push(x, 'u', 0); } break;
			case 's': { SInt x = SInt(lit.c_str()); idx = push(x, 's', 0); } break;
			default:  { BVec x = BVec(lit.c_str()); idx = push(x, 'v', 0); } break;
		}
		vals[idx]->lit = bits;
		o << "v " << idx << " lit " << t << ' ' << w << ' ' << bits << " -> " << vals[idx]->t << ' ' << vals[idx]->w << ' ' << vals[idx]->pol << '\n';
		return idx;
	}

	// a partly undefined constant: defined bits all 0 / all 1 / a small value / random, 1..3 (or many) undefined bits
	std::string xconstBits(size_t w) {
		std::string r;
		switch (rng.below(5)) { case 0: case 1: r.assign(w, '0'); break; case 2: r.assign(w, '1'); break; case 3: r = genBits(w, 5); break; default: r = genBits(w, 9); }
		if (rng.chance(1, 5)) { for (auto &c : r) if (rng.chance(1, 2)) c = 'x'; }
		else { size_t k = 1 + rng.below(3); for (size_t i = 0; i < k; i++) r[rng.below(w)] = 'x'; }
		if (w > 1 && r.find_first_not_of('x') == std::string::npos) r[rng.below(w)] = rng.chance(1, 2) ? '1' : '0';
		return r;
	}

	// the shapes constant folding / no-op removal look at, with a partly undefined constant in the constant's place
	int genXConst(bool dag) {
		char t = pickVecType();
		size_t w = wide && rng.chance(1, 3) ? genWidth(1, 200) : rng.range(1, 9);
		int A = operand(t, dag, w);
		switch (rng.below(10)) {
			case 0: case 1: case 2: case 3: { // bitwise with the constant on either side
				static const std::vector<std::string> ops = {"and","or","xor","nand","nor","xnor","or","and"};
				int C = litLeaf(t, w, xconstBits(w));
				std::string name = rng.pick(ops) + ".nn";
				return rng.chance(1, 2) ? apply(name, {A, C}) : apply(name, {C, A});
			}
			case 4: { // arithmetic / comparison with the constant
				if (t == 'v') return apply("eq.nn", {A, litLeaf(t, w, xconstBits(w))});
				static const std::vector<std::string> ops = {"add","sub","mul","eq","neq"};
				int C = litLeaf(t, w, xconstBits(w));
				std::string name = rng.pick(ops) + ".nn";
				return rng.chance(1, 2) ? apply(name, {A, C}) : apply(name, {C, A});
			}
			case 5: { // multiplexer with equal inputs (same value twice / equal constants), selector possibly undefined
				int sel = ctl(operand('b', dag), dag);
				if (failed) return -1;
				if (rng.chance(1, 2)) return apply("mux", {sel, A, A});
				std::string bits = xconstBits(w);
				int C1 = litLeaf(t, w, bits), C2 = litLeaf(t, w, rng.chance(1, 2) ? bits : concretise(rng, bits, false));
				return apply("mux", {sel, C1, C2});
			}
			case 6: { // multiplexer with a partly undefined constant selector
				size_t ws = rng.range(1, 2);
				int sel = litLeaf('u', ws, xconstBits(ws));
				std::vector<int> a{sel};
				for (size_t i = 0; i < (size_t(1) << ws); i++) a.push_back(rng.chance(1, 2) ? A : operand(t, dag, w));
				return apply("mux", a);
			}
			case 7: { // identity shifts: static amount 0, dynamic amount a constant whose defined bits are 0
				if (rng.chance(1, 2)) { static const std::vector<std::string> ops = {"shl","shr","rotr"}; return apply(rng.pick(ops), {litLeaf(t, w, xconstBits(w))}, {0}); }
				static const std::vector<std::string> ops = {"zshl","oshl","sshl","zshr","oshr","sshr","drotl","drotr"};
				size_t wa = rng.range(1, 4);
				std::string bits(wa, '0'); bits[rng.below(wa)] = 'x';
				return apply(rng.pick(ops), {A, litLeaf('u', wa, bits)});
			}
			case 8: { // broadcast bit / not / slices of the constant
				int C = litLeaf(t, w, xconstBits(w));
				if (rng.chance(1, 3)) return apply("not", {C});
				if (rng.chance(1, 2)) { static const std::vector<std::string> ops = {"vand","vor","vxor"}; return apply(rng.pick(ops), {C, operand('b', dag)}); }
				size_t sw = rng.range(1, w); return apply("slice", {C}, {rng.below(w - sw + 1), sw});
			}
			default: { // priority select / IF with a constant value
				int c = ctl(operand('b', dag), dag);
				if (failed) return -1;
				int C = litLeaf(t, w, xconstBits(w));
				return rng.chance(1, 2) ? apply("prio", {A, c, C}) : apply("prio", {C, c, A});
			}
		}
	}

	// a fresh operand: input pin (or a literal in const mode)
	int leaf(char t, size_t w) {
		if (t == 'b') w = 1;
		int idx;
		if (constMode) {
			std::string bits = undefBits(genBits(w), rng.chance(1, 6) ? 1 : 0);
			std::string lit = std::to_string(w) + "b" + (bits == "-" ? std::string() : bits);
			switch (t) {
				case 'b': { Bit x(bits[0]); idx = push(x, 'b', 0); } break;
				case 'u': { UInt x = UInt(lit.c_str()); idx = push(x, 'u', 0); } break;
				case 's': { SInt x = SInt(lit.c_str()); idx = push(x, 's', 0); } break;
				default:  { BVec x = BVec(lit.c_str()); idx = push(x, 'v', 0); } break;
			}
			vals[idx]->lit = bits;
			o << "v " << idx << " lit " << t << ' ' << w << ' ' << bits << " -> " << vals[idx]->t << ' ' << vals[idx]->w << ' ' << vals[idx]->pol << '\n';
			return idx;
		}
		if (t == 'b') {
			InputPin p = pinIn();
			Bit x = p;
			idx = push(x, 'b', 0);
			vals[idx]->pin = p.node();
		} else {
			InputPins p = pinIn(BitWidth(w));
			switch (t) {
				case 'u': { UInt x = p; idx = push(x, 'u', 0); } break;
				case 's': { SInt x = (SInt)p; idx = push(x, 's', 0); } break;
				default:  { BVec x = (BVec)p; idx = push(x, 'v', 0); } break;
			}
			vals[idx]->pin = p.node();
		}
		o << "v " << idx << " pin " << t << ' ' << w << " -> " << vals[idx]->t << ' ' << vals[idx]->w << ' ' << vals[idx]->pol << '\n';
		return idx;
	}

	// ---------------------------------------------------------------------------------------------
	// apply one frontend operator; prints "v <k> <op> <args…> -> <type> <w>"  or  "… -> e"
	// ---------------------------------------------------------------------------------------------
	// 'i' = keep the expansion policy the operand carries (from a literal, an ext(), a slice alias of one of these, …)
	template<class T> T polExt(const T &a, char p) { if (p == 'i') return T(a); return ext(a, BitExtend{0}, toExp(p)); }

	template<class T> const T &vec(int i);

	int apply(const std::string &op, const std::vector<int> &args, const std::vector<uint64_t> &params = {}, const std::string &spar = "") {
		int depth = 0;
		for (int a : args) depth = std::max(depth, vals[a]->depth);
		depth++;
		size_t idxNew = vals.size();
		o << "v " << idxNew << ' ' << op;
		for (int a : args) o << " a" << a;
		for (auto p : params) o << ' ' << p;
		if (!spar.empty()) o << ' ' << spar;
		int res = -1;
		try {
			res = applyInner(op, args, params, spar, depth);
		} catch (const gtry::utils::DesignError &) {
			res = -1;
		} catch (const gtry::utils::InternalError &) {
			res = -2;
		}
		if (res < 0) {
			failed = true;
			o << " -> " << (res == -1 ? "e" : "E") << '\n';
			return -1;
		}
		o << " -> " << vals[res]->t << ' ' << vals[res]->w << ' ' << vals[res]->pol << '\n';
		return res;
	}

	Val &V(int i) { return *vals[i]; }

	template<class F> int withVec(int a, F f) {
		switch (V(a).t) {
			case 'u': return f(*V(a).u, 'u');
			case 's': return f(*V(a).s, 's');
			case 'v': return f(*V(a).v, 'v');
			default: HCL_DESIGNCHECK_HINT(false, "harness: vector expected");
		}
		return -1;
	}

	int applyInner(const std::string &op, const std::vector<int> &a, const std::vector<uint64_t> &p, const std::string &spar, int depth) {
		auto starts = [&](const char *pre) { return op.rfind(pre, 0) == 0; };
		// --- binary with expansion policies: <name>.<pa><pb>
		size_t dot = op.find('.');
		if (dot != std::string::npos && op.size() == dot + 3 && a.size() == 2 && V(a[0]).t != 'b' && V(a[1]).t != 'b') {
			std::string name = op.substr(0, dot);
			char pa = op[dot+1], pb = op[dot+2];
			char t = V(a[0]).t;
			HCL_DESIGNCHECK_HINT(t == V(a[1]).t, "harness: same type expected");
			if (t == 'u') {
				UInt A = polExt(*V(a[0]).u, pa), B = polExt(*V(a[1]).u, pb);
				if (name == "add") return push(UInt(add(A, B)), 'u', depth);
				if (name == "sub") return push(UInt(sub(A, B)), 'u', depth);
				if (name == "mul") return push(UInt(mul(A, B)), 'u', depth);
				if (name == "div") return push(UInt(div(A, B)), 'u', depth);
				if (name == "rem") return push(UInt(rem(A, B)), 'u', depth);
				if (name == "and") return push(UInt(land(A, B)), 'u', depth);
				if (name == "or") return push(UInt(lor(A, B)), 'u', depth);
				if (name == "xor") return push(UInt(lxor(A, B)), 'u', depth);
				if (name == "nand") return push(UInt(lnand(A, B)), 'u', depth);
				if (name == "nor") return push(UInt(lnor(A, B)), 'u', depth);
				if (name == "xnor") return push(UInt(lxnor(A, B)), 'u', depth);
				if (name == "eq") return push(Bit(eq(A, B)), 'b', depth);
				if (name == "neq") return push(Bit(neq(A, B)), 'b', depth);
				if (name == "lt") return push(Bit(lt(A, B)), 'b', depth);
				if (name == "gt") return push(Bit(gt(A, B)), 'b', depth);
				if (name == "leq") return push(Bit(leq(A, B)), 'b', depth);
				if (name == "geq") return push(Bit(geq(A, B)), 'b', depth);
			} else if (t == 's') {
				SInt A = polExt(*V(a[0]).s, pa), B = polExt(*V(a[1]).s, pb);
				if (name == "add") return push(SInt(add(A, B)), 's', depth);
				if (name == "sub") return push(SInt(sub(A, B)), 's', depth);
				if (name == "mul") return push(SInt(mul(A, B)), 's', depth);
				if (name == "and") return push(SInt(land(A, B)), 's', depth);
				if (name == "or") return push(SInt(lor(A, B)), 's', depth);
				if (name == "xor") return push(SInt(lxor(A, B)), 's', depth);
				if (name == "nand") return push(SInt(lnand(A, B)), 's', depth);
				if (name == "nor") return push(SInt(lnor(A, B)), 's', depth);
				if (name == "xnor") return push(SInt(lxnor(A, B)), 's', depth);
				if (name == "eq") return push(Bit(eq(A, B)), 'b', depth);
				if (name == "neq") return push(Bit(neq(A, B)), 'b', depth);
				if (name == "lt") return push(Bit(lt(A, B)), 'b', depth);
				if (name == "gt") return push(Bit(gt(A, B)), 'b', depth);
				if (name == "leq") return push(Bit(leq(A, B)), 'b', depth);
				if (name == "geq") return push(Bit(geq(A, B)), 'b', depth);
			} else {
				BVec A = polExt(*V(a[0]).v, pa), B = polExt(*V(a[1]).v, pb);
				if (name == "and") return push(BVec(land(A, B)), 'v', depth);
				if (name == "or") return push(BVec(lor(A, B)), 'v', depth);
				if (name == "xor") return push(BVec(lxor(A, B)), 'v', depth);
				if (name == "nand") return push(BVec(lnand(A, B)), 'v', depth);
				if (name == "nor") return push(BVec(lnor(A, B)), 'v', depth);
				if (name == "xnor") return push(BVec(lxnor(A, B)), 'v', depth);
				if (name == "eq") return push(Bit(eq(A, B)), 'b', depth);
				if (name == "neq") return push(Bit(neq(A, B)), 'b', depth);
			}
			HCL_DESIGNCHECK_HINT(false, "harness: unknown binary op");
		}
		// --- Bit x Bit
		if (starts("b") && a.size() == 2 && V(a[0]).t == 'b' && V(a[1]).t == 'b') {
			const Bit &A = *V(a[0]).b, &B = *V(a[1]).b;
			if (op == "band") return push(Bit(land(A, B)), 'b', depth);
			if (op == "bor") return push(Bit(lor(A, B)), 'b', depth);
			if (op == "bxor") return push(Bit(lxor(A, B)), 'b', depth);
			if (op == "bnand") return push(Bit(lnand(A, B)), 'b', depth);
			if (op == "bnor") return push(Bit(lnor(A, B)), 'b', depth);
			if (op == "bxnor") return push(Bit(lxnor(A, B)), 'b', depth);
			if (op == "beq") return push(Bit(eq(A, B)), 'b', depth);
			if (op == "bneq") return push(Bit(neq(A, B)), 'b', depth);
		}
		if (op == "bnot") return push(Bit(lnot(*V(a[0]).b)), 'b', depth);
		if (op == "not") return withVec(a[0], [&](auto &x, char t) { return push(std::decay_t<decltype(x)>(lnot(x)), t, depth); });
		// --- vector x broadcast Bit  (vand vor vxor vnand vnor vxnor), arithmetic with a Bit
		if (starts("v") && a.size() == 2 && V(a[1]).t == 'b' && V(a[0]).t != 'b') {
			const Bit &B = *V(a[1]).b;
			return withVec(a[0], [&](auto &x, char t) {
				using T = std::decay_t<decltype(x)>;
				if (op == "vand") return push(T(land(x, B)), t, depth);
				if (op == "vor") return push(T(lor(x, B)), t, depth);
				if (op == "vxor") return push(T(lxor(x, B)), t, depth);
				if (op == "vnand") return push(T(lnand(x, B)), t, depth);
				if (op == "vnor") return push(T(lnor(x, B)), t, depth);
				if (op == "vxnor") return push(T(lxnor(x, B)), t, depth);
				HCL_DESIGNCHECK_HINT(false, "harness: unknown broadcast op");
				return -1;
			});
		}
		if (op == "addbit" || op == "subbit") {
			const Bit &B = *V(a[1]).b;
			if (V(a[0]).t == 'u') return push(op == "addbit" ? UInt(add(*V(a[0]).u, B)) : UInt(sub(*V(a[0]).u, B)), 'u', depth);
			if (V(a[0]).t == 's') return push(op == "addbit" ? SInt(add(*V(a[0]).s, B)) : SInt(sub(*V(a[0]).s, B)), 's', depth);
		}
		if (op == "addc") return push(UInt(addC(*V(a[0]).u, *V(a[1]).u, *V(a[2]).b)), 'u', depth);
		if (op == "sabs") return push(UInt(abs(*V(a[0]).s)), 'u', depth);
		// --- static shifts / rotates
		if (op == "shl") return withVec(a[0], [&](auto &x, char t) { return push(std::decay_t<decltype(x)>(shl(x, (int)p[0])), t, depth); });
		if (op == "shr") return withVec(a[0], [&](auto &x, char t) { return push(std::decay_t<decltype(x)>(shr(x, (int)p[0])), t, depth); });
		if (op == "rotl") return withVec(a[0], [&](auto &x, char t) { return push(std::decay_t<decltype(x)>(rotl(x, (size_t)p[0])), t, depth); });
		if (op == "rotr") return withVec(a[0], [&](auto &x, char t) { return push(std::decay_t<decltype(x)>(rotr(x, (size_t)p[0])), t, depth); });
		if (op == "shra") return push(UInt(shr(*V(a[0]).u, (size_t)p[0], *V(a[1]).b)), 'u', depth);
		if (op == "shrad") return push(UInt(shr(*V(a[0]).u, *V(a[1]).u, *V(a[2]).b)), 'u', depth);
		// --- dynamic shifts
		if (a.size() == 2 && V(a[1]).t == 'u' && (op == "zshl" || op == "oshl" || op == "sshl" || op == "zshr" || op == "oshr" || op == "sshr" || op == "drotl" || op == "drotr")) {
			const UInt &amt = *V(a[1]).u;
			return withVec(a[0], [&](auto &x, char t) {
				using T = std::decay_t<decltype(x)>;
				if (op == "zshl") return push(T(zshl(x, amt)), t, depth);
				if (op == "oshl") return push(T(oshl(x, amt)), t, depth);
				if (op == "sshl") return push(T(sshl(x, amt)), t, depth);
				if (op == "zshr") return push(T(zshr(x, amt)), t, depth);
				if (op == "oshr") return push(T(oshr(x, amt)), t, depth);
				if (op == "sshr") return push(T(sshr(x, amt)), t, depth);
				if (op == "drotl") return push(T(rotl(x, amt)), t, depth);
				return push(T(rotr(x, amt)), t, depth);
			});
		}
		// --- extension to a width
		if (op == "zext" || op == "oext" || op == "sext") {
			Expansion e = op == "zext" ? Expansion::zero : op == "oext" ? Expansion::one : Expansion::sign;
			if (V(a[0]).t == 'b') return push(UInt(ext(*V(a[0]).b, BitWidth(p[0]), e)), 'u', depth);
			return withVec(a[0], [&](auto &x, char t) { return push(std::decay_t<decltype(x)>(ext(x, BitWidth(p[0]), e)), t, depth); });
		}
		if (op == "zextby" || op == "oextby" || op == "sextby") {
			Expansion e = op == "zextby" ? Expansion::zero : op == "oextby" ? Expansion::one : Expansion::sign;
			if (V(a[0]).t == 'b') return push(UInt(ext(*V(a[0]).b, BitExtend{p[0]}, e)), 'u', depth);
			return withVec(a[0], [&](auto &x, char t) { return push(std::decay_t<decltype(x)>(ext(x, BitExtend{p[0]}, e)), t, depth); });
		}
		// --- slices
		if (op == "slice") return withVec(a[0], [&](auto &x, char t) { return push(std::decay_t<decltype(x)>(x(p[0], BitWidth(p[1]))), t, depth); });
		if (op == "upper") return withVec(a[0], [&](auto &x, char t) { return push(std::decay_t<decltype(x)>(x.upper(BitWidth(p[0]))), t, depth); });
		if (op == "lower") return withVec(a[0], [&](auto &x, char t) { return push(std::decay_t<decltype(x)>(x.lower(BitWidth(p[0]))), t, depth); });
		if (op == "bitat") return withVec(a[0], [&](auto &x, char) { return push(Bit(x[(size_t)p[0]]), 'b', depth); });
		if (op == "msb") return withVec(a[0], [&](auto &x, char) { return push(Bit(x.msb()), 'b', depth); });
		if (op == "lsb") return withVec(a[0], [&](auto &x, char) { return push(Bit(x.lsb()), 'b', depth); });
		if (op == "dbit") return withVec(a[0], [&](auto &x, char) { return push(Bit(x[*V(a[1]).u]), 'b', depth); });
		if (op == "dslice") return withVec(a[0], [&](auto &x, char t) { return push(std::decay_t<decltype(x)>(x(*V(a[1]).u, BitWidth(p[0]))), t, depth); });
		// --- casts
		if (op == "tou") return withVec(a[0], [&](auto &x, char) { return push(UInt((UInt)x), 'u', depth); });
		if (op == "tos") return withVec(a[0], [&](auto &x, char) { return push(SInt((SInt)x), 's', depth); });
		if (op == "tov") return withVec(a[0], [&](auto &x, char) { return push(BVec((BVec)x), 'v', depth); });
		// --- tristate pin (data a[0], output enable a[1]) / bidirectional pin without output enable (data a[0]): the value is the
		//     read-back; the pin node is recorded so that the pad is driven by the stimulus like an input pin
		if (op == "tri" || op == "tria") {
			bool en = op == "tri";
			int r; hlim::Node_Pin *pn;
			if (V(a[0]).t == 'b') {
				if (en) { auto p = tristatePin(*V(a[0]).b, *V(a[1]).b); pn = p.node(); r = push(Bit(p), 'b', depth); }
				else { auto p = bidirPin(*V(a[0]).b); pn = p.node(); r = push(Bit(p), 'b', depth); }
			} else r = withVec(a[0], [&](auto &x, char t) {
				using T = std::decay_t<decltype(x)>;
				if (en) { auto p = tristatePin(x, *V(a[1]).b); pn = p.node(); return push(T((T)p), t, depth); }
				auto p = bidirPin(x); pn = p.node(); return push(T((T)p), t, depth);
			});
			vals[r]->pin = pn;
			return r;
		}
		// --- multiplexer: selector a[0], data a[1..]
		if (op == "mux") {
			char t = V(a[1]).t;
			auto sel = [&](auto f) { if (V(a[0]).t == 'b') return f(*V(a[0]).b); return f(*V(a[0]).u); };
			if (t == 'u') { std::vector<UInt> tab; for (size_t i = 1; i < a.size(); i++) tab.push_back(*V(a[i]).u); return sel([&](auto &s) { return push(UInt(mux(s, tab)), 'u', depth); }); }
			if (t == 's') { std::vector<SInt> tab; for (size_t i = 1; i < a.size(); i++) tab.push_back(*V(a[i]).s); return sel([&](auto &s) { return push(SInt(mux(s, tab)), 's', depth); }); }
			if (t == 'v') { std::vector<BVec> tab; for (size_t i = 1; i < a.size(); i++) tab.push_back(*V(a[i]).v); return sel([&](auto &s) { return push(BVec(mux(s, tab)), 'v', depth); }); }
			std::vector<Bit> tab; for (size_t i = 1; i < a.size(); i++) tab.push_back(*V(a[i]).b); return sel([&](auto &s) { return push(Bit(mux(s, tab)), 'b', depth); });
		}
		if (op == "muxz") { // selector zero-extended: table may be larger than addressable
			std::vector<UInt> tab; for (size_t i = 1; i < a.size(); i++) tab.push_back(*V(a[i]).u);
			return push(UInt(mux(zext(*V(a[0]).u), tab)), 'u', depth);
		}
		// --- priority select: default a[0], then (cond, value) pairs
		if (op == "prio") {
			char t = V(a[0]).t;
			if (t == 'u') { PriorityConditional<UInt> pc; for (size_t i = 1; i + 1 < a.size(); i += 2) pc.addCondition(*V(a[i]).b, *V(a[i+1]).u); return push(UInt(pc(*V(a[0]).u)), 'u', depth); }
			if (t == 's') { PriorityConditional<SInt> pc; for (size_t i = 1; i + 1 < a.size(); i += 2) pc.addCondition(*V(a[i]).b, *V(a[i+1]).s); return push(SInt(pc(*V(a[0]).s)), 's', depth); }
			if (t == 'v') { PriorityConditional<BVec> pc; for (size_t i = 1; i + 1 < a.size(); i += 2) pc.addCondition(*V(a[i]).b, *V(a[i+1]).v); return push(BVec(pc(*V(a[0]).v)), 'v', depth); }
			PriorityConditional<Bit> pc; for (size_t i = 1; i + 1 < a.size(); i += 2) pc.addCondition(*V(a[i]).b, *V(a[i+1]).b); return push(Bit(pc(*V(a[0]).b)), 'b', depth);
		}
		// --- operand combined with an integer literal
		if (op == "addlit") return push(UInt(add(*V(a[0]).u, UInt(p[0]))), 'u', depth);
		if (op == "sublit") return push(UInt(sub(*V(a[0]).u, UInt(p[0]))), 'u', depth);
		if (op == "mullit") return push(UInt(mul(*V(a[0]).u, UInt(p[0]))), 'u', depth);
		if (op == "andlit") return push(UInt(land(*V(a[0]).u, UInt(p[0]))), 'u', depth);
		if (op == "eqlit") return push(Bit(eq(*V(a[0]).u, UInt(p[0]))), 'b', depth);
		if (op == "ltlit") return push(Bit(lt(*V(a[0]).u, UInt(p[0]))), 'b', depth);
		if (op == "saddlit") return push(SInt(add(*V(a[0]).s, SInt((std::int64_t)p[0]))), 's', depth);
		// --- literals
		if (op == "ulit") return push(UInt(spar.c_str()), 'u', depth);
		if (op == "slit") return push(SInt(spar.c_str()), 's', depth);
		if (op == "vlit") return push(BVec(spar.c_str()), 'v', depth);
		if (op == "uint") return push(UInt(p[0]), 'u', depth);
		if (op == "sint") return push(SInt((std::int64_t)p[0]), 's', depth);
		HCL_DESIGNCHECK_HINT(false, "harness: unknown op " + op);
		return -1;
	}

	// cat/pack are variadic templates over mixed operand types: dispatch on the run-time types one operand at a time
	template<class... Ts> int callCat(bool isCat, int depth, const Ts &...xs) {
		return isCat ? push(UInt(cat(xs...)), 'u', depth) : push(UInt(pack(xs...)), 'u', depth);
	}
	template<class... Done> int catRec(bool isCat, int depth, const std::vector<int> &a, const Done &...done) {
		constexpr size_t i = sizeof...(Done);
		if constexpr (i >= 3) return callCat(isCat, depth, done...);
		else {
			if (i == a.size()) { if constexpr (i > 0) return callCat(isCat, depth, done...); else return -1; }
			switch (V(a[i]).t) {
				case 'b': return catRec(isCat, depth, a, done..., *V(a[i]).b);
				case 'u': return catRec(isCat, depth, a, done..., *V(a[i]).u);
				case 's': return catRec(isCat, depth, a, done..., *V(a[i]).s);
				default: return catRec(isCat, depth, a, done..., *V(a[i]).v);
			}
		}
	}
	int applyCat(bool isCat, const std::vector<int> &a) {
		int depth = 0;
		for (int x : a) depth = std::max(depth, vals[x]->depth);
		depth++;
		o << "v " << vals.size() << ' ' << (isCat ? "cat" : "pack");
		for (int x : a) o << " a" << x;
		int res = -1;
		try { res = catRec(isCat, depth, a); }
		catch (const gtry::utils::DesignError &) { res = -1; } catch (const gtry::utils::InternalError &) { res = -2; }
		if (res < 0) { failed = true; o << " -> " << (res == -1 ? "e" : "E") << '\n'; return -1; }
		o << " -> " << vals[res]->t << ' ' << vals[res]->w << ' ' << vals[res]->pol << '\n';
		return res;
	}

	// ---------------------------------------------------------------------------------------------
	// generators
	// ---------------------------------------------------------------------------------------------
	char pickVecType() { return "usv"[rng.below(3)]; }

	// operand for DAG mode: an existing value of that type (depth < maxDepth) or a fresh leaf
	int operand(char t, bool dag, size_t w = ~0ull) {
		if (dag && rng.chance(3, 4)) {
			std::vector<int> cands;
			for (size_t i = 0; i < vals.size(); i++)
				if (vals[i]->t == t && vals[i]->depth < maxDepth && (w == ~0ull || vals[i]->w == w)) cands.push_back((int)i);
			if (!cands.empty()) return cands[rng.below(cands.size())];
		}
		return leaf(t, w == ~0ull ? genWidth() : w);
	}

	// a control operand (selector, condition, enable, amount, index): now and then routed through an inverting gate, so that an
	// undefined control bit reaches its consumer with VALUE plane 1 as well as 0 (NOT / XNOR / NAND / NOR / == of undefined inputs)
	int ctl(int idx, bool dag, unsigned oneIn = 0) {
		if (!oneIn) oneIn = ctlInv;
		if (idx < 0 || failed || constMode || !oneIn || !rng.chance(1, oneIn) || V(idx).depth >= maxDepth) return idx;
		int r = idx;
		if (V(idx).t == 'b') {
			switch (rng.below(6)) {
				case 0: case 1: case 2: r = apply("bnot", {idx}); break;
				case 3: r = apply("bxnor", {idx, operand('b', dag)}); break;
				case 4: r = apply(rng.chance(1, 2) ? "bnand" : "bnor", {idx, operand('b', dag)}); break;
				default: r = apply("beq", {idx, operand('b', dag)}); break;
			}
		} else if (V(idx).t == 'u') {
			if (rng.chance(2, 3)) r = apply("not", {idx});
			else r = apply(rng.chance(1, 2) ? "xnor.nn" : "nand.nn", {idx, operand('u', dag, V(idx).w)});
		}
		return r < 0 ? idx : r;
	}

	size_t genAmount(size_t w, bool allowBeyond) {
		size_t a = genAmount0(w, allowBeyond);
		return allowBeyond ? a : std::min(a, w);
	}
	size_t genAmount0(size_t w, bool allowBeyond) {
		switch (rng.below(8)) {
			case 0: return 0;
			case 1: return 1;
			case 2: return w ? w - 1 : 0;
			case 3: return w;
			case 4: return allowBeyond ? w + 1 : w / 2;
			case 5: return allowBeyond ? w + 1 + rng.below(12) : rng.below(w + 1);
			default: return rng.below(w + 1);
		}
	}

	static const std::vector<std::string> &binU() { static std::vector<std::string> v = {"add","sub","mul","div","rem","and","or","xor","nand","nor","xnor","eq","neq","lt","gt","leq","geq"}; return v; }
	static const std::vector<std::string> &binS() { static std::vector<std::string> v = {"add","sub","mul","and","or","xor","nand","nor","xnor","eq","neq","lt","gt","leq","geq"}; return v; }
	static const std::vector<std::string> &binV() { static std::vector<std::string> v = {"and","or","xor","nand","nor","xnor","eq","neq"}; return v; }

	// one random operator application; `dag` = operands may be earlier values. returns index or -1
	// print one value line for a value produced outside apply()
	void emitVal(int idx, const std::string &op, const std::vector<int> &args, const std::vector<uint64_t> &params) {
		o << "v " << idx << ' ' << op;
		for (int a : args) o << " a" << a;
		for (auto p : params) o << ' ' << p;
		o << " -> " << vals[idx]->t << ' ' << vals[idx]->w << ' ' << vals[idx]->pol << '\n';
	}

	// IF (sel == k) x = a;  chains over a UInt selector with repeated k values; every intermediate x is a value of its own (a tap),
	// so compare-selected mux chains with observed intermediate results are formed (Circuit::mergeBinaryMuxChain and friends)
	int genIfChain(bool dag) {
		size_t ws = rng.range(1, 3);
		size_t w = wide && rng.chance(1, 3) ? genWidth(1, 200) : rng.range(1, 9);
		int sel = ctl(operand('u', dag, ws), dag);
		int d = operand('u', dag, w);
		size_t n = rng.range(2, 6);
		int depth = std::max(V(sel).depth, V(d).depth) + 1;
		UInt x = *V(d).u;
		std::vector<int> args{sel, d};
		std::vector<uint64_t> ks;
		int last = -1;
		try {
			for (size_t j = 0; j < n; j++) {
				int a = operand('u', dag, w);
				uint64_t k = (!ks.empty() && rng.chance(1, 3)) ? ks[rng.below(ks.size())] : rng.below(size_t(1) << ws);
				depth = std::max(depth, V(a).depth + 1);
				IF (*V(sel).u == k)
					x = *V(a).u;
				args.push_back(a); ks.push_back(k);
				UInt tap = x;
				last = push(tap, 'u', depth);
				emitVal(last, "ifchain", args, ks);
			}
		} catch (const gtry::utils::DesignError &) { failed = true; o << "v " << vals.size() << " ifchain -> e\n"; return -1; }
		catch (const gtry::utils::InternalError &) { failed = true; o << "v " << vals.size() << " ifchain -> E\n"; return -1; }
		return last;
	}

	// IF (c1) x = a1; IF (c2) x = a2; …  — a priority select where later conditions override earlier ones
	int genIfPrio(bool dag) {
		size_t w = wide && rng.chance(1, 3) ? genWidth(1, 200) : rng.range(1, 9);
		int d = operand('u', dag, w);
		size_t n = rng.range(2, 5);
		int depth = V(d).depth + 1;
		UInt x = *V(d).u;
		std::vector<int> args{d};
		int last = -1;
		try {
			for (size_t j = 0; j < n; j++) {
				int c = ctl(operand('b', dag), dag);
				int a = operand('u', dag, w);
				if (failed) return -1;
				depth = std::max(depth, std::max(V(a).depth, V(c).depth) + 1);
				IF (*V(c).b)
					x = *V(a).u;
				args.push_back(c); args.push_back(a);
				UInt tap = x;
				last = push(tap, 'u', depth);
				emitVal(last, "ifprio", args, {});
			}
		} catch (const gtry::utils::DesignError &) { failed = true; o << "v " << vals.size() << " ifprio -> e\n"; return -1; }
		catch (const gtry::utils::InternalError &) { failed = true; o << "v " << vals.size() << " ifprio -> E\n"; return -1; }
		return last;
	}

	// operands whose *carried* expansion policy decides the result: ext(x, +0, policy) [-> slice alias] [-> cast] meets a wider operand
	// in an operator that is given the operands as they are (policy letters "i")
	int genPolicyUse(bool dag) {
		char t = pickVecType();
		int A = operand(t, dag);
		if (V(A).w == 0) return -1;
		static const std::vector<std::string> exts = {"zextby", "oextby", "sextby"};
		int E = apply(rng.pick(exts), {A}, {0});
		if (E < 0) return -1;
		int S = E;
		if (rng.chance(2, 3)) {
			size_t w = V(E).w;
			switch (rng.below(3)) {
				case 0: S = apply("lower", {E}, {rng.range(1, w)}); break;
				case 1: S = apply("upper", {E}, {rng.range(1, w)}); break;
				default: { size_t sw = rng.range(1, w); S = apply("slice", {E}, {rng.below(w - sw + 1), sw}); } break;
			}
			if (S < 0) return -1;
		}
		size_t wb = V(S).w + rng.range(1, wide ? 70 : 9);
		int B = operand(t, dag, wb);
		const auto &names = t == 'u' ? binU() : t == 's' ? binS() : binV();
		std::string name = rng.pick(names);
		if (t == 's' && (name == "lt" || name == "gt" || name == "leq" || name == "geq" || name == "mul")) name = "add";
		return rng.chance(1, 2) ? apply(name + ".in", {S, B}) : apply(name + ".ni", {B, S});
	}

	int genOp(bool dag, bool allowMalformed) {
		if (!constMode && rng.chance(1, dag ? 7 : 14)) return rng.chance(2, 3) ? genIfChain(dag) : genIfPrio(dag);
		if (rng.chance(1, 12)) return genPolicyUse(dag);
		if (xconst && rng.chance(1, 5)) return genXConst(dag);
		if (tristate && rng.chance(1, 7)) {
			char t = "busv"[rng.below(4)];
			int D = operand(t, dag, t == 'b' ? 1 : genWidth(1, 200));
			if (rng.chance(1, 6)) return apply("tria", {D});
			int E = ctl(operand('b', dag), dag, 2);
			if (failed) return -1;
			return apply("tri", {D, E});
		}
		unsigned cat = (unsigned)rng.below(100);
		if (cat < 30) { // binary with policies
			char t = pickVecType();
			const auto &names = t == 'u' ? binU() : t == 's' ? binS() : binV();
			std::string name = rng.pick(names);
			int A = operand(t, dag);
			size_t wa = V(A).w;
			int B = rng.chance(1, 2) ? operand(t, dag, wa) : operand(t, dag);
			size_t wb = V(B).w;
			// SInt order comparisons and mixed-width SInt multiplication take the sign bit: zero-width operands throw
			if (t == 's' && std::min(wa, wb) == 0 && (name == "lt" || name == "gt" || name == "leq" || name == "geq") && !allowMalformed) return -1;
			if (t == 's' && name == "mul" && wa != wb && std::min(wa, wb) == 0 && !allowMalformed) return -1;
			const char pols[] = "nzos";
			char pa = pols[rng.below(4)], pb = pols[rng.below(4)];
			// signed order comparisons sign-extend themselves and mixed-width signed multiplication is only meaningful with
			// sign extension: other policies on SInt operands are not part of the operators' domain here
			bool signedOp = t == 's' && (name == "lt" || name == "gt" || name == "leq" || name == "geq" || name == "mul");
			if (signedOp) { pa = rng.chance(1, 4) ? 'n' : 's'; pb = rng.chance(1, 4) ? 'n' : 's'; }
			if (!(allowMalformed && rng.chance(1, 12))) {
				// make it well-formed: the narrower operand needs a policy, sign extension needs a non-empty operand
				bool cmpS = signedOp; // these accept any policies: the comparisons call sext() themselves, abs() of mul returns zext(res)
				if (wa < wb && pa == 'n' && !cmpS) pa = signedOp ? 's' : 'z';
				if (wb < wa && pb == 'n' && !cmpS) pb = signedOp ? 's' : 'z';
				if (wa < wb && pa == 's' && wa == 0 && !signedOp) pa = 'o';
				if (wb < wa && pb == 's' && wb == 0 && !signedOp) pb = 'o';
			}
			return apply(name + "." + pa + pb, {A, B});
		}
		if (cat < 36) { // Bit x Bit, not
			static const std::vector<std::string> ops = {"band","bor","bxor","bnand","bnor","bxnor","beq","bneq"};
			if (rng.chance(1, 6)) return apply("bnot", {operand('b', dag)});
			int A = operand('b', dag), B = operand('b', dag);
			return apply(rng.pick(ops), {A, B});
		}
		if (cat < 40) return apply("not", {operand(pickVecType(), dag)});
		if (cat < 45) { // broadcast
			static const std::vector<std::string> ops = {"vand","vor","vxor","vnand","vnor","vxnor"};
			int A = operand(pickVecType(), dag);
			if (V(A).w == 0 && !allowMalformed) return -1; // the broadcast Bit is one bit wide: a zero-width vector cannot be expanded
			int B = operand('b', dag);
			return apply(rng.pick(ops), {A, B});
		}
		if (cat < 49) {
			switch (rng.below(4)) {
				case 0: { int A = operand(rng.chance(1,2) ? 'u' : 's', dag); if (V(A).w == 0 && !allowMalformed) return -1; return apply("addbit", {A, operand('b', dag)}); }
				case 1: { int A = operand(rng.chance(1,2) ? 'u' : 's', dag); if (V(A).w == 0 && !allowMalformed) return -1; return apply("subbit", {A, operand('b', dag)}); }
				case 2: { int A = operand('u', dag); if (V(A).w == 0 && !allowMalformed) return -1; int B = operand('u', dag, V(A).w); return apply("addc", {A, B, operand('b', dag)}); }
				default: { int A = operand('s', dag); if (V(A).w == 0 && !allowMalformed) return -1; return apply("sabs", {A}); }
			}
		}
		if (cat < 58) { // static shifts
			static const std::vector<std::string> ops = {"shl","shr","rotl","rotr"};
			int A = operand(pickVecType(), dag);
			// amounts beyond the width are part of the operator's domain (a shift by >= width is all fill, a rotate is modulo)
			size_t amt = genAmount(V(A).w, beyond && (!dag || rng.chance(1, 3)));
			std::string name = rng.pick(ops);
			if (name == "rotl" && amt == 0) name = "rotr"; // rot(x, 0) takes the right-rotate branch anyway
			return apply(name, {A}, {amt});
		}
		if (cat < 60) {
			int A = operand('u', dag);
			size_t amt = genAmount(V(A).w, false);
			if (V(A).w == 0) return -1;
			if (amt == 0 && !allowMalformed) amt = 1; // sext(bit, 0_b) is rejected
			return apply("shra", {A, operand('b', dag)}, {amt});
		}
		if (cat < 68) { // dynamic shifts
			static const std::vector<std::string> ops = {"zshl","oshl","sshl","zshr","oshr","sshr","drotl","drotr"};
			int A = operand(pickVecType(), dag);
			std::string name = rng.pick(ops);
			if (V(A).w == 0 && (name == "drotl" || name == "drotr")) return -1; // Node_Shift: amountVal %= 0 (DESIGN.md O2) — not generated
			size_t wamt = rng.chance(4, 5) ? rng.range(0, 8) : rng.range(9, 63);
			int B = ctl(operand('u', dag, wamt), dag);
			if (failed) return -1;
			return apply(name, {A, B});
		}
		if (cat < 74) { // extension
			static const std::vector<std::string> ops = {"zext","oext","sext"};
			std::string name = rng.pick(ops);
			char t = rng.chance(1, 6) ? 'b' : pickVecType();
			int A = operand(t, dag);
			size_t w = V(A).w;
			if (rng.chance(1, 2)) {
				size_t by = rng.chance(1, 4) ? 0 : rng.range(1, 70);
				if (name == "sext" && w == 0 && by && !allowMalformed) name = "zext";
				return apply(name + "by", {A}, {by});
			}
			size_t to = rng.chance(1, 4) ? w : w + rng.range(1, 70);
			if (allowMalformed && rng.chance(1, 10) && w) to = rng.below(w);
			if (t == 'b' && to == 0 && !allowMalformed) to = 1;
			if (name == "sext" && w == 0 && to > w && !allowMalformed) name = "oext";
			return apply(name, {A}, {to});
		}
		if (cat < 84) { // slices
			int A = operand(pickVecType(), dag);
			size_t w = V(A).w;
			switch (rng.below(8)) {
				case 0: case 1: {
					size_t sw = rng.below(w + 1), off = rng.below(w - sw + 1);
					if (allowMalformed && rng.chance(1, 10)) off = w - sw + 1 + rng.below(4);
					return apply("slice", {A}, {off, sw});
				}
				case 2: return apply("upper", {A}, {rng.below(w + 1)});
				case 3: return apply("lower", {A}, {rng.below(w + 1)});
				case 4: if (w == 0 && !allowMalformed) return -1; return apply("bitat", {A}, {w ? rng.below(w) : 0});
				case 5: if (w == 0 && !allowMalformed) return -1; return apply(rng.chance(1,2) ? "msb" : "lsb", {A});
				case 6: {
					if (w == 0) return -1;
					size_t wi = rng.range(1, 5);
					int I = ctl(operand('u', dag, wi), dag);
					if (failed) return -1;
					return apply("dbit", {A, I});
				}
				default: {
					if (w == 0) return -1;
					size_t wi = rng.range(1, 4);
					size_t sw = rng.range(1, std::min<size_t>(w, 9));
					int I = ctl(operand('u', dag, wi), dag);
					if (failed) return -1;
					return apply("dslice", {A, I}, {sw});
				}
			}
		}
		if (cat < 89) { // cat / pack
			size_t n = rng.range(1, 3);
			std::vector<int> a;
			for (size_t i = 0; i < n; i++) a.push_back(operand("busv"[rng.below(4)], dag));
			return applyCat(rng.chance(1, 2), a);
		}
		if (cat < 94) { // mux
			char t = "busv"[rng.below(4)];
			size_t ws = rng.range(0, 3);
			size_t n = size_t(1) << ws;
			bool zsel = false;
			if (rng.chance(1, 3) && n > 1) n = rng.range(1, n);        // fewer inputs than addressable: out-of-range selector values exist
			else if (rng.chance(1, 6) && t == 'u') { n += rng.range(1, 2); zsel = true; }
			size_t w = t == 'b' ? 1 : genWidth();
			std::vector<int> a;
			if (ws == 1 && !zsel && rng.chance(1, 2)) a.push_back(ctl(operand('b', dag), dag)); else a.push_back(ctl(operand('u', dag, ws), dag));
			for (size_t i = 0; i < n; i++) a.push_back(operand(t, dag, w));
			if (failed) return -1;
			return apply(zsel ? "muxz" : "mux", a);
		}
		if (cat < 97) { // priority select
			char t = "busv"[rng.below(4)];
			size_t w = t == 'b' ? 1 : genWidth();
			size_t n = rng.range(0, 4);
			std::vector<int> a;
			a.push_back(operand(t, dag, w));
			for (size_t i = 0; i < n; i++) { a.push_back(ctl(operand('b', dag), dag)); a.push_back(operand(t, dag, w)); }
			if (failed) return -1;
			return apply("prio", a);
		}
		if (cat < 99) { // literal operand
			static const std::vector<std::string> ops = {"addlit","sublit","mullit","andlit","eqlit","ltlit"};
			int A = operand('u', dag);
			size_t w = V(A).w;
			uint64_t lit = rng.chance(1, 3) ? rng.below(4) : (rng.next() >> rng.below(64));
			if (!allowMalformed || !rng.chance(1, 8)) {
				// literal must fit: width(lit) <= w
				if (w < 64) lit &= (w ? ((1ull << w) - 1) : 0);
			}
			return apply(rng.pick(ops), {A}, {lit});
		}
		{ // casts
			static const std::vector<std::string> ops = {"tou","tos","tov"};
			return apply(rng.pick(ops), {operand(pickVecType(), dag)});
		}
	}
};

// -------------------------------------------------------------------------------------------------
// netlist dump (cone of the recorded values), topologically ordered
// -------------------------------------------------------------------------------------------------
struct Net {
	std::vector<hlim::BaseNode*> order;
	std::map<hlim::BaseNode*, int> index;

	std::vector<hlim::Node_Register*> regs;
	void visit(hlim::BaseNode *n) {
		if (!n || index.count(n)) return;
		index[n] = -1; // in progress (combinational loops do not occur in these designs)
		// a register output is a source of the combinational order; its input cones are visited afterwards (visitRegInputs)
		if (auto *r = dynamic_cast<hlim::Node_Register*>(n)) regs.push_back(r);
		else for (size_t i = 0; i < n->getNumInputPorts(); i++) visit(n->getDriver(i).node);
		index[n] = (int)order.size();
		order.push_back(n);
	}
	void visitRegInputs() {
		for (size_t k = 0; k < regs.size(); k++) // regs may grow while visiting
			for (size_t i = 0; i < regs[k]->getNumInputPorts(); i++) visit(regs[k]->getDriver(i).node);
	}

	static const char *logicName(hlim::Node_Logic::Op op) {
		switch (op) { case hlim::Node_Logic::AND: return "AND"; case hlim::Node_Logic::NAND: return "NAND"; case hlim::Node_Logic::OR: return "OR"; case hlim::Node_Logic::NOR: return "NOR";
			case hlim::Node_Logic::XOR: return "XOR"; case hlim::Node_Logic::EQ: return "EQ"; default: return "NOT"; }
	}
	static const char *arithName(hlim::Node_Arithmetic::Op op) {
		switch (op) { case hlim::Node_Arithmetic::ADD: return "ADD"; case hlim::Node_Arithmetic::SUB: return "SUB"; case hlim::Node_Arithmetic::MUL: return "MUL"; case hlim::Node_Arithmetic::DIV: return "DIV"; default: return "REM"; }
	}
	static const char *cmpName(hlim::Node_Compare::Op op) {
		switch (op) { case hlim::Node_Compare::EQ: return "EQ"; case hlim::Node_Compare::NEQ: return "NEQ"; case hlim::Node_Compare::LT: return "LT"; case hlim::Node_Compare::GT: return "GT"; case hlim::Node_Compare::LEQ: return "LEQ"; default: return "GEQ"; }
	}

	// returns false if a node kind outside the modelled set occurs
	bool dump(std::ostream &o, const std::map<hlim::Node_Pin*, int> &pinIdx) {
		bool ok = true;
		o << "net " << order.size() << '\n';
		for (size_t i = 0; i < order.size(); i++) {
			auto *n = order[i];
			size_t w = n->getNumOutputPorts() ? n->getOutputConnectionType(0).width : 0;
			bool isBool = n->getNumOutputPorts() && n->getOutputConnectionType(0).isBool();
			o << "n " << i << ' ';
			std::ostringstream kind;
			if (auto *pin = dynamic_cast<hlim::Node_Pin*>(n)) {
				auto it = pinIdx.find(pin);
				// a pin with an output driver (tristate / bidirectional): inputs data, output enable; the pad value is stimulus <idx>
				kind << (pin->isOutputPin() && pin->isInputPin() ? "tri " : "in ") << (it == pinIdx.end() ? -1 : it->second);
				if (pin->isOutputPin() && !pin->isInputPin()) ok = false;
			} else if (dynamic_cast<hlim::Node_Signal*>(n)) kind << "sig";
			else if (auto *l = dynamic_cast<hlim::Node_Logic*>(n)) kind << "logic " << logicName(l->getOp());
			else if (auto *a = dynamic_cast<hlim::Node_Arithmetic*>(n)) kind << "arith " << arithName(a->getOp());
			else if (auto *c = dynamic_cast<hlim::Node_Compare*>(n)) {
				auto d = c->getDriver(0);
				bool opBool = d.node && hlim::getOutputConnectionType(d).isBool();
				kind << "cmp " << cmpName(c->getOp()) << ' ' << (opBool ? 'b' : 'v');
			}
			else if (auto *s = dynamic_cast<hlim::Node_Shift*>(n)) {
				kind << "shift " << (s->getDirection() == hlim::Node_Shift::dir::left ? 'L' : 'R') << ' ';
				switch (s->getFillMode()) { case hlim::Node_Shift::fill::zero: kind << 'Z'; break; case hlim::Node_Shift::fill::one: kind << 'O'; break; case hlim::Node_Shift::fill::last: kind << 'S'; break; default: kind << 'R'; }
			}
			else if (auto *r = dynamic_cast<hlim::Node_Rewire*>(n)) {
				kind << "rew ";
				const auto &ranges = r->getOp().ranges;
				if (ranges.empty()) kind << '-';
				for (size_t k = 0; k < ranges.size(); k++) {
					if (k) kind << ',';
					const auto &rg = ranges[k];
					switch (rg.source) {
						case hlim::Node_Rewire::OutputRange::INPUT: kind << "i:" << rg.inputIdx << ':' << rg.inputOffset << ':' << rg.subwidth; break;
						case hlim::Node_Rewire::OutputRange::CONST_ZERO: kind << "z:" << rg.subwidth; break;
						case hlim::Node_Rewire::OutputRange::CONST_ONE: kind << "o:" << rg.subwidth; break;
						default: kind << "u:" << rg.subwidth; break;
					}
				}
			}
			else if (dynamic_cast<hlim::Node_Multiplexer*>(n)) kind << "mux";
			else if (dynamic_cast<hlim::Node_PriorityConditional*>(n)) kind << "prio";
			else if (auto *c = dynamic_cast<hlim::Node_Constant*>(n)) kind << "const " << vh::bitsToString(c->getValue());
			else if (dynamic_cast<hlim::Node_Register*>(n)) kind << "reg";
			else { kind << "other " << n->getTypeName(); ok = false; }
			o << w << ' ' << (isBool ? 'b' : 'v') << ' ';
			if (n->getNumInputPorts() == 0) o << '-';
			for (size_t k = 0; k < n->getNumInputPorts(); k++) {
				if (k) o << ',';
				auto d = n->getDriver(k);
				if (!d.node) o << '-'; else { o << index[d.node]; if (d.port != 0) ok = false; }
			}
			o << ' ' << kind.str() << '\n';
		}
		return ok;
	}
};

static std::string concretise(Rng &rng, const std::string &abs, bool full) {
	std::string r = abs;
	for (auto &c : r) if (c == 'x' && (full || rng.chance(1, 2))) c = rng.chance(1, 2) ? '1' : '0';
	return r;
}

static void runCase(uint64_t caseSeed, size_t id, const std::string &mode, size_t nstim, std::ostream &o) {
	Rng rng(caseSeed);
	g_xplane = Rng(caseSeed ^ 0x7a3d9e11c5ull);
	o << "case " << id << ' ' << mode << ' ' << caseSeed << '\n';
	DesignScope design;
	Builder b(rng, o);
	bool conc = mode == "conc" || mode == "concw";
	// one in three DAG cases is simulated a second time after design.postprocess() on the same stimuli (users simulate post-processed designs)
	// C08 conc modes: one case in two is also simulated after post-processing (default, one in four of these minimal), abstract
	// stimulus and concretisations; the driver compares with the as-constructed netlist under concretised constants
	bool post = (mode == "dag" || mode == "dags") ? rng.chance(1, 3) : conc ? rng.chance(1, 2) : false;
	bool minimalPost = conc && post && rng.chance(1, 4);
	b.tristate = conc && !post; // the pad of a tristate pin is not driven in the post-processed re-simulation
	b.xconst = conc;
	if (conc) b.ctlInv = 3;
	b.constMode = mode == "const";
	b.wide = !(mode == "conc") && !(mode == "dags");
	b.beyond = !conc && !b.constMode;
	if (mode == "op") {
		for (int tries = 0; tries < 20 && b.vals.empty(); tries++) b.genOp(false, true);
		// skipped op categories leave only leaves behind; the last value is still a valid (trivial) expression
		for (int tries = 0; tries < 20 && !b.failed && (b.vals.empty() || b.vals.back()->depth == 0); tries++) b.genOp(false, true);
	} else {
		size_t nops = rng.range(3, b.wide ? 14 : 24);
		if (b.constMode) nops = rng.range(1, 8);
		for (size_t i = 0; i < nops && !b.failed; i++) b.genOp(true, false);
	}
	if (b.failed || b.vals.empty()) { o << "end\n"; return; }

	Net net;
	for (auto &v : b.vals) net.visit(v->port.node);
	std::map<hlim::Node_Pin*, int> pinIdx;
	std::vector<int> pins;
	for (size_t i = 0; i < b.vals.size(); i++) if (b.vals[i]->pin) { pinIdx[b.vals[i]->pin] = (int)i; pins.push_back((int)i); }
	// post cases: every expression value is tapped by an output pin, so that it survives post-processing and stays observable
	std::vector<hlim::Node_Pin*> taps(b.vals.size(), nullptr);
	std::vector<std::unique_ptr<OutputPin>> tapBit;
	std::vector<std::unique_ptr<OutputPins>> tapVec;
	if (post)
		for (size_t i = 0; i < b.vals.size(); i++) {
			auto &v = *b.vals[i];
			if (v.w == 0) continue;
			switch (v.t) {
				case 'b': tapBit.push_back(std::make_unique<OutputPin>(pinOut(*v.b))); taps[i] = tapBit.back()->node(); break;
				case 'u': tapVec.push_back(std::make_unique<OutputPins>(pinOut(*v.u))); taps[i] = tapVec.back()->node(); break;
				case 's': tapVec.push_back(std::make_unique<OutputPins>(pinOut(*v.s))); taps[i] = tapVec.back()->node(); break;
				default:  tapVec.push_back(std::make_unique<OutputPins>(pinOut(*v.v))); taps[i] = tapVec.back()->node(); break;
			}
		}
	bool known = net.dump(o, pinIdx);
	o << "xo";
	for (auto &v : b.vals) o << ' ' << (v->port.node ? net.index[v->port.node] : -1);
	o << '\n';
	if (!known) { o << "unmodelled\nend\n"; return; }
	// Do not execute undefined behaviour: a rewire range outside its input reads foreign simulator state (or segfaults),
	// a 64-bit shift amount evaluates `1ull << 64`. Such netlists are reported structurally and not simulated.
	for (size_t i = 0; i < net.order.size(); i++) {
		if (auto *r = dynamic_cast<hlim::Node_Rewire*>(net.order[i])) {
			for (const auto &rg : r->getOp().ranges)
				if (rg.source == hlim::Node_Rewire::OutputRange::INPUT && rg.subwidth > 0) {
					auto d = r->getDriver(rg.inputIdx);
					if (!d.node) continue;
					size_t wi = hlim::getOutputWidth(d);
					if (rg.inputOffset > wi || rg.subwidth > wi - rg.inputOffset) { o << "unsafe " << i << " rewire-range-outside-input\nend\n"; return; }
				}
		}
		if (auto *sh = dynamic_cast<hlim::Node_Shift*>(net.order[i])) {
			auto d = sh->getDriver(1);
			if (d.node && hlim::getOutputWidth(d) >= 64) { o << "unsafe " << i << " shift-amount-64bit\nend\n"; return; }
			if (sh->getFillMode() == hlim::Node_Shift::fill::rotate && sh->getOutputConnectionType(0).width == 0) { o << "unsafe " << i << " rotate-zero-width\nend\n"; return; }
		}
	}

	// construction-time evaluation of every expression (const mode) — before the simulator exists
	std::vector<std::string> ct;
	if (b.constMode) {
		for (size_t k = 0; k < b.vals.size(); k++) {
			auto &v = b.vals[k];
			std::string r;
			o << "cteval " << k << '\n'; // marks which expression is being evaluated, should the evaluation crash
			try {
				sim::DefaultBitVectorState st;
				switch (v->t) { case 'b': st = simu(*v->b).eval(); break; case 'u': st = simu(*v->u).eval(); break; case 's': st = simu(*v->s).eval(); break; default: st = simu(*v->v).eval(); }
				r = vh::bitsToString(st);
			} catch (const std::exception &ex) {
				// canonical form: exception text up to the location, blanks replaced
				std::string m = ex.what();
				size_t cut = m.find(" Location:"); if (cut != std::string::npos) m = m.substr(0, cut);
				for (auto &c : m) if (c == ' ' || c == '\n' || c == '\t') c = '_';
				r = "e(" + m.substr(0, 160) + ")";
			}
			ct.push_back(r);
		}
		o << "cteval done\n";
	}

	std::vector<std::vector<std::string>> allStim;
	bool simOk = false;
	try {
		vh::Sim sim(design.getCircuit());
		std::vector<std::string> absStim;
		for (size_t s = 0; s < nstim; s++) {
			std::vector<std::string> stim;
			bool isConc = conc && s > 0;
			if (isConc) {
				bool full = s % 3 != 0;
				for (auto &a : absStim) stim.push_back(concretise(rng, a, full));
				o << "stimc " << s << (full ? " full" : " part") << '\n';
			} else {
				// stimulus classes: fully defined (special values / random), few undefined bits, many, all
				int ukind = conc ? (int)rng.range(1, 2) : (s % 4 == 3 ? 2 : s % 4 == 1 ? 1 : 0);
				for (int p : pins) {
					auto &v = *b.vals[p];
					int uk = ukind;
					if (conc && rng.chance(1, 4)) uk = 0;
					if (!conc && uk && rng.chance(1, 3)) uk = rng.chance(1, 8) ? 3 : 0;
					stim.push_back(b.undefBits(b.genBits(v.w), uk));
				}
				absStim = stim;
				o << "stim " << s << '\n';
			}
			allStim.push_back(stim);
			for (size_t k = 0; k < pins.size(); k++) {
				auto &v = *b.vals[pins[k]];
				if (v.w) setPinX(sim.sim, v.pin, stim[k]);
				o << "pv " << pins[k] << ' ' << stim[k] << '\n';
			}
			sim.eval();
			o << "nv";
			for (auto *n : net.order) o << ' ' << (n->getNumOutputPorts() ? sim.get({.node = n, .port = 0}) : std::string("-"));
			o << '\n';
			o << "xv";
			for (auto &v : b.vals) o << ' ' << sim.get(v->port);
			o << '\n';
			if (b.constMode) {
				o << "ct";
				for (auto &c : ct) o << ' ' << c;
				o << '\n';
				break;
			}
		}
		simOk = true;
	} catch (const std::exception &e) {
		o << "simerr " << e.what() << '\n';
	}
	if (post && simOk) {
		// the same design after post-processing, the same stimuli: only the tapped values are observable (net.order is stale now)
		o << "post" << (minimalPost ? " minimal" : "") << '\n';
		bool ok = true;
		try { if (minimalPost) design.getCircuit().postprocess(hlim::MinimalPostprocessing{}); else design.postprocess(); }
		catch (const std::exception &e) { std::string m = e.what(); for (auto &c : m) if (c == '\n') c = ' '; o << "posterr " << m.substr(0, 200) << '\n'; ok = false; }
		if (ok) {
			try {
				vh::Sim sim2(design.getCircuit());
				for (size_t s = 0; s < allStim.size(); s++) {
					for (size_t k = 0; k < pins.size(); k++) {
						auto &v = *b.vals[pins[k]];
						if (v.w) setPinX(sim2.sim, v.pin, allStim[s][k]);
					}
					sim2.eval();
					o << "pxv " << s;
					for (size_t i = 0; i < b.vals.size(); i++) o << ' ' << (taps[i] ? sim2.getPin(taps[i]) : std::string("?"));
					o << '\n';
				}
			} catch (const std::exception &e) {
				std::string m = e.what(); for (auto &c : m) if (c == '\n') c = ' ';
				o << "posterr simulation: " << m.substr(0, 200) << '\n';
			}
		}
	}
	o << "end\n";
}

// C08, sequential: an expression DAG with registers (with / without reset value and enable, feedback allowed) is run for a few clock
// cycles under an abstract stimulus sequence and under concretisations of it (undefined stimulus bits and undefined initial register
// contents replaced by 0/1); every node value of every cycle is printed.
static void runSeq(uint64_t caseSeed, size_t id, size_t nruns, std::ostream &o) {
	Rng rng(caseSeed);
	g_xplane = Rng(caseSeed ^ 0x7a3d9e11c5ull);
	o << "case " << id << " seq " << caseSeed << '\n';
	DesignScope design;
	Clock clk({.absoluteFrequency = 100'000'000});
	ClockScope clkScope(clk);
	Builder b(rng, o);
	b.wide = false; b.beyond = false; b.tristate = true; b.ctlInv = 3;
	size_t nregs = rng.range(1, 4);
	std::vector<UInt> q;
	std::vector<int> qIdx;
	q.reserve(nregs);
	for (size_t i = 0; i < nregs; i++) {
		size_t w = rng.range(1, 8);
		q.emplace_back(BitWidth(w));
		int idx = b.push(q[i], 'u', 0);
		qIdx.push_back(idx);
		o << "v " << idx << " regq " << i << ' ' << w << " -> u " << w << " n\n";
	}
	size_t nops = rng.range(4, 20);
	for (size_t i = 0; i < nops && !b.failed; i++) b.genOp(true, false);
	std::vector<hlim::Node_Register*> regNodes;
	std::vector<std::string> regInit;
	for (size_t i = 0; i < nregs && !b.failed; i++) {
		size_t w = q[i].size();
		int d = b.operand('u', true, w);
		auto *reg = DesignScope::createNode<hlim::Node_Register>();
		reg->setClock(clk.getClk());
		reg->connectInput(hlim::Node_Register::DATA, b.V(d).port);
		std::string rst = "-";
		int en = -1;
		if (rng.chance(2, 3)) {
			rst = b.undefBits(b.genBits(w), rng.chance(1, 5) ? 1 : 0);
			auto *c = DesignScope::createNode<hlim::Node_Constant>(bitsX(rst), hlim::ConnectionType::BITVEC);
			reg->connectInput(hlim::Node_Register::RESET_VALUE, {.node = c, .port = 0});
		}
		if (rng.chance(1, 2)) {
			en = b.ctl(b.operand('b', true), true);
			reg->connectInput(hlim::Node_Register::ENABLE, b.V(en).port);
		}
		q[i] = UInt(SignalReadPort(reg));
		regNodes.push_back(reg);
		regInit.push_back(rst == "-" ? std::string(w, 'x') : rst); // power-on content: the reset value, all undefined without one
		o << "reg " << i << " q=a" << qIdx[i] << " data=a" << d << " rst=" << rst << " en=" << (en < 0 ? std::string("-") : "a" + std::to_string(en)) << '\n';
	}
	if (b.failed || b.vals.empty()) { o << "end\n"; return; }

	Net net;
	for (auto &v : b.vals) net.visit(v->port.node);
	for (auto *r : regNodes) net.visit(r);
	net.visitRegInputs();
	std::map<hlim::Node_Pin*, int> pinIdx;
	std::vector<int> pins;
	for (size_t i = 0; i < b.vals.size(); i++) if (b.vals[i]->pin) { pinIdx[b.vals[i]->pin] = (int)i; pins.push_back((int)i); }
	bool known = net.dump(o, pinIdx);
	o << "xo";
	for (auto &v : b.vals) o << ' ' << (v->port.node ? net.index[v->port.node] : -1);
	o << '\n';
	if (!known) { o << "unmodelled\nend\n"; return; }
	for (size_t i = 0; i < net.order.size(); i++)
		if (auto *r = dynamic_cast<hlim::Node_Rewire*>(net.order[i]))
			for (const auto &rg : r->getOp().ranges)
				if (rg.source == hlim::Node_Rewire::OutputRange::INPUT && rg.subwidth > 0) {
					auto d = r->getDriver(rg.inputIdx);
					if (!d.node) continue;
					size_t wi = hlim::getOutputWidth(d);
					if (rg.inputOffset > wi || rg.subwidth > wi - rg.inputOffset) { o << "unsafe " << i << " rewire-range-outside-input\nend\n"; return; }
				}

	try {
		const size_t T = 6;
		std::vector<std::vector<std::string>> absStim(T);
		for (size_t t = 0; t < T; t++)
			for (int p : pins) {
				auto &v = *b.vals[p];
				int uk = rng.chance(1, 3) ? 0 : (int)rng.range(1, 2);
				absStim[t].push_back(b.undefBits(b.genBits(v.w), uk));
			}
		const hlim::ClockRational period = hlim::ClockRational(1) / clk.absoluteFrequency();
		for (size_t r = 0; r < nruns; r++) {
			sim::ReferenceSimulator sim(false);
			sim.compileProgram(design.getCircuit());
			sim.powerOn();
			bool full = r % 3 != 0;
			if (r == 0) o << "stim 0\n"; else o << "stimc " << r << (full ? " full" : " part") << '\n';
			// what the simulator holds after power-on (compared by the driver with the requested reset value / all-x)
			for (size_t i = 0; i < regNodes.size(); i++)
				o << "reginit " << i << ' ' << vh::bitsToString(sim.getValueOfOutput({.node = regNodes[i], .port = 0})) << '\n';
			if (r > 0) {
				// undefined initial register contents are part of what a concretisation fixes; the abstract content is the *requested* one
				for (size_t i = 0; i < regNodes.size(); i++) {
					std::string c = concretise(rng, regInit[i], full);
					o << "regset " << i << ' ' << c << '\n';
					sim.simProcOverrideRegisterOutput(regNodes[i], bitsX(c));
				}
			}
			for (size_t t = 0; t < T; t++) {
				o << "cyc " << t << '\n';
				for (size_t k = 0; k < pins.size(); k++) {
					auto &v = *b.vals[pins[k]];
					std::string val = r == 0 ? absStim[t][k] : concretise(rng, absStim[t][k], full);
					if (v.w) setPinX(sim, v.pin, val);
					o << "pv " << pins[k] << ' ' << val << '\n';
				}
				sim.reevaluate();
				o << "nv";
				for (auto *n : net.order) o << ' ' << (n->getNumOutputPorts() ? vh::bitsToString(sim.getValueOfOutput({.node = n, .port = 0})) : std::string("-"));
				o << '\n';
				o << "xv";
				for (auto &v : b.vals) o << ' ' << vh::bitsToString(sim.getValueOfOutput(v->port));
				o << '\n';
				sim.advance(period);
			}
		}
	} catch (const std::exception &e) {
		o << "simerr " << e.what() << '\n';
	}
	o << "end\n";
}

// C08, memories: two memories with the same shape share their read address pins; memory B holds a concretisation of the (partly
// undefined) power-on contents of memory A.  Asynchronous read ports, EXACT or default undefined-address behaviour, optionally
// post-processed.  Every abstract address (0..3 undefined bits) is followed by ALL its concretisations.
static void runMem(uint64_t caseSeed, size_t id, std::ostream &o) {
	Rng rng(caseSeed);
	g_xplane = Rng(caseSeed ^ 0x7a3d9e11c5ull);
	o << "case " << id << " mem " << caseSeed << '\n';
	DesignScope design;
	Clock clk({.absoluteFrequency = 100'000'000});
	ClockScope clkScope(clk);
	Builder b(rng, o);
	size_t depth = rng.chance(1, 2) ? rng.range(2, 16) : rng.pick(std::vector<size_t>{2, 3, 4, 5, 7, 8, 9, 15, 16});
	size_t w = rng.chance(1, 2) ? rng.range(1, 12) : rng.pick(std::vector<size_t>{1, 8, 31, 32, 33, 63, 64, 65, 70});
	bool exact = rng.chance(2, 3);
	bool post = rng.chance(1, 2);
	size_t aw = BitWidth::count(depth).value;
	// contents: A partly undefined, B a (partial or full) concretisation of A
	std::vector<std::string> ca, cb;
	int cstyle = (int)rng.below(4); // 0 random words, 1 few distinct words (merges keep defined bits), 2 mostly equal, 3 with undefined bits everywhere
	std::vector<std::string> pool;
	for (int i = 0; i < 3; i++) pool.push_back(b.genBits(w, 9));
	for (size_t k = 0; k < depth; k++) {
		std::string word = cstyle == 0 ? b.genBits(w, 9) : cstyle == 2 ? pool[rng.chance(1, 6) ? 1 : 0] : pool[rng.below(3)];
		if (cstyle != 2 && rng.chance(1, 3)) { // flip a bit or two so that words mostly agree
			word[rng.below(word.size())] ^= 1;
		}
		word = b.undefBits(word, cstyle == 3 ? (int)rng.range(1, 2) : (rng.chance(1, 4) ? 1 : 0));
		ca.push_back(word);
		cb.push_back(concretise(rng, word, rng.chance(2, 3)));
	}
	auto stateOf = [&](const std::vector<std::string> &c) {
		sim::DefaultBitVectorState st; st.resize(depth * w);
		for (size_t k = 0; k < depth; k++) st.insert(bitsX(c[k]), k * w);
		return st;
	};
	o << "mem " << depth << ' ' << w << ' ' << exact << ' ' << post << ' ' << aw << '\n';
	o << "ca"; for (auto &x : ca) o << ' ' << x; o << '\n';
	o << "cb"; for (auto &x : cb) o << ' ' << x; o << '\n';
	size_t nports = rng.range(1, 3);
	std::vector<hlim::Node_Pin*> addrPins;
	std::vector<hlim::Node_Pin*> outA, outB;
	try {
		Memory<UInt> memA(depth, UInt(BitWidth(w))), memB(depth, UInt(BitWidth(w)));
		memA.setType(MemType::DONT_CARE, 0); memB.setType(MemType::DONT_CARE, 0);
		memA.fillPowerOnState(stateOf(ca)); memB.fillPowerOnState(stateOf(cb));
		if (exact) { memA.undefinedReadAddrBehavior(UndefinedReadAddrBehavior::EXACT); memB.undefinedReadAddrBehavior(UndefinedReadAddrBehavior::EXACT); }
		for (size_t p = 0; p < nports; p++) {
			InputPins ap = pinIn(BitWidth(aw));
			UInt addr = ap;
			addrPins.push_back(ap.node());
			UInt da = memA[addr];
			UInt db = memB[addr];
			outA.push_back(pinOut(da).node());
			outB.push_back(pinOut(db).node());
		}
		if (post) design.postprocess();
	} catch (const std::exception &e) {
		std::string m = e.what(); for (auto &c : m) if (c == '\n') c = ' ';
		o << "builderr " << m.substr(0, 200) << "\nend\n"; return;
	}
	o << "ports " << nports << '\n';
	try {
		vh::Sim sim(design.getCircuit());
		size_t nstim = 6;
		for (size_t s = 0; s < nstim; s++) {
			// abstract addresses: 0..3 undefined bits per port
			std::vector<std::string> abs;
			for (size_t p = 0; p < nports; p++) {
				// non-power-of-two depths: candidate sets partly or entirely beyond the memory occur at their natural frequency
				std::string a = b.genBits(aw, 9);
				size_t nu = std::min<size_t>(rng.below(4), aw);
				for (size_t k = 0; k < nu; k++) a[rng.below(a.size())] = 'x';
				abs.push_back(a);
			}
			// all concretisations of port 0's address combined with sampled ones of the other ports; run 0 is the abstract one
			std::vector<std::string> c0{abs[0]};
			{
				std::vector<size_t> xs; for (size_t i = 0; i < abs[0].size(); i++) if (abs[0][i] == 'x') xs.push_back(i);
				for (size_t m = 0; m < (size_t(1) << xs.size()) && !xs.empty(); m++) {
					std::string c = abs[0];
					for (size_t j = 0; j < xs.size(); j++) c[xs[j]] = ((m >> j) & 1) ? '1' : '0';
					c0.push_back(c);
				}
			}
			for (size_t r = 0; r < c0.size(); r++) {
				o << (r == 0 ? "stim " : "stimc ") << s << '\n';
				for (size_t p = 0; p < nports; p++) {
					std::string a = p == 0 ? c0[r] : (r == 0 ? abs[p] : concretise(rng, abs[p], rng.chance(1, 2)));
					setPinX(sim.sim, addrPins[p], a);
					o << "pv " << p << ' ' << a << '\n';
				}
				try {
					sim.eval();
				} catch (const std::exception &e) {
					std::string m = e.what(); for (auto &c : m) if (c == '\n') c = ' ';
					o << "rdthrow " << m.substr(0, 120) << '\n';
					continue;
				}
				for (size_t p = 0; p < nports; p++)
					o << "rd " << p << ' ' << sim.getPin(outA[p]) << ' ' << sim.getPin(outB[p]) << '\n';
			}
		}
	} catch (const std::exception &e) {
		std::string m = e.what(); for (auto &c : m) if (c == '\n') c = ' ';
		o << "simerr " << m.substr(0, 200) << '\n';
	}
	o << "end\n";
}

// literal parsing: "lit <string>" -> bits or e
static void runLit(uint64_t caseSeed, size_t id, std::ostream &o) {
	Rng rng(caseSeed);
	o << "case " << id << " lit " << caseSeed << '\n';
	if (rng.chance(1, 6)) {
		// Bit(char) -> sim::parseBit: '0' '1' 'x' 'X' are bits, everything else is rejected
		static const std::string cands = "01xX01xXzZ-2uUhHlLwW 9aOI";
		char c = rng.chance(3, 4) ? cands[rng.below(8)] : (rng.chance(1, 2) ? cands[rng.below(cands.size())] : (char)rng.range(33, 126));
		o << "blit " << (int)(unsigned char)c << '\n';
		DesignScope design;
		std::string r;
		try {
			Bit x(c);
			auto *cn = dynamic_cast<hlim::Node_Constant*>(x.readPort().node);
			r = cn ? vh::bitsToString(cn->getValue()) : std::string("?");
			if (cn && !cn->getOutputConnectionType(0).isBool()) r += ":notbool";
		} catch (const gtry::utils::DesignError &) { r = "e"; } catch (const gtry::utils::InternalError &) { r = "E"; }
		o << "-> " << r << '\n' << "end\n";
		return;
	}
	std::string s;
	unsigned kind = (unsigned)rng.below(5);
	const char *digitsFor[] = {"01", "01234567", "0123456789abcdefABCDEF", "0123456789"};
	char base = "boxd"[kind % 4];
	size_t bps = base == 'b' ? 1 : base == 'o' ? 3 : 4;
	size_t nd = rng.chance(1, 2) ? rng.range(0, 12) : rng.range(0, base == 'b' ? 200 : base == 'd' ? 19 : 60);
	std::string digits;
	for (size_t i = 0; i < nd; i++) {
		std::string alphabet = digitsFor[base == 'b' ? 0 : base == 'o' ? 1 : base == 'x' ? 2 : 3];
		if (base != 'd' && rng.chance(1, 10)) digits.push_back(rng.chance(1,2) ? 'x' : 'X');
		else digits.push_back(alphabet[rng.below(alphabet.size())]);
	}
	if (base == 'd' && digits.size() > 1 && rng.chance(1, 2)) digits[0] = '1' + rng.below(9) % 9;
	bool withWidth = rng.chance(1, 2);
	if (withWidth) {
		size_t natural = base == 'd' ? 64 : nd * bps;
		size_t w = rng.chance(1, 6) ? (natural ? rng.below(natural) : 0) : natural + (rng.chance(1, 2) ? 0 : rng.range(0, 40));
		if (base == 'd') w = rng.range(0, 80);
		s = std::to_string(w);
	}
	s.push_back(base);
	s += digits;
	o << "lit " << s << '\n';
	DesignScope design;
	std::string r;
	try {
		UInt x = UInt(s.c_str());
		auto *c = dynamic_cast<hlim::Node_Constant*>(x.readPort().node);
		r = c ? vh::bitsToString(c->getValue()) : std::string("?");
	} catch (const gtry::utils::DesignError &) { r = "e"; } catch (const gtry::utils::InternalError &) { r = "E"; }
	o << "-> " << r << '\n';
	o << "end\n";
}

// Every case runs in a forked child so that a crash of the code under test (e.g. a segfault inside the simulator or inside
// construction-time evaluation) is reported as a `crash` case instead of killing the harness. After a crash the case is
// re-run in a second child that streams its output line by line, so the construction leading to the crash is kept.
#include <unistd.h>
#include <sys/wait.h>
#include <ext/stdio_filebuf.h>

static void runOne(uint64_t cs, size_t i, const std::string &mode, size_t nstim, std::ostream &o) {
	if (mode == "lit") runLit(cs, i, o); else if (mode == "mem") runMem(cs, i, o); else if (mode == "seq") runSeq(cs, i, nstim, o); else runCase(cs, i, mode, nstim, o);
}

static std::string runIsolated(uint64_t cs, size_t i, const std::string &mode, size_t nstim, bool streaming, int &status) {
	int fds[2];
	if (pipe(fds) != 0) { perror("pipe"); exit(3); }
	std::cout.flush();
	pid_t pid = fork();
	if (pid < 0) { perror("fork"); exit(3); }
	if (pid == 0) {
		close(fds[0]);
		if (streaming) {
			__gnu_cxx::stdio_filebuf<char> fb(fds[1], std::ios::out, 1);
			std::ostream os(&fb);
			os << std::unitbuf;
			runOne(cs, i, mode, nstim, os);
			os.flush();
		} else {
			std::ostringstream buf;
			runOne(cs, i, mode, nstim, buf);
			std::string s = buf.str();
			size_t off = 0;
			while (off < s.size()) { ssize_t n = write(fds[1], s.data() + off, s.size() - off); if (n <= 0) break; off += (size_t)n; }
		}
		close(fds[1]);
		_exit(0);
	}
	close(fds[1]);
	std::string out;
	char tmp[65536];
	ssize_t n;
	while ((n = read(fds[0], tmp, sizeof tmp)) > 0) out.append(tmp, (size_t)n);
	close(fds[0]);
	waitpid(pid, &status, 0);
	return out;
}

int main(int argc, char **argv) {
	uint64_t seed = vh::argU64(argc, argv, 1, 1);
	size_t ncases = (size_t)vh::argU64(argc, argv, 2, 10);
	std::string mode = argc > 3 ? argv[3] : "op";
	size_t nstim = (size_t)vh::argU64(argc, argv, 4, mode == "conc" || mode == "concw" ? 9 : 8);
	std::ios::sync_with_stdio(false);
	std::cout << "# prop=C03/C08 seed=" << seed << " mode=" << mode << '\n';
	uint64_t modeSalt = mode == "op" ? 11 : mode == "dag" ? 23 : mode == "dags" ? 29 : mode == "const" ? 37 : mode == "lit" ? 41 : mode == "conc" ? 53 : mode == "seq" ? 71 : mode == "mem" ? 79 : 67;
	// splitmix64 advances its state by a constant: seeding with seed*constant would make consecutive seeds shifted copies of
	// each other, so the master state is the *output* of a generator seeded with (seed, mode)
	Rng master(Rng(seed ^ (modeSalt << 40)).next());
	bool isolate = !getenv("VERIF_NOFORK");
	for (size_t i = 0; i < ncases; i++) {
		uint64_t cs = master.next();
		if (getenv("VERIF_ONLY") && strtoull(getenv("VERIF_ONLY"), nullptr, 0) != i) continue;
		if (!isolate) { std::ostringstream buf; runOne(cs, i, mode, nstim, buf); std::cout << buf.str(); continue; }
		int status = 0;
		std::string out = runIsolated(cs, i, mode, nstim, false, status);
		if (WIFEXITED(status) && WEXITSTATUS(status) == 0) { std::cout << out; continue; }
		out = runIsolated(cs, i, mode, nstim, true, status);
		// drop a trailing partial line, then mark the crash
		size_t nl = out.rfind('\n');
		out = nl == std::string::npos ? std::string() : out.substr(0, nl + 1);
		if (out.empty()) out = "case " + std::to_string(i) + " " + mode + " " + std::to_string(cs) + "\n";
		std::cout << out << "crash " << (WIFSIGNALED(status) ? "signal " + std::to_string(WTERMSIG(status)) : "exit " + std::to_string(WEXITSTATUS(status))) << "\nend\n";
	}
	return 0;
}
