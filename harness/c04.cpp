// C04 harness: generated clock trees x register networks x stimuli on the real gtry::sim::ReferenceSimulator.
// Prints the clock tree, what hlim::Clock / extractClockPins answer for it, the register network, every test bench
// operation and everything the SimulatorCallbacks observer sees (onClock, onReset, register outputs at onCommitState),
// times as exact fractions.
// Usage: c04 <seed> <ncases> <nsteps> [mode]     mode: 0 = mixed (default), 1 = only edge-aligned derived clocks
#include <gatery/pch.h>
#include <gatery/frontend.h>
#include <gatery/simulation/ReferenceSimulator.h>
#include <gatery/hlim/Circuit.h>
#include <gatery/hlim/Clock.h>
#include <gatery/hlim/Subnet.h>
#include <gatery/hlim/coreNodes/Node_Register.h>
#include <gatery/hlim/coreNodes/Node_Constant.h>
#include <gatery/hlim/coreNodes/Node_Pin.h>
#include <gatery/hlim/postprocessing/ClockPinAllocation.h>
#include "common.h"
#include "simhelp.h"
#include <iostream>
#include <sstream>

using namespace gtry;
using vh::Rng;
using CR = hlim::ClockRational;

static std::string rat(const CR &r) { return std::to_string(r.numerator()) + "/" + std::to_string(r.denominator()); }

struct Observer : sim::SimulatorCallbacks {
	sim::ReferenceSimulator *s = nullptr;
	std::vector<hlim::Node_Register*> regs;
	std::ostream &o;
	explicit Observer(std::ostream &os) : o(os) {}
	void onClock(const hlim::Clock *c, bool rising) override { o << "L clk " << c->getId() << ' ' << rising << ' ' << rat(s->getCurrentSimulationTime()) << '\n'; }
	void onReset(const hlim::Clock *c, bool high) override { o << "L rst " << c->getId() << ' ' << high << ' ' << rat(s->getCurrentSimulationTime()) << '\n'; }
	void onCommitState() override {
		o << "L commit " << rat(s->getCurrentSimulationTime());
		for (auto *r : regs) o << ' ' << vh::bitsToString(s->getValueOfOutput({.node = r, .port = 0}));
		o << '\n';
	}
};

struct ExprGen {
	Rng &rng; size_t W;
	std::vector<UInt> &q; std::vector<UInt> &pins;
	// returns (signal, text)
	std::pair<UInt, std::string> leaf() {
		unsigned k = (unsigned) rng.below(10);
		if (k < 5 || pins.empty()) { size_t j = rng.below(q.size()); return {q[j], "q" + std::to_string(j)}; }
		if (k < 9) { size_t j = rng.below(pins.size()); return {pins[j], "p" + std::to_string(j)}; }
		uint64_t v = rng.next() & ((W >= 64) ? ~0ull : ((1ull << W) - 1));
		std::string bits; for (size_t i = W; i-- > 0;) bits.push_back(((v >> i) & 1) ? '1' : '0');
		return {ConstUInt(v, BitWidth(W)), "c" + bits};
	}
	std::pair<UInt, std::string> gen(int depth) {
		if (depth == 0 || rng.chance(1, 3)) return leaf();
		switch (rng.below(5)) {
			case 0: { auto a = gen(depth-1); return {UInt(~a.first), "not " + a.second}; }
			case 1: { auto a = gen(depth-1), b = gen(depth-1); return {UInt(a.first ^ b.first), "xor " + a.second + " " + b.second}; }
			case 2: { auto a = gen(depth-1), b = gen(depth-1); return {UInt(a.first & b.first), "and " + a.second + " " + b.second}; }
			case 3: { auto a = gen(depth-1), b = gen(depth-1); return {UInt(a.first | b.first), "or " + a.second + " " + b.second}; }
			default: { auto a = gen(depth-1), b = gen(depth-1); return {UInt(a.first + b.first), "add " + a.second + " " + b.second}; }
		}
	}
	std::pair<Bit, std::string> bitLeaf() { auto a = leaf(); return {Bit(a.first[0]), "bit " + a.second}; }
	std::pair<Bit, std::string> genBit() {
		switch (rng.below(5)) {
			case 0: { auto a = bitLeaf(); return {Bit(!a.first), "not " + a.second}; }
			case 1: { auto a = bitLeaf(), b = bitLeaf(); return {Bit(a.first & b.first), "and " + a.second + " " + b.second}; }
			case 2: { auto a = bitLeaf(), b = bitLeaf(); return {Bit(a.first ^ b.first), "xor " + a.second + " " + b.second}; }
			default: return bitLeaf();
		}
	}
};

static const std::vector<std::pair<uint64_t,uint64_t>> smallFreqs = {{1,1},{2,1},{3,2},{1,2},{5,3},{7,3},{3,1},{4,3},{2,3},{10,1},{7,10},{12,5},{1,7},{9,4}};
static const std::vector<std::pair<uint64_t,uint64_t>> bigFreqs = {{100000000,1},{125000000,3},{48000000,1},{33333333,1},{50000000,7},{999983,1},{1000000007,13}};
static const std::vector<std::pair<uint64_t,uint64_t>> mults = {{1,1},{2,1},{1,2},{3,2}};

static std::string randBits(Rng &rng, size_t w, bool allowX) {
	std::string s;
	unsigned mode = (unsigned) rng.below(10);
	for (size_t i = 0; i < w; i++) {
		if (allowX && (mode == 0 || (mode == 1 && rng.chance(1, 3)))) s.push_back('x');
		else s.push_back(rng.chance(1, 2) ? '1' : '0');
	}
	return s;
}

static void runCase(uint64_t caseId, Rng rng, size_t nsteps, unsigned mode, std::ostream &o) {
	DesignScope design;
	size_t W = rng.chance(1, 8) ? rng.range(9, 16) : rng.range(1, 6);
	o << "case " << caseId << "\nwidth " << W << '\n';

	// ---------------- clock tree ----------------
	std::vector<Clock> clocks;
	bool big = rng.chance(1, 4);
	size_t nroots = big ? 1 : rng.range(1, 3);
	const char *trigNames = "RFB";
	auto pickTrig = [&]() { return (hlim::Clock::TriggerEvent) rng.below(3); };
	auto pickRst = [&]() { return (hlim::RegisterAttributes::ResetType) rng.below(3); };
	auto pickAct = [&]() { return rng.chance(1, 2) ? hlim::RegisterAttributes::Active::HIGH : hlim::RegisterAttributes::Active::LOW; };
	std::vector<std::pair<hlim::Clock*, ClockConfig>> derivedCfgs; // what every clock was asked to be (derived: unset = inherited from the parent)
	for (size_t i = 0; i < nroots; i++) {
		auto f = big ? rng.pick(bigFreqs) : rng.pick(smallFreqs);
		ClockConfig cfg;
		cfg.absoluteFrequency = CR{f.first, f.second};
		cfg.name = "clk" + std::to_string(i);
		cfg.resetName = "rst" + std::to_string(i);
		cfg.triggerEvent = pickTrig();
		cfg.resetType = pickRst();
		cfg.resetActive = pickAct();
		if (*cfg.resetType != hlim::RegisterAttributes::ResetType::NONE && rng.chance(1, 3)) cfg.initializeRegs = false;
		clocks.emplace_back(cfg);
		derivedCfgs.push_back({clocks.back().getClk(), cfg});
	}
	size_t nder = rng.below(4);
	for (size_t i = 0; i < nder; i++) {
		size_t parent = rng.below(clocks.size());
		ClockConfig cfg;
		auto m = rng.pick(mults);
		if (rng.chance(1, 2)) m = {1, 1};
		cfg.frequencyMultiplier = CR{m.first, m.second};
		if (rng.chance(1, 4)) cfg.name = "dclk" + std::to_string(i);
		if (rng.chance(1, 4)) cfg.resetName = "drst" + std::to_string(i);
		if (rng.chance(1, 2)) cfg.triggerEvent = pickTrig();
		if (rng.chance(1, 3)) cfg.resetType = pickRst();
		if (rng.chance(1, 3)) cfg.resetActive = pickAct();
		// applyConfig insists on: resetType != NONE || initializeRegs
		if (cfg.resetType && *cfg.resetType == hlim::RegisterAttributes::ResetType::NONE && !rng.chance(1, 8)) cfg.initializeRegs = true;
		if (rng.chance(1, 6)) cfg.phaseSynchronousWithParent = rng.chance(1, 2);
		clocks.push_back(clocks[parent].deriveClock(cfg));
		derivedCfgs.push_back({clocks.back().getClk(), cfg});
		if (mode == 1) {
			// keep the derived clock edge-aligned with the pin it ends up sharing: the clock signal starts high iff the pin source is
			// rising-edge triggered, so on a shared pin only the source's edge (falling for a dual-edge source) or both edges are aligned
			hlim::Clock *c = clocks.back().getClk();
			hlim::Clock *src = c->getClockPinSource();
			if (src != c && c->getTriggerEvent() != hlim::Clock::TriggerEvent::RISING_AND_FALLING) {
				bool srcRising = src->getTriggerEvent() == hlim::Clock::TriggerEvent::RISING;
				c->setTriggerEvent(srcRising ? hlim::Clock::TriggerEvent::RISING : hlim::Clock::TriggerEvent::FALLING);
				derivedCfgs.back().second.triggerEvent = c->getTriggerEvent(); // set explicitly
			}
		}
	}

	// ---------------- register network ----------------
	size_t npins = rng.range(1, 3), nregs = rng.range(1, 6);
	std::vector<UInt> pins, q;
	std::vector<hlim::Node_Pin*> pinNodes;
	std::vector<hlim::Node_Register*> regNodes;
	std::vector<std::string> regLines;
	{
		ClockScope cs(clocks[0]);
		for (size_t i = 0; i < npins; i++) {
			pins.push_back(pinIn(BitWidth(W)).setName("p" + std::to_string(i)));
			pinNodes.push_back(dynamic_cast<hlim::Node_Pin*>(pins.back().node()->getNonSignalDriver(0).node));
		}
		q.reserve(nregs); for (size_t i = 0; i < nregs; i++) q.emplace_back(BitWidth(W));
		ExprGen eg{rng, W, q, pins};
		unsigned shape = (unsigned) rng.below(4); // 0 chain, 1 feedback/counter, 2,3 random
		for (size_t i = 0; i < nregs; i++) {
			size_t ci = rng.below(clocks.size());
			std::pair<UInt, std::string> d = (shape == 0) ? (i == 0 ? std::pair<UInt, std::string>{pins[0], "p0"} : std::pair<UInt, std::string>{q[i-1], "q" + std::to_string(i-1)})
				: (shape == 1) ? std::pair<UInt, std::string>{UInt(q[i] + pins[0]), "add q" + std::to_string(i) + " p0"}
				: eg.gen(2);
			auto *reg = DesignScope::createNode<hlim::Node_Register>();
			reg->setName("r" + std::to_string(i));
			reg->setClock(clocks[ci].getClk());
			reg->connectInput(hlim::Node_Register::DATA, d.first.readPort());
			std::string rstTxt = "-", enTxt = "-";
			if (rng.chance(2, 3)) {
				rstTxt = randBits(rng, W, rng.chance(1, 6));
				auto *c = DesignScope::createNode<hlim::Node_Constant>(vh::bitsFromString(rstTxt), hlim::ConnectionType::BITVEC);
				reg->connectInput(hlim::Node_Register::RESET_VALUE, {.node = c, .port = 0});
			}
			if (rng.chance(1, 2)) {
				auto e = eg.genBit();
				enTxt = e.second;
				reg->connectInput(hlim::Node_Register::ENABLE, e.first.readPort());
			}
			q[i] = UInt(SignalReadPort(reg));
			regNodes.push_back(reg);
			std::ostringstream l;
			l << "reg " << i << " clk=" << clocks[ci].getClk()->getId() << " w=" << W << " rst=" << rstTxt << " d=" << d.second << " ; en=" << enTxt;
			regLines.push_back(l.str());
		}
		for (size_t i = 0; i < nregs; i++) pinOut(q[i]).setName("o" + std::to_string(i));
	}

	// ---------------- print the tree and the implementation's answers ----------------
	auto &circuit = design.getCircuit();
	for (auto &cp : circuit.getClocks()) {
		hlim::Clock *c = cp.get();
		auto *dc = dynamic_cast<hlim::DerivedClock*>(c);
		auto &ra = c->getRegAttribs();
		o << "clock " << c->getId() << " parent=" << (c->getParentClock() ? std::to_string(c->getParentClock()->getId()) : std::string("-"))
		  << " fm=" << rat(dc ? dc->getFrequencyMuliplier() : c->absoluteFrequency())
		  << " name=" << c->getName() << " rname=" << c->getResetName()
		  << " trig=" << trigNames[(int) c->getTriggerEvent()] << " psync=" << c->getPhaseSynchronousWithParent()
		  << " rst=" << "SAN"[(int) ra.resetType] << " act=" << (ra.resetActive == hlim::RegisterAttributes::Active::HIGH ? 'H' : 'L')
		  << " nodes=" << !c->getClockedNodes().empty() << '\n';
	}
	for (auto &[c, cfg] : derivedCfgs) {
		o << "ccfg " << c->getId() << " mul=" << (cfg.frequencyMultiplier ? rat(*cfg.frequencyMultiplier) : cfg.absoluteFrequency ? rat(*cfg.absoluteFrequency) : std::string("~")) << " name=" << (cfg.name ? *cfg.name : std::string("~")) << " rname=" << (cfg.resetName ? *cfg.resetName : std::string("~"))
		  << " trig=" << (cfg.triggerEvent ? std::string(1, trigNames[(int) *cfg.triggerEvent]) : std::string("~"))
		  << " psync=" << (cfg.phaseSynchronousWithParent ? std::string(*cfg.phaseSynchronousWithParent ? "1" : "0") : std::string("~"))
		  << " rst=" << (cfg.resetType ? std::string(1, "SAN"[(int) *cfg.resetType]) : std::string("~"))
		  << " act=" << (cfg.resetActive ? std::string(*cfg.resetActive == hlim::RegisterAttributes::Active::HIGH ? "H" : "L") : std::string("~")) << '\n';
	}
	for (auto &cp : circuit.getClocks()) {
		hlim::Clock *c = cp.get();
		auto *rs = c->getResetPinSource();
		o << "cinfo " << c->getId() << " freq=" << rat(c->absoluteFrequency()) << " pinsrc=" << c->getClockPinSource()->getId()
		  << " rstsrc=" << (rs ? std::to_string(rs->getId()) : std::string("-")) << '\n';
	}
	{
		utils::StableSet<hlim::NodePort> noOutputs; auto subnet = hlim::Subnet::allForSimulation(circuit, noOutputs);
		auto a = hlim::extractClockPins(circuit, subnet);
		o << "alloc cpins=";
		for (auto &p : a.clockPins) o << p.source->getId() << ',';
		o << " rpins=";
		for (auto &p : a.resetPins) o << p.source->getId() << ',';
		o << " c2p=";
		for (auto &p : a.clock2ClockPinIdx) o << p.first->getId() << ':' << p.second << ',';
		o << " c2r=";
		for (auto &p : a.clock2ResetPinIdx) o << p.first->getId() << ':' << p.second << ',';
		o << '\n';
		for (size_t i = 0; i < a.resetPins.size(); i++)
			o << "rpin " << i << " mincycles=" << a.resetPins[i].minResetCycles << " mintime=" << rat(a.resetPins[i].minResetTime) << '\n';
	}
	for (size_t i = 0; i < npins; i++) o << "pin " << i << ' ' << W << '\n';
	for (auto &l : regLines) o << l << '\n';

	// ---------------- simulate ----------------
	sim::ReferenceSimulator sim(false);
	Observer obs(o); obs.s = &sim; obs.regs = regNodes;
	sim.addCallbacks(&obs);
	sim.compileProgram(circuit);
	o << "begin\n";
	sim.powerOn();
	// durations for advance(): fractions of the fastest period around
	for (size_t step = 0; step < nsteps; step++) {
		bool any = false;
		for (size_t i = 0; i < npins; i++)
			if (step == 0 || rng.chance(1, 2)) {
				std::string v = randBits(rng, W, step != 0 && rng.chance(1, 4));
				o << "op set " << i << ' ' << v << '\n';
				sim.simProcSetInputPin(pinNodes[i], sim::convertToExtended(vh::bitsFromString(v)));
				any = true;
			}
		if (any && !rng.chance(1, 16)) { o << "op reeval\n"; sim.reevaluate(); }
		if (rng.chance(1, 6)) {
			// advance by a duration: a small multiple of a quarter period of some clock
			auto f = clocks[rng.below(clocks.size())].absoluteFrequency();
			CR d = CR{rng.range(1, 9), 4} / f;
			o << "op advance " << rat(d) << '\n';
			sim.advance(d);
		} else {
			o << "op adv\n";
			sim.advanceEvent();
		}
	}
	o << "end\n";
}

int main(int argc, char **argv) {
	uint64_t seed = vh::argU64(argc, argv, 1, 1), ncases = vh::argU64(argc, argv, 2, 10), nsteps = vh::argU64(argc, argv, 3, 40);
	unsigned mode = (unsigned) vh::argU64(argc, argv, 4, 0);
	std::ios::sync_with_stdio(false);
	std::cout << "# prop=C04 seed=" << seed << " ncases=" << ncases << " nsteps=" << nsteps << " mode=" << mode << "\n";
	Rng master(Rng(seed * 0x100000001B3ull + 0xC04).next()); // hashed: consecutive seeds give unrelated streams
	for (uint64_t c = 0; c < ncases; c++) {
		Rng r = master.fork();
		std::ostringstream buf;
		try {
			runCase(c, r, nsteps, mode, buf);
			std::cout << buf.str();
		} catch (const std::exception &e) {
			// a generated configuration the library rejects: report it as such (the driver counts them)
			std::string partial = buf.str();
			std::cout << partial;
			if (partial.find("case ") == std::string::npos) std::cout << "case " << c << "\n";
			std::string msg = e.what(); for (auto &ch : msg) if (ch == '\n') ch = ' ';
			std::cout << "exception " << msg.substr(0, 200) << "\nend\n";
		}
	}
	return 0;
}
