// C05 harness: generates programs over the frontend fragment of lean/GateryModel/C05/Model.lean (declarations,
// assignments to whole signals / static and dynamic selections, reads, operators, IF / ELSE / ELSEIF / ELSE IF,
// nesting, defaults), prints each program, then *executes the program text against the real frontend*:
// an interpreter walks the AST and performs the real calls - `gtry::ConditionalScope` objects are constructed on the
// C++ stack of a recursive function exactly as the IF / ELSE / ELSEIF macros of ConditionalScope.h expand, `Bit`/`UInt`
// objects live in C++ scopes that mirror the program's blocks.  The built circuit is simulated for all input
// valuations (exhaustive up to <exhBits> input bits, random sample otherwise) before and after design.postprocess().
//
// Usage: c05 <seed> <ncases> <maxStmts> [maxDepth=4] [exhBits=10] [nRandomVal=192]
//        c05 replay <file>       re-runs the programs found in a protocol file (case blocks), prints the same protocol
#include <gatery/pch.h>
#include "simhelp.h"
#include "common.h"
#include <gatery/hlim/coreNodes/Node_Register.h>
#include <gatery/hlim/supportNodes/Node_MemPort.h>
#include <iostream>
#include <fstream>
#include <memory>
#include <deque>

using namespace gtry;
using vh::Rng;

// ------------------------------------------------------------------------------------------------ AST
struct Ty { bool isBit = true; int w = 1; bool operator==(const Ty &o) const { return isBit == o.isBit && w == o.w; } };
static std::string tyStr(const Ty &t) { return t.isBit ? "b" : "u" + std::to_string(t.w); }

enum SelK { S_SLICE, S_BIT, S_DBIT, S_DPART, S_DSLICE,
            S_SEL };   // x(Selection::…): form 'A' All(), 'F' From(a), 'R' Range(a,b), 'I' RangeIncl(a,b), 'L' Slice(a,b), 'Y' Symbol(a, b_b); a, b may be negative
struct Sel { SelK k; int a = 0, b = 0; char form = 0; };

enum ExprK { E_CONST, E_READ, E_NOT, E_OP2 };
static const char *opNames[] = {"&", "|", "^", "+", "-", "==", "!=", "<"};
enum Op2 { O_AND, O_OR, O_XOR, O_ADD, O_SUB, O_EQ, O_NE, O_LT };
struct Expr {
	ExprK k = E_CONST; Ty ty; std::string bits; int x = 0; std::vector<Sel> path; int op = 0; std::vector<Expr> kids;
};
enum StmtK { ST_DECL, ST_DEFAULT, ST_ASSIGN, ST_IF, ST_ELSE, ST_ELSEIF, ST_ELSEIF2,
             // width-less, policy-carrying variables (own index space): UInt x = lit / SInt x{lit}; UInt x = zext(e) / oext(e); UInt x = y; x = lit; x = y; Bit t = (x op y)
             ST_ILIT, ST_IEXT, ST_ICOPY, ST_IASSIGN, ST_IVAR, ST_CMP,
             // enable scope ENIF (c) { body }; clocked statements whose (write) enable is observed: auto t = reg(e);  Memory<UInt> mem(2^aw, w_b); mem[addr] = d;
             ST_ENIF, ST_REG, ST_MEMW,
             ST_RESET,
             ST_DEFASSIGN };   // x = BitDefault(bit); on an existing Bit (a further default on an already assigned / defaulted signal)   // x.resetNode(); x = e;  (the vector is re-created: every alias cache of x must be dropped)
struct Stmt {
	StmtK k = ST_DECL; Ty ty; std::string bits; int x = 0; std::vector<Sel> path; Expr e; std::vector<Stmt> body;
	char ikind = 'u';      // 'u' UInt literal (policy zero), 's' SInt literal (policy sign), 'z' zext(e) (zero), 'o' oext(e) (one)
	long long lit = 0; int y = 0; int op = 0;
	Expr e2;               // ST_MEMW: data (e = address)
};
struct Program { std::vector<Ty> ins; std::vector<Stmt> stmts; bool aliasPattern = false; bool intPattern = false; bool enPattern = false;
                 bool chainPattern = false;   // pattern seed: else-chains around complete nested IF/ELSE statements
                 bool malformed = false;      // the generator deliberately broke the program (the frontend and the model must both reject it)
                 bool useMacros = false;      // executed through the real IF / ELSE / ELSEIF macros of ConditionalScope.h (otherwise through hand-expanded scope objects)
};

static void printPath(std::ostream &o, const std::vector<Sel> &p) {
	o << p.size();
	for (auto &s : p) switch (s.k) {
		case S_SLICE: o << " s:" << s.a << ':' << s.b; break;
		case S_BIT: o << " i:" << s.a; break;
		case S_DBIT: o << " db:" << s.a; break;
		case S_DPART: o << " dp:" << s.a << ':' << s.b; break;
		case S_DSLICE: o << " ds:" << s.a << ':' << s.b; break;
		case S_SEL: o << " q:" << s.form << ':' << s.a << ':' << s.b; break;
	}
}
static void printExpr(std::ostream &o, const Expr &e) {
	switch (e.k) {
		case E_CONST: o << "k " << tyStr(e.ty) << ' ' << e.bits; break;
		case E_READ: o << "r " << e.x << ' '; printPath(o, e.path); break;
		case E_NOT: o << "n "; printExpr(o, e.kids[0]); break;
		case E_OP2: o << "o " << opNames[e.op] << ' '; printExpr(o, e.kids[0]); o << ' '; printExpr(o, e.kids[1]); break;
	}
}
static void printStmts(std::ostream &o, const std::vector<Stmt> &ss) {
	for (auto &s : ss) {
		switch (s.k) {
			case ST_DECL: o << "D " << tyStr(s.ty) << ' '; printExpr(o, s.e); o << '\n'; break;
			case ST_DEFAULT: o << "F " << tyStr(s.ty) << ' ' << s.bits << '\n'; break;
			case ST_ASSIGN: o << "A " << s.x << ' '; printPath(o, s.path); o << " = "; printExpr(o, s.e); o << '\n'; break;
			case ST_IF: o << "IF "; printExpr(o, s.e); o << '\n'; printStmts(o, s.body); o << "}\n"; break;
			case ST_ELSE: o << "EL\n"; printStmts(o, s.body); o << "}\n"; break;
			case ST_ELSEIF: o << "EI "; printExpr(o, s.e); o << '\n'; printStmts(o, s.body); o << "}\n"; break;
			case ST_ELSEIF2: o << "E2 "; printExpr(o, s.e); o << '\n'; printStmts(o, s.body); o << "}\n"; break;
			case ST_ILIT: o << "IL " << s.ikind << ' ' << s.lit << '\n'; break;
			case ST_IEXT: o << "IX " << s.ikind << ' '; printExpr(o, s.e); o << '\n'; break;
			case ST_ICOPY: o << "IC " << s.y << '\n'; break;
			case ST_IASSIGN: o << "IA " << s.x << ' ' << s.lit << '\n'; break;
			case ST_IVAR: o << "IV " << s.x << ' ' << s.y << '\n'; break;
			case ST_CMP: o << "CM " << opNames[s.op] << ' ' << s.x << ' ' << s.y << '\n'; break;
			case ST_ENIF: o << "EN "; printExpr(o, s.e); o << '\n'; printStmts(o, s.body); o << "}\n"; break;
			case ST_REG: o << "RG "; printExpr(o, s.e); o << '\n'; break;
			case ST_MEMW: o << "MW "; printExpr(o, s.e); o << ' '; printExpr(o, s.e2); o << '\n'; break;
			case ST_RESET: o << "RN " << s.x << ' '; printExpr(o, s.e); o << '\n'; break;
			case ST_DEFASSIGN: o << "FA " << s.x << ' ' << s.bits << '\n'; break;
		}
	}
}

// ------------------------------------------------------------------------------------------------ parser (replay)
struct Tok { std::vector<std::string> t; size_t i = 0; const std::string &next() { static std::string e; return i < t.size() ? t[i++] : e; } };
static Ty parseTy(const std::string &s) { Ty t; if (s == "b") return t; t.isBit = false; t.w = atoi(s.c_str() + 1); return t; }
static std::vector<Sel> parsePath(Tok &tk) {
	std::vector<Sel> p; int n = atoi(tk.next().c_str());
	for (int i = 0; i < n; i++) {
		std::string s = tk.next(); std::vector<std::string> f; std::stringstream ss(s); std::string part;
		while (std::getline(ss, part, ':')) f.push_back(part);
		Sel sel{};
		if (f[0] == "s") sel = {S_SLICE, atoi(f[1].c_str()), atoi(f[2].c_str())};
		else if (f[0] == "i") sel = {S_BIT, atoi(f[1].c_str()), 0};
		else if (f[0] == "db") sel = {S_DBIT, atoi(f[1].c_str()), 0};
		else if (f[0] == "dp") sel = {S_DPART, atoi(f[1].c_str()), atoi(f[2].c_str())};
		else if (f[0] == "q") { sel = {S_SEL, atoi(f[2].c_str()), atoi(f[3].c_str())}; sel.form = f[1][0]; }
		else sel = {S_DSLICE, atoi(f[1].c_str()), atoi(f[2].c_str())};
		p.push_back(sel);
	}
	return p;
}
static Expr parseExpr(Tok &tk) {
	Expr e; std::string h = tk.next();
	if (h == "k") { e.k = E_CONST; e.ty = parseTy(tk.next()); e.bits = tk.next(); }
	else if (h == "r") { e.k = E_READ; e.x = atoi(tk.next().c_str()); e.path = parsePath(tk); }
	else if (h == "n") { e.k = E_NOT; e.kids.push_back(parseExpr(tk)); }
	else { e.k = E_OP2; std::string op = tk.next(); for (int i = 0; i < 8; i++) if (op == opNames[i]) e.op = i; e.kids.push_back(parseExpr(tk)); e.kids.push_back(parseExpr(tk)); }
	return e;
}
static Tok tokenize(const std::string &line) { Tok tk; std::stringstream ss(line); std::string w; while (ss >> w) tk.t.push_back(w); return tk; }
static std::vector<Stmt> parseStmts(std::istream &in) {
	std::vector<Stmt> out; std::string line;
	while (std::getline(in, line)) {
		Tok tk = tokenize(line); std::string h = tk.next();
		if (h == "}" || h == "endprog") break;
		Stmt s;
		if (h == "D") { s.k = ST_DECL; s.ty = parseTy(tk.next()); s.e = parseExpr(tk); }
		else if (h == "F") { s.k = ST_DEFAULT; s.ty = parseTy(tk.next()); s.bits = tk.next(); }
		else if (h == "A") { s.k = ST_ASSIGN; s.x = atoi(tk.next().c_str()); s.path = parsePath(tk); tk.next(); s.e = parseExpr(tk); }
		else if (h == "IF") { s.k = ST_IF; s.e = parseExpr(tk); s.body = parseStmts(in); }
		else if (h == "EL") { s.k = ST_ELSE; s.body = parseStmts(in); }
		else if (h == "EI") { s.k = ST_ELSEIF; s.e = parseExpr(tk); s.body = parseStmts(in); }
		else if (h == "E2") { s.k = ST_ELSEIF2; s.e = parseExpr(tk); s.body = parseStmts(in); }
		else if (h == "EN") { s.k = ST_ENIF; s.e = parseExpr(tk); s.body = parseStmts(in); }
		else if (h == "RG") { s.k = ST_REG; s.e = parseExpr(tk); }
		else if (h == "FA") { s.k = ST_DEFASSIGN; s.x = atoi(tk.next().c_str()); s.bits = tk.next(); }
		else if (h == "RN") { s.k = ST_RESET; s.x = atoi(tk.next().c_str()); s.e = parseExpr(tk); }
		else if (h == "MW") { s.k = ST_MEMW; s.e = parseExpr(tk); s.e2 = parseExpr(tk); }
		else if (h == "IL") { s.k = ST_ILIT; s.ikind = tk.next()[0]; s.lit = atoll(tk.next().c_str()); }
		else if (h == "IX") { s.k = ST_IEXT; s.ikind = tk.next()[0]; s.e = parseExpr(tk); }
		else if (h == "IC") { s.k = ST_ICOPY; s.y = atoi(tk.next().c_str()); }
		else if (h == "IA") { s.k = ST_IASSIGN; s.x = atoi(tk.next().c_str()); s.lit = atoll(tk.next().c_str()); }
		else if (h == "IV") { s.k = ST_IVAR; s.x = atoi(tk.next().c_str()); s.y = atoi(tk.next().c_str()); }
		else if (h == "CM") { s.k = ST_CMP; std::string op = tk.next(); for (int i = 0; i < 8; i++) if (op == opNames[i]) s.op = i; s.x = atoi(tk.next().c_str()); s.y = atoi(tk.next().c_str()); }
		else continue;
		out.push_back(std::move(s));
	}
	return out;
}

// ------------------------------------------------------------------------------------------------ generator
struct VarInfo { Ty ty; bool dflt; int depth; bool input; };
struct Gen {
	Rng &rng; int maxDepth; int budget; bool malformed = false; bool didMalform = false;
	struct IVarInfo { char kind; int width; };   // static width as the frontend tracks it (m_width grows with every wider value, taken or not)
	std::vector<IVarInfo> ivars;
	char levelKind[64] = {0};    // per nesting level: 'c' conditional scope (IF / ELSE…), 'e' enable scope (ENIF: does not make assignments conditional)
	bool condBetween(int from, int to) { for (int l = from + 1; l <= to && l < 64; l++) if (levelKind[l] == 'c') return true; return false; }
	bool chainPending = false;   // pattern seed: ELSE / ELSEIF chains (1..4 arms, with / without ELSE) around complete nested IF/ELSE statements, IF right after a closed chain
	bool enPending = false, enProgram = false;   // pattern seed: nests of ENIF / IF scopes (depth 1..4, any order) around reg() and memory writes
	bool intPending = false;     // pattern seed still to be emitted: variables initialised from integer literals / ext(), re-assigned wider / narrower / equal literals
	bool aliasPending = false;   // pattern seed still to be emitted: dynamic selections on one vector that share index variable / width / option count
	std::vector<VarInfo> vars;
	int depth = 0;
	Gen(Rng &r, int md, int b) : rng(r), maxDepth(md), budget(b) {}

	std::string randBits(int w) { std::string s; for (int i = 0; i < w; i++) s.push_back(rng.chance(1, 2) ? '1' : '0'); return s; }
	Expr constOf(Ty t) {
		Expr e; e.k = E_CONST; e.ty = t;
		switch (rng.below(4)) { case 0: e.bits = std::string(t.w, '0'); break; case 1: e.bits = std::string(t.w, '1'); break; default: e.bits = randBits(t.w); }
		return e;
	}
	std::vector<int> varsOf(std::function<bool(const VarInfo &)> f) { std::vector<int> r; for (size_t i = 0; i < vars.size(); i++) if (f(vars[i])) r.push_back((int)i); return r; }
	int pickIdxVar(std::function<bool(int)> ok) {
		auto c = varsOf([&](const VarInfo &v) { return !v.ty.isBit && v.ty.w >= 1 && v.ty.w <= 4 && ok(v.ty.w); });
		return c.empty() ? -1 : c[rng.below(c.size())];
	}
	// a Selection form that addresses `w` bits at `off` of a Wc bit wide parent, written with non-negative or negative (from the top) numbers:
	// BitVectorSliceStatic's constructor: offset = start >= 0 ? start : start + W; width = untilEnd ? W - offset : (width >= 0 ? width : width + W)
	Sel genSelection(int Wc, Ty &res) {
		int w = (int)rng.range(1, Wc), off = (int)rng.below(Wc - w + 1);
		if (rng.chance(1, 4)) off = Wc - w;                 // reaches the top: From / All possible
		std::string forms = "LRI";
		if (off + w == Wc) forms += "FF";
		if (off == 0 && w == Wc) forms += "A";
		if (off % w == 0) forms += "Y";
		Sel s{S_SEL, 0, 0}; s.form = forms[rng.below(forms.size())];
		int start = rng.chance(1, 2) ? off : off - Wc;      // off - Wc < 0 always
		int wp = (w < Wc && rng.chance(1, 2)) ? w - Wc : w; // negative width parameter: counted from the top (never 0)
		switch (s.form) {
			case 'A': break;
			case 'F': s.a = start; break;
			case 'R': s.a = start; s.b = start + wp; break;
			case 'I': s.a = start; s.b = start + wp - 1; break;
			case 'L': s.a = off; s.b = w; break;
			case 'Y': s.a = ((off - Wc) % w == 0 && rng.chance(1, 2)) ? (off - Wc) / w : off / w; s.b = w; break;
		}
		res = Ty{false, w};
		return s;
	}
	// random selection path on a UInt of width W; returns resulting type
	bool genPath(int W, std::vector<Sel> &p, Ty &res, int maxLen, bool forWrite) {
		res = Ty{false, W};
		for (int len = 0; len < maxLen; len++) {
			if (res.isBit || res.w < 1) break;
			int Wc = res.w;
			if (len > 0 && !rng.chance(1, 3)) break;
			unsigned k = (unsigned)rng.below(100);
			if (rng.chance(1, 5)) { p.push_back(genSelection(Wc, res)); continue; }     // x(Selection::…), negative starts / ends count from the top
			if (k < 30) { int w = (int)rng.range(1, Wc); int off = (int)rng.below(Wc - w + 1); p.push_back({S_SLICE, off, w}); res = Ty{false, w}; }
			else if (k < 50) { p.push_back({S_BIT, (int)rng.below(Wc), 0}); res = Ty{true, 1}; }
			else if (k < 70) {
				bool strict = !rng.chance(1, 6);        // mostly: every index value is in range
				int v = pickIdxVar([&](int iw) { return !strict || (1 << iw) <= Wc; });
				if (v < 0) { p.push_back({S_BIT, (int)rng.below(Wc), 0}); res = Ty{true, 1}; }
				else { p.push_back({S_DBIT, v, 0}); res = Ty{true, 1}; }
			} else if (k < 85) {
				std::vector<int> partsC; for (int q = 1; q <= Wc; q++) if (Wc % q == 0) partsC.push_back(q);   // BitWidth::operator/ demands divisibility
				int parts = partsC[rng.below(partsC.size())];
				bool strict = !rng.chance(1, 6);
				int v = pickIdxVar([&](int iw) { return !strict || (1 << iw) <= parts; });
				if (v < 0) { int w = (int)rng.range(1, Wc); p.push_back({S_SLICE, (int)rng.below(Wc - w + 1), w}); res = Ty{false, w}; }
				else { p.push_back({S_DPART, v, parts}); res = Ty{false, Wc / parts}; }
			} else {
				int v = pickIdxVar([&](int iw) { return (1 << iw) - 1 + 1 <= Wc; });
				if (v < 0) { p.push_back({S_BIT, (int)rng.below(Wc), 0}); res = Ty{true, 1}; }
				else { int iw = vars[v].ty.w; int wmax = Wc - ((1 << iw) - 1); int w = (int)rng.range(1, wmax); p.push_back({S_DSLICE, v, w}); res = Ty{false, w}; }
			}
		}
		return !p.empty();
	}
	// a read of type t (variable or selection), if one can be found
	bool genRead(Ty t, Expr &e) {
		for (int attempt = 0; attempt < 6; attempt++) {
			if (rng.chance(1, 2)) {
				auto c = varsOf([&](const VarInfo &v) { return v.ty == t; });
				if (!c.empty()) { e = Expr{}; e.k = E_READ; e.ty = t; e.x = c[rng.below(c.size())]; return true; }
			}
			auto c = varsOf([&](const VarInfo &v) { return !v.ty.isBit && v.ty.w >= t.w && v.ty.w >= 2; });
			if (c.empty()) continue;
			int x = c[rng.below(c.size())];
			std::vector<Sel> p; Ty r;
			if (t.isBit) {
				// end in a bit selection
				int W = vars[x].ty.w; Ty cur{false, W};
				if (rng.chance(1, 4)) { std::vector<Sel> pre; Ty pr; genPath(W, pre, pr, 1, false); if (!pr.isBit && pr.w >= 1) { p = pre; cur = pr; } }
				int v = rng.chance(1, 2) ? pickIdxVar([&](int iw) { return rng.chance(1, 6) || (1 << iw) <= cur.w; }) : -1;
				if (v >= 0) p.push_back({S_DBIT, v, 0}); else p.push_back({S_BIT, (int)rng.below(cur.w), 0});
				e = Expr{}; e.k = E_READ; e.ty = t; e.x = x; e.path = p; return true;
			}
			if (genPath(vars[x].ty.w, p, r, 2, false) && r == t) { e = Expr{}; e.k = E_READ; e.ty = t; e.x = x; e.path = p; return true; }
			// directed: slice of the right width
			if (rng.chance(1, 2)) { int W = vars[x].ty.w; p.clear(); p.push_back({S_SLICE, (int)rng.below(W - t.w + 1), t.w}); e = Expr{}; e.k = E_READ; e.ty = t; e.x = x; e.path = p; return true; }
		}
		return false;
	}
	Expr genExpr(Ty t, int d) {
		if (d <= 0 || rng.chance(2, 5)) {
			Expr e;
			if (!rng.chance(1, 5) && genRead(t, e)) return e;
			return constOf(t);
		}
		Expr e; e.ty = t;
		unsigned k = (unsigned)rng.below(100);
		if (k < 15) { e.k = E_NOT; e.kids.push_back(genExpr(t, d - 1)); return e; }
		e.k = E_OP2;
		if (t.isBit && k < 45) {
			Ty ot{false, (int)rng.range(1, 4)};
			e.op = (int)rng.range(O_EQ, O_LT); e.kids.push_back(genExpr(ot, d - 1)); e.kids.push_back(genExpr(ot, d - 1)); return e;
		}
		if (t.isBit) e.op = (int)rng.range(O_AND, O_XOR); else e.op = (int)rng.range(O_AND, O_SUB);
		e.kids.push_back(genExpr(t, d - 1)); e.kids.push_back(genExpr(t, d - 1));
		return e;
	}
	Expr genCond(const Expr *prev) {
		// conditions are very often a plain signal; chains often test the same signal again
		if (prev && rng.chance(1, 4)) return *prev;
		auto c = varsOf([&](const VarInfo &v) { return v.ty.isBit; });
		if (!c.empty() && rng.chance(3, 5)) { Expr e; e.k = E_READ; e.ty = Ty{}; e.x = c[rng.below(c.size())]; return e; }
		return genExpr(Ty{}, 2);
	}
	Ty genTy() { if (rng.chance(2, 5)) return Ty{}; static const std::vector<int> ws = {1, 2, 3, 4, 4, 5, 6, 8}; return Ty{false, rng.pick(ws)}; }


	// ---- pattern seed: else-chains and the "last condition" bookkeeping -------------------------------------------------------------
	// ELSE / ELSEIF take the condition of the matching IF from the thread-local m_lastCondition, which every closing scope overwrites:
	// an ELSE after an IF whose body contained complete nested IF/ELSE statements, ELSEIF chains of length 1..4 with and without a final
	// ELSE, an IF directly after a closed IF/ELSE (its successor must not bind to the earlier chain), all of it also inside ENIF.
	void genScopeBody(std::vector<Stmt> &body, bool nested) {
		depth++; if (depth < 64) levelKind[depth] = 'c';
		size_t nvars = vars.size(), nivars = ivars.size();
		if (rng.chance(1, 2) && budget > 0) genBlock(body, 1, true);
		if (nested && depth < 7) {          // a complete IF / ELSE (or IF / ELSEIF / ELSE) statement inside
			Stmt f; f.k = ST_IF; f.e = genCond(nullptr); genScopeBody(f.body, rng.chance(1, 4)); body.push_back(f); budget--;
			if (rng.chance(1, 3)) { Stmt e; e.k = rng.chance(1, 2) ? ST_ELSEIF : ST_ELSEIF2; e.e = genCond(&f.e); genScopeBody(e.body, false); body.push_back(e); budget--; }
			if (rng.chance(3, 4)) { Stmt e; e.k = ST_ELSE; genScopeBody(e.body, false); body.push_back(e); budget--; }
			if (rng.chance(1, 3)) { Stmt g; g.k = ST_IF; g.e = genCond(nullptr); genScopeBody(g.body, false); body.push_back(g); budget--; }   // and a lone IF after it
		}
		if (body.empty() || rng.chance(1, 2)) { int b = budget; budget = std::max(budget, 1); genBlock(body, 1, true); budget = std::min(b, budget); }
		vars.resize(nvars); ivars.resize(nivars);
		depth--;
	}
	void genChainPattern(std::vector<Stmt> &out) {
		chainPending = false;
		std::vector<Stmt> *dst = &out; Stmt en; bool inEn = rng.chance(1, 3);
		size_t nvars = vars.size(), nivars = ivars.size();
		if (inEn) { en.k = ST_ENIF; en.e = genCond(nullptr); depth++; if (depth < 64) levelKind[depth] = 'e'; dst = &en.body; }
		int chains = (int)rng.range(1, 2);
		for (int c = 0; c < chains; c++) {
			Stmt s; s.k = ST_IF; s.e = genCond(nullptr); genScopeBody(s.body, rng.chance(3, 4)); dst->push_back(s); budget--;
			int arms = (int)rng.below(5);            // 0..4 ELSEIF / ELSE IF arms
			char uniform = rng.chance(2, 3) ? (rng.chance(1, 2) ? 'I' : '2') : 0;
			const Expr *prev = &s.e; std::deque<Expr> keep;
			for (int a = 0; a < arms; a++) {
				Stmt e; e.k = uniform ? (uniform == 'I' ? ST_ELSEIF : ST_ELSEIF2) : (rng.chance(1, 2) ? ST_ELSEIF : ST_ELSEIF2);
				e.e = genCond(prev); keep.push_back(e.e); prev = &keep.back();
				genScopeBody(e.body, rng.chance(1, 3)); dst->push_back(e); budget--;
			}
			if (rng.chance(1, 2)) { Stmt e; e.k = ST_ELSE; genScopeBody(e.body, rng.chance(1, 3)); dst->push_back(e); budget--; }
			if (rng.chance(1, 2)) {                  // an IF directly after the closed chain, sometimes with its own ELSE
				Stmt g; g.k = ST_IF; g.e = genCond(nullptr); genScopeBody(g.body, false); dst->push_back(g); budget--;
				if (rng.chance(1, 2)) { Stmt e; e.k = ST_ELSE; genScopeBody(e.body, false); dst->push_back(e); budget--; }
			}
		}
		if (inEn) { vars.resize(nvars); ivars.resize(nivars); depth--; out.push_back(en); budget--; }
	}

	// ---- pattern seed: enable scopes ----------------------------------------------------------------------------------------------
	// reg() and mem[a] = d take EnableScope::get()->getFullEnableCondition() as (write) enable; every ENIF and every conditional scope
	// pushes one EnableScope whose accumulated condition is `own ∧ parent's accumulated`. The pattern nests 1..4 scopes, ENIF and IF
	// (sometimes with an ELSE) in any order, with clocked statements at the innermost and at intermediate levels; the observed effect
	// is the node driving the register's ENABLE / the write port's wrEnable input.
	Stmt genClocked() {
		Stmt s;
		if (rng.chance(3, 5)) { s.k = ST_REG; s.e = genExpr(genTy(), 1); }
		else { s.k = ST_MEMW; s.e = genExpr(Ty{false, (int)rng.range(1, 3)}, 1); s.e2 = genExpr(Ty{false, (int)rng.range(1, 4)}, 1); }
		budget--;
		return s;
	}
	void genEnNest(std::vector<Stmt> &out, int levels) {
		if (levels == 0) { out.push_back(genClocked()); if (rng.chance(1, 3)) out.push_back(genClocked()); return; }
		Stmt s; s.k = rng.chance(11, 20) ? ST_ENIF : ST_IF; s.e = genCond(nullptr);
		depth++; if (depth < 64) levelKind[depth] = s.k == ST_IF ? 'c' : 'e';
		size_t nvars = vars.size(), nivars = ivars.size();
		if (rng.chance(1, 4)) s.body.push_back(genClocked());
		if (rng.chance(1, 4) && budget > 0) genBlock(s.body, 1, true);   // ordinary statements in between (assignments are not gated by ENIF)
		genEnNest(s.body, levels - 1);
		if (rng.chance(1, 5)) s.body.push_back(genClocked());
		vars.resize(nvars); ivars.resize(nivars);
		depth--;
		bool wasIf = s.k == ST_IF;
		out.push_back(s); budget--;
		if (wasIf && rng.chance(1, 3)) { Stmt e; e.k = ST_ELSE; depth++; if (depth < 64) levelKind[depth] = 'c'; e.body.push_back(genClocked()); if (rng.chance(1, 3)) genEnNest(e.body, std::max(0, levels - 2)); depth--; out.push_back(e); budget--; }
	}
	void genEnPattern(std::vector<Stmt> &out) {
		enPending = false;
		int n = (int)rng.range(1, 2);
		for (int i = 0; i < n; i++) genEnNest(out, (int)rng.range(1, 4));
	}

	// ---- pattern seed: width-less variables (integer literals, zext/oext) and the conditional width-increment path -----------------
	// `UInt x = 5; IF (c) x = 200;` : BaseBitVector::assign grows x and, inside a scope, pads the OLD value to the new width with x's
	// expansion policy (zero for UInt literals, sign for SInt, one for oext()) before the conditional multiplexer. The pattern declares
	// such variables and re-assigns wider / narrower / equal-width literals and other such variables, bare and inside IF / ELSE / ELSEIF,
	// takes copies before and after (reads), and compares them (the comparison result is an ordinary Bit, often used as a condition).
	static int bitLen(unsigned long long n) { int r = 0; while (n) { r++; n >>= 1; } return r; }
	static int litWidth(char kind, long long v) { return kind == 's' ? (v >= 0 ? bitLen((unsigned long long)v) + 1 : bitLen((unsigned long long)(-v - 1)) + 1) : bitLen((unsigned long long)v); }
	static bool sameClass(char a, char b) { auto c = [](char k) { return k == 'z' ? 'u' : k; }; return c(a) == c(b); }
	long long litOfWidth(char kind, int wt) {       // a literal whose inferred width is exactly wt
		if (kind == 's') {
			if (wt <= 1) return rng.chance(1, 2) ? 0 : -1;
			long long lo = 1ll << (wt - 2), hi = (1ll << (wt - 1)) - 1, m = (long long)rng.range((uint64_t)lo, (uint64_t)hi);
			return rng.chance(1, 2) ? m : -m - 1;
		}
		if (wt <= 1) return 1;
		return (long long)rng.range(1ull << (wt - 1), (1ull << wt) - 1);
	}
	void intAssign(std::vector<Stmt> &out, int x) {       // one assignment to integer variable x (appended to `out`), static width updated
		IVarInfo &v = ivars[x];
		std::vector<int> others; for (size_t i = 0; i < ivars.size(); i++) if ((int)i != x && sameClass(ivars[i].kind, v.kind)) others.push_back((int)i);
		Stmt a;
		if (!others.empty() && rng.chance(1, 4)) { a.k = ST_IVAR; a.x = x; a.y = others[rng.below(others.size())]; v.width = std::max(v.width, ivars[a.y].width); }
		else {
			int W = v.width, wt;
			unsigned cls = (unsigned)rng.below(10);                     // wider (most interesting) / equal / narrower
			if (cls < 5 || (v.kind == 'o' && cls >= 7)) wt = W + (int)rng.range(1, 4);
			else if (cls < 7 || W <= 1) wt = W;
			else wt = (int)rng.range(1, W - 1);                         // narrower: not for policy one (zero padded literal, width dependent meaning)
			if (wt > 12) wt = (v.kind == 'o') ? W : 12;
			if (v.kind == 'o' && wt < W) wt = W;
			a.k = ST_IASSIGN; a.x = x; a.lit = litOfWidth(v.kind == 's' ? 's' : 'u', wt);
			v.width = std::max(v.width, litWidth(v.kind == 's' ? 's' : 'u', a.lit));
		}
		out.push_back(a); budget--;
	}
	void genIntPattern(std::vector<Stmt> &out) {
		intPending = false;
		int nv = (int)rng.range(1, 2);
		std::vector<int> mine;
		for (int i = 0; i < nv; i++) {
			Stmt d; unsigned k = (unsigned)rng.below(100);
			if (!mine.empty() && rng.chance(1, 2)) { char kd = ivars[mine[0]].kind; k = kd == 's' ? 50 : (kd == 'o' ? 95 : (rng.chance(1, 2) ? 10 : 80)); }   // same class: lets them be assigned / compared
			if (k < 40) { d.k = ST_ILIT; d.ikind = 'u'; d.lit = (long long)rng.range(1, 40); ivars.push_back({'u', litWidth('u', d.lit)}); }
			else if (k < 75) { d.k = ST_ILIT; d.ikind = 's'; d.lit = (long long)rng.range(0, 80) - 40; ivars.push_back({'s', litWidth('s', d.lit)}); }
			else { int w = (int)rng.range(1, 4); d.k = ST_IEXT; d.ikind = k < 87 ? 'z' : 'o'; d.e = genExpr(Ty{false, w}, 1); ivars.push_back({d.ikind, w}); }
			out.push_back(d); budget--; mine.push_back((int)ivars.size() - 1);
		}
		int steps = (int)rng.range(2, 5);
		int lastCmp = -1;
		for (int st = 0; st < steps; st++) {
			int x = mine[rng.below(mine.size())];
			unsigned k = (unsigned)rng.below(100);
			if (k < 12) {                 // a copy (read) - before / after growth
				Stmt c; c.k = ST_ICOPY; c.y = x; out.push_back(c); budget--; ivars.push_back(ivars[x]); mine.push_back((int)ivars.size() - 1);
			} else if (k < 27) {          // comparison -> ordinary Bit
				std::vector<int> others; for (int m : mine) if (sameClass(ivars[m].kind, ivars[x].kind)) others.push_back(m);
				Stmt c; c.k = ST_CMP; c.x = x; c.y = others[rng.below(others.size())];
				c.op = (ivars[x].kind == 'o' || rng.chance(1, 2)) ? (rng.chance(1, 2) ? O_EQ : O_NE) : O_LT;
				out.push_back(c); budget--; vars.push_back({Ty{}, false, depth, false}); lastCmp = (int)vars.size() - 1;
			} else {
				unsigned wrap = depth < maxDepth ? (unsigned)rng.below(100) : 0;
				auto cond = [&]() { if (lastCmp >= 0 && rng.chance(1, 3)) { Expr e; e.k = E_READ; e.ty = Ty{}; e.x = lastCmp; return e; } return genCond(nullptr); };
				if (wrap < 35) intAssign(out, x);
				else {
					Stmt f; f.k = ST_IF; f.e = cond(); intAssign(f.body, x); if (rng.chance(1, 4)) intAssign(f.body, mine[rng.below(mine.size())]);
					out.push_back(f); budget--;
					if (wrap >= 70 && wrap < 90) { Stmt e; e.k = ST_ELSE; intAssign(e.body, x); out.push_back(e); budget--; }
					else if (wrap >= 90) {
						Stmt e; e.k = rng.chance(1, 2) ? ST_ELSEIF : ST_ELSEIF2; e.e = cond(); intAssign(e.body, x); out.push_back(e); budget--;
						if (rng.chance(1, 2)) { Stmt e2; e2.k = ST_ELSE; intAssign(e2.body, x); out.push_back(e2); budget--; }
					}
				}
			}
		}
	}

	// ---- pattern seed: selections that differ only in one component of the frontend's alias-cache key ------------------------------
	// The frontend caches slice aliases per vector (BaseBitVector::m_rangeAlias, keyed by BitVectorSliceStatic/Dynamic::operator<:
	// parent, offset multiplier, max index, offset signal, width). `v.part(parts, idx)` (multiplier = part width) and `v(idx, w)`
	// (multiplier 1) on the same vector with the SAME index signal, w == width/parts and parts == 2^idxWidth agree in every key
	// component except the multiplier; random generation never produces that coincidence, this pattern does, together with the
	// near-misses (same index, other width / other part count; other index variable of the same width; x[idx]; a static slice;
	// the index variable reassigned in between), as reads and writes in both orders, inside and outside IF scopes.
	int findOrDecl(std::vector<Stmt> &out, Ty t, bool allowInput, int avoid = -1) {
		auto c = varsOf([&](const VarInfo &v) { return v.ty == t && !v.dflt && (allowInput || !v.input); });
		c.erase(std::remove(c.begin(), c.end(), avoid), c.end());
		if (!c.empty() && rng.chance(2, 3)) return c[rng.below(c.size())];
		Stmt d; d.k = ST_DECL; d.ty = t; d.e = genExpr(t, 2); out.push_back(d); vars.push_back({t, false, depth, false}); budget--;
		return (int)vars.size() - 1;
	}
	void genAliasPattern(std::vector<Stmt> &out) {
		aliasPending = false;
		int iw = rng.chance(3, 5) ? 1 : 2;
		int w = (int)rng.range(2, 4);
		int parts = 1 << iw, W = parts * w;              // part width == slice width, parts == 2^idxWidth
		int vx = findOrDecl(out, Ty{false, W}, true);
		int ix = findOrDecl(out, Ty{false, iw}, true, vx);
		int ix2 = rng.chance(1, 2) ? findOrDecl(out, Ty{false, iw}, true, ix) : -1;
		if (ix2 == vx) ix2 = -1;
		auto selTy = [&](const Sel &s) {
			switch (s.k) { case S_SLICE: return Ty{false, s.b}; case S_DSLICE: return Ty{false, s.b}; case S_DPART: return Ty{false, W / s.b}; default: return Ty{}; }
		};
		std::vector<Sel> plan;
		plan.push_back({S_DPART, ix, parts}); plan.push_back({S_DSLICE, ix, w});
		if (rng.chance(1, 2)) std::swap(plan[0], plan[1]);
		int extra = (int)rng.below(3);
		for (int i = 0; i < extra; i++) {
			Sel s{};
			switch (rng.below(8)) {
				case 0: { int w2 = (int)rng.range(1, W - (parts - 1)); s = {S_DSLICE, ix, w2}; break; }            // same index, (mostly) other width
				case 1: { std::vector<int> d; for (int q = parts; q <= W; q++) if (W % q == 0) d.push_back(q);   /* >= 2^idxWidth: every index value stays in range */ s = {S_DPART, ix, d[rng.below(d.size())]}; break; } // other part count
				case 2: s = (ix2 >= 0) ? Sel{S_DSLICE, ix2, w} : Sel{S_DSLICE, ix, w}; break;                          // other index variable, same widths
				case 3: s = (ix2 >= 0) ? Sel{S_DPART, ix2, parts} : Sel{S_DPART, ix, parts}; break;
				case 4: s = {S_DBIT, ix, 0}; break;                                                                    // x[idx]
				case 5: s = {S_DPART, ix, W}; break;                                                                   // 1-bit parts (vs x[idx])
				case 6: { int off = (int)rng.below(W - w + 1); s = {S_SLICE, off, w}; break; }                         // static slice of the same width
				default: s = rng.chance(1, 2) ? Sel{S_DPART, ix, parts} : Sel{S_DSLICE, ix, w}; break;                  // the colliding forms again
			}
			plan.insert(plan.begin() + rng.below(plan.size() + 1), s);
		}
		// resetNode() between uses of the same index signal / the same selections: x is re-created and every alias cache of x (dynamic
		// bit aliases, the static / dynamic slice cache, bit aliases) must be dropped - a stale alias is bound to the OLD node.
		// Only where re-creating is a sequential assignment: x was declared at this conditional level.
		int resetAt = -1;
		if (!vars[vx].input || true) if (!condBetween(vars[vx].depth, depth) && rng.chance(3, 5)) {
			if (rng.chance(1, 2)) plan.insert(plan.begin() + rng.below(plan.size() + 1), Sel{S_DBIT, ix, 0});
			if (rng.chance(1, 3)) plan.insert(plan.begin() + rng.below(plan.size() + 1), Sel{S_BIT, (int)rng.below(W), 0});
			size_t n0 = plan.size();
			resetAt = (int)rng.range(1, n0);
			for (size_t i = 0; i < n0 && plan.size() < 8; i++) if (rng.chance(2, 3)) plan.push_back(plan[i]);      // the earlier selections again, after the reset
			if ((size_t)resetAt == plan.size()) plan.push_back(plan[rng.below(plan.size())]);
		}
		for (size_t i = 0; i < plan.size(); i++) {
			if ((int)i == resetAt) { Stmt r; r.k = ST_RESET; r.x = vx; r.e = genExpr(Ty{false, W}, 1); out.push_back(r); budget--; }
			const Sel &s = plan[i];
			Ty st = selTy(s);
			if (i > 0 && rng.chance(1, 6)) {               // near miss: the index signal gets a new driver in between (other node port)
				Stmt a; a.k = ST_ASSIGN; a.x = ix; a.e = genExpr(Ty{false, iw}, 1); out.push_back(a); budget--;
			}
			bool wrap = depth < maxDepth && rng.chance(1, 3);
			Stmt acc;
			bool write = (resetAt >= 0 && (int)i >= resetAt) ? rng.chance(3, 4) : rng.chance(1, 2);
			if (write) { acc.k = ST_ASSIGN; acc.x = vx; acc.path = {s}; acc.e = genExpr(st, 1); }
			else {
				Expr r; r.k = E_READ; r.ty = st; r.x = vx; r.path = {s};
				auto c = varsOf([&](const VarInfo &v) { return v.ty == st && !v.dflt && !v.input; });
				c.erase(std::remove(c.begin(), c.end(), vx), c.end()); c.erase(std::remove(c.begin(), c.end(), ix), c.end()); c.erase(std::remove(c.begin(), c.end(), ix2), c.end());
				if (c.empty()) {   // the read needs a visible destination: declare it outside the (possible) scope
					Stmt d; d.k = ST_DECL; d.ty = st; d.e = constOf(st); out.push_back(d); vars.push_back({st, false, depth, false}); budget--;
					c.push_back((int)vars.size() - 1);
				}
				acc.k = ST_ASSIGN; acc.x = c[rng.below(c.size())]; acc.e = r;
			}
			budget--;
			if (wrap) { Stmt f; f.k = ST_IF; f.e = genCond(nullptr); f.body.push_back(acc); out.push_back(f); budget--; }
			else out.push_back(acc);
		}
	}

	// keepLocals: the statements are appended to a block that the caller continues (the caller forgets the block's variables at its end)
	void genBlock(std::vector<Stmt> &out, int n, bool keepLocals = false) {
		size_t nvars = vars.size(), nivars = ivars.size();
		while (n > 0 && budget > 0) {
			if (rng.chance(1, 40)) { auto c = varsOf([&](const VarInfo &v) { return v.ty.isBit; }); if (!c.empty()) { Stmt f; f.k = ST_DEFASSIGN; f.x = c[rng.below(c.size())]; f.bits = randBits(1); out.push_back(f); budget--; n--; continue; } }
			if (aliasPending && rng.chance(1, 4)) { genAliasPattern(out); n--; continue; }
			if (intPending && rng.chance(1, 4)) { genIntPattern(out); n--; continue; }
			if (enPending && rng.chance(1, 4)) { genEnPattern(out); n--; continue; }
			if (chainPending && rng.chance(1, 4)) { genChainPattern(out); n--; continue; }
			if (enProgram && rng.chance(1, 25)) { out.push_back(genClocked()); n--; continue; }
			if (enProgram && depth < maxDepth && rng.chance(1, 20)) {   // an enable scope around ordinary statements
				Stmt s; s.k = ST_ENIF; s.e = genCond(nullptr); depth++; if (depth < 64) levelKind[depth] = 'e'; genBlock(s.body, (int)rng.range(1, 3)); depth--; out.push_back(s); budget--; n--; continue;
			}
			unsigned k = (unsigned)rng.below(100);
			budget--; n--;
			if (k < 12) {
				Stmt s; s.k = ST_DECL; s.ty = genTy(); s.e = genExpr(s.ty, 2);
				out.push_back(s); vars.push_back({s.ty, false, depth, false});
			} else if (k < 17) {
				// only Bit has a usable default (`UInt v = UIntDefault(..)` asserts valid(): BaseBitVector(const BaseBitVectorDefault&) reads the not yet created node)
				Stmt s; s.k = ST_DEFAULT; s.ty = (malformed && !didMalform && rng.chance(1, 2)) ? (didMalform = true, Ty{false, 3}) : Ty{}; s.bits = randBits(s.ty.w);
				out.push_back(s); vars.push_back({s.ty, true, depth, false});
				if (s.ty.isBit && !didMalform && rng.chance(1, 2)) {
					// several defaults on one signal: `v = BitDefault(a); IF (c) v = e; v = BitDefault(b);` - the later default must not override
					// the first one nor the conditional assignment (DefaultValueResolution decides by feedback loops through the Node_Defaults)
					int x = (int)vars.size() - 1;
					auto fa = [&](std::vector<Stmt> &dst) { Stmt f; f.k = ST_DEFASSIGN; f.x = x; f.bits = randBits(1); dst.push_back(f); budget--; };
					if (rng.chance(1, 3)) fa(out);
					if (depth < maxDepth && rng.chance(3, 4)) {
						Stmt c; c.k = ST_IF; c.e = genCond(nullptr);
						Stmt a; a.k = ST_ASSIGN; a.x = x; a.e = genExpr(Ty{}, 1); c.body.push_back(a);
						if (rng.chance(1, 3)) fa(c.body);                       // a default at a nested scope level
						out.push_back(c); budget -= 2;
						if (rng.chance(1, 3)) { Stmt e; e.k = ST_ELSE; fa(e.body); if (rng.chance(1, 2)) { Stmt a2 = a; a2.e = genExpr(Ty{}, 1); e.body.push_back(a2); } out.push_back(e); budget--; }
					}
					fa(out);
				}
			} else if (k < 62 || depth >= maxDepth) {
				Stmt s; s.k = ST_ASSIGN;
				// prefer outer, non-input variables
				std::vector<int> c;
				for (size_t i = 0; i < vars.size(); i++) { c.push_back((int)i); if (!vars[i].input) { c.push_back((int)i); c.push_back((int)i); } if ((int)vars[i].depth < depth) c.push_back((int)i); }
				s.x = c[rng.below(c.size())];
				const VarInfo &v = vars[s.x];
				Ty tt = v.ty;
				bool needPath = v.dflt && !condBetween(v.depth, depth);     // a whole unconditional assignment would make the Node_Default non-loopy
				if (!v.ty.isBit && v.ty.w >= 1 && (needPath || rng.chance(1, 2))) genPath(v.ty.w, s.path, tt, 2, true);
				if (needPath && s.path.empty()) { // Bit default at its own level: skip the assignment, declare something instead
					Stmt d; d.k = ST_DECL; d.ty = genTy(); d.e = genExpr(d.ty, 2); out.push_back(d); vars.push_back({d.ty, false, depth, false}); continue;
				}
				s.e = genExpr(tt, 2);
				if (malformed && !didMalform && rng.chance(1, 3)) {
					didMalform = true;
					unsigned kind = (unsigned)rng.below(4);
					if (kind == 0 && !tt.isBit && tt.w < 2) kind = 2;   // a *wider* value silently grows a not yet read UInt: not a rejected program
					switch (kind) {
						case 0: { Ty wrong = tt.isBit ? Ty{false, 2} : Ty{false, tt.w - 1}; s.e = constOf(wrong); break; }      // width mismatch (narrower value, no expansion policy)
						case 1: if (!v.ty.isBit) { s.path.clear(); s.path.push_back({S_SLICE, 0, 1}); Expr r; r.k = E_READ; r.ty = Ty{false, 1}; r.x = s.x; r.path.push_back({S_SLICE, v.ty.w, 1}); s.e = r; } else s.e = constOf(Ty{false, 2}); break; // slice read out of bounds (a slice *write* beyond the range is silently accepted by the frontend)
						case 3: if (!v.ty.isBit) { s.path.clear(); s.path.push_back({S_SLICE, 0, 1}); Expr r; r.k = E_READ; r.ty = Ty{false, 1}; r.x = s.x; Sel q{S_SEL, 1, v.ty.w + 2}; q.form = 'R'; r.path.push_back(q); s.e = r; } else s.e = constOf(Ty{false, 2}); break; // Selection::Range read beyond the parent
						default: if (!v.ty.isBit) { s.path.clear(); s.path.push_back({S_BIT, v.ty.w, 0}); s.e = constOf(Ty{}); } else s.e = constOf(Ty{false, 3}); break;          // bit index out of bounds
					}
				}
				out.push_back(s);
			} else {
				// IF chain
				Stmt s; s.k = ST_IF; s.e = genCond(nullptr);
				Expr first = s.e;
				auto body = [&](Stmt &st) { depth++; if (depth < 64) levelKind[depth] = 'c'; genBlock(st.body, (int)rng.range(1, 3)); depth--; };
				body(s); out.push_back(s);
				if (rng.chance(3, 5)) {
					int arms = rng.chance(1, 6) ? (int)rng.range(3, 4) : (int)rng.below(3);
					const Expr *prev = &first;
					std::deque<Expr> keep;
					for (int a = 0; a < arms && budget > 0; a++) {
						Stmt e; e.k = rng.chance(1, 2) ? ST_ELSEIF : ST_ELSEIF2; e.e = genCond(prev); keep.push_back(e.e); prev = &keep.back();
						budget--; body(e); out.push_back(e);
					}
					if (rng.chance(3, 5) && budget > 0) { Stmt e; e.k = ST_ELSE; budget--; body(e); out.push_back(e); }
				}
			}
		}
		// not placed so far: append at top level, while the top level variables are still known (vars is truncated below)
		if (depth == 0 && aliasPending) genAliasPattern(out);
		if (depth == 0 && intPending) genIntPattern(out);
		if (depth == 0 && enPending) genEnPattern(out);
		if (depth == 0 && chainPending) genChainPattern(out);
		if (keepLocals) return;
		{ // static widths survive the block (m_width of an outer variable grown inside stays grown); only the block's own variables go
			ivars.resize(nivars); }
		vars.resize(nvars);
	}
};

static Program genProgram(Rng &rng, int maxStmts, int maxDepth, bool malformed) {
	Program p;
	Gen g(rng, maxDepth, (int)rng.range(std::max(1, maxStmts / 3), maxStmts));
	g.malformed = malformed;
	int nin = (int)rng.range(2, 5), bits = 0;
	bool wide = rng.chance(1, 12);     // now and then more input bits than can be enumerated
	for (int i = 0; i < nin; i++) {
		Ty t;
		if (i == 0 || rng.chance(2, 5)) t = Ty{}; else { int w = (int)rng.range(1, wide ? 6 : 4); t = Ty{false, w}; }
		if (!wide && bits + t.w > 10) t = Ty{};
		bits += t.w; p.ins.push_back(t); g.vars.push_back({t, false, 0, true});
	}
	p.aliasPattern = g.aliasPending = rng.chance(1, 4);
	p.intPattern = g.intPending = rng.chance(1, 4);
	p.enPattern = g.enPending = g.enProgram = rng.chance(1, 4);
	p.chainPattern = g.chainPending = rng.chance(1, 4);
	p.useMacros = rng.chance(1, 2);
	g.genBlock(p.stmts, 1000);
	p.malformed = g.didMalform;
	return p;
}

// ------------------------------------------------------------------------------------------------ executing the program on the real frontend
struct Value { std::unique_ptr<Bit> b; std::unique_ptr<UInt> u; };

struct IValue { std::unique_ptr<UInt> u; std::unique_ptr<SInt> s; };

struct Exec {
	std::vector<Value> vars;     // live frontend objects, declaration order
	std::vector<IValue> ivars;   // width-less, policy-carrying vectors (own index space)
	bool useMacros = false;      // IF / ELSE / ELSEIF through the real macros of ConditionalScope.h
	std::vector<Bit> obs;        // per reg / memory write statement: the signal driving the ENABLE / wrEnable input ('1' if unconnected)
	void observe(hlim::NodePort p) { if (p.node) obs.emplace_back(SignalReadPort(p)); else obs.emplace_back('1'); }
	IValue &ivar(int i) { if (i < 0 || i >= (int)ivars.size()) throw std::runtime_error("unknown integer variable"); return ivars[i]; }

	static Selection selOf(const Sel &s) {
		switch (s.form) {
			case 'A': return Selection::All();
			case 'F': return Selection::From(s.a);
			case 'R': return Selection::Range((int)s.a, (int)s.b);
			case 'I': return Selection::RangeIncl((int)s.a, (int)s.b);
			case 'L': return Selection::Slice((size_t)s.a, (size_t)s.b);
			case 'Y': return Selection::Symbol((int)s.a, BitWidth((uint64_t)s.b));
		}
		throw std::runtime_error("selection form");
	}
	const UInt &idxVar(int i) { if (i < 0 || i >= (int)vars.size() || !vars[i].u) throw std::runtime_error("bad index variable"); return *vars[i].u; }

	UInt readU(const UInt &cur, const std::vector<Sel> &p, size_t i) {
		if (i == p.size()) return cur;
		const Sel &s = p[i];
		switch (s.k) {
			case S_SLICE: return readU(cur((size_t)s.a, BitWidth((uint64_t)s.b)), p, i + 1);
			case S_DPART: return readU(cur.part((size_t)s.b, idxVar(s.a)), p, i + 1);
			case S_DSLICE: return readU(cur(idxVar(s.a), BitWidth((uint64_t)s.b)), p, i + 1);
			case S_SEL: return readU(cur(selOf(s)), p, i + 1);
			default: throw std::runtime_error("bit selection in the middle of a path");
		}
	}
	Bit readB(const UInt &cur, const std::vector<Sel> &p, size_t i) {
		const Sel &s = p[i];
		if (i + 1 == p.size()) {
			if (s.k == S_BIT) return cur[(size_t)s.a];
			if (s.k == S_DBIT) return cur[idxVar(s.a)];
			throw std::runtime_error("path does not end in a bit");
		}
		switch (s.k) {
			case S_SLICE: return readB(cur((size_t)s.a, BitWidth((uint64_t)s.b)), p, i + 1);
			case S_DPART: return readB(cur.part((size_t)s.b, idxVar(s.a)), p, i + 1);
			case S_DSLICE: return readB(cur(idxVar(s.a), BitWidth((uint64_t)s.b)), p, i + 1);
			case S_SEL: return readB(cur(selOf(s)), p, i + 1);
			default: throw std::runtime_error("bit selection in the middle of a path");
		}
	}
	static bool endsInBit(const std::vector<Sel> &p) { return !p.empty() && (p.back().k == S_BIT || p.back().k == S_DBIT); }

	Bit evalB(const Expr &e) {
		switch (e.k) {
			case E_CONST: if (e.ty.isBit) return Bit(e.bits[0] == '1'); throw std::runtime_error("type");
			case E_READ: {
				if (e.x < 0 || e.x >= (int)vars.size()) throw std::runtime_error("unknown variable");
				if (e.path.empty()) { if (!vars[e.x].b) throw std::runtime_error("type"); return *vars[e.x].b; }
				if (!vars[e.x].u) throw std::runtime_error("type");
				return readB(*vars[e.x].u, e.path, 0);
			}
			case E_NOT: return !evalB(e.kids[0]);
			case E_OP2:
				switch (e.op) {
					case O_AND: { Bit a = evalB(e.kids[0]); Bit b = evalB(e.kids[1]); return a & b; }
					case O_OR: { Bit a = evalB(e.kids[0]); Bit b = evalB(e.kids[1]); return a | b; }
					case O_XOR: { Bit a = evalB(e.kids[0]); Bit b = evalB(e.kids[1]); return a ^ b; }
					case O_EQ: { UInt a = evalU(e.kids[0]); UInt b = evalU(e.kids[1]); return a == b; }
					case O_NE: { UInt a = evalU(e.kids[0]); UInt b = evalU(e.kids[1]); return a != b; }
					case O_LT: { UInt a = evalU(e.kids[0]); UInt b = evalU(e.kids[1]); return a < b; }
					default: throw std::runtime_error("type");
				}
		}
		throw std::runtime_error("expr");
	}
	UInt evalU(const Expr &e) {
		switch (e.k) {
			case E_CONST: {
				if (e.ty.isBit) throw std::runtime_error("type");
				uint64_t v = 0; for (char c : e.bits) v = (v << 1) | (c == '1');
				return ConstUInt(v, BitWidth((uint64_t)e.ty.w));
			}
			case E_READ: {
				if (e.x < 0 || e.x >= (int)vars.size() || !vars[e.x].u) throw std::runtime_error("type");
				if (endsInBit(e.path)) throw std::runtime_error("type");
				return readU(*vars[e.x].u, e.path, 0);
			}
			case E_NOT: return ~evalU(e.kids[0]);
			case E_OP2: {
				UInt a = evalU(e.kids[0]); UInt b = evalU(e.kids[1]);
				switch (e.op) {
					case O_AND: return a & b;
					case O_OR: return a | b;
					case O_XOR: return a ^ b;
					case O_ADD: return a + b;
					case O_SUB: return a - b;
					default: throw std::runtime_error("type");
				}
			}
		}
		throw std::runtime_error("expr");
	}
	bool exprIsBit(const Expr &e) {
		switch (e.k) {
			case E_CONST: return e.ty.isBit;
			case E_READ: if (e.x < 0 || e.x >= (int)vars.size()) throw std::runtime_error("unknown variable"); return e.path.empty() ? (bool)vars[e.x].b : endsInBit(e.path);
			case E_NOT: return exprIsBit(e.kids[0]);
			case E_OP2: return e.op >= O_EQ || (e.op <= O_XOR && exprIsBit(e.kids[0]));
		}
		return true;
	}

	void assignU(UInt &cur, const std::vector<Sel> &p, size_t i, const Expr &rhs) {
		if (i == p.size()) { UInt v = evalU(rhs); cur = v; return; }
		const Sel &s = p[i];
		switch (s.k) {
			case S_SLICE: assignU(cur((size_t)s.a, BitWidth((uint64_t)s.b)), p, i + 1, rhs); return;
			case S_DPART: assignU(cur.part((size_t)s.b, idxVar(s.a)), p, i + 1, rhs); return;
			case S_DSLICE: assignU(cur(idxVar(s.a), BitWidth((uint64_t)s.b)), p, i + 1, rhs); return;
			case S_SEL: assignU(cur(selOf(s)), p, i + 1, rhs); return;
			case S_BIT: { if (i + 1 != p.size()) throw std::runtime_error("bit selection in the middle of a path"); Bit v = evalB(rhs); cur[(size_t)s.a] = v; return; }
			case S_DBIT: { if (i + 1 != p.size()) throw std::runtime_error("bit selection in the middle of a path"); Bit v = evalB(rhs); cur[idxVar(s.a)] = v; return; }
		}
	}


	// ---- an else-chain executed through the REAL macros IF / ELSE / ELSEIF (and `ELSE IF`) of frontend/ConditionalScope.h ------------
	// a[0] = the IF, a[1..n] = ELSEIF / ELSE IF arms, el = the final ELSE or nullptr. Chains whose arms are all of one kind (up to 4) are
	// written out as one C++ if/else statement sequence exactly as a user writes them; chains with mixed arm kinds are written arm by arm,
	// each arm's macro behind an `if (true) {}` (the macros start with `else`; that else branch is dead in either form).
#define C05_C(i) evalB(a[i]->e)
#define C05_B(i) block(a[i]->body)
#define C05_EI(i) ELSEIF (C05_C(i)) C05_B(i);
#define C05_E2(i) ELSE IF (C05_C(i)) C05_B(i);
	void chainMacros(const std::vector<const Stmt *> &a, const Stmt *el) {
		size_t n = a.size() - 1;
		bool allEI = true, allE2 = true;
		for (size_t i = 1; i <= n; i++) { if (a[i]->k != ST_ELSEIF) allEI = false; if (a[i]->k != ST_ELSEIF2) allE2 = false; }
		if (n <= 4 && (allEI || allE2)) {
			int shape = (int)n * 4 + (allEI && n ? 0 : 2) + (el ? 1 : 0);
			switch (shape) {
				case 0 * 4 + 0: case 0 * 4 + 2: IF (C05_C(0)) C05_B(0); return;
				case 0 * 4 + 1: case 0 * 4 + 3: IF (C05_C(0)) C05_B(0); ELSE block(el->body); return;
				case 1 * 4 + 0: IF (C05_C(0)) C05_B(0); C05_EI(1) return;
				case 1 * 4 + 1: IF (C05_C(0)) C05_B(0); C05_EI(1) ELSE block(el->body); return;
				case 2 * 4 + 0: IF (C05_C(0)) C05_B(0); C05_EI(1) C05_EI(2) return;
				case 2 * 4 + 1: IF (C05_C(0)) C05_B(0); C05_EI(1) C05_EI(2) ELSE block(el->body); return;
				case 3 * 4 + 0: IF (C05_C(0)) C05_B(0); C05_EI(1) C05_EI(2) C05_EI(3) return;
				case 3 * 4 + 1: IF (C05_C(0)) C05_B(0); C05_EI(1) C05_EI(2) C05_EI(3) ELSE block(el->body); return;
				case 4 * 4 + 0: IF (C05_C(0)) C05_B(0); C05_EI(1) C05_EI(2) C05_EI(3) C05_EI(4) return;
				case 4 * 4 + 1: IF (C05_C(0)) C05_B(0); C05_EI(1) C05_EI(2) C05_EI(3) C05_EI(4) ELSE block(el->body); return;
				case 1 * 4 + 2: IF (C05_C(0)) C05_B(0); C05_E2(1) return;
				case 1 * 4 + 3: IF (C05_C(0)) C05_B(0); C05_E2(1) ELSE block(el->body); return;
				case 2 * 4 + 2: IF (C05_C(0)) C05_B(0); C05_E2(1) C05_E2(2) return;
				case 2 * 4 + 3: IF (C05_C(0)) C05_B(0); C05_E2(1) C05_E2(2) ELSE block(el->body); return;
				case 3 * 4 + 2: IF (C05_C(0)) C05_B(0); C05_E2(1) C05_E2(2) C05_E2(3) return;
				case 3 * 4 + 3: IF (C05_C(0)) C05_B(0); C05_E2(1) C05_E2(2) C05_E2(3) ELSE block(el->body); return;
				case 4 * 4 + 2: IF (C05_C(0)) C05_B(0); C05_E2(1) C05_E2(2) C05_E2(3) C05_E2(4) return;
				case 4 * 4 + 3: IF (C05_C(0)) C05_B(0); C05_E2(1) C05_E2(2) C05_E2(3) C05_E2(4) ELSE block(el->body); return;
			}
		}
		IF (C05_C(0)) C05_B(0);
		for (size_t i = 1; i <= n; i++) {
			if (a[i]->k == ST_ELSEIF) { if (true) {} C05_EI(i) }
			else { if (true) {} C05_E2(i) }
		}
		if (el) { if (true) {} ELSE block(el->body); }
	}
#undef C05_C
#undef C05_B
#undef C05_EI
#undef C05_E2

	void block(const std::vector<Stmt> &ss, bool topLevel = false) {
		size_t nvars = topLevel ? (size_t)-1 : vars.size();   // top level variables stay alive: their final values are the observed outputs
		struct Restore { std::vector<Value> &v; size_t n; ~Restore() { while (v.size() > n) v.pop_back(); } } restore{vars, nvars}; // locals die at the end of the block
		struct RestoreI { std::vector<IValue> &v; size_t n; ~RestoreI() { while (v.size() > n) v.pop_back(); } } restoreI{ivars, topLevel ? (size_t)-1 : ivars.size()};
		for (size_t si = 0; si < ss.size(); si++) {
			const Stmt &s = ss[si];
			if (useMacros && s.k == ST_IF) {
				// the whole chain that starts here goes through the real macros
				std::vector<const Stmt *> a{&s}; const Stmt *el = nullptr; size_t j = si + 1;
				while (j < ss.size() && (ss[j].k == ST_ELSEIF || ss[j].k == ST_ELSEIF2)) a.push_back(&ss[j++]);
				if (j < ss.size() && ss[j].k == ST_ELSE) el = &ss[j++];
				chainMacros(a, el);
				si = j - 1;
				continue;
			}
			switch (s.k) {
				case ST_DECL: {
					Value v;
					if (s.ty.isBit) { if (!exprIsBit(s.e)) throw std::runtime_error("type"); v.b = std::make_unique<Bit>(evalB(s.e)); }
					else { if (exprIsBit(s.e)) throw std::runtime_error("type"); v.u = std::make_unique<UInt>(evalU(s.e)); if ((int)v.u->size() != s.ty.w) throw std::runtime_error("declared width differs"); }
					vars.push_back(std::move(v));
					break;
				}
				case ST_DEFAULT: {
					Value v;
					if (s.ty.isBit) v.b = std::make_unique<Bit>(BitDefault(s.bits[0] == '1' ? '1' : '0'));
					else {
						uint64_t c = 0; for (char ch : s.bits) c = (c << 1) | (ch == '1');
						v.u = std::make_unique<UInt>(BitWidth((uint64_t)s.ty.w));
						*v.u = UIntDefault(ConstUInt(c, BitWidth((uint64_t)s.ty.w)));
					}
					vars.push_back(std::move(v));
					break;
				}
				case ST_ASSIGN: {
					if (s.x < 0 || s.x >= (int)vars.size()) throw std::runtime_error("unknown variable");
					Value &v = vars[s.x];
					if (v.b) { if (!s.path.empty() || !exprIsBit(s.e)) throw std::runtime_error("type"); Bit r = evalB(s.e); *v.b = r; }
					else {
						bool tb = endsInBit(s.path);
						if (tb != exprIsBit(s.e)) throw std::runtime_error("type");
						assignU(*v.u, s.path, 0, s.e);
					}
					break;
				}
				case ST_ILIT: {
					IValue v;
					if (s.ikind == 's') v.s = std::make_unique<SInt>((std::int64_t)s.lit);
					else { if (s.lit < 1) throw std::runtime_error("UInt literal < 1"); v.u = std::make_unique<UInt>((std::uint64_t)s.lit); }
					ivars.push_back(std::move(v));
					break;
				}
				case ST_IEXT: {
					if (exprIsBit(s.e)) throw std::runtime_error("type");
					IValue v; UInt src = evalU(s.e);
					// `UInt x = oext(src);` initialises x from the prvalue without a move (guaranteed elision); make_unique would go through UInt(UInt&&),
					// which drives the temporary from x's own signal node - after that the frontend refuses to grow x ("already driving signals")
					if (s.ikind == 'o') v.u.reset(new UInt(oext(src))); else if (s.ikind == 'z') v.u.reset(new UInt(zext(src))); else throw std::runtime_error("type");
					ivars.push_back(std::move(v));
					break;
				}
				case ST_ICOPY: {
					IValue &y = ivar(s.y); IValue v;
					if (y.u) v.u = std::make_unique<UInt>(*y.u); else v.s = std::make_unique<SInt>(*y.s);
					ivars.push_back(std::move(v));
					break;
				}
				case ST_IASSIGN: {
					IValue &x = ivar(s.x);
					if (x.u) { if (s.lit < 1) throw std::runtime_error("UInt literal < 1"); *x.u = (std::uint64_t)s.lit; } else *x.s = (std::int64_t)s.lit;
					break;
				}
				case ST_IVAR: {
					IValue &x = ivar(s.x); IValue &y = ivar(s.y);
					if ((bool)x.u != (bool)y.u) throw std::runtime_error("type");
					if (x.u) *x.u = *y.u; else *x.s = *y.s;
					break;
				}
				case ST_CMP: {
					IValue &x = ivar(s.x); IValue &y = ivar(s.y);
					if ((bool)x.u != (bool)y.u) throw std::runtime_error("type");
					Value v;
					if (x.u) v.b = std::make_unique<Bit>(s.op == O_EQ ? (*x.u == *y.u) : s.op == O_NE ? (*x.u != *y.u) : (*x.u < *y.u));
					else v.b = std::make_unique<Bit>(s.op == O_EQ ? (*x.s == *y.s) : s.op == O_NE ? (*x.s != *y.s) : (*x.s < *y.s));
					vars.push_back(std::move(v));
					break;
				}
				case ST_DEFASSIGN: {
					if (s.x < 0 || s.x >= (int)vars.size() || !vars[s.x].b) throw std::runtime_error("type");
					*vars[s.x].b = BitDefault(s.bits[0] == '1' ? '1' : '0');
					break;
				}
				case ST_RESET: {
					if (s.x < 0 || s.x >= (int)vars.size() || !vars[s.x].u || exprIsBit(s.e)) throw std::runtime_error("type");
					UInt v = evalU(s.e);                 // the right-hand side may read x: evaluate it before the reset
					if (v.size() != vars[s.x].u->size()) throw std::runtime_error("width change");
					vars[s.x].u->resetNode();
					*vars[s.x].u = v;
					break;
				}
				case ST_ENIF:
					// ENIF(x) -> if (gtry::EnableScope ___enableScope{x}) {} else body
					ENIF (evalB(s.e)) block(s.body);
					break;
				case ST_REG: {
					hlim::BaseNode *n = nullptr;
					if (exprIsBit(s.e)) { Bit t = reg(evalB(s.e)); n = t.readPort().node; } else { UInt t = reg(evalU(s.e)); n = t.readPort().node; }
					auto *r = dynamic_cast<hlim::Node_Register *>(n);
					if (!r) throw std::runtime_error("reg() did not return a register output");
					observe(r->getDriver(hlim::Node_Register::ENABLE));
					break;
				}
				case ST_MEMW: {
					if (exprIsBit(s.e) || exprIsBit(s.e2)) throw std::runtime_error("type");
					UInt addr = evalU(s.e); UInt data = evalU(s.e2);
					if (addr.size() < 1 || addr.size() > 4) throw std::runtime_error("address width");
					Memory<UInt> mem(1ull << addr.size(), data.width());
					auto *wp = mem[addr].write(data);
					observe(wp->getDriver((size_t)hlim::Node_MemPort::Inputs::wrEnable));
					break;
				}
				case ST_IF:
					// IF(x)  ->  if (gtry::ConditionalScope ___condScope{x}) body
					if (gtry::ConditionalScope ___condScope{evalB(s.e)}) block(s.body);
					break;
				case ST_ELSE:
					// ELSE   ->  else { HCL_ASSERT(false); } if (gtry::ConditionalScope ___condScope{ConditionalScope::ElseCase{}}) body
					if (gtry::ConditionalScope ___condScope{ConditionalScope::ElseCase{}}) block(s.body);
					break;
				case ST_ELSEIF:
					// ELSEIF(x) -> else { HCL_ASSERT(false); } if (gtry::ConditionalScope ___condScope{ConditionalScope::ElseCase{}, x}) body
					if (gtry::ConditionalScope ___condScope{ConditionalScope::ElseCase{}, evalB(s.e)}) block(s.body);
					break;
				case ST_ELSEIF2:
					// ELSE IF(x) -> else {…} if (ConditionalScope{ElseCase{}}) if (ConditionalScope{x}) body
					if (gtry::ConditionalScope ___condScope{ConditionalScope::ElseCase{}})
						if (gtry::ConditionalScope ___condScope{evalB(s.e)}) block(s.body);
					break;
			}
		}
	}
};

static bool hasClocked(const std::vector<Stmt> &ss) { for (auto &s : ss) if (s.k == ST_REG || s.k == ST_MEMW || hasClocked(s.body)) return true; return false; }
static bool hasDefault(const std::vector<Stmt> &ss) { for (auto &s : ss) if (s.k == ST_DEFAULT || s.k == ST_DEFASSIGN || hasDefault(s.body)) return true; return false; }

static void runCase(std::ostream &o, const std::string &id, const Program &p, Rng &vrng, int exhBits, int nRandom) {
	o << "case " << id << (p.aliasPattern ? " alias" : "") << (p.intPattern ? " intlit" : "") << (p.enPattern ? " enable" : "") << (p.chainPattern ? " chains" : "") << (p.useMacros ? " macros" : "") << (p.malformed ? " malformed" : "") << "\n";
	o << "ins"; for (auto &t : p.ins) o << ' ' << tyStr(t); o << '\n';
	printStmts(o, p.stmts);
	o << "endprog\n";
	try {
		DesignScope design;
		std::optional<Clock> clk; std::optional<ClockScope> clkScope;      // reg() and memory ports need a clock
		if (hasClocked(p.stmts)) { clk.emplace(ClockConfig{ .absoluteFrequency = 1'000'000 }); clkScope.emplace(*clk); }
		Exec ex; ex.useMacros = p.useMacros;
		std::vector<hlim::Node_Pin *> inPins;
		for (size_t i = 0; i < p.ins.size(); i++) {
			Value v;
			if (p.ins[i].isBit) { v.b = std::make_unique<Bit>(pinIn().setName("in" + std::to_string(i))); inPins.push_back(dynamic_cast<hlim::Node_Pin *>(v.b->node()->getNonSignalDriver(0).node)); }
			else { v.u = std::make_unique<UInt>(pinIn(BitWidth((uint64_t)p.ins[i].w)).setName("in" + std::to_string(i))); inPins.push_back(dynamic_cast<hlim::Node_Pin *>(v.u->node()->getNonSignalDriver(0).node)); }
			ex.vars.push_back(std::move(v));
		}
		bool threw = false; std::string what;
		try { ex.block(p.stmts, true); }
		catch (const std::exception &e) { threw = true; what = e.what(); }
		if (threw) {
			std::string w1 = what.substr(0, what.find('\n'));
			for (auto &c : w1) if (c == ' ') c = '_';
			o << "ex " << w1.substr(0, 120) << "\nend\n"; return;
		}
		// the final value of every top level variable is observed through an output pin
		std::vector<hlim::Node_Pin *> outPins;
		for (size_t i = 0; i < ex.vars.size(); i++) {
			if (ex.vars[i].b) outPins.push_back(pinOut(*ex.vars[i].b).setName("out" + std::to_string(i)).node());
			else outPins.push_back(pinOut(*ex.vars[i].u).setName("out" + std::to_string(i)).node());
		}
		std::vector<hlim::Node_Pin *> outPinsI;   // final bits of the width-less variables (their final static width)
		for (size_t i = 0; i < ex.ivars.size(); i++) {
			if (ex.ivars[i].u) outPinsI.push_back(pinOut(*ex.ivars[i].u).setName("iout" + std::to_string(i)).node());
			else outPinsI.push_back(pinOut(*ex.ivars[i].s).setName("iout" + std::to_string(i)).node());
		}
		std::vector<hlim::Node_Pin *> outPinsO;   // (write) enables of the clocked statements
		for (size_t i = 0; i < ex.obs.size(); i++) outPinsO.push_back(pinOut(ex.obs[i]).setName("en" + std::to_string(i)).node());
		int totalBits = 0; for (auto &t : p.ins) totalBits += t.w;
		std::vector<std::vector<std::string>> vals;
		auto mk = [&](uint64_t bits) {
			std::vector<std::string> v; int pos = 0;
			for (auto &t : p.ins) { std::string s; for (int i = t.w - 1; i >= 0; i--) s.push_back(((bits >> (pos + i)) & 1) ? '1' : '0'); pos += t.w; v.push_back(s); }
			return v;
		};
		if (totalBits <= exhBits) for (uint64_t b = 0; b < (1ull << totalBits); b++) vals.push_back(mk(b));
		else { vals.push_back(mk(0)); vals.push_back(mk(~0ull)); for (int i = 0; i < nRandom; i++) vals.push_back(mk(vrng.next())); }

		bool dflt = hasDefault(p.stmts);   // Node_Default cannot be simulated before DefaultValueResolution (postprocess)
		std::vector<std::vector<std::string>> pre(vals.size()), post(vals.size()), preI(vals.size()), postI(vals.size()), preO(vals.size()), postO(vals.size());
		bool postFailed = false;
		for (int pass = 0; pass < 2; pass++) {
			if (pass == 1) {
				// an exception thrown by postprocess() is reported as such (`postcrash`); the driver counts it as an observation (OBS), not as a C05
				// verdict (known cause: a dynamic index that the optimiser specialises to a constant beyond the multiplexer's inputs)
				try { design.postprocess(); }
				catch (const std::exception &e) { std::string w = e.what(); o << "postcrash " << w.substr(0, w.find('\n')) << "\n"; postFailed = true; break; }
			}
			if (pass == 0 && dflt) continue;
			vh::Sim sim(design.getCircuit());
			for (size_t k = 0; k < vals.size(); k++) {
				for (size_t i = 0; i < inPins.size(); i++) sim.set(inPins[i], vals[k][i]);
				sim.eval();
				auto &dst = pass ? post[k] : pre[k];
				for (auto *op : outPins) dst.push_back(sim.getPin(op));
				auto &dstI = pass ? postI[k] : preI[k];
				for (auto *op : outPinsI) dstI.push_back(sim.getPin(op));
				auto &dstO = pass ? postO[k] : preO[k];
				for (auto *op : outPinsO) dstO.push_back(sim.getPin(op));
			}
		}
		o << "nout " << outPins.size() << "\n";
		for (size_t k = 0; k < vals.size(); k++) {
			o << "v";
			for (auto &s : vals[k]) o << ' ' << s;
			o << " |";
			if (dflt) o << " -"; else { for (auto &s : pre[k]) o << ' ' << s; if (!outPinsI.empty() || !outPinsO.empty()) { o << " ;"; for (auto &s : preI[k]) o << ' ' << s; } if (!outPinsO.empty()) { o << " ;"; for (auto &s : preO[k]) o << ' ' << s; } }
			o << " |";
			if (postFailed) o << " -"; else { for (auto &s : post[k]) o << ' ' << s; if (!outPinsI.empty() || !outPinsO.empty()) { o << " ;"; for (auto &s : postI[k]) o << ' ' << s; } if (!outPinsO.empty()) { o << " ;"; for (auto &s : postO[k]) o << ' ' << s; } }
			o << '\n';
		}
	} catch (const std::exception &e) {
		std::string what = e.what();
		o << "crash " << what.substr(0, what.find('\n')) << "\n";
	}
	o << "end\n";
}

int main(int argc, char **argv) {
	std::ios::sync_with_stdio(false);
	std::ostream &o = std::cout;
	if (argc >= 3 && std::string(argv[1]) == "replay") {
		std::ifstream in(argv[2]); std::string line;
		int exhBits = (int)vh::argU64(argc, argv, 3, 10);
		o << "# prop=C05 replay\n";
		while (std::getline(in, line)) {
			Tok tk = tokenize(line);
			if (tk.next() != "case") continue;
			std::string id = tk.next();
			Program p; while (tk.i < tk.t.size()) { std::string m = tk.next(); if (m == "macros") p.useMacros = true; if (m == "alias") p.aliasPattern = true; if (m == "intlit") p.intPattern = true; if (m == "enable") p.enPattern = true; if (m == "chains") p.chainPattern = true; if (m == "malformed") p.malformed = true; }
			std::getline(in, line); Tok t2 = tokenize(line); t2.next(); while (t2.i < t2.t.size()) p.ins.push_back(parseTy(t2.next()));
			p.stmts = parseStmts(in);
			Rng vr(12345);
			runCase(o, id, p, vr, exhBits, 192);
		}
		return 0;
	}
	uint64_t seed = vh::argU64(argc, argv, 1, 1);
	uint64_t ncases = vh::argU64(argc, argv, 2, 100);
	int maxStmts = (int)vh::argU64(argc, argv, 3, 12);
	int maxDepth = (int)vh::argU64(argc, argv, 4, 4);
	int exhBits = (int)vh::argU64(argc, argv, 5, 10);
	int nRandom = (int)vh::argU64(argc, argv, 6, 192);
	o << "# prop=C05 seed=" << seed << " ncases=" << ncases << " maxStmts=" << maxStmts << " maxDepth=" << maxDepth << "\n";
	Rng master(Rng(seed).next() ^ ((uint64_t)maxStmts * 1315423911ull) ^ ((uint64_t)maxDepth << 40));
	for (uint64_t c = 0; c < ncases; c++) {
		Rng rng = master.fork();
		bool malformed = rng.chance(1, 40);
		Program p = genProgram(rng, maxStmts, maxDepth, malformed);
		Rng vr = rng.fork();
		runCase(o, std::to_string(c), p, vr, exhBits, nRandom);
	}
	return 0;
}
