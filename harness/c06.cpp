// C06 harness: generated datapaths with pipeline hints (pipestage / PipeBalanceGroup / movable registers / negative registers /
// memory read-port registers), each built three times from one printable recipe:
//   H  the design with hints, post-processed (retiming resolved by the real gatery code)
//   T  the reference twin: the same design without hints, with N explicit registers (group reset value, group stall condition)
//      on every group input, N = PipeBalanceGroup::getNumPipeBalanceGroupStages() read from H after post-processing
//   L  (class autonomous only) the twin in which the autonomous state is additionally delayed where it meets grouped data
// All are simulated with the ReferenceSimulator on the same stimulus; per-cycle outputs and a structural dump of the
// post-processed register graphs are printed. lean/Driver/C06.lean compares (PROPFAIL) and recomputes `latency` (DIFF).
// Usage: c06 <seed> <ncases> <maxSteps> [classMask] [onlyCase]
#include <gatery/pch.h>
#include <gatery/frontend.h>
#include <gatery/hlim/coreNodes/Node_Register.h>
#include <gatery/hlim/coreNodes/Node_Pin.h>
#include <gatery/hlim/coreNodes/Node_Signal.h>
#include <gatery/hlim/supportNodes/Node_MemPort.h>
#include <gatery/hlim/supportNodes/Node_Memory.h>
#include "common.h"
#include "simhelp.h"
#include "designgen.h"
#include <iostream>
#include <map>
#include <set>

using namespace gtry;
using vh::Rng;

namespace {

const char *CLASSES[] = {"stateless", "multigroup", "feedforward", "autonomous", "movable", "negreg", "memory", "enablelogic", "resetedge"};
constexpr size_t NCLASSES = 9;

struct InPin { size_t w = 0; bool stall = false; };
struct Member { int pin; std::string rst; };
struct Group { std::vector<Member> mem; };
struct Step {
	std::string kind; size_t w = 0; int a = -1, b = -1, c = -1; uint64_t k = 0; std::string rst; int g = -1, m = -1; int fl = 0;
	// analysis
	unsigned dep = 0;      // groups this value depends on
	bool autonomous = false; // raw counter output
	bool taint = false;    // depends on an autonomous counter
	size_t ffd = 0, ureg = 0; // max feed-forward / user registers on a path
	size_t h = 0;          // max number of hints on a path from here to an output
	bool live = false;
	bool rk = false; uint64_t rv = 0; // value when all inputs show their reset values (if known)
};
struct Recipe {
	std::string cls, reset, rmix;
	std::vector<InPin> ins; std::vector<int> enPins; std::vector<Group> groups; std::vector<Step> steps; std::vector<int> outs;
	size_t ncyc = 28;
	bool xdata = false;
	bool edge0Low = false; // stimulus keeps every stall input low in cycle 0 (no register samples on the reset edge)
	// memory class
	// memory class: 1-2 memories (read latency 1), each read port followed by logic and 1-2 registers marked allowRetimingBackward
	// with reset value x enable in all combinations; the memory detector retimes them backward into the read port
	struct MemReg { int logic = 0; uint64_t k = 0; std::string rst; int en = -1, en2 = -1; /* indices into enPins or -1: enable = en & en2 (nested ENIF) */ };
	// latency: required read latency (1..2; with 2 every output has two movable registers in series). mayReject: the registers behind the read port
	// do not all have the same enable (nested / different): the library may refuse such a design (DesignError) = rejected, not judged; an accepted
	// design must equal the design as written in every cycle.
	struct MemDesc { bool fullWrite = true; size_t latency = 1; bool mayReject = false; std::vector<MemReg> regs; };
	size_t memAw = 3, memW = 6; std::vector<MemDesc> mems;
};

std::string bitsOf(uint64_t v, size_t w) { std::string s; for (size_t i = std::max<size_t>(w, 1); i-- > 0;) s.push_back(((v >> i) & 1) ? '1' : '0'); return s; }
uint64_t valOf(const std::string &s) { uint64_t v = 0; for (char c : s) v = (v << 1) | (c == '1'); return v; }
uint64_t maskOf(size_t w) { return w == 0 ? 1 : ((w >= 64) ? ~0ull : ((1ull << w) - 1)); }

// ---------------------------------------------------------------------------------------------------------------- generator

void analyseRecipe(Recipe &r);

struct Gen {
	Rng &rng; Recipe r; size_t maxSteps;
	std::vector<int> bits, vecs, cnts;
	std::vector<int> tbits, tvecs; // class autonomous: values that depend on a counter are kept apart (see taintedStep)
	Gen(Rng &rng, size_t maxSteps) : rng(rng), maxSteps(maxSteps) {}

	size_t w(int i) const { return r.steps[i].w; }
	int add(Step s) {
		// analysis attributes
		auto arg = [&](int i) -> const Step* { return i >= 0 ? &r.steps[i] : nullptr; };
		for (int x : {s.a, s.b, s.c}) if (auto *p = arg(x)) { s.dep |= p->dep; s.ffd = std::max(s.ffd, p->ffd); s.ureg = std::max(s.ureg, p->ureg); }
		if (s.kind == "ffreg") { s.ffd++; s.ureg++; }
		if (s.kind == "mreg" || s.kind == "hreg") s.ureg++;
		if (s.kind == "cnt") s.autonomous = true;
		for (int x : {s.a, s.b, s.c}) if (auto *p = arg(x)) if (p->autonomous || p->taint) s.taint = true;
		evalReset(s);
		r.steps.push_back(s); int i = (int) r.steps.size() - 1;
		if (s.kind == "cnt") cnts.push_back(i);
		else if (s.taint && r.cls == "autonomous") (s.w == 0 ? tbits : tvecs).push_back(i);
		else if (s.kind != "pin") (s.w == 0 ? bits : vecs).push_back(i);
		return i;
	}
	void evalReset(Step &s) {
		auto K = [&](int i) { return i < 0 || r.steps[i].rk; };
		auto V = [&](int i) { return r.steps[i].rv; };
		const std::string &k = s.kind; uint64_t m = maskOf(s.w);
		s.rk = false;
		if (k == "gin") { const auto &mm = r.groups[s.g].mem[s.m]; if (!mm.rst.empty()) { s.rk = true; s.rv = valOf(mm.rst); } return; }
		if (k == "memrw") { if (K(s.a)) { s.rk = true; s.rv = 0; } return; } // memory powers on with zeros
		if (k == "ffreg" || k == "mreg" || k == "cnt" || k == "negreg" || k == "hreg") {
			if (k == "negreg") { if (K(s.a)) { s.rk = true; s.rv = V(s.a); } return; }
			if (!s.rst.empty()) { s.rk = true; s.rv = valOf(s.rst); } return;
		}
		if (k == "pin") return;
		if (!K(s.a) || !K(s.b) || !K(s.c)) return;
		s.rk = true;
		if (k == "add") s.rv = (V(s.a) + V(s.b)) & m; else if (k == "sub") s.rv = (V(s.a) - V(s.b)) & m;
		else if (k == "and" || k == "band") s.rv = V(s.a) & V(s.b); else if (k == "or" || k == "bor") s.rv = V(s.a) | V(s.b);
		else if (k == "xor" || k == "bxor") s.rv = V(s.a) ^ V(s.b); else if (k == "not" || k == "bnot") s.rv = ~V(s.a) & m;
		else if (k == "addc") s.rv = (V(s.a) + s.k) & m; else if (k == "xorc") s.rv = (V(s.a) ^ s.k) & m;
		else if (k == "eq") s.rv = V(s.a) == V(s.b); else if (k == "bit") s.rv = (V(s.a) >> s.k) & 1;
		else if (k == "eqc") s.rv = V(s.a) == s.k;
		else if (k == "mux") s.rv = V(s.c) ? V(s.b) : V(s.a);
		else if (k == "cat") s.rv = (V(s.a) << w(s.b)) | V(s.b);    // a = high part
		else if (k == "slice") s.rv = (V(s.a) >> s.k) & m; else if (k == "zext") s.rv = V(s.a);
		else if (k == "stage") s.rv = V(s.a);
		else s.rk = false;
	}
	int pickFrom(const std::vector<int> &v) { return v[v.size() - 1 - std::min<size_t>(rng.below(v.size()), rng.below(v.size()))]; }
	int pickVec() { return pickFrom(vecs); }
	int pickBit() { return pickFrom(bits); }
	std::string rndBits(size_t width) { std::string s; unsigned mode = (unsigned) rng.below(4); for (size_t i = 0; i < std::max<size_t>(1, width); i++) s.push_back(mode == 0 ? '0' : mode == 1 ? '1' : (rng.chance(1, 2) ? '1' : '0')); return s; }
	int vecOfWidth(size_t width) {
		std::vector<int> c; for (int v : vecs) if (w(v) == width) c.push_back(v);
		if (!c.empty() && rng.chance(4, 5)) return c[rng.below(c.size())];
		int src = pickVec();
		if (w(src) == width) return src;
		if (w(src) > width) { Step s{.kind = "slice", .w = width, .a = src}; s.k = rng.below(w(src) - width + 1); return add(s); }
		Step s{.kind = "zext", .w = width, .a = src}; return add(s);
	}
	int someBit() {
		if (!bits.empty() && rng.chance(2, 3)) return pickBit();
		if (vecs.empty()) return pickBit();
		int v = pickVec();
		if (rng.chance(1, 2)) { Step s{.kind = "bit", .w = 0, .a = v}; s.k = rng.below(w(v)); return add(s); }
		Step s{.kind = "eq", .w = 0, .a = v, .b = vecOfWidth(w(v))}; return add(s);
	}
	// a bit usable as stricter register enable: the library analyses enables as conjunctions of (negated) terms and rejects contradictions
	// (c & !c: a register that is never enabled), so no AND / NOT structure here: every such bit is one opaque term
	int condBit() {
		for (int t = 0; t < 6; t++) { int b = someBit(); const std::string &k = r.steps[b].kind; if (k != "band" && k != "bnot") return b; }
		if (!vecs.empty()) { int v = pickVec(); Step s{.kind = "bit", .w = 0, .a = v}; s.k = rng.below(w(v)); return add(s); }
		int b = pickBit(); return add(Step{.kind = "bxor", .w = 0, .a = b, .b = pickBit()});
	}
	bool grouped(int i) const { return r.steps[i].dep != 0; }

	void combStep() {
		unsigned c = (unsigned) rng.below(100);
		if (vecs.empty()) c = 70 + c % 30;
		if (c < 30) { int a = pickVec(); int b = vecOfWidth(w(a)); static const char *ops[] = {"add", "sub", "and", "or", "xor"}; add(Step{.kind = ops[rng.below(5)], .w = w(a), .a = a, .b = b}); }
		else if (c < 38) { int a = pickVec(); Step s{.kind = rng.chance(1, 2) ? "addc" : "xorc", .w = w(a), .a = a}; s.k = rng.next() & maskOf(w(a)); add(s); }
		else if (c < 43) { int a = pickVec(); add(Step{.kind = "not", .w = w(a), .a = a}); }
		else if (c < 53) { int cnd = someBit(); if (rng.chance(1, 4) && !bits.empty()) { add(Step{.kind = "mux", .w = 0, .a = pickBit(), .b = pickBit(), .c = cnd}); } else if (!vecs.empty()) { int a = pickVec(); add(Step{.kind = "mux", .w = w(a), .a = a, .b = vecOfWidth(w(a)), .c = cnd}); } }
		else if (c < 60) { int a = pickVec(), b = pickVec(); if (w(a) + w(b) <= 12) add(Step{.kind = "cat", .w = w(a) + w(b), .a = a, .b = b}); }
		else if (c < 66) { int a = pickVec(); size_t nw = 1 + rng.below(w(a)); Step s{.kind = "slice", .w = nw, .a = a}; s.k = rng.below(w(a) - nw + 1); add(s); }
		else if (c < 70) { int a = pickVec(); if (w(a) < 10) add(Step{.kind = "zext", .w = w(a) + 1 + rng.below(2), .a = a}); }
		else if (c < 78) { int a = pickVec(); add(Step{.kind = "eq", .w = 0, .a = a, .b = vecOfWidth(w(a))}); }
		else if (c < 84) { int a = pickVec(); Step s{.kind = "bit", .w = 0, .a = a}; s.k = rng.below(w(a)); add(s); }
		else if (!bits.empty()) { if (rng.chance(1, 4)) add(Step{.kind = "bnot", .w = 0, .a = pickBit()}); else { static const char *ops[] = {"band", "bor", "bxor"}; add(Step{.kind = ops[rng.below(3)], .w = 0, .a = pickBit(), .b = pickBit()}); } }
	}

	// Class autonomous: the lag twin delays the counter by the number of hints downstream of the step that combines it with grouped data
	// (Step.h). That derivation needs every structural path behind the combining step to be a real dependence. The optimiser removes
	// dependences that are only structural (mux with equal data inputs, nested muxes with one selector, x ^ x ...), so values that depend on
	// a counter are only continued by unary operations, by binary operations with a counter-free operand and by pipestages: never through
	// multiplexers and never combined with each other.
	void taintedStep(size_t &nHints) {
		bool useBit = tvecs.empty() || (!tbits.empty() && rng.chance(1, 4));
		int t = pickFrom(useBit ? tbits : tvecs);
		unsigned c = (unsigned) rng.below(100);
		if (c < 30) { add(Step{.kind = "stage", .w = w(t), .a = t}); nHints++; return; }
		if (useBit) {
			if (c < 50 || bits.empty()) add(Step{.kind = "bnot", .w = 0, .a = t});
			else { static const char *ops[] = {"band", "bor", "bxor"}; add(Step{.kind = ops[rng.below(3)], .w = 0, .a = t, .b = pickBit()}); }
			return;
		}
		if (c < 40) { Step s{.kind = rng.chance(1, 2) ? "addc" : "xorc", .w = w(t), .a = t}; s.k = rng.next() & maskOf(w(t)); add(s); }
		else if (c < 46) add(Step{.kind = "not", .w = w(t), .a = t});
		else if (c < 52) { size_t nw = 1 + rng.below(w(t)); Step s{.kind = "slice", .w = nw, .a = t}; s.k = rng.below(w(t) - nw + 1); add(s); }
		else if (c < 56) { if (w(t) < 10) add(Step{.kind = "zext", .w = w(t) + 1, .a = t}); }
		else if (c < 62) { Step s{.kind = "bit", .w = 0, .a = t}; s.k = rng.below(w(t)); add(s); }
		else if (vecs.empty()) add(Step{.kind = "not", .w = w(t), .a = t});
		else if (c < 88) { int u = vecOfWidth(w(t)); static const char *ops[] = {"add", "sub", "and", "or", "xor"}; bool sw = rng.chance(1, 2); const char *op = ops[rng.below(5)];
			add(Step{.kind = op, .w = w(t), .a = sw ? u : t, .b = sw ? t : u}); }
		else if (c < 94) { int u = vecOfWidth(w(t)); add(Step{.kind = "eq", .w = 0, .a = t, .b = u}); }
		else { int u = pickVec(); if (w(t) + w(u) <= 12) add(Step{.kind = "cat", .w = w(t) + w(u), .a = t, .b = u}); }
	}

	int anyGroupedValue() {
		if (r.cls == "autonomous" && (!tvecs.empty() || !tbits.empty()) && rng.chance(1, 2)) return pickFrom(tvecs.empty() || (!tbits.empty() && rng.chance(1, 4)) ? tbits : tvecs);
		for (int tries = 0; tries < 20; tries++) {
			int v = (vecs.empty() || (!bits.empty() && rng.chance(1, 4))) ? pickBit() : pickVec();
			if (grouped(v)) return v;
		}
		for (size_t i = r.steps.size(); i-- > 0;) if (grouped((int) i) && r.steps[i].kind != "pin" && r.steps[i].kind != "cnt") return (int) i;
		return -1;
	}

	// ---- class enablelogic: anchored registers / memory write ports inside the forward-retimed area whose ENABLE is computed from grouped inputs
	// (forwardPlanningHandleEnablePort: the enable is split into the stall part and a residual part the planner retimes into).
	// Such a register is a hold state that depends on the grouped inputs. The retiming keeps its reset value, so the hinted design equals the
	// twin from cycle 0 iff the state is a fixed point of one step under the reset inputs (Lean: retime_state_neutral_reset): either the enable
	// evaluates to 0 on the reset values (the idiom `valid = grp(valid, '0')`) or the register's reset value is what it would load.
	int atomBit(int notStep = -1) { // an opaque grouped bit: grouped Bit input, bit of a grouped vector, comparison of a grouped vector with a constant
		for (int t = 0; t < 8; t++) {
			unsigned m = (unsigned) rng.below(3);
			if (m == 0) { std::vector<int> c; for (size_t i = 0; i < r.steps.size(); i++) if (r.steps[i].kind == "gin" && r.steps[i].w == 0 && r.steps[i].rk && (int) i != notStep) c.push_back((int) i); if (!c.empty()) return c[rng.below(c.size())]; continue; }
			if (vecs.empty()) continue;
			int v = -1; for (int q = 0; q < 6 && v < 0; q++) { int x = pickVec(); if (grouped(x) && r.steps[x].rk) v = x; }
			if (v < 0) continue;
			if (m == 1) { Step s{.kind = "bit", .w = 0, .a = v}; s.k = rng.below(w(v)); return add(s); }
			Step s{.kind = "eqc", .w = 0, .a = v}; s.k = rng.chance(1, 3) ? r.steps[v].rv : (rng.next() & maskOf(std::min<size_t>(w(v), 2))); return add(s);
		}
		return -1;
	}
	int enableExpr() {
		int a = atomBit(); if (a < 0) return -1;
		unsigned m = (unsigned) rng.below(6);
		if (m <= 1) return a;                                   // (a) grouped input directly / (b) compare with constant
		if (m == 2) return add(Step{.kind = "bnot", .w = 0, .a = a});   // NOT
		int b = atomBit(a); if (b < 0 || b == a) return a;
		if (r.groups.size() == 2) for (int t = 0; t < 4 && r.steps[b].dep == r.steps[a].dep; t++) { int b2 = atomBit(a); if (b2 >= 0 && b2 != a) b = b2; } // (c) mix the two groups
		if (m == 3) return add(Step{.kind = "band", .w = 0, .a = a, .b = b});    // AND of two
		if (m == 4) { int nb = add(Step{.kind = "bnot", .w = 0, .a = b}); return add(Step{.kind = "band", .w = 0, .a = a, .b = nb}); }
		return add(Step{.kind = "bor", .w = 0, .a = a, .b = b});    // one opaque term
	}
	void holdPattern(size_t &nHints) {
		if (vecs.empty()) return;
		int v = -1; for (int t = 0; t < 10 && v < 0; t++) { int x = pickVec(); if (grouped(x) && r.steps[x].rk) v = x; }
		if (v < 0) return;
		int e = enableExpr(); if (e < 0 || !r.steps[e].rk) return;
		int state;
		if (rng.chance(1, 4) && w(v) <= 4 && r.reset == "none") {
			// memory inside the area: asynchronous read, write port enabled by the grouped logic; fixed point = no write under the reset inputs.
			// (clock without reset only: with a synchronous reset the write port of the hinted design writes what is presented during reset
			//  while the twin's input registers are held in reset - the memory variant of the known reset-edge-sampling behaviour.)
			if (r.steps[e].rv != 0) return;
			int d = vecOfWidth(w(v)); if (!r.steps[d].rk) return;
			Step m{.kind = "memrw", .w = w(v), .a = v, .b = d, .c = e}; m.fl = (int) rng.below(2); state = add(m);
		} else {
			Step h{.kind = "hreg", .w = w(v), .a = v, .c = e};
			h.rst = r.steps[e].rv ? bitsOf(r.steps[v].rv, h.w) : rndBits(h.w);
			state = add(h);
		}
		int b = vecOfWidth(w(v));
		static const char *ops[] = {"add", "xor", "sub", "or"};
		int x = add(Step{.kind = ops[rng.below(4)], .w = w(v), .a = state, .b = b});
		size_t nst = 1 + rng.below(3);
		for (size_t i = 0; i < nst; i++) {
			x = add(Step{.kind = "stage", .w = w(v), .a = x}); nHints++;
			if (i + 1 < nst && rng.chance(1, 2)) { Step f{.kind = "addc", .w = w(v), .a = x}; f.k = rng.next() & maskOf(w(v)); x = add(f); }
		}
	}

	// pattern seeds: shapes the planner has special code for
	void pattern(bool noGroup, size_t &nHints) {
		const std::string &cls = r.cls;
		int v = -1; for (int t = 0; t < 10 && v < 0; t++) { int x = pickVec(); if (grouped(x)) v = x; }
		if (v < 0) return;
		unsigned p = (unsigned) rng.below(4);
		if (cls == "movable" && !noGroup && rng.chance(1, 2)) p = 2;
		if (noGroup && nHints >= 2) return;
		if (p == 0) { // re-convergent fan-out: hint on one branch only
			Step f{.kind = rng.chance(1, 2) ? "addc" : "xorc", .w = w(v), .a = v}; f.k = rng.next() & maskOf(w(v)); int fi = add(f);
			int si = add(Step{.kind = "stage", .w = w(v), .a = fi}); nHints++;
			static const char *ops[] = {"add", "sub", "xor", "and", "or"};
			add(Step{.kind = ops[rng.below(5)], .w = w(v), .a = si, .b = v});
		} else if (p == 1 && !noGroup) { // hints in series with logic in between
			int si = add(Step{.kind = "stage", .w = w(v), .a = v}); nHints++;
			Step f{.kind = "addc", .w = w(v), .a = si}; f.k = rng.next() & maskOf(w(v)); int fi = add(f);
			int b = vecOfWidth(w(v));
			int x = add(Step{.kind = "xor", .w = w(v), .a = fi, .b = b});
			add(Step{.kind = "stage", .w = w(v), .a = x}); nHints++;
		} else if (p == 2 && cls == "movable" && !noGroup) { // movable registers with different (stricter) enables feeding one hinted operation: enable splitting + holding circuit
			int cnd = condBit();
			Step m1{.kind = "mreg", .w = w(v), .a = v, .c = cnd}; if (r.rmix != "none" && rng.chance(2, 3)) m1.rst = rndBits(m1.w); m1.fl = 1 | (int) (rng.below(2) << 1); int a1 = add(m1);
			int b = vecOfWidth(w(v));
			if (rng.chance(1, 2)) { Step m2{.kind = "mreg", .w = w(v), .a = b}; if (r.rmix != "none" && rng.chance(2, 3)) m2.rst = rndBits(m2.w); m2.fl = 1; if (rng.chance(1, 3)) m2.c = condBit(); b = add(m2); }
			static const char *ops[] = {"add", "xor", "or"};
			int x = add(Step{.kind = ops[rng.below(3)], .w = w(v), .a = a1, .b = b});
			add(Step{.kind = "stage", .w = w(v), .a = x}); nHints++;
		} else if (cls == "feedforward") { // hint behind an anchored register and in front of one
			Step f{.kind = "ffreg", .w = w(v), .a = v}; if (rng.chance(1, 2)) f.rst = rndBits(f.w); int fi = add(f);
			int b = vecOfWidth(w(v));
			int x = add(Step{.kind = "add", .w = w(v), .a = fi, .b = b});
			int si = add(Step{.kind = "stage", .w = w(v), .a = x}); nHints++;
			if (rng.chance(1, 2)) { Step g{.kind = "ffreg", .w = w(v), .a = si}; if (rng.chance(1, 2)) g.rst = rndBits(g.w); add(g); }
		} else { // a value used both hinted and unhinted by two outputs / consumers
			int si = add(Step{.kind = "stage", .w = w(v), .a = v}); nHints++;
			add(Step{.kind = "not", .w = w(v), .a = si});
		}
	}

	Recipe generate(size_t clsIdx) {
		r.cls = CLASSES[clsIdx];
		const std::string &cls = r.cls;
		r.reset = rng.chance(1, 2) ? "sync" : "none";
		{ unsigned m = (unsigned) rng.below(10); r.rmix = m < 4 ? "all" : (m < 7 ? "none" : "mixed"); }
		if (cls == "resetedge") { r.reset = rng.chance(3, 4) ? "sync" : "none"; unsigned m = (unsigned) rng.below(4); r.rmix = m < 2 ? "mixed" : (m == 2 ? "none" : "all"); }
		if (cls == "enablelogic") r.rmix = "all"; // hold registers need defined enables and the state must be a fixed point under the reset inputs (see holdPattern)
		if (cls == "negreg") r.rmix = "all"; // the register compensating a negative register needs the reset value of the signal it reproduces: known only if all inputs have one
		r.xdata = false; // data inputs are always defined: with undefined inputs the optimiser (C01) legitimately changes definedness (x == x -> 1) differently in the two designs
		r.ncyc = 20 + rng.below(16);
		size_t nData = 1 + rng.below(4), nStall = rng.chance(1, 4) ? 0 : (rng.chance(2, 3) ? 1 : 2);
		if (cls == "enablelogic") { nData = 2 + rng.below(3); if (rng.chance(1, 2)) nStall = 0; } // half of the designs have NO enclosing stall scope
		for (size_t i = 0; i < nData; i++) r.ins.push_back(InPin{.w = (i > 0 && rng.chance(1, 4)) ? 0 : 1 + rng.below(8), .stall = false});
		if (cls == "enablelogic") { r.ins[1].w = rng.chance(1, 2) ? 0 : 2; } // a grouped "valid" bit or a 2 bit "tag" that controls enables
		for (size_t i = 0; i < nStall; i++) { r.ins.push_back(InPin{.w = 0, .stall = true}); r.enPins.push_back((int) r.ins.size() - 1); }
		bool noGroup = (cls == "movable") && rng.chance(1, 3);
		size_t nGroups = noGroup ? 0 : ((cls == "multigroup" || (cls == "enablelogic" && rng.chance(1, 4))) ? 2 : 1);
		r.groups.resize(nGroups);
		std::vector<int> entryPins; // movable without group: raw pins
		for (size_t i = 0; i < nData; i++) {
			if (noGroup) { entryPins.push_back((int) i); continue; }
			size_t g = (nGroups == 2) ? (i == 0 ? 0 : (i == 1 ? 1 : rng.below(2))) : 0;
			bool hasRst = r.rmix == "all" || (r.rmix == "mixed" && rng.chance(1, 2));
			r.groups[g].mem.push_back(Member{.pin = (int) i, .rst = hasRst ? rndBits(r.ins[i].w) : std::string()});
		}
		if (nGroups == 2 && r.groups[1].mem.empty()) { r.groups.pop_back(); nGroups = 1; }
		for (size_t g = 0; g < nGroups; g++) for (size_t m = 0; m < r.groups[g].mem.size(); m++) {
			Step s{.kind = "gin", .w = r.ins[r.groups[g].mem[m].pin].w, .g = (int) g, .m = (int) m}; s.dep = 1u << g; add(s);
		}
		std::vector<int> entryStepOfPin;
		if (noGroup) {
			// every data pin enters through a chain of movable registers; chain length fixed after the steps are known (see below)
			for (int p : entryPins) { Step s{.kind = "pin", .w = r.ins[p].w, .k = (uint64_t) p}; int ps = add(s);
				Step m{.kind = "mreg", .w = r.ins[p].w, .a = ps}; m.dep = 1; if (r.rmix != "none" && (r.rmix == "all" || rng.chance(1, 2))) m.rst = rndBits(m.w); m.fl = 1 | 4; entryStepOfPin.push_back(add(m)); r.steps.back().dep = 1; }
		}
		size_t nSteps = 2 + rng.below(maxSteps);
		size_t nHints = 0;
		for (size_t n = 0; n < nSteps; n++) {
			if (cls == "resetedge") { combStep(); continue; }
			unsigned c = (unsigned) rng.below(100);
			if (c < 22) { // pipestage
				int v = anyGroupedValue(); if (v < 0) continue;
				if (noGroup && nHints >= 2) continue;
				add(Step{.kind = "stage", .w = w(v), .a = v}); nHints++;
				if (rng.chance(1, 5) && !noGroup) { add(Step{.kind = "stage", .w = w(v), .a = (int) r.steps.size() - 1}); nHints++; } // hints in series
			}
			else if (c < 34 && cls == "feedforward") { int v = anyGroupedValue(); if (v < 0) continue; Step s{.kind = "ffreg", .w = w(v), .a = v}; if (rng.chance(1, 2)) s.rst = rndBits(s.w); add(s); }
			else if (c < 34 && cls == "autonomous" && !vecs.empty()) { // counter + one use site mixing it with grouped data
				int v = -1; for (int t = 0; t < 10 && v < 0; t++) { int x = pickVec(); if (grouped(x)) v = x; }
				if (v < 0) continue;
				Step cs{.kind = "cnt", .w = w(v), .rst = rndBits(w(v))}; cs.k = (rng.next() | 1) & maskOf(w(v)); cs.fl = (int) rng.below(2); int ci = add(cs);
				static const char *ops[] = {"add", "sub", "xor"};
				add(Step{.kind = ops[rng.below(3)], .w = w(v), .a = v, .b = ci});
			}
			else if (c < 34 && cls == "movable" && !noGroup) { int v = anyGroupedValue(); if (v < 0) continue; Step s{.kind = "mreg", .w = w(v), .a = v};
				if (r.rmix != "none" && rng.chance(2, 3)) s.rst = rndBits(s.w);
				s.fl = 1 + 2 * (int) rng.below(2); // 1 forward, 3 forward + backward (a register that may not move forward is a feed-forward register: class feedforward)
				if (rng.chance(1, 3)) s.c = condBit(); // stricter enable: en & cnd  -> enable splitting / holding circuit
				add(s); }
			else if (c < 40 && cls == "enablelogic") holdPattern(nHints);
			else if (c < 52 && cls == "autonomous" && (!tvecs.empty() || !tbits.empty())) taintedStep(nHints);
			else if (c < 34 && cls == "negreg") { int v = anyGroupedValue(); if (v < 0) continue;
				const Step &sv = r.steps[v];
				bool wantRst = r.rmix == "all";
				if (wantRst && !sv.rk) continue;
				Step s{.kind = "negreg", .w = w(v), .a = v}; if (wantRst) s.rst = bitsOf(sv.rv, s.w); s.fl = (int) rng.below(2); add(s); nHints++; }
			else if (c < (cls == "movable" ? 50u : 42u) && !vecs.empty()) pattern(noGroup, nHints);
			else combStep();
		}
		// class resetedge: one output = combinational function of the group inputs followed by 1-3 pipestages in series (bitwise inversions /
		// constant xors in between). The registers can only end up at the hints, so their reset values, and with them the behaviour after a
		// synchronous reset, are predictable from the recipe and the reference twin's power-on value (design P in runCase).
		std::set<int> outs;
		if (cls == "resetedge") {
			int v = anyGroupedValue();
			size_t k = 1 + rng.below(3);
			for (size_t i = 0; i < k && v >= 0; i++) {
				if (rng.chance(1, 2)) { if (w(v) == 0) v = add(Step{.kind = "bnot", .w = 0, .a = v}); else if (rng.chance(1, 2)) v = add(Step{.kind = "not", .w = w(v), .a = v}); else { Step x{.kind = "xorc", .w = w(v), .a = v}; x.k = rng.next() & maskOf(w(v)); v = add(x); } }
				v = add(Step{.kind = "stage", .w = w(v), .a = v}); nHints++;
			}
			if (v >= 0) outs.insert(v);
		}
		if (nHints == 0) { int v = anyGroupedValue(); if (v >= 0) { add(Step{.kind = "stage", .w = w(v), .a = v}); nHints++; } }
		// outputs: last value plus some others, grouped values preferred
		if (cls != "resetedge")
		for (size_t i = r.steps.size(); i-- > 0;) if (r.steps[i].kind != "pin" && r.steps[i].kind != "cnt" && !(noGroup && r.steps[i].dep == 0)) { outs.insert((int) i); break; }
		size_t extra = cls == "resetedge" ? 0 : rng.below(3);
		for (size_t i = 0; i < extra; i++) { int v = anyGroupedValue(); if (v >= 0) outs.insert(v); }
		// every hint should matter: make the last stage/negreg an output if it is not used
		if (cls != "resetedge")
		for (size_t i = r.steps.size(); i-- > 0;) if (r.steps[i].kind == "stage" || r.steps[i].kind == "negreg") { bool used = false; for (size_t j = i + 1; j < r.steps.size(); j++) if (r.steps[j].a == (int) i || r.steps[j].b == (int) i || r.steps[j].c == (int) i) used = true; if (!used) outs.insert((int) i); break; }
		r.outs.assign(outs.begin(), outs.end());
		analyse();
		// A register whose enable depends on data is a hold state. The property covers regions that are stateless, whose state does not
		// depend on the grouped inputs, or that contain feed-forward registers; so a movable register with a stricter enable must be
		// *pulled* by at most one hint and never be retimed over: drop the stricter enable where two hints follow.
		// Likewise a hold register must not sit behind feed-forward registers (there the design equals its twin only from the fill cycle and a
		// hold register would keep a pre-fill value for an unbounded time).
		for (bool changed = true; changed;) { changed = false;
			for (auto &s : r.steps) if (s.kind == "mreg" && s.c >= 0 && (s.h > 1 || r.steps[s.a].ffd > 0 || r.steps[s.c].ffd > 0)) { s.c = -1; changed = true; }
			if (changed) analyse(); }
		// A hold register (movable register with a data dependent enable) needs a defined enable in every cycle: the simulator turns a register
		// with an undefined enable completely undefined, the holding circuit's multiplexer only the bits that differ (four-state pessimism, not a
		// functional difference). So designs with hold registers give every register and group input a reset value.
		{ bool hold = false; for (auto &s : r.steps) if (s.kind == "mreg" && s.c >= 0) hold = true;
		  if (hold) { for (auto &s : r.steps) if ((s.kind == "mreg" || s.kind == "ffreg") && s.rst.empty()) s.rst = rndBits(s.w);
		              for (auto &g : r.groups) for (auto &m : g.mem) if (m.rst.empty()) m.rst = rndBits(r.ins[m.pin].w);
		              if (r.rmix != "all") r.rmix = "all"; } }
		// Registers without reset value sample on the edge(s) under a synchronous reset, which retiming does not preserve (known finding
		// reset-edge-sampling, exercised with a concrete prediction by class resetedge). In all other classes no register samples on the reset
		// edge: the stall inputs are low in cycle 0, designs without stall input use a clock without reset. Every mismatch there is a violation.
		if (cls != "resetedge" && r.reset == "sync") {
			bool unreset = false;
			for (auto &s : r.steps) if ((s.kind == "mreg" || s.kind == "ffreg" || s.kind == "negreg") && s.rst.empty()) unreset = true;
			for (auto &g : r.groups) for (auto &m : g.mem) if (m.rst.empty()) unreset = true;
			if (unreset) { if (r.enPins.empty()) r.reset = "none"; else r.edge0Low = true; }
		}
		if (noGroup) {
			// lengthen the entry chains so that every hint finds a movable register on every path: chain length = max hints downstream (+ sometimes one spare)
			std::vector<Step> ns; std::vector<int> remap(r.steps.size(), -1);
			auto rm = [&](int x) { return x < 0 ? -1 : remap[x]; };
			for (size_t i = 0; i < r.steps.size(); i++) {
				Step s = r.steps[i]; s.a = rm(s.a); s.b = rm(s.b); s.c = rm(s.c);
				ns.push_back(s); remap[i] = (int) ns.size() - 1;
				if (s.kind == "mreg" && r.steps[i].a >= 0 && r.steps[r.steps[i].a].kind == "pin") {
					size_t need = std::max<size_t>(1, r.steps[i].h) + (rng.chance(1, 4) ? 1 : 0);
					for (size_t e = 1; e < need; e++) { Step x = ns.back(); x.a = (int) ns.size() - 1; x.ureg++; ns.push_back(x); remap[i] = (int) ns.size() - 1; }
				}
			}
			r.steps = ns; for (int &o : r.outs) o = remap[o];
			analyse();
		}
		return r;
	}

	void analyse() { analyseRecipe(r); }
};

// liveness, number of hints downstream (h), register depths. A movable register followed by two or more hints is pulled by the first
// and *retimed over* by the later ones, i.e. it then is a feed-forward register of the pipelined region (unless it is part of an
// entry chain of identical registers, fl bit 2): it counts for ffd.
void analyseRecipe(Recipe &r) {
	{
		for (auto &s : r.steps) { s.live = false; s.h = 0; }
		for (int o : r.outs) r.steps[o].live = true;
		for (size_t i = r.steps.size(); i-- > 0;) {
			Step &s = r.steps[i]; if (!s.live) continue;
			size_t hh = s.h + ((s.kind == "stage" || s.kind == "negreg") ? 1 : 0);
			for (int x : {s.a, s.b, s.c}) if (x >= 0) { r.steps[x].live = true; r.steps[x].h = std::max(r.steps[x].h, hh); }
		}
		for (auto &s : r.steps) {
			s.ffd = 0; s.ureg = 0;
			for (int x : {s.a, s.b, s.c}) if (x >= 0) { s.ffd = std::max(s.ffd, r.steps[x].ffd); s.ureg = std::max(s.ureg, r.steps[x].ureg); }
			if (s.kind == "ffreg" || s.kind == "mreg" || s.kind == "hreg") s.ureg++;
			if (s.kind == "ffreg" || (s.kind == "mreg" && s.h > 1 && !(s.fl & 4))) s.ffd++;
		}
	}
}

Recipe genMemory(Rng &rng) {
	Recipe r; r.cls = "memory"; r.reset = rng.chance(2, 3) ? "sync" : "none"; r.rmix = "none"; r.ncyc = 20 + rng.below(16);
	r.memAw = 2 + rng.below(2); r.memW = 2 + rng.below(6);
	size_t nMem = 1 + rng.below(2), nStall = rng.below(3);
	// inputs: raddr per memory, data, waddr, we, stall pins
	for (size_t m = 0; m < nMem; m++) r.ins.push_back(InPin{.w = r.memAw});
	r.ins.push_back(InPin{.w = r.memW}); r.ins.push_back(InPin{.w = r.memAw}); r.ins.push_back(InPin{.w = 0});
	for (size_t i = 0; i < nStall; i++) { r.ins.push_back(InPin{.w = 0, .stall = true}); r.enPins.push_back((int) r.ins.size() - 1); }
	for (size_t m = 0; m < nMem; m++) {
		Recipe::MemDesc d; d.fullWrite = rng.chance(2, 3);
		bool mixed = nStall > 0 && rng.chance(2, 5);            // fan-out to registers with equal / nested / different enables
		size_t nRegs = mixed ? 2 + rng.below(2) : 1 + (rng.chance(1, 3) ? 1 : 0);
		d.latency = rng.chance(1, 4) ? 2 : 1;
		int en = nStall ? (int) rng.below(nStall + 1) - 1 : -1; // default: registers behind one read port share the enable
		for (size_t i = 0; i < nRegs; i++) {
			Recipe::MemReg g; g.logic = (int) rng.below(5); g.k = rng.next() & maskOf(r.memW); g.en = en;
			if (mixed) { unsigned c = (unsigned) rng.below(nStall == 2 ? 5 : 2); // none | a | a&b | b | b&a
				g.en = c == 0 ? -1 : (c == 1 || c == 2) ? 0 : 1; g.en2 = c == 2 ? 1 : c == 4 ? 0 : -1; }
			if (rng.chance(2, 3)) g.rst = bitsOf(rng.chance(1, 4) ? 0 : rng.next() & maskOf(r.memW), r.memW);
			d.regs.push_back(g);
		}
		for (auto &g : d.regs) { auto key = [](const Recipe::MemReg &x) { int a = x.en, b = x.en2; if (b >= 0 && b < a) std::swap(a, b); if (a < 0) std::swap(a, b); return std::pair<int, int>(a, b); };
			if (key(g) != key(d.regs[0])) d.mayReject = true; }
		r.mems.push_back(d);
	}
	return r;
}

std::string toString(const Recipe &r, uint64_t k, uint64_t sub) {
	std::ostringstream o;
	o << "case " << k << " sub=" << sub << " cls=" << r.cls << " reset=" << r.reset << " rmix=" << r.rmix << " ncyc=" << r.ncyc << " xdata=" << r.xdata << " edge0low=" << r.edge0Low << " en=";
	if (r.enPins.empty()) o << '-'; for (size_t i = 0; i < r.enPins.size(); i++) o << (i ? "," : "") << r.enPins[i];
	o << '\n';
	for (size_t i = 0; i < r.ins.size(); i++) o << "in " << i << " w=" << r.ins[i].w << " stall=" << r.ins[i].stall << '\n';
	for (size_t g = 0; g < r.groups.size(); g++) { o << "grp " << g; for (auto &m : r.groups[g].mem) o << ' ' << m.pin << ':' << (m.rst.empty() ? "-" : m.rst); o << '\n'; }
	if (r.cls == "memory") { size_t j = 0;
		for (size_t m = 0; m < r.mems.size(); m++) { o << "mem " << m << " aw=" << r.memAw << " w=" << r.memW << " fullwrite=" << r.mems[m].fullWrite << " latency=" << r.mems[m].latency << " mayreject=" << r.mems[m].mayReject << '\n';
			for (auto &g : r.mems[m].regs) { o << "memreg mem=" << m << " out=" << j << " logic=" << g.logic << " k=" << g.k << " rst=" << (g.rst.empty() ? "-" : g.rst) << " en=" << (g.en < 0 ? -1 : r.enPins[g.en]) << " en2=" << (g.en2 < 0 ? -1 : r.enPins[g.en2]) << '\n';
				o << "out " << j++ << " step=0 w=" << r.memW << " dep=0 ffd=0 ureg=0\n"; } } }
	for (size_t i = 0; i < r.steps.size(); i++) { const Step &s = r.steps[i];
		o << "step " << i << ' ' << s.kind << " w=" << s.w << " a=" << s.a << " b=" << s.b << " c=" << s.c << " k=" << s.k << " rst=" << (s.rst.empty() ? "-" : s.rst)
		  << " g=" << s.g << " m=" << s.m << " fl=" << s.fl << " dep=" << s.dep << " h=" << s.h << " live=" << s.live << '\n'; }
	for (size_t j = 0; j < r.outs.size(); j++) { const Step &s = r.steps[r.outs[j]]; o << "out " << j << " step=" << r.outs[j] << " w=" << s.w << " dep=" << s.dep << " ffd=" << s.ffd << " ureg=" << s.ureg << '\n'; }
	return o.str();
}

// ---------------------------------------------------------------------------------------------------------------- builder

enum Variant { HINTED, TWIN, LAGTWIN, PRED };
using Val = std::variant<std::monostate, Bit, UInt>;

struct BuiltDesign {
	vh::Built b;
	std::vector<std::unique_ptr<PipeBalanceGroup>> groups;
	std::map<int, uint64_t> cntRegs; // step index of an autonomous counter -> id of its register node (ids are never reused, addresses are)
};

template<class T> T regOpt(const T &v, const std::string &rst, const RegisterSettings &st = {}) {
	if (rst.empty()) return reg(v, st);
	if constexpr (std::is_same_v<T, Bit>) return reg(v, rst[0] == '1' ? '1' : '0', st);
	else { UInt rv = vh::constU(rst); return reg(v, rv, st); }
}

void buildMemory(const Recipe &r, Variant var, BuiltDesign &res) {
	std::vector<Val> pins(r.ins.size());
	for (size_t i = 0; i < r.ins.size(); i++) {
		if (r.ins[i].w == 0) { Bit b = pinIn().setName("in" + std::to_string(i)); res.b.inPins.push_back(dynamic_cast<hlim::Node_Pin*>(b.node()->getNonSignalDriver(0).node)); pins[i] = b; }
		else { UInt v = pinIn(BitWidth(r.ins[i].w)).setName("in" + std::to_string(i)); res.b.inPins.push_back(dynamic_cast<hlim::Node_Pin*>(v.node()->getNonSignalDriver(0).node)); pins[i] = v; }
		res.b.inWidths.push_back(r.ins[i].w);
	}
	size_t nMem = r.mems.size();
	UInt data = std::get<UInt>(pins[nMem]), waddr = std::get<UInt>(pins[nMem + 1]); Bit we = std::get<Bit>(pins[nMem + 2]);
	size_t j = 0;
	for (size_t m = 0; m < nMem; m++) {
		Memory<UInt> mem(size_t(1) << r.memAw, BitWidth(r.memW));
		mem.setPowerOnStateZero();
		mem.setType(MemType::MEDIUM, r.mems[m].latency);
		UInt rd = mem[std::get<UInt>(pins[m])];
		if (r.mems[m].fullWrite) { IF (we) mem[waddr] = data; } else { IF (we & (waddr == m)) mem[waddr] = data; }
		for (auto &g : r.mems[m].regs) {
			UInt c = vh::constU(bitsOf(g.k, r.memW));
			UInt v = g.logic == 0 ? UInt(rd) : g.logic == 1 ? UInt(rd ^ c) : g.logic == 2 ? UInt(rd ^ data) : g.logic == 3 ? UInt(~rd) : UInt(rd + c);
			{
				std::optional<EnableScope> es, es2; if (g.en >= 0) es.emplace(std::get<Bit>(pins[r.enPins[g.en]]));
				if (g.en2 >= 0) es2.emplace(std::get<Bit>(pins[r.enPins[g.en2]]));
				for (size_t l = 0; l < r.mems[m].latency; l++) v = regOpt(v, g.rst, {.allowRetimingBackward = true});
			}
			auto p = pinOut(v).setName("out" + std::to_string(j++)); res.b.outPins.push_back(p.node()); res.b.outWidths.push_back(r.memW);
		}
	}
}

// N: stages per group (TWIN / LAGTWIN)
// cntLag: (LAGTWIN) delay of an autonomous counter where it meets grouped data = number of pipestage hints downstream of the combining step
// (Step.h, derived from the recipe alone; the count measured on the post-processed hinted design is only compared with it)
// predRst: (PRED) reset value of the explicit register that stands at each pipestage ("" = none)
void buildDesign(const Recipe &r, Variant var, const std::vector<size_t> &N, BuiltDesign &res, const std::map<int, size_t> &cntLag = {}, const std::map<int, std::string> &predRst = {}) {
	res.b.clock.emplace(ClockConfig{.absoluteFrequency = 100'000'000, .name = "clk",
		.resetType = r.reset == "sync" ? ClockConfig::ResetType::SYNCHRONOUS : ClockConfig::ResetType::NONE,
		.memoryResetType = ClockConfig::ResetType::NONE, .initializeRegs = true});
	ClockScope clkScope(*res.b.clock);
	if (r.cls == "memory") { buildMemory(r, var, res); return; }
	std::vector<Val> pins(r.ins.size());
	for (size_t i = 0; i < r.ins.size(); i++) {
		if (r.ins[i].w == 0) { Bit b = pinIn().setName("in" + std::to_string(i)); res.b.inPins.push_back(dynamic_cast<hlim::Node_Pin*>(b.node()->getNonSignalDriver(0).node)); pins[i] = b; }
		else { UInt v = pinIn(BitWidth(r.ins[i].w)).setName("in" + std::to_string(i)); res.b.inPins.push_back(dynamic_cast<hlim::Node_Pin*>(v.node()->getNonSignalDriver(0).node)); pins[i] = v; }
		res.b.inWidths.push_back(r.ins[i].w);
	}
	std::vector<Val> vals(r.steps.size());
	{
		std::optional<EnableScope> es;
		if (!r.enPins.empty()) { Bit en = std::get<Bit>(pins[r.enPins[0]]); for (size_t i = 1; i < r.enPins.size(); i++) en = en & std::get<Bit>(pins[r.enPins[i]]); es.emplace(en); }
		if (var == HINTED) for (size_t g = 0; g < r.groups.size(); g++) res.groups.push_back(std::make_unique<PipeBalanceGroup>());
		auto bit = [&](int i) -> Bit& { return std::get<Bit>(vals[i]); };
		auto vec = [&](int i) -> UInt& { return std::get<UInt>(vals[i]); };
		auto delayed = [&](const Val &v, size_t n, const std::string &rst) -> Val {
			if (std::holds_alternative<Bit>(v)) { Bit x = std::get<Bit>(v); for (size_t i = 0; i < n; i++) x = regOpt(x, rst); return x; }
			UInt x = std::get<UInt>(v); for (size_t i = 0; i < n; i++) x = regOpt(x, rst); return x;
		};
		for (size_t i = 0; i < r.steps.size(); i++) {
			const Step &s = r.steps[i]; const std::string &k = s.kind;
			// operand b may be an autonomous counter: the lag twin delays it by the number of stages that cross this node
			auto vecB = [&]() -> UInt {
				if (var == LAGTWIN && s.b >= 0 && r.steps[s.b].autonomous) { auto it = cntLag.find(s.b); return std::get<UInt>(delayed(vals[s.b], it == cntLag.end() ? 0 : it->second, r.steps[s.b].rst)); }
				return vec(s.b);
			};
			if (k == "gin") {
				const Member &m = r.groups[s.g].mem[s.m];
				if (var == HINTED) {
					auto &grp = *res.groups[s.g];
					if (s.w == 0) { Bit x = std::get<Bit>(pins[m.pin]); vals[i] = m.rst.empty() ? Bit(grp(x)) : Bit(grp(x, m.rst[0] == '1' ? '1' : '0')); }
					else { UInt x = std::get<UInt>(pins[m.pin]); if (m.rst.empty()) vals[i] = UInt(grp(x)); else { UInt rv = vh::constU(m.rst); vals[i] = UInt(grp(x, rv)); } }
				} else if (var == PRED) vals[i] = pins[m.pin];
				else vals[i] = delayed(pins[m.pin], N[s.g], m.rst);
			}
			else if (k == "pin") vals[i] = pins[s.k];
			else if (k == "add") vals[i] = UInt(vec(s.a) + vecB());
			else if (k == "sub") vals[i] = UInt(vec(s.a) - vecB());
			else if (k == "xor") vals[i] = UInt(vec(s.a) ^ vecB());
			else if (k == "and") vals[i] = UInt(vec(s.a) & vec(s.b));
			else if (k == "or") vals[i] = UInt(vec(s.a) | vec(s.b));
			else if (k == "not") vals[i] = UInt(~vec(s.a));
			else if (k == "addc") { UInt c = vh::constU(bitsOf(s.k, s.w)); vals[i] = UInt(vec(s.a) + c); }
			else if (k == "xorc") { UInt c = vh::constU(bitsOf(s.k, s.w)); vals[i] = UInt(vec(s.a) ^ c); }
			else if (k == "band") vals[i] = Bit(bit(s.a) & bit(s.b));
			else if (k == "bor") vals[i] = Bit(bit(s.a) | bit(s.b));
			else if (k == "bxor") vals[i] = Bit(bit(s.a) ^ bit(s.b));
			else if (k == "bnot") vals[i] = Bit(!bit(s.a));
			else if (k == "eq") vals[i] = Bit(vec(s.a) == vec(s.b));
			else if (k == "eqc") { UInt c = vh::constU(bitsOf(s.k, r.steps[s.a].w)); vals[i] = Bit(vec(s.a) == c); }
			else if (k == "hreg") { EnableScope inner(bit(s.c)); vals[i] = regOpt(vec(s.a), s.rst); }
			else if (k == "memrw") {
				Memory<UInt> mem(size_t(1) << s.w, BitWidth(s.w)); mem.setPowerOnStateZero(); mem.setType(MemType::DONT_CARE, 0);
				UInt rd = mem[vec(s.a)];
				IF (bit(s.c)) mem[vec(s.a)] = s.fl ? UInt(rd + vec(s.b)) : UInt(vec(s.b));
				vals[i] = rd;
			}
			else if (k == "bit") vals[i] = Bit(vec(s.a)[s.k]);
			else if (k == "mux") { if (s.w == 0) vals[i] = Bit(mux(bit(s.c), {bit(s.a), bit(s.b)})); else vals[i] = UInt(mux(bit(s.c), {vec(s.a), vec(s.b)})); }
			else if (k == "cat") vals[i] = UInt(cat(vec(s.a), vec(s.b)));
			else if (k == "slice") vals[i] = UInt(vec(s.a)(s.k, BitWidth(s.w)));
			else if (k == "zext") vals[i] = UInt(zext(vec(s.a), BitWidth(s.w)));
			else if (k == "stage") {
				if (var == HINTED) { if (s.w == 0) vals[i] = Bit(pipestage(bit(s.a))); else vals[i] = UInt(pipestage(vec(s.a))); }
				else if (var == PRED) { const std::string &pr = predRst.at((int) i); if (s.w == 0) vals[i] = regOpt(bit(s.a), pr); else vals[i] = regOpt(vec(s.a), pr); }
				else vals[i] = vals[s.a];
			}
			else if (k == "ffreg") { if (s.w == 0) vals[i] = regOpt(bit(s.a), s.rst); else vals[i] = regOpt(vec(s.a), s.rst); }
			else if (k == "mreg") {
				RegisterSettings st; if (var == HINTED) { st.allowRetimingForward = (s.fl & 1) != 0; st.allowRetimingBackward = (s.fl & 2) != 0; }
				std::optional<EnableScope> inner; if (s.c >= 0) inner.emplace(bit(s.c));
				if (s.w == 0) vals[i] = regOpt(bit(s.a), s.rst, st); else vals[i] = regOpt(vec(s.a), s.rst, st);
			}
			else if (k == "cnt") {
				UInt c = BitWidth(s.w); UInt step = vh::constU(bitsOf(s.k, s.w)); UInt rv = vh::constU(s.rst);
				UInt next = s.fl ? UInt(rotl(c, 1) ^ step) : UInt(c + step);
				c = reg(next, rv); vals[i] = c;
				res.cntRegs[(int) i] = c.node()->getNonSignalDriver(0).node->getId();
			}
			else if (k == "negreg") {
				if (var != HINTED) vals[i] = vals[s.a];
				else if (s.w == 0) { auto [nx, en] = negativeReg(bit(s.a)); std::optional<EnableScope> inner; if (s.fl) inner.emplace(en); vals[i] = regOpt(Bit(nx), s.rst); }
				else { auto [nx, en] = negativeReg(vec(s.a)); std::optional<EnableScope> inner; if (s.fl) inner.emplace(en); vals[i] = regOpt(UInt(nx), s.rst); }
			}
			else throw std::runtime_error("c06: unknown step kind " + k);
		}
		for (size_t j = 0; j < r.outs.size(); j++) {
			int x = r.outs[j];
			if (r.steps[x].w == 0) { auto p = pinOut(std::get<Bit>(vals[x])).setName("out" + std::to_string(j)); res.b.outPins.push_back(p.node()); }
			else { auto p = pinOut(std::get<UInt>(vals[x])).setName("out" + std::to_string(j)); res.b.outPins.push_back(p.node()); }
			res.b.outWidths.push_back(r.steps[x].w);
		}
	}
	// all frontend signal objects must be gone before post-processing (retiming refuses to move nodes that are still referenced)
	vals.clear(); pins.clear();
}

// structural dump of the register graph: node id, kind, data inputs (register: data port only; enable / reset-value ports are not data)
void dumpGraph(hlim::Circuit &c, const vh::Built &b, const char *tag, std::ostream &o, size_t &latches) {
	std::map<hlim::BaseNode*, size_t> inIdx, outIdx;
	for (size_t i = 0; i < b.inPins.size(); i++) inIdx[b.inPins[i]] = i;
	for (size_t i = 0; i < b.outPins.size(); i++) outIdx[b.outPins[i]] = i;
	for (auto &up : c.getNodes()) {
		hlim::BaseNode *n = up.get();
		if (n->getName() == "gtry_retiming_latch") latches++;
		o << tag << ' ' << n->getId() << ' ';
		if (inIdx.count(n)) { o << "pi " << inIdx[n] << '\n'; continue; }
		if (outIdx.count(n)) o << "po " << outIdx[n]; else if (dynamic_cast<hlim::Node_Register*>(n)) o << "reg"; else o << "op";
		size_t nIn = n->getNumInputPorts();
		for (size_t i = 0; i < nIn; i++) {
			if (dynamic_cast<hlim::Node_Register*>(n) && i != hlim::Node_Register::DATA) continue;
			if (n->inputIsEnable(i)) continue;
			auto d = n->getDriver(i); if (!d.node) continue;
			if (hlim::outputIsDependency(d)) continue;
			o << ' ' << d.node->getId();
		}
		o << '\n';
	}
}

// register counts on all data paths from `from` to the output pins (the counter's own feedback loop is not followed)
std::set<size_t> regsBetween(hlim::Circuit &c, const vh::Built &b, hlim::BaseNode *from) {
	std::set<size_t> res;
	std::function<void(hlim::BaseNode*, size_t, std::vector<hlim::BaseNode*>&, size_t&)> walk = [&](hlim::BaseNode *n, size_t regs, std::vector<hlim::BaseNode*> &stack, size_t &budget) {
		if (budget == 0) { res.insert(~size_t(0)); return; } budget--;
		if (n == from) { res.insert(regs); return; }
		if (std::find(stack.begin(), stack.end(), n) != stack.end()) return;
		stack.push_back(n);
		bool isReg = dynamic_cast<hlim::Node_Register*>(n) != nullptr;
		for (size_t i = 0; i < n->getNumInputPorts(); i++) {
			if (isReg && i != hlim::Node_Register::DATA) continue;
			if (n->inputIsEnable(i)) continue;
			auto d = n->getDriver(i); if (!d.node || hlim::outputIsDependency(d)) continue;
			walk(d.node, regs + (isReg ? 1 : 0), stack, budget);
		}
		stack.pop_back();
	};
	for (auto *p : b.outPins) { std::vector<hlim::BaseNode*> stack; size_t budget = 200000; walk(p, 0, stack, budget); }
	return res;
}

void printTrace(const char *tag, const std::vector<std::vector<std::string>> &tr, std::ostream &o) {
	for (size_t c = 0; c < tr.size(); c++) { o << tag << ' ' << c; for (auto &s : tr[c]) o << ' ' << s; o << '\n'; }
}

vh::Stimulus genStim(Rng &rng, const Recipe &r) {
	vh::Stimulus st;
	unsigned stallMode = (unsigned) rng.below(4); // 0: never stalled, 1: rare, 2: frequent, 3: bursts
	bool burst = false;
	// enables that stay low for the first k cycles (during and directly after reset) and toggle later
	std::vector<size_t> lowFirst(r.ins.size(), 0);
	for (size_t i = 0; i < r.ins.size(); i++) if (r.ins[i].stall && rng.chance(r.cls == "memory" ? 2 : 1, 3)) lowFirst[i] = 1 + rng.below(6);
	if (r.cls == "memory" && stallMode == 0 && rng.chance(1, 2)) stallMode = 1 + (unsigned) rng.below(3);
	for (size_t c = 0; c < r.ncyc; c++) {
		std::vector<std::string> row; unsigned mode = (unsigned) rng.below(8);
		if (stallMode == 3 && rng.chance(1, 4)) burst = !burst;
		for (size_t pi = 0; pi < r.ins.size(); pi++) { auto &p = r.ins[pi];
			std::string s;
			if (p.stall && (c < lowFirst[pi] || (c == 0 && r.edge0Low))) s = "0";
			else if (p.stall) { bool hi = stallMode == 0 ? true : stallMode == 1 ? !rng.chance(1, 8) : stallMode == 2 ? rng.chance(1, 2) : !burst; s = hi ? "1" : "0"; }
			else for (size_t i = 0; i < std::max<size_t>(1, p.w); i++) { char ch = mode == 0 ? '0' : mode == 1 ? '1' : (rng.chance(1, 2) ? '1' : '0'); if (r.xdata && rng.chance(1, 12)) ch = 'x'; s.push_back(ch); }
			row.push_back(s);
		}
		st.cycles.push_back(row);
	}
	return st;
}

void runCase(uint64_t k, uint64_t sub, const Recipe &r, Rng &rng, std::ostream &out) {
	std::ostringstream o;
	o << toString(r, k, sub);
	vh::Stimulus st = genStim(rng, r);
	std::vector<size_t> N(r.groups.size(), 0);
	std::vector<std::vector<std::string>> trH, trT, trL, trP;
	std::map<int, std::string> predRst;
	std::ostringstream gH, gT;
	size_t latches = 0, dummy = 0;
	std::map<int, long> cntLag; // measured on the post-processed hinted design: registers between counter and outputs; -1 = no path (counter invisible), -2 = paths disagree
	std::map<int, size_t> derivedLag; bool lagDefined = true;
	for (size_t i = 0; i < r.steps.size(); i++) if (r.steps[i].b >= 0 && r.steps[r.steps[i].b].autonomous) derivedLag[r.steps[i].b] = r.steps[i].live ? r.steps[i].h : 0;
	const char *phase = "hinted";
	try {
		{
			DesignScope design; BuiltDesign d; buildDesign(r, HINTED, {}, d);
			design.postprocess();
			for (size_t g = 0; g < r.groups.size(); g++) N[g] = d.groups[g]->getNumPipeBalanceGroupStages();
			if (r.cls != "memory") dumpGraph(design.getCircuit(), d.b, "hn", gH, latches);
			trH = vh::simulate(design.getCircuit(), d.b, st);
			for (auto &[step, id] : d.cntRegs) {
				hlim::BaseNode *node = nullptr; for (auto &up : design.getCircuit().getNodes()) if (up->getId() == id && dynamic_cast<hlim::Node_Register*>(up.get())) node = up.get();
				if (!node) { cntLag[step] = -1; continue; }
				auto cnts = regsBetween(design.getCircuit(), d.b, node);
				if (cnts.size() > 1 || cnts.count(~size_t(0))) { lagDefined = false; cntLag[step] = -2; }
				else cntLag[step] = cnts.empty() ? -1 : (long) *cnts.begin();
			}
		}
		phase = "twin";
		{
			DesignScope design; BuiltDesign d; buildDesign(r, TWIN, N, d);
			if (r.cls != "memory") { design.postprocess(); dumpGraph(design.getCircuit(), d.b, "tn", gT, dummy); } // memory: the twin is the design as written, not post-processed
			trT = vh::simulate(design.getCircuit(), d.b, st);
		}
		phase = "lagtwin";
		if (r.cls == "autonomous") {
			DesignScope design; BuiltDesign d; buildDesign(r, LAGTWIN, N, d, derivedLag);
			design.postprocess();
			trL = vh::simulate(design.getCircuit(), d.b, st);
		}
		phase = "prediction";
		if (r.cls == "resetedge" && r.outs.size() == 1 && !trT.empty()) {
			// chain behind the combinational function F: unary xors and pipestages. F's four-state power-on value = twin's output in cycle 0 with the xors undone.
			std::vector<int> chain; for (int x = r.outs[0]; x >= 0; x = r.steps[x].a) { const std::string &k = r.steps[x].kind; if (k != "stage" && k != "not" && k != "bnot" && k != "xorc") break; chain.push_back(x); }
			std::reverse(chain.begin(), chain.end());
			auto maskOfStep = [&](int x) -> uint64_t { const Step &s = r.steps[x]; return s.kind == "stage" ? 0 : s.kind == "xorc" ? s.k : maskOf(s.w); };
			auto xorStr = [](std::string v, uint64_t m) { for (size_t i = 0; i < v.size(); i++) if (v[i] != 'x' && ((m >> (v.size() - 1 - i)) & 1)) v[i] = v[i] == '1' ? '0' : '1'; return v; };
			uint64_t total = 0; for (int x : chain) total ^= maskOfStep(x);
			std::string cur = xorStr(trT[0][0], total);
			for (int x : chain) { cur = xorStr(cur, maskOfStep(x)); if (r.steps[x].kind == "stage") predRst[x] = cur.find_first_of("01") == std::string::npos ? std::string() : cur; }
			DesignScope design; BuiltDesign d; buildDesign(r, PRED, N, d, {}, predRst);
			design.postprocess();
			trP = vh::simulate(design.getCircuit(), d.b, st);
		}
	} catch (const std::exception &e) {
		std::string msg = e.what(); for (char &ch : msg) if (ch == '\n' || ch == '\r') ch = ' ';
		o << "error phase=" << phase << ' ' << msg.substr(0, 300) << "\nend\n"; out << o.str(); return;
	}
	for (size_t g = 0; g < N.size(); g++) o << "stages " << g << ' ' << N[g] << '\n';
	o << "info latches=" << latches << " lagdefined=" << lagDefined << " lags=";
	if (cntLag.empty()) o << '-'; { bool first = true; for (auto &[step, l] : cntLag) { o << (first ? "" : ",") << step << ':' << l; first = false; } }
	o << " dlags=";
	if (derivedLag.empty()) o << '-'; { bool first = true; for (auto &[step, l] : derivedLag) { o << (first ? "" : ",") << step << ':' << l; first = false; } }
	o << '\n';
	o << gH.str() << gT.str();
	for (size_t c = 0; c < st.cycles.size(); c++) { o << "s " << c; for (auto &s : st.cycles[c]) o << ' ' << s; o << '\n'; }
	printTrace("h", trH, o); printTrace("t", trT, o); if (!trL.empty()) printTrace("l", trL, o); if (!trP.empty()) printTrace("p", trP, o);
	o << "end\n";
	out << o.str();
}

}

int main(int argc, char **argv) {
	uint64_t seed = vh::argU64(argc, argv, 1, 1), ncases = vh::argU64(argc, argv, 2, 50), maxSteps = vh::argU64(argc, argv, 3, 10);
	uint64_t classMask = vh::argU64(argc, argv, 4, (1u << NCLASSES) - 1), only = vh::argU64(argc, argv, 5, ~0ull);
	std::ios::sync_with_stdio(false);
	std::cout << "# prop=C06 seed=" << seed << " cases=" << ncases << " maxSteps=" << maxSteps << " classMask=" << classMask << "\n";
	Rng top(seed * 0x100000001b3ull + 6);
	std::vector<size_t> classes; for (size_t i = 0; i < NCLASSES; i++) if (classMask & (1u << i)) classes.push_back(i);
	for (uint64_t k = 0; k < ncases; k++) {
		uint64_t sub = top.next(); Rng rng(sub);
		size_t cls = classes[k % classes.size()];
		if (only != ~0ull && k != only) continue;
		Recipe r;
		if (std::string(CLASSES[cls]) == "memory") r = genMemory(rng); else { Gen g(rng, maxSteps); r = g.generate(cls); }
		runCase(k, sub, r, rng, std::cout);
		std::cout.flush();
	}
	return 0;
}
