// C07 harness: memories behave as arrays with program-order port semantics at any latency.
//
// usage: c07 <seed> <ncases> <ncycles> <mode> [salt]
//   mode 0  main stream: no target device, power-on contents (none / zero / random / partial), memoryResetType NONE, clock with or
//           without synchronous reset (with reset: cycle 0 is a reset cycle, no write is issued in it)
//   mode 1  Intel devices (Arria 10 / Cyclone 10), mode 2 Xilinx devices (Kintex Ultrascale / Zynq-7): latency as the device
//           requests for the memory type (or explicit)
//   mode 3  undefined stream: address / enable / data pins carry undefined bits (model correspondence only)
//   mode 4  out-of-range stream: non-power-of-two depths with addresses >= depth (model correspondence only; outside the statement)
//   mode 5  reset-initialised contents: memoryResetType SYNCHRONOUS, initZero()/power-on state re-written during reset
//   mode 6  guard stream: type/latency/port-count combinations MemoryGroup::verify rejects, three write ports, ROMs
//   mode 7  observation stream: synchronous reset and writes already issued in cycle 0, i.e. while the reset is still asserted at the
//           first clock edge (outside the statement: the driver only counts how often post-processing drops such a write)
//   mode 8  reset-logic family: memory reset logic (addResetLogic / initZero network, or power-on image -> reset ROM) x synchronous /
//           asynchronous reset x depth 1, 2, powers of two, non powers of two x reset held 0..3 cycles longer than the minimum x
//           writes during reset (dropped by the reset logic) or a forced write in the first cycle after reset x latency 1..3;
//           array model: contents = reset image until written
//   mode 9  read-register family: the L read-latency registers of a read port with / without reset values and without enable, under
//           one read enable (ENIF) or under per-stage enable scopes (own / shared pin / none per stage), RAMs and ROMs, latency 1..3, every MemType, synchronous / asynchronous / no reset, enable held low for 1..4 cycles after
//           the reset and toggling later; model: enabled shift register behind the array read, holding its reset values until loaded
//           incl. read-modify-write with the write port in the same ENIF scope as all read registers (hazard bypass logic with enable)
//   mode 10 as mode 9, but read-modify-write under an enable while other read ports of the memory sit under other enables / none,
//           and latency 3 (ring buffer mode of the hazard logic): two known findings (hazard logic accepted but wrong, see
//           harness/examples/c07_finding_hazard_bypass_mixed_enable_domains.cpp.txt); the driver marks these designs from the design
//           alone (domains=mixed / ring=true) so that they get signatures of their own
//   mode 11 power-on initialisation family: clocks with explicit ClockConfig::initializeRegs / initializeMemory in all four combinations
//           (no reset only with initializeRegs, Clock.cpp:224), synchronous / asynchronous / no reset, memoryResetType NONE or as the reset,
//           RAMs (and some ROMs) with declared power-on contents (zero / random / partial), 1..4 cycles of reads before the first write;
//           array model: the declared contents are present iff the memory is a ROM or the write clock has initializeMemory
//
// One block per case:
//   case <id> depth= width= aw= L= type= init= dev= mode= idle= memreset= noreset= initnet= explicit= resetcycles= ports=<n>
//   net mems= memports= ext=<vendor primitive:count,...>   what the post-processed netlist contains
//   port <i> R share=<j|-> xor=<bits|-> en= sten=<per stage enable pin|-,...> rst=<per stage reset value,...|->   read port; address pin shared with port j (declared earlier) or own; pin = regs(data ^ xor)
//   port <i> W cond=<0|1> rmw=<j|-> share=<j|->   write port; data = pin (xor async data of read port j)
//   mem <w0> <w1> ...                 DECLARED power-on contents, one 0/1/x string per word (whether they are loaded: initmem= / ROM)
//   pre <ok|e>   post <ok|e reason>   whether simulation before / postprocess+simulation after worked (e = gatery threw; reason = hint text)
//   pin <k> <a|d|e|r> port=<i> sub=<j> w=<width>   the input pins in stimulus order: address / write data / IF condition of a write /
//                                     ENIF enable number j of the read registers of port i (the port lines say who else uses them)
//   c <t> ; <values sampled at the inputs of the Node_MemPort of each declared port: R: en addr | W: en wrEn addr data> ; <async read data> ;
//         <pins pre> ; <pins post> ; <per read port the stage enables e.g. 1,-,0 (informative)> ; <the applied stimulus, one value per pin>
// The driver derives address / enable / data of every port from the stimulus and the declared program and only COMPARES the sampled
// Node_MemPort inputs with that (model and specification never take an input from the implementation).
//   end
// Port inputs and async read data are sampled on the netlist as built (before post-processing) right before the clock edge;
// "-" = input not connected. Pins are the pinOut()s behind L registers.
#include <gatery/frontend.h>
#include <gatery/simulation/ReferenceSimulator.h>
#include <gatery/hlim/supportNodes/Node_MemPort.h>
#include <gatery/hlim/supportNodes/Node_Memory.h>
#include <gatery/hlim/supportNodes/Node_External.h>
#include <map>
#include <set>
#include <algorithm>
#include <gatery/scl/arch/intel/IntelDevice.h>
#include <gatery/scl/arch/xilinx/XilinxDevice.h>
#include "common.h"
#include "simhelp.h"
#include <iostream>
#include <filesystem>
#include <unistd.h>

using namespace gtry;

struct PortCfg {
	bool isWrite = false;
	bool cond = false;   // write under IF (en)
	int rmw = -1;        // write data = pin ^ async data of that (earlier) read port
	int share = -1;      // address pin shared with that earlier port
	int addrExtra = 0;   // own address pin: this many bits wider (+) / narrower (-1) than the memory's address (frontend truncates / zero extends)
	int enOf = -1;       // write port: declared inside ENIF(enable pin 0 of that earlier read port)
	int enFrom = -1;     // read port: its stage enables use the enable pins of that earlier read port (same ENIF scope)
	bool rdEn = false;                 // read port: some of the L registers sit under ENIF
	std::vector<int> stEn;             // read port, per register stage: -1 = no enable scope, j = ENIF(enable pin j of this port)
	std::vector<std::string> rstVals;  // read port: reset value of register k (empty = registers without reset value)
	std::string outXor;  // read port: constant xor-ed onto the read data in front of the L registers (they must be retimed across it)
};

struct CaseCfg {
	size_t depth = 4, width = 4, L = 0;
	int type = 0;        // 0 DONT_CARE 1 SMALL 2 MEDIUM 3 LARGE
	int init = 0;        // 0 none 1 zero 2 random (fully defined) 3 random head only
	int dev = 0;         // 0 none 1 Intel Arria 10, 4 Intel Cyclone 10, 2 Xilinx Kintex Ultrascale, 3 Xilinx Zynq-7
	bool explicitLatency = true;
	bool memReset = false;
	bool noReset = false;  // clock without reset (registers rely on power-on initialisation): cycle 0 is a normal cycle
	bool initNet = false; // initZero(): initialization network attached
	bool asyncReset = false;
	bool initRegs = true, initMem = true;   // ClockConfig::initializeRegs / initializeMemory (both given explicitly)
	bool rmwEn = false;      // mode 9: read-modify-write under one enable (read registers and write port in the same ENIF scope)
	size_t enLow = 0;        // mode 9: read enables stay low for this many cycles after the reset cycle(s)
	size_t extraReset = 0;   // reset held this many cycles longer than Clock::getMinResetCycles() asks for
	bool wrInReset = false;  // write enables are also driven while the reset is asserted
	size_t rcPred = 0;       // number of reset cycles the reset logic is expected to ask for (+ extraReset)
	uint64_t resetXor = 0;   // init == 4: addResetLogic(word a := a ^ resetXor), power-on image the same
	size_t idle = 0;
	std::vector<PortCfg> ports;
	std::vector<std::string> initWords;
};

static const char *typeName(int t) { static const char *n[] = {"DONT_CARE", "SMALL", "MEDIUM", "LARGE"}; return n[t]; }
static MemType typeOf(int t) { static const MemType n[] = {MemType::DONT_CARE, MemType::SMALL, MemType::MEDIUM, MemType::LARGE}; return n[t]; }

static std::string randBits(vh::Rng &rng, size_t w, unsigned xPerMille = 0) {
	std::string s;
	for (size_t i = 0; i < w; i++) s.push_back(xPerMille && rng.below(1000) < xPerMille ? 'x' : (rng.chance(1, 2) ? '1' : '0'));
	return s;
}
static std::string bitsOf(uint64_t v, size_t w) { std::string s; for (size_t i = w; i-- > 0;) s.push_back((v >> i) & 1 ? '1' : '0'); return s; }

static size_t log2c(size_t v) { size_t b = 0; while ((size_t(1) << b) < v) b++; return b; }

struct Built {
	std::vector<hlim::Node_Pin*> inPins; std::vector<size_t> inWidths; std::vector<int> inKind; std::vector<int> inPort; std::vector<int> inSub; // kind 0 addr 1 en 2 data 3 read enable (inSub = enable pin number within the port)
	std::vector<hlim::Node_Pin*> outPins;
	std::vector<hlim::Node_MemPort*> memPorts;
	std::optional<Clock> clock;
	size_t L = 0;
};

static hlim::Node_Pin *pinOf(UInt &v) { return dynamic_cast<hlim::Node_Pin*>(v.node()->getNonSignalDriver(0).node); }
static hlim::Node_Pin *pinOf(Bit &v) { return dynamic_cast<hlim::Node_Pin*>(v.node()->getNonSignalDriver(0).node); }

static void build(DesignScope &design, CaseCfg &c, Built &b, bool withResetNet = true) {
	b.clock.emplace(ClockConfig{.absoluteFrequency = 100'000'000, .name = "clk",
		.resetType = c.noReset ? ClockConfig::ResetType::NONE : c.asyncReset ? ClockConfig::ResetType::ASYNCHRONOUS : ClockConfig::ResetType::SYNCHRONOUS,
		.memoryResetType = !c.memReset ? ClockConfig::ResetType::NONE : c.asyncReset ? ClockConfig::ResetType::ASYNCHRONOUS : ClockConfig::ResetType::SYNCHRONOUS, .initializeRegs = c.initRegs, .initializeMemory = c.initMem});
	ClockScope clkScope(*b.clock);
	Memory<UInt> mem(c.depth, BitWidth(c.width));
	if (c.explicitLatency) mem.setType(typeOf(c.type), c.L); else { mem.setType(typeOf(c.type)); c.L = mem.readLatencyHint(); }
	b.L = c.L;
	if (c.init == 1) { if (c.initNet) mem.initZero(); else mem.setPowerOnStateZero(); }
	else if (c.init >= 2) {
		size_t nw = c.init != 3 ? c.depth : std::max<size_t>(1, c.depth / 2);
		sim::DefaultBitVectorState st; st.resize(nw * c.width);
		for (size_t i = 0; i < nw; i++) for (size_t k = 0; k < c.width; k++) {
			char ch = c.initWords[i][c.width - 1 - k];
			st.set(sim::DefaultConfig::DEFINED, i * c.width + k, ch != 'x'); st.set(sim::DefaultConfig::VALUE, i * c.width + k, ch == '1');
		}
		mem.fillPowerOnState(std::move(st));
	}
	size_t aw = log2c(c.depth);
	if (c.init == 4 && withResetNet) {
		std::string lit = std::to_string(c.width) + "b" + bitsOf(c.resetXor, c.width);
		size_t width = c.width;
		mem.addResetLogic([=](UInt a) -> UInt {
			UInt k = lit.c_str();
			UInt av = aw < width ? UInt(zext(a, BitWidth(width))) : UInt(a.lower(BitWidth(width)));
			return UInt(av ^ k);
		});
	}
	size_t pw = std::max<size_t>(aw, 1);   // a depth-1 memory has a zero-width address: the frontend truncates the 1-bit pin
	std::vector<UInt> addrOf(c.ports.size()), rdData(c.ports.size());
	std::vector<std::vector<Bit>> renOf(c.ports.size());
	// the Node_MemPort each declared port created (found as the node that is new after the declaration; independent of Node_Memory::getPorts())
	std::set<hlim::BaseNode*> seenPorts;
	auto newMemPort = [&]() -> hlim::Node_MemPort* {
		hlim::Node_MemPort *res = nullptr;
		for (auto &n : design.getCircuit().getNodes()) if (auto *mp = dynamic_cast<hlim::Node_MemPort*>(n.get())) if (!seenPorts.contains(mp)) { seenPorts.insert(mp); res = mp; }
		return res;
	};
	for (size_t i = 0; i < c.ports.size(); i++) {
		const PortCfg &p = c.ports[i];
		if (p.share >= 0) addrOf[i] = addrOf[p.share];
		else {
			size_t apw = (size_t) std::max<long>(1, (long) aw + p.addrExtra);
			addrOf[i] = pinIn(BitWidth(apw)).setName("a" + std::to_string(i));
			b.inPins.push_back(pinOf(addrOf[i])); b.inWidths.push_back(apw); b.inKind.push_back(0); b.inPort.push_back((int) i); b.inSub.push_back(0);
		}
		if (!p.isWrite) {
			rdData[i] = mem[addrOf[i]];
			b.memPorts.push_back(newMemPort());
			UInt o = rdData[i];
			if (!p.outXor.empty()) { std::string lit = std::to_string(c.width) + "b" + p.outXor; UInt k = lit.c_str(); o = o ^ k; }
			std::vector<Bit> ren;
			if (p.enFrom >= 0) ren = renOf[p.enFrom];
			else {
				int nPins = 0; for (int e : p.stEn) nPins = std::max(nPins, e + 1);
				for (int j = 0; j < nPins; j++) {
					ren.push_back(pinIn().setName("r" + std::to_string(i) + "_" + std::to_string(j)));
					b.inPins.push_back(pinOf(ren.back())); b.inWidths.push_back(1); b.inKind.push_back(3); b.inPort.push_back((int) i); b.inSub.push_back(j);
				}
			}
			for (size_t k = 0; k < c.L; k++) {
				auto stage = [&]() {
					if (p.rstVals.empty()) o = reg(o, {.allowRetimingBackward = true});
					else { std::string lit = std::to_string(c.width) + "b" + p.rstVals[k]; UInt rv = lit.c_str(); o = reg(o, rv, {.allowRetimingBackward = true}); }
				};
				int e = k < p.stEn.size() ? p.stEn[k] : -1;
				if (e >= 0) { ENIF (ren[e]) stage(); } else stage();
			}
			renOf[i] = ren;
			b.outPins.push_back(pinOut(o).setName("q" + std::to_string(i)).node());
		} else {
			UInt d = pinIn(BitWidth(c.width)).setName("d" + std::to_string(i));
			b.inPins.push_back(pinOf(d)); b.inWidths.push_back(c.width); b.inKind.push_back(2); b.inPort.push_back((int) i); b.inSub.push_back(0);
			UInt data = d;
			if (p.rmw >= 0) data = rdData[p.rmw] ^ d;
			auto doWrite = [&]() {
				if (p.cond) {
					Bit en = pinIn().setName("e" + std::to_string(i));
					b.inPins.push_back(pinOf(en)); b.inWidths.push_back(1); b.inKind.push_back(1); b.inPort.push_back((int) i); b.inSub.push_back(0);
					IF (en) mem[addrOf[i]] = data;
				} else
					mem[addrOf[i]] = data;
			};
			if (p.enOf >= 0 && !renOf[p.enOf].empty()) { ENIF (renOf[p.enOf][0]) doWrite(); } else doWrite();
			b.memPorts.push_back(newMemPort());
		}
	}
}

using Stim = std::vector<std::vector<std::string>>; // [cycle][pin]

static Stim genStim(vh::Rng &rng, const CaseCfg &c, const Built &b, size_t ncycles, int mode) {
	Stim st;
	size_t aw = log2c(c.depth);
	size_t pw = std::max<size_t>(aw, 1);
	std::vector<uint64_t> hot; for (int i = 0; i < 2; i++) hot.push_back(rng.below(c.depth));
	if (mode == 8) hot[0] = 0;
	unsigned enBias = 1 + (unsigned) rng.below(4); // enables are on with probability enBias/4 .. mostly on
	for (size_t t = 0; t < ncycles; t++) {
		std::vector<std::string> row;
		bool burst = rng.chance(1, 3); // everybody on the same address
		uint64_t burstAddr = hot[rng.below(hot.size())];
		bool firstAfterReset = mode == 8 && !c.wrInReset && t == c.idle;   // forced write right after the reset is released
		if (firstAfterReset) { burst = rng.chance(1, 2); burstAddr = 0; }
		for (size_t i = 0; i < b.inPins.size(); i++) {
			if (b.inKind[i] == 0) {
				uint64_t a = burst ? burstAddr : (rng.chance(1, 2) ? hot[rng.below(hot.size())] : rng.below(c.depth));
				if (mode == 4 && (size_t(1) << aw) > c.depth && rng.chance(1, 4)) a = c.depth + rng.below((size_t(1) << aw) - c.depth);
				// the pin may be wider (upper bits random, the frontend drops them) or narrower (zero extended) than the memory address
				size_t w = b.inWidths[i], low = std::min(w, aw);
				if (low < aw) a = low ? a & ((uint64_t(1) << low) - 1) : 0;
				std::string s = (w > low ? randBits(rng, w - low) : std::string()) + bitsOf(a, low);
				if (aw == 0) s = bitsOf(0, w);
				if (mode == 3 && rng.chance(1, 12)) s[rng.below(s.size())] = 'x';
				row.push_back(s);
			} else if (b.inKind[i] == 3) {
				row.push_back(t < c.idle + c.enLow ? "0" : (rng.chance(2, 3) ? "1" : "0"));
			} else if (b.inKind[i] == 1) {
				std::string s = (t < c.idle) ? "0" : (rng.below(4) < enBias ? "1" : "0");
				if (firstAfterReset) s = "1";
				// the reset is released at the very instant of clock edge number rcPred: whether a write issued in cycle rcPred-1 is still
				// taken over by the reset logic is a race of simultaneous events; no write is issued in that one cycle
				if (c.wrInReset && t + 1 == c.rcPred) s = "0";
				if (mode == 3 && rng.chance(1, 16)) s = "x";
				row.push_back(s);
			} else
				row.push_back(randBits(rng, c.width, mode == 3 ? 60 : 0));
		}
		st.push_back(row);
	}
	return st;
}

static std::string valOf(sim::ReferenceSimulator &sim, hlim::NodePort drv) {
	if (drv.node == nullptr) return "-";
	return vh::bitsToString(sim.getValueOfOutput(drv));
}

// returns per cycle: (port inputs + async read data if sampleInternals) and pin values
static void simulate(DesignScope &design, const Built &b, const Stim &st, bool sampleInternals, std::vector<std::string> &internals, std::vector<std::string> &pins) {
	sim::ReferenceSimulator sim(false);
	sim.compileProgram(design.getCircuit());
	sim.powerOn();
	hlim::ClockRational period = hlim::ClockRational(1, 1) / b.clock->getClk()->absoluteFrequency();
	sim.advance(period / hlim::ClockRational(4, 1));
	using In = hlim::Node_MemPort::Inputs;
	for (auto &row : st) {
		for (size_t i = 0; i < b.inPins.size(); i++)
			sim.simProcSetInputPin(b.inPins[i], sim::convertToExtended(vh::bitsFromString(row[i])));
		sim.reevaluate();
		if (sampleInternals) {
			std::ostringstream o;
			for (auto *p : b.memPorts) {
				o << ' ' << valOf(sim, p->getDriver((size_t) In::enable));
				if (p->isWritePort()) o << ' ' << valOf(sim, p->getDriver((size_t) In::wrEnable));
				o << ' ' << valOf(sim, p->getDriver((size_t) In::address));
				if (p->isWritePort()) o << ' ' << valOf(sim, p->getDriver((size_t) In::wrData));
			}
			o << " ;";
			for (auto *p : b.memPorts) if (!p->isWritePort()) o << ' ' << vh::bitsToString(sim.getValueOfOutput({.node = p, .port = (size_t) hlim::Node_MemPort::Outputs::rdData}));
			internals.push_back(o.str());
		}
		std::ostringstream o;
		for (auto *p : b.outPins) { auto drv = p->getDriver(0); o << ' ' << (drv.node ? vh::bitsToString(sim.getValueOfOutput(drv)) : std::string("u")); }
		pins.push_back(o.str());
		sim.advance(period);
	}
}

static CaseCfg genCase(vh::Rng &rng, int mode) {
	CaseCfg c;
	static const size_t depthsP2[] = {2, 4, 8, 16, 32}, depthsNP[] = {3, 5, 6, 7, 12, 17, 24};
	bool np = mode == 4 ? true : rng.chance(2, 5);
	c.depth = np ? depthsNP[rng.below(7)] : depthsP2[rng.below(5)];
	if (mode == 8) { if (rng.chance(1, 5)) c.depth = 1 + rng.below(2); else if (np) c.depth = depthsNP[rng.below(5)]; else c.depth = depthsP2[rng.below(4)]; }
	if ((mode == 1 || mode == 2) && rng.chance(1, 3)) c.depth = rng.chance(1, 2) ? 64 : 100;   // deep enough for block rams
	static const size_t widths[] = {1, 2, 3, 4, 5, 8, 12, 16, 33};
	c.width = widths[rng.below(9)];
	c.dev = mode == 1 ? (rng.chance(2, 3) ? 1 : 4) : mode == 2 ? (rng.chance(2, 3) ? 2 : 3) : 0;
	c.type = (int) rng.below(4);
	c.L = rng.below(4);
	if ((mode == 9 || mode == 10)) { c.L = 1 + rng.below(3); c.asyncReset = rng.chance(1, 3); c.enLow = 1 + rng.below(4); }
	if (mode == 11) {
		c.initRegs = rng.chance(1, 2); c.initMem = rng.chance(1, 2);
		c.asyncReset = rng.chance(1, 3);
	}
	c.memReset = mode == 5 || mode == 8 || (mode == 11 && rng.chance(1, 3));
	if (mode == 8) { c.L = 1 + rng.below(3); c.asyncReset = rng.chance(1, 2); c.extraReset = rng.chance(1, 2) ? 0 : 1 + rng.below(3); c.wrInReset = rng.chance(1, 3); }
	// with a synchronous reset the first rising clock edge happens under reset (Clock::getMinResetCycles() >= 1): cycle 0 is a
	// reset cycle, no write is issued in it (so every write port has an enable); without reset the stimulus starts right away
	c.noReset = !c.memReset && mode != 7 && !c.asyncReset && c.initRegs && rng.chance(1, (mode == 9 || mode == 10 || mode == 11) ? 4 : 2);
	c.idle = (c.noReset || mode == 7) ? 0 : 1;
	size_t nR = 1 + rng.below(3), nW = 1 + rng.below(2);
	// writes during reset: only the write port the reset logic takes over (findSuitableResetWritePort = the first one) drops them;
	// with a second write port the contents during reset are whatever that port writes - no array model to compare with
	if (c.wrInReset) nW = 1;
	if (mode == 6) {
		switch (rng.below(4)) {
			case 0: c.type = 2; c.L = 0; break;                           // MEDIUM without a read latency register
			case 1: c.type = 1; nR = 2 + rng.below(2); break;              // SMALL with several read ports
			case 2: nW = 3; break;                                          // three write ports
			default: nW = 0; break;                                         // ROM
		}
	} else {
		// MemoryGroup::verify: MEDIUM needs a read latency register, SMALL at most one read and one write port
		if (c.type == 2 && c.L == 0) c.L = 1 + rng.below(3);
		if (c.type == 1) { nR = 1; nW = 1; }
	}
	if (c.dev) {
		c.explicitLatency = rng.chance(1, 3); if (c.explicitLatency && c.L == 0) c.L = 1;
		if (rng.chance(1, 2)) { nR = 1; nW = 1; }          // the shape vendor block rams / lutrams are mapped for
	}
	if ((mode == 9 || mode == 10 || mode == 11) && rng.chance(1, 6)) nW = 0;      // ROMs too
	bool useRdEn = (mode == 9 || mode == 10) && rng.chance(3, 5);   // cases without any read enable keep read-modify-write data (hazard logic + reset values)
	// declaration order
	std::vector<bool> kinds; for (size_t i = 0; i < nR; i++) kinds.push_back(false); for (size_t i = 0; i < nW; i++) kinds.push_back(true);
	for (size_t i = kinds.size(); i > 1; i--) { size_t j = rng.below(i); bool t = kinds[i - 1]; kinds[i - 1] = kinds[j]; kinds[j] = t; }
	for (size_t i = 0; i < kinds.size(); i++) {
		PortCfg p; p.isWrite = kinds[i];
		if (i > 0 && rng.chance(1, 3)) p.share = (int) rng.below(i);
		if (p.share >= 0 && c.ports[p.share].share >= 0) p.share = c.ports[p.share].share;
		if (p.share < 0 && (mode == 0 || mode == 9 || mode == 11) && rng.chance(1, 4)) p.addrExtra = log2c(c.depth) >= 2 && rng.chance(1, 3) ? -1 : 1 + (int) rng.below(2);
		if (!p.isWrite && c.L > 0 && rng.chance(1, 4)) p.outXor = randBits(rng, c.width);
		if (!p.isWrite && (mode == 9 || mode == 10)) {
			p.rdEn = useRdEn && rng.chance(3, 4);
			if (p.rdEn) {
				// one enable for all stages (what a block ram offers), or every stage under its own scope: own pin, shared pin or none
				if (c.L >= 2 && rng.chance(2, 5)) {
					do { p.stEn.clear(); for (size_t k = 0; k < c.L; k++) p.stEn.push_back((int) rng.below(4) - 1); }
					while (std::all_of(p.stEn.begin(), p.stEn.end(), [&](int e) { return e == p.stEn[0]; }));
					// number the pins in order of first use
					std::vector<int> ren(3, -1); int next = 0;
					for (int &e : p.stEn) if (e >= 0) { if (ren[e] < 0) ren[e] = next++; e = ren[e]; }
				} else p.stEn.assign(c.L, 0);
			}
			if (rng.chance(2, 3)) for (size_t k = 0; k < c.L; k++) p.rstVals.push_back(randBits(rng, c.width));
		}
		if (p.isWrite) {
			p.cond = (c.noReset || mode == 7) ? rng.chance(3, 4) : true;
			std::vector<int> earlierReads; for (size_t j = 0; j < i; j++) if (!c.ports[j].isWrite) earlierReads.push_back((int) j);
			bool anyRdEn = false; for (auto &q : c.ports) anyRdEn |= q.rdEn;
			if (!earlierReads.empty() && !c.wrInReset && !anyRdEn && rng.chance(1, 2)) p.rmw = earlierReads[rng.below(earlierReads.size())];
		}
		c.ports.push_back(p);
	}
	// registers with an enable cannot be retimed across logic that also feeds a write port without that enable (explicit design
	// check "A retiming error occured", RegisterRetiming.cpp:1478-1494): no read-modify-write data when a read register has an enable
	{ bool anyRdEn = false; for (auto &q : c.ports) anyRdEn |= q.rdEn; if (anyRdEn) for (auto &q : c.ports) q.rmw = -1; }
	// ... unless the write port sits in the same ENIF scope as the registers of the read port it depends on: then the enable
	// conditions are compatible and hazard bypass logic with a register enable is generated
	// mode 9 keeps to one enable domain (every read port of the memory under that same enable, register mode of the hazard logic);
	// mode 10 also has read ports under other enables / none and latency 3 (ring buffer mode)
	if ((mode == 9 && useRdEn && c.L <= 2 && rng.chance(1, 2)) || (mode == 10 && useRdEn)) {
		for (size_t i = 0; i < c.ports.size(); i++) if (!c.ports[i].isWrite && c.ports[i].rdEn && std::all_of(c.ports[i].stEn.begin(), c.ports[i].stEn.end(), [](int e) { return e == 0; })) {
			bool firstRead = true; for (size_t j = 0; j < i; j++) if (!c.ports[j].isWrite) firstRead = false;
			if (mode == 9 && !firstRead) break;   // an earlier read port could not share the enable pin
			bool any = false;
			for (size_t j = i + 1; j < c.ports.size(); j++) if (c.ports[j].isWrite) { c.ports[j].rmw = (int) i; c.ports[j].enOf = (int) i; any = true; }
			if (any) {
				c.rmwEn = true;
				for (size_t j = i + 1; j < c.ports.size(); j++) if (!c.ports[j].isWrite && (mode == 9 || rng.chance(1, 3))) {
					c.ports[j].rdEn = true; c.ports[j].stEn.assign(c.L, 0); c.ports[j].enFrom = (int) i;
				}
				break;
			}
		}
	}
	c.init = (nW == 0) ? 2 : (int) rng.below(4);
	if (mode == 2 && nW > 0 && rng.chance(1, 2)) c.init = 0;   // the Xilinx primitives are only mapped for memories without power-on contents
	if (c.memReset) { c.init = 1 + (int) rng.below(2); c.initNet = c.init == 1 && rng.chance(1, 2); c.idle = c.depth + 4; }
	if (mode == 11) {
		if (nW > 0) c.init = 1 + (int) rng.below(3);
		c.initNet = false;
		// reads before the first write: the power-on contents (or their absence) are what the read ports show
		c.idle = (c.memReset ? c.depth + 3 : (c.noReset ? 0 : 1)) + 1 + rng.below(4);
	}
	if (mode == 8) {
		switch (rng.below(3)) { case 0: c.init = 1; c.initNet = true; break; case 1: c.init = 2; c.initNet = false; break; default: c.init = 4; c.initNet = true; break; }
		c.resetXor = rng.next() & ((c.width >= 64 ? ~0ull : (1ull << c.width) - 1));
		// MemoryDetector.cpp:778-781 / 827-830: one reset cycle per word, one more for the ROM's read register, one more for an asynchronous reset
		size_t resetCycles = c.depth + (c.initNet ? 0 : 1) + (c.asyncReset ? 1 : 0) + c.extraReset;
		c.rcPred = resetCycles;
		c.idle = c.wrInReset ? 0 : resetCycles;
	}
	for (size_t i = 0; i < c.depth; i++) {
		if (c.init == 0) c.initWords.push_back(std::string(c.width, 'x'));
		else if (c.init == 1) c.initWords.push_back(std::string(c.width, '0'));
		else if (c.init == 2) c.initWords.push_back(randBits(rng, c.width));
		else if (c.init == 4) c.initWords.push_back(bitsOf((i ^ c.resetXor) & (c.width >= 64 ? ~0ull : (1ull << c.width) - 1), c.width));
		else c.initWords.push_back(i < std::max<size_t>(1, c.depth / 2) ? randBits(rng, c.width) : std::string(c.width, 'x'));
	}
	return c;
}

static void runCase(const std::string &id, vh::Rng &rng, size_t ncycles, int mode) {
	CaseCfg c = genCase(rng, mode);
	std::vector<std::string> internals, pinsPre, pinsPost;
	std::string preRes = "ok", postRes = "ok";
	size_t resetCycles = 0;
	std::string netInfo = "-";
	std::vector<std::string> renField, pinDecl;
	Stim st;
	if (c.init == 4) {
		// a memory with an addResetLogic network cannot be simulated as built (the network from INITIALIZATION_ADDR back to
		// INITIALIZATION_DATA is a combinational cycle through the memory node until buildResetLogic cuts it): the netlist
		// "before post-processing" is the twin design without the network (same power-on image)
		try {
			DesignScope twin; Built tb;
			build(twin, c, tb, false);
			st = genStim(rng, c, tb, ncycles, mode);
			simulate(twin, tb, st, true, internals, pinsPre);
		} catch (const std::exception &e) { preRes = "e twin"; if (getenv("VH_DEBUG")) std::cerr << id << " twin: " << e.what() << "\n"; }
	}
	{
		DesignScope design;
		if (c.dev == 1) { auto d = std::make_unique<scl::IntelDevice>(); d->setupArria10(); design.setTargetTechnology(std::move(d)); }
		if (c.dev == 2) { auto d = std::make_unique<scl::XilinxDevice>(); d->setupKintexUltrascale(); design.setTargetTechnology(std::move(d)); }
		if (c.dev == 3) { auto d = std::make_unique<scl::XilinxDevice>(); d->setupZynq7(); design.setTargetTechnology(std::move(d)); }
		if (c.dev == 4) { auto d = std::make_unique<scl::IntelDevice>(); d->setupCyclone10(); design.setTargetTechnology(std::move(d)); }
		Built b;
		try {
			build(design, c, b);
			if (c.init != 4) {
				st = genStim(rng, c, b, ncycles, mode);
				simulate(design, b, st, true, internals, pinsPre);
			}
			// the pins the stimulus is applied to: kind a(ddress) d(ata) e(write condition IF) r(ead register enable ENIF), declared port, number, width
			for (size_t k = 0; k < b.inPins.size(); k++) {
				std::ostringstream o; o << "pin " << k << " " << "aedr"[b.inKind[k] == 0 ? 0 : b.inKind[k] == 1 ? 1 : b.inKind[k] == 2 ? 2 : 3] << " port=" << b.inPort[k] << " sub=" << b.inSub[k] << " w=" << b.inWidths[k];
				pinDecl.push_back(o.str());
			}
			if ((mode == 9 || mode == 10))   // the read enable pins, one column per read port
				for (auto &row : st) {
					std::string f;
					for (size_t i = 0; i < c.ports.size(); i++) if (!c.ports[i].isWrite) {
						// per stage the value of its enable, '-' for a stage without enable scope
						std::string v;
						for (size_t st = 0; st < c.L; st++) {
							int e = st < c.ports[i].stEn.size() ? c.ports[i].stEn[st] : -1; std::string x = "-";
							int owner = c.ports[i].enFrom >= 0 ? c.ports[i].enFrom : (int) i;
							for (size_t k = 0; k < b.inPins.size(); k++) if (e >= 0 && b.inKind[k] == 3 && b.inPort[k] == owner && b.inSub[k] == e) x = row[k];
							v += (st ? "," : "") + x;
						}
						f += " " + (v.empty() ? std::string("-") : v);
					}
					renField.push_back(f);
				}
		} catch (const std::exception &e) {
			std::string w = e.what(), hint; size_t p = w.find("Hint:");
			if (p != std::string::npos) { hint = w.substr(p + 5); hint = hint.substr(0, hint.find('\n')); } else hint = w.substr(0, w.find('\n'));
				if (size_t q = hint.find(" Location:"); q != std::string::npos) hint = hint.substr(0, q);
			std::string slug; for (char ch : hint) { if (isalnum((unsigned char) ch)) slug.push_back(ch); else if (!slug.empty() && slug.back() != '_') slug.push_back('_'); }
			preRes = "e " + slug.substr(0, 60);
			if (getenv("VH_DEBUG")) std::cerr << id << " pre: " << e.what() << "\n";
		}
		if (preRes == "ok") {
			try {
				design.postprocess();
				if (c.extraReset) b.clock->getClk()->setMinResetCycles(b.clock->getClk()->getMinResetCycles() + c.extraReset);
				resetCycles = b.clock->getClk()->getMinResetCycles();
				{	// what the memory became: remaining generic memory ports and instantiated vendor primitives
					size_t nPorts = 0, nMems = 0; std::map<std::string, size_t> ext;
					for (auto &n : design.getCircuit().getNodes()) {
						if (dynamic_cast<hlim::Node_MemPort*>(n.get())) nPorts++;
						if (dynamic_cast<hlim::Node_Memory*>(n.get())) nMems++;
						if (auto *e = dynamic_cast<hlim::Node_External*>(n.get())) ext[e->getTypeName()]++;
					}
					std::ostringstream o; o << "mems=" << nMems << " memports=" << nPorts << " ext=";
					if (ext.empty()) o << "-"; bool first = true;
					for (auto &kv : ext) { o << (first ? "" : ",") << kv.first << ":" << kv.second; first = false; }
					netInfo = o.str();
				}
				simulate(design, b, st, false, internals, pinsPost);
			} catch (const std::exception &e) {
				// canonical reason: the hint text of the design check, words joined by '_' (nothing address dependent)
				std::string w = e.what(), hint; size_t p = w.find("Hint:");
				if (p != std::string::npos) { hint = w.substr(p + 5); hint = hint.substr(0, hint.find('\n')); } else hint = w.substr(0, w.find('\n'));
				if (size_t q = hint.find(" Location:"); q != std::string::npos) hint = hint.substr(0, q);
				std::string slug; for (char ch : hint) { if (isalnum((unsigned char) ch)) slug.push_back(ch); else if (!slug.empty() && slug.back() != '_') slug.push_back('_'); }
				postRes = "e " + slug.substr(0, 100); pinsPost.clear();
				if (getenv("VH_DEBUG")) std::cerr << id << " post: " << e.what() << "\n";
			}
		}
	}
	std::cout << std::dec << "case " << id << " depth=" << c.depth << " width=" << c.width << " aw=" << log2c(c.depth) << " L=" << c.L << " type=" << typeName(c.type)
		<< " init=" << c.init << " dev=" << c.dev << " mode=" << mode << " idle=" << c.idle << " memreset=" << (c.memReset ? 1 : 0) << " noreset=" << (c.noReset ? 1 : 0) << " initnet=" << (c.initNet ? 1 : 0) << " async=" << (c.asyncReset ? 1 : 0) << " extra=" << c.extraReset << " wrinreset=" << (c.wrInReset ? 1 : 0) << " rcpred=" << c.rcPred << " initregs=" << (c.initRegs ? 1 : 0) << " initmem=" << (c.initMem ? 1 : 0) << " enlow=" << c.enLow << " rmwen=" << (c.rmwEn ? 1 : 0)
		<< " explicit=" << (c.explicitLatency ? 1 : 0) << " resetcycles=" << resetCycles << " ports=" << c.ports.size() << "\n";
	for (size_t i = 0; i < c.ports.size(); i++) {
		const PortCfg &p = c.ports[i];
		std::cout << "port " << i << (p.isWrite ? " W" : " R");
		if (p.isWrite) std::cout << " cond=" << (p.cond ? 1 : 0) << " rmw=" << (p.rmw >= 0 ? std::to_string(p.rmw) : "-") << " enof=" << (p.enOf >= 0 ? std::to_string(p.enOf) : "-");
		std::cout << " share=" << (p.share >= 0 ? std::to_string(p.share) : "-") << " aextra=" << p.addrExtra;
		if (!p.isWrite) {
			std::cout << " xor=" << (p.outXor.empty() ? "-" : p.outXor) << " en=" << (p.rdEn ? 1 : 0) << " sten=";
			if (p.stEn.empty()) std::cout << "-"; for (size_t k = 0; k < p.stEn.size(); k++) std::cout << (k ? "," : "") << (p.stEn[k] < 0 ? std::string("-") : std::to_string(p.stEn[k]));
			std::cout << " enfrom=" << (p.enFrom >= 0 ? std::to_string(p.enFrom) : "-") << " rst=";
			if (p.rstVals.empty()) std::cout << "-"; for (size_t k = 0; k < p.rstVals.size(); k++) std::cout << (k ? "," : "") << p.rstVals[k];
		}
		std::cout << "\n";
	}
	for (auto &l : pinDecl) std::cout << l << "\n";
	std::cout << "mem"; for (auto &w : c.initWords) std::cout << ' ' << w; std::cout << "\n";
	std::cout << "pre " << preRes << "\npost " << postRes << "\nnet " << netInfo << "\n";
	for (size_t t = 0; t < internals.size(); t++) {
		std::cout << "c " << t << " ;" << internals[t] << " ;" << pinsPre[t] << " ;" << (t < pinsPost.size() ? pinsPost[t] : std::string(" -")) << " ;" << (t < renField.size() ? renField[t] : std::string(" -")) << " ;";
		for (auto &v : st[t]) std::cout << ' ' << v;
		std::cout << "\n";
	}
	std::cout << "end\n";
}

int main(int argc, char **argv) {
	uint64_t seed = vh::argU64(argc, argv, 1, 1);
	size_t ncases = vh::argU64(argc, argv, 2, 10);
	size_t ncycles = vh::argU64(argc, argv, 3, 100);
	int mode = (int) vh::argU64(argc, argv, 4, 0);
	uint64_t salt = vh::argU64(argc, argv, 5, 0);   // further streams of the same mode
	// gatery may drop debug files into the cwd
	auto tmp = std::filesystem::temp_directory_path() / ("c07_" + std::to_string(getpid()));
	std::filesystem::create_directories(tmp); std::filesystem::current_path(tmp);
	vh::Rng master(seed * 1000003 + mode * 7919 + salt * 104729 + 17);
	for (size_t i = 0; i < ncases; i++) {
		vh::Rng rng = master.fork();
		runCase(std::to_string(mode) + (salt ? "s" + std::to_string(salt) : std::string()) + "." + std::to_string(i), rng, ncycles, mode);
	}
	std::filesystem::current_path("/"); std::error_code ec; std::filesystem::remove_all(tmp, ec);
	return 0;
}
