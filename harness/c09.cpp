// C09 harness: the circuit graph stays well formed under every mutation.
//
//   c09 <seed> <ncases> <param> [mode]
//     mode "ops"    (default): <param> random graph operations per case on real hlim nodes of several kinds inside a
//                              hlim::Circuit, through the public API (plus a Node_External subclass that exposes the protected
//                              NodeIO primitives the way every node class does); full graph dump after every operation.
//     mode "design":           a random frontend design of about <param> statements; full graph dump after construction and
//                              after every pass boundary of the post-processing (variants: real DefaultPostprocessing and
//                              MinimalPostprocessing with a dump from the pass-boundary hook `hlim::verif_passBoundary` after
//                              every pass, the DefaultPostprocessing pass sequence replayed through the public Circuit methods
//                              with a dump after every pass, the same after shuffleNodes(), and a repeated application of the
//                              sequence on an already post-processed, then shuffled circuit).
//
// Dump format (one graph):
//   D <size>                                         size = number of node handles handed out so far
//   o <h> ...                                        Circuit::m_nodes in storage order
//   n <h> <id> <cls> <ref> <grp|-> <nIn> <d.p|-|?>… <nOut> {<kind> <width> <nCons> <c.p|?>…}… <nClk> <clk|-|?>…
//   g <gid> <n> <h|?>…                                NodeGroup::m_nodes in order
//   gt <gid> <parent|-|?> <n> <child|!|?>…            NodeGroup::m_parent and the child slots in order ('!' = null unique_ptr)
//   k <cid> <clkdrv|-|?> <rstdrv|-|?> <n> <h.p|?>… c <m> <h.p|?>…    Clock::m_clockDriver, m_resetDriver, m_clockedNodes (sorted by handle),
//                                                     m_clockedNodesCache (in order); all peeked, never through getClockedNodes()  (k <cid> x : destroyed)
//   <cls>: 0 other, 1 Node_Signal, 2 Node_Signal2Clk, 3 Node_Signal2Rst
//   t <h> <KIND> …                                    (design mode) node kind and the parameters the type check needs
//   .
// A pointer that does not belong to a live node / group / clock of this circuit is printed as '?' without being dereferenced.
#include <gatery/pch.h>
#include <gatery/frontend.h>
#include <gatery/hlim/Circuit.h>
#include <gatery/hlim/Subnet.h>
#include <gatery/hlim/NodeGroup.h>
#include <gatery/hlim/Clock.h>
#include <gatery/hlim/NodePtr.h>
#include <gatery/hlim/coreNodes/Node_Signal.h>
#include <gatery/hlim/coreNodes/Node_Logic.h>
#include <gatery/hlim/coreNodes/Node_Arithmetic.h>
#include <gatery/hlim/coreNodes/Node_Compare.h>
#include <gatery/hlim/coreNodes/Node_Multiplexer.h>
#include <gatery/hlim/coreNodes/Node_Rewire.h>
#include <gatery/hlim/coreNodes/Node_Register.h>
#include <gatery/hlim/coreNodes/Node_Constant.h>
#include <gatery/hlim/coreNodes/Node_Shift.h>
#include <gatery/hlim/coreNodes/Node_Pin.h>
#include <gatery/hlim/coreNodes/Node_PriorityConditional.h>
#include <gatery/hlim/coreNodes/Node_Signal2Clk.h>
#include <gatery/hlim/coreNodes/Node_Signal2Rst.h>
#include <gatery/hlim/supportNodes/Node_External.h>
#include <gatery/hlim/supportNodes/Node_MemPort.h>
#include <gatery/hlim/postprocessing/MemoryDetector.h>
#include <gatery/hlim/postprocessing/DefaultValueResolution.h>
#include <gatery/hlim/postprocessing/AttributeFusion.h>
#include <gatery/hlim/postprocessing/TechnologyMapping.h>
#include <gatery/hlim/postprocessing/Retiming.h>
#include "common.h"
#include <iostream>
#include <map>
#include <algorithm>

using namespace gtry;
using vh::Rng;
using hlim::BaseNode;
using hlim::NodePort;

// ------------------------------------------------------------------------------------------------------------------
// dumping

struct Maps {
	size_t size = 0;
	std::map<const BaseNode*, size_t> node;
	std::vector<const hlim::NodeGroup*> groups;
	std::map<const hlim::NodeGroup*, size_t> group;
	std::vector<const hlim::Clock*> clocks;        // nullptr = destroyed
	std::map<const hlim::Clock*, size_t> clock;    // live clocks only
};

static void collectGroups(const hlim::NodeGroup *g, Maps &m) {
	m.group[g] = m.groups.size();
	m.groups.push_back(g);
	for (auto &c : g->getChildren()) collectGroups(c.get(), m);
}

// the two driver slots of a clock are protected members without accessor: read them through member pointers (no dereference of the
// node pointers themselves)
struct ClockPeek : public hlim::Clock {
	static hlim::Node_Signal2Clk *clkDrv(const hlim::Clock *c) { return c->*(&ClockPeek::m_clockDriver); }
	static hlim::Node_Signal2Rst *rstDrv(const hlim::Clock *c) { return c->*(&ClockPeek::m_resetDriver); }
	// the registration set and the lazily built sorted view of it, read WITHOUT Clock::getClockedNodes() (which would (re)build the view)
	static const auto &regSet(const hlim::Clock *c) { return (c->*(&ClockPeek::m_clockedNodes)).anyOrder(); }
	static const std::vector<NodePort> &regCache(const hlim::Clock *c) { return c->*(&ClockPeek::m_clockedNodesCache); }
};
static int classOf(const BaseNode *n) {
	if (dynamic_cast<const hlim::Node_Signal*>(n)) return 1;
	if (dynamic_cast<const hlim::Node_Signal2Clk*>(n)) return 2;
	if (dynamic_cast<const hlim::Node_Signal2Rst*>(n)) return 3;
	return 0;
}
static std::string slotStr(const Maps &m, const BaseNode *n) {
	if (n == nullptr) return "-";
	auto it = m.node.find(n);
	return it == m.node.end() ? "?" : std::to_string(it->second);
}

static std::string np(const Maps &m, const NodePort &p) {
	if (p.node == nullptr) return "-";
	auto it = m.node.find(p.node);
	if (it == m.node.end()) return "?";
	return std::to_string(it->second) + "." + std::to_string(p.port);
}

static const char *kindOf(const BaseNode *n) {
	if (dynamic_cast<const hlim::Node_Signal*>(n)) return "SIG";
	if (dynamic_cast<const hlim::Node_Logic*>(n)) return "LOGIC";
	if (dynamic_cast<const hlim::Node_Arithmetic*>(n)) return "ARITH";
	if (dynamic_cast<const hlim::Node_Compare*>(n)) return "CMP";
	if (dynamic_cast<const hlim::Node_Multiplexer*>(n)) return "MUX";
	if (dynamic_cast<const hlim::Node_Register*>(n)) return "REG";
	if (dynamic_cast<const hlim::Node_Shift*>(n)) return "SHIFT";
	if (dynamic_cast<const hlim::Node_Rewire*>(n)) return "REWIRE";
	if (dynamic_cast<const hlim::Node_PriorityConditional*>(n)) return "PRIO";
	if (dynamic_cast<const hlim::Node_Pin*>(n)) return "PIN";
	if (dynamic_cast<const hlim::Node_Constant*>(n)) return "CONST";
	return "OTHER";
}

static void dumpGraph(std::ostream &o, const hlim::Circuit &c, const Maps &m, bool types) {
	o << "D " << m.size << '\n';
	o << 'o';
	for (auto &n : c.getNodes()) {
		auto it = m.node.find(n.get());
		if (it == m.node.end()) o << " ?"; else o << ' ' << it->second;
	}
	o << '\n';
	std::vector<std::pair<size_t, const BaseNode*>> live;
	for (auto &n : c.getNodes()) {
		auto it = m.node.find(n.get());
		if (it != m.node.end()) live.push_back({it->second, n.get()});
	}
	std::sort(live.begin(), live.end());
	for (auto [h, n] : live) {
		o << "n " << h << ' ' << n->getId() << ' ' << classOf(n) << ' ' << (n->hasRef() ? 1 : 0) << ' ';
		if (n->getGroup() == nullptr) o << '-';
		else { auto it = m.group.find(n->getGroup()); if (it == m.group.end()) o << '?'; else o << it->second; }
		o << ' ' << n->getNumInputPorts();
		for (size_t i = 0; i < n->getNumInputPorts(); i++) o << ' ' << np(m, n->getDriver(i));
		o << ' ' << n->getNumOutputPorts();
		for (size_t i = 0; i < n->getNumOutputPorts(); i++) {
			auto t = n->getOutputConnectionType(i);
			auto &cons = n->getDirectlyDriven(i);
			o << ' ' << (int)t.type << ' ' << t.width << ' ' << cons.size();
			for (auto &p : cons) o << ' ' << np(m, p);
		}
		o << ' ' << n->getClocks().size();
		for (auto *clk : n->getClocks()) {
			if (clk == nullptr) o << " -";
			else { auto it = m.clock.find(clk); if (it == m.clock.end()) o << " ?"; else o << ' ' << it->second; }
		}
		o << '\n';
	}
	for (size_t g = 0; g < m.groups.size(); g++) {
		auto &ns = m.groups[g]->getNodes();
		o << "g " << g << ' ' << ns.size();
		for (auto *n : ns) { auto it = m.node.find(n); if (it == m.node.end()) o << " ?"; else o << ' ' << it->second; }
		o << '\n';
	}
	// the group tree: parent pointer and child slots of every group, through raw pointers (a null / foreign slot is printed, not followed)
	for (size_t g = 0; g < m.groups.size(); g++) {
		const hlim::NodeGroup *par = m.groups[g]->getParent();
		o << "gt " << g << ' ';
		if (par == nullptr) o << '-'; else { auto it = m.group.find(par); if (it == m.group.end()) o << '?'; else o << it->second; }
		auto &ch = m.groups[g]->getChildren();
		o << ' ' << ch.size();
		for (auto &c : ch) {
			const hlim::NodeGroup *cp = c.get();
			if (cp == nullptr) o << " !"; else { auto it = m.group.find(cp); if (it == m.group.end()) o << " ?"; else o << ' ' << it->second; }
		}
		o << '\n';
	}
	for (size_t k = 0; k < m.clocks.size(); k++) {
		if (m.clocks[k] == nullptr) { o << "k " << k << " x\n"; continue; }
		const auto &cn = ClockPeek::regSet(m.clocks[k]);
		std::vector<std::pair<size_t, size_t>> known; size_t unknown = 0;
		for (auto &p : cn) { auto it = m.node.find(p.node); if (it == m.node.end()) unknown++; else known.push_back({it->second, p.port}); }
		std::sort(known.begin(), known.end());
		o << "k " << k << ' ' << slotStr(m, ClockPeek::clkDrv(m.clocks[k])) << ' ' << slotStr(m, ClockPeek::rstDrv(m.clocks[k])) << ' ' << cn.size();
		for (auto &p : known) o << ' ' << p.first << '.' << p.second;
		for (size_t i = 0; i < unknown; i++) o << " ?";
		const auto &cache = ClockPeek::regCache(m.clocks[k]);
		o << " c " << cache.size();
		for (auto &p : cache) o << ' ' << np(m, p);
		o << '\n';
	}
	if (types)
		for (auto [h, n] : live) {
			o << "t " << h << ' ' << kindOf(n);
			if (auto *rw = dynamic_cast<const hlim::Node_Rewire*>(n)) {
				o << ' ' << rw->getOp().ranges.size();
				for (auto &r : rw->getOp().ranges)
					o << ' ' << r.subwidth << ' ' << (int)r.source << ' ' << (r.source == hlim::Node_Rewire::OutputRange::INPUT ? r.inputIdx : 0)
					  << ' ' << (r.source == hlim::Node_Rewire::OutputRange::INPUT ? r.inputOffset : 0);
			}
			o << '\n';
		}
	o << ".\n";
}

// ------------------------------------------------------------------------------------------------------------------
// mode "ops"

struct XNode : public hlim::Node_External {
	XNode(size_t i, size_t o) { m_name = "X"; resizeIOPorts(i, o); }
	std::unique_ptr<BaseNode> cloneUnconnected() const override {
		auto *n = new XNode(0, 0); std::unique_ptr<BaseNode> r(n); copyBaseToClone(n); return r;
	}
	void rin(size_t n) { resizeInputs(n); }
	void rout(size_t n) { resizeOutputs(n); }
	void stype(size_t o, const hlim::ConnectionType &t) { setOutputConnectionType(o, t); }
	void disc(size_t i) { NodeIO::disconnectInput(i); }
};

struct OpsCase {
	Rng &rng;
	std::ostream &o;
	std::unique_ptr<hlim::Circuit> circuitPtr = std::make_unique<hlim::Circuit>();
	hlim::Circuit &circuit = *circuitPtr;
	Maps m;
	std::vector<BaseNode*> byHandle;           // nullptr once destroyed
	std::vector<hlim::NodeGroup*> groups;
	std::vector<hlim::Clock*> clocks;              // nullptr = destroyed
	std::vector<std::unique_ptr<hlim::Clock>> ownClocks;   // clocks that do not belong to the circuit (can be destroyed at any time)
	std::vector<std::pair<size_t, hlim::NodePtr<BaseNode>>> ptrs;  // NodePtr handles held by "the frontend"

	OpsCase(Rng &r, std::ostream &os) : rng(r), o(os) {
		groups.push_back(circuit.getRootNodeGroup());
		m.group[groups[0]] = 0; m.groups.push_back(groups[0]);
	}

	std::vector<size_t> liveHandles() const {
		std::vector<size_t> v;
		for (size_t h = 0; h < byHandle.size(); h++) if (byHandle[h]) v.push_back(h);
		return v;
	}
	// after an operation that may have destroyed nodes: forget every handle that is no longer stored in the circuit
	void syncLive() {
		std::map<const BaseNode*, size_t> still;
		for (auto &n : circuit.getNodes()) { auto it = m.node.find(n.get()); if (it != m.node.end()) still.insert(*it); }
		for (size_t h = 0; h < byHandle.size(); h++) if (byHandle[h] && !still.count(byHandle[h])) byHandle[h] = nullptr;
		m.node = std::move(still);
	}
	// after an operation that may have created nodes / clocks inside the library (copySubnet): hand out handles in creation order
	void adoptNew() {
		for (auto &n : circuit.getNodes())
			if (!m.node.count(n.get())) { m.node[n.get()] = byHandle.size(); byHandle.push_back(n.get()); }
		m.size = byHandle.size();
		for (auto &c : circuit.getClocks())
			if (!m.clock.count(c.get())) { m.clock[c.get()] = clocks.size(); m.clocks.push_back(c.get()); clocks.push_back(c.get()); }
	}
	static bool isDrv(const BaseNode *n) { return classOf(n) >= 2; }
	// hasSideEffects() of a Signal2Clk/Rst: bound to a clock; no pass deletes such a node and its clock port belongs to setLogic…Driver
	static bool boundDrv(const BaseNode *n) { return isDrv(n) && n->getClocks()[0] != nullptr; }
	std::vector<size_t> liveClocks() const {
		std::vector<size_t> v;
		for (size_t c = 0; c < clocks.size(); c++) if (clocks[c]) v.push_back(c);
		return v;
	}
	void dump() { dumpGraph(o, circuit, m, false); }

	std::string target(bool allowNull, NodePort &out) {
		auto lv = liveHandles();
		std::vector<std::pair<size_t, size_t>> outs;
		for (auto h : lv) for (size_t p = 0; p < byHandle[h]->getNumOutputPorts(); p++) outs.push_back({h, p});
		if (outs.empty() || (allowNull && rng.chance(1, 8))) { out = {}; return "-"; }
		auto [h, p] = outs[rng.below(outs.size())];
		out = {.node = byHandle[h], .port = p};
		return std::to_string(h) + "." + std::to_string(p);
	}

	template<class F> void exec(const std::string &line, F f) {
		o << "op " << line << '\n';
		try { f(); o << "r ok\n"; }
		catch (const utils::InternalError &) { o << "r e\n"; }
		catch (const utils::DesignError &) { o << "r e\n"; }
		syncLive();
		adoptNew();
		dump();
	}

	void newNode() {
		unsigned k = (unsigned) rng.below(100);
		BaseNode *n; const char *kn;
		if (k < 40) { n = circuit.createNode<hlim::Node_Signal>(); kn = "S"; }
		else if (k < 65) { n = circuit.createNode<XNode>(rng.below(4), rng.below(3) + (rng.chance(3, 4) ? 1 : 0)); kn = "X"; }
		else if (k < 75) { n = circuit.createNode<hlim::Node_Register>(); kn = "R"; }
		else if (k < 78) { n = circuit.createNode<hlim::Node_Multiplexer>(1 + rng.below(3)); kn = "M"; }
		else if (k < 81) { n = circuit.createNode<hlim::Node_Logic>(hlim::Node_Logic::AND); kn = "L"; }
		else if (k < 85) { n = circuit.createNode<hlim::Node_Arithmetic>(hlim::Node_Arithmetic::ADD, 2 + rng.below(2)); kn = "A"; }
		else if (k < 88) { n = circuit.createNode<hlim::Node_Signal2Clk>(); kn = "K"; }
		else if (k < 91) { n = circuit.createNode<hlim::Node_Signal2Rst>(); kn = "Z"; }
		else if (k < 94) { n = circuit.createNode<hlim::Node_Rewire>(1 + rng.below(3)); kn = "W"; }
		else if (k < 96) { n = circuit.createNode<hlim::Node_Pin>(true, false, false); kn = "P"; }
		else if (k < 98) { n = circuit.createNode<hlim::Node_MemPort>(1 + rng.below(4)); kn = "T"; }
		else { n = circuit.createNode<hlim::Node_Constant>(true); kn = "C"; }
		size_t h = byHandle.size();
		byHandle.push_back(n); m.node[n] = h; m.size = byHandle.size();
		o << "op new " << kn << ' ' << (kn[0] == 'S' ? 1 : 0) << ' ' << n->getNumInputPorts() << ' ' << n->getNumOutputPorts() << ' ' << n->getClocks().size();
		for (size_t i = 0; i < n->getNumOutputPorts(); i++) o << ' ' << (int)n->getOutputConnectionType(i).type << ' ' << n->getOutputConnectionType(i).width;
		o << "\nr ok\n";
		dump();
	}

	BaseNode *newKind(bool clkDriver) {
		BaseNode *n = clkDriver ? (BaseNode*)circuit.createNode<hlim::Node_Signal2Clk>() : (BaseNode*)circuit.createNode<hlim::Node_Signal2Rst>();
		size_t h = byHandle.size();
		byHandle.push_back(n); m.node[n] = h; m.size = byHandle.size();
		o << "op new " << (clkDriver ? "K" : "Z") << " 0 " << n->getNumInputPorts() << ' ' << n->getNumOutputPorts() << ' ' << n->getClocks().size() << "\nr ok\n";
		dump();
		return n;
	}
	void setDrv(size_t ci, BaseNode *n) {
		bool isClk = classOf(n) == 2;
		exec("setdrv " + std::to_string(isClk ? 1 : 2) + " " + std::to_string(ci) + " " + std::to_string(m.node[n]), [&] {
			if (isClk) clocks[ci]->setLogicClockDriver(static_cast<hlim::Node_Signal2Clk*>(n));
			else clocks[ci]->setLogicResetDriver(static_cast<hlim::Node_Signal2Rst*>(n));
		});
	}
	// what the frontend's Clock::overrideClkWith / overrideRstWith do (fresh driver node, connect, bind), in either order, repeated
	void overrideSeq(size_t ci) {
		size_t rounds = 1 + rng.below(3);
		for (size_t r = 0; r < rounds * 2; r++) {
			bool clk = rng.chance(1, 2);
			BaseNode *n = newKind(clk);
			NodePort d; std::string ds = target(true, d);
			exec("connect " + std::to_string(m.node[n]) + " 0 " + ds, [&] { n->rewireInput(0, d); });
			setDrv(ci, n);
		}
	}

	void step() {
		auto lv = liveHandles();
		unsigned op = (unsigned) rng.below(100);
		if (lv.size() < 3 || (op < 12 && lv.size() < 22)) { newNode(); return; }
		size_t h = lv[rng.below(lv.size())];
		BaseNode *n = byHandle[h];
		std::string hs = std::to_string(h);
		if (op >= 34 && op < 39) { // Circuit::createUnconnectedClone, then (often) the clone joins the clock domain of its source
			exec("clone " + hs, [&] { circuit.createUnconnectedClone(n); });
			size_t hc = byHandle.size() - 1;
			BaseNode *cl = byHandle[hc];
			if (cl == nullptr || cl == n) return;
			for (size_t p = 0; !isDrv(n) && p < n->getClocks().size() && p < cl->getClocks().size(); p++) {
				hlim::Clock *c = n->getClocks()[p];
				if (c == nullptr || !m.clock.count(c) || !rng.chance(2, 3)) continue;
				size_t ci = m.clock[c];
				if (rng.chance(1, 5)) { auto lc = liveClocks(); ci = lc[rng.below(lc.size())]; }   // sometimes another clock
				exec("attach " + std::to_string(hc) + " " + std::to_string(p) + " " + std::to_string(ci), [&] { cl->attachClock(clocks[ci], p); });
			}
			if (rng.chance(1, 3) && cl->getNumInputPorts() > 0 && n->getNumOutputPorts() > 0) {
				size_t i = rng.below(cl->getNumInputPorts()), po = rng.below(n->getNumOutputPorts());
				exec("connect " + std::to_string(hc) + " " + std::to_string(i) + " " + hs + "." + std::to_string(po), [&] { cl->rewireInput(i, {.node = n, .port = po}); });
			}
			if (rng.chance(1, 4)) { // delete the original or the clone right away
				auto &v = circuit.getNodes();
				BaseNode *victim = rng.chance(1, 2) ? n : cl;
				size_t i = 0; while (i < v.size() && v[i].get() != victim) i++;
				if (i < v.size() && !victim->hasRef() && !boundDrv(victim))
					exec("erase " + std::to_string(i), [&] { if (i + 1 != v.size()) v[i] = std::move(v.back()); v.pop_back(); });
			}
		} else if (op >= 39 && op < 42) { // Circuit::copySubnet of the cone behind some outputs, cut at some inputs
			if (lv.size() > 16) return;
			utils::StableSet<NodePort> ins, outs;
			for (size_t k = 1 + rng.below(2); k > 0; k--) { NodePort d; target(false, d); if (d.node) outs.insert(d); }
			if (outs.empty()) return;
			for (size_t k = rng.below(4); k > 0; k--) {
				BaseNode *x = byHandle[lv[rng.below(lv.size())]];
				if (x->getNumInputPorts()) ins.insert({.node = x, .port = rng.below(x->getNumInputPorts())});
			}
			bool cc = rng.chance(1, 2);
			std::string line = "copysubnet " + std::to_string(cc ? 1 : 0) + " " + std::to_string(ins.size());
			for (auto &p : ins) line += " " + np(m, p);
			line += " " + std::to_string(outs.size());
			for (auto &p : outs) line += " " + np(m, p);
			exec(line, [&] { utils::StableMap<BaseNode*, BaseNode*> map; circuit.copySubnet(ins, outs, map, cc); });
		} else if (op < 42) { // rewireInput == NodeIO::connectInput
			if (n->getNumInputPorts() == 0) { newNode(); return; }
			size_t i = rng.below(n->getNumInputPorts());
			NodePort d; std::string ds;
			// nodes whose output type follows their operands: the typed connectInput (NodeIO::connectInput + updateConnectionType). With
			// consumers attached a wider / differently typed operand must be refused (exception) - the operand is connected nevertheless.
			auto *arith = dynamic_cast<hlim::Node_Arithmetic*>(n);
			auto *logic = dynamic_cast<hlim::Node_Logic*>(n);
			if ((arith || logic) && rng.chance(3, 4)) {
				ds = target(true, d);
				exec("tconnect " + std::string(arith ? "1 " : "2 ") + hs + " " + std::to_string(i) + " " + ds, [&] {
					if (arith) arith->connectInput(i, d); else logic->connectInput(i, d);
				});
				return;
			}
			if (rng.chance(1, 6) && n->getNumOutputPorts() > 0) { d = {.node = n, .port = rng.below(n->getNumOutputPorts())}; ds = hs + "." + std::to_string(d.port); } // self loop
			else ds = target(true, d);
			exec("connect " + hs + " " + std::to_string(i) + " " + ds, [&] { n->rewireInput(i, d); });
		} else if (op < 50) { // raw disconnectInput where the node class offers it
			if (n->getNumInputPorts() == 0) return;
			size_t i = rng.below(n->getNumInputPorts());
			if (auto *s = dynamic_cast<hlim::Node_Signal*>(n)) exec("disconnect " + hs + " 0", [&] { s->disconnectInput(); });
			else if (auto *x = dynamic_cast<XNode*>(n)) exec("disconnect " + hs + " " + std::to_string(i), [&] { x->disc(i); });
			else if (auto *w = dynamic_cast<hlim::Node_Rewire*>(n)) exec("disconnect " + hs + " " + std::to_string(i), [&] { w->disconnectInput(i); });
			else exec("connect " + hs + " " + std::to_string(i) + " -", [&] { n->rewireInput(i, {}); });
		} else if (op < 56) { // Node_Signal::connectInput (typed)
			auto *s = dynamic_cast<hlim::Node_Signal*>(n);
			if (!s) return;
			NodePort d; std::string ds = target(true, d);
			exec("sconnect " + hs + " " + ds, [&] { s->connectInput(d); });
		} else if (op < 62) { // resize (Node_External subclass)
			auto *x = dynamic_cast<XNode*>(n);
			if (!x) return;
			size_t k = rng.below(5);
			if (rng.chance(1, 2)) exec("resizeIn " + hs + " " + std::to_string(k), [&] { x->rin(k); });
			else exec("resizeOut " + hs + " " + std::to_string(k), [&] { x->rout(k); });
		} else if (op < 70) { // bypassOutputToInput
			if (n->getNumOutputPorts() == 0) return;
			size_t op_ = rng.below(n->getNumOutputPorts());
			size_t i = rng.chance(1, 12) ? n->getNumInputPorts() + rng.below(2) : (n->getNumInputPorts() ? rng.below(n->getNumInputPorts()) : 0);
			if (i < n->getNumInputPorts() && n->getDriver(i) == NodePort{.node = n, .port = op_}) {
				// the real code would loop forever: only the model is asked (it must answer "diverge")
				o << "op bypassSelf " << h << ' ' << op_ << ' ' << i << "\nr skip\n";
				return;
			}
			exec("bypass " + hs + " " + std::to_string(op_) + " " + std::to_string(i), [&] { n->bypassOutputToInput(op_, i); });
		} else if (op < 75) { // setOutputConnectionType
			auto *x = dynamic_cast<XNode*>(n);
			if (!x || x->getNumOutputPorts() == 0) return;
			size_t op_ = rng.below(x->getNumOutputPorts());
			hlim::ConnectionType t; t.type = rng.chance(1, 3) ? hlim::ConnectionType::BOOL : hlim::ConnectionType::BITVEC; t.width = t.type == hlim::ConnectionType::BOOL ? 1 : 1 + rng.below(3);
			exec("settype " + hs + " " + std::to_string(op_) + " " + std::to_string((int)t.type) + " " + std::to_string(t.width), [&] { x->stype(op_, t); });
		} else if (op < 81) { // moveToGroup
			if (rng.chance(1, 4) && groups.size() >= 2) { // NodeGroup::moveInto: first / middle / last / only child, into sibling, uncle, ancestor …
				size_t gi = 1 + rng.below(groups.size() - 1), pi = rng.below(groups.size());
				// not into itself or one of its own descendants (that would detach the subtree into a cycle)
				bool legal = pi != gi && !groups[pi]->isChildOf(groups[gi]);
				if (legal) { exec("moveinto " + std::to_string(gi) + " " + std::to_string(pi), [&] { groups[gi]->moveInto(groups[pi]); }); return; }
			}
			if (rng.chance(1, 5) && groups.size() < 7) {
				auto *par = groups[rng.below(groups.size())];
				auto *g = par->addChildNodeGroup(rng.chance(1, 2) ? hlim::NodeGroupType::ENTITY : hlim::NodeGroupType::AREA, "g");
				m.group[g] = groups.size(); m.groups.push_back(g); groups.push_back(g);
				o << "op newgroup\nr ok\n"; dump();
				return;
			}
			bool toNull = rng.chance(1, 8);
			size_t g = rng.below(groups.size());
			exec("group " + hs + " " + (toNull ? std::string("-") : std::to_string(g)), [&] { n->moveToGroup(toNull ? nullptr : groups[g]); });
		} else if (op < 89) { // clocks
			auto lc = liveClocks();
			if (lc.size() < 3 && clocks.size() < 12 && (lc.empty() || rng.chance(1, 6))) {
				hlim::Clock *c;
				bool own = rng.chance(1, 2);
				if (own) { ownClocks.push_back(std::make_unique<hlim::RootClock>("clk", hlim::ClockRational(1000, 1))); c = ownClocks.back().get(); }
				else c = circuit.createClock<hlim::RootClock>("clk", hlim::ClockRational(1000, 1));
				m.clock[c] = clocks.size(); m.clocks.push_back(c); clocks.push_back(c);
				o << "op newclock " << (own ? "own" : "circuit") << "\nr ok\n"; dump();
				if (rng.chance(1, 2)) overrideSeq(clocks.size() - 1);
				return;
			}
			if (rng.chance(1, 12)) { // destroy a clock that does not belong to the circuit while nodes may still be attached
				for (auto &oc : ownClocks) if (oc && rng.chance(1, 2)) {
					size_t ci = m.clock[oc.get()];
					exec("killclock " + std::to_string(ci), [&] { m.clock.erase(oc.get()); m.clocks[ci] = nullptr; clocks[ci] = nullptr; oc.reset(); });
					return;
				}
				return;
			}
			if (lc.empty()) return;
			if (rng.chance(1, 10)) { overrideSeq(lc[rng.below(lc.size())]); return; }
			if (rng.chance(1, 5)) { // the caching getter, at random points: both cache states occur before later attach / detach operations
				size_t ci = lc[rng.below(lc.size())];
				exec("getclocked " + std::to_string(ci), [&] { (void) clocks[ci]->getClockedNodes(); });
				return;
			}
			if (isDrv(n)) { // Clock::setLogicClockDriver / setLogicResetDriver: first binding, re-binding, replacing the current driver
				size_t ci = lc[rng.below(lc.size())];
				bool isClk = classOf(n) == 2;
				for (auto c2 : lc) if (c2 != ci && (isClk ? (BaseNode*)ClockPeek::clkDrv(clocks[c2]) : (BaseNode*)ClockPeek::rstDrv(clocks[c2])) == n) return; // one clock per driver node
				setDrv(ci, n);
				return;
			}
			bool toNull = rng.chance(1, 6);
			size_t c = lc[rng.below(lc.size())];
			std::string cs = toNull ? "-" : std::to_string(c);
			size_t nc = n->getClocks().size();
			if (nc == 0 || rng.chance(1, 8)) { if (nc < 3) exec("addclock " + hs + " " + cs, [&] { n->addClock(toNull ? nullptr : clocks[c]); }); }
			else {
				size_t p = rng.below(nc);
				if (rng.chance(1, 4)) exec("detach " + hs + " " + std::to_string(p), [&] { n->detachClock(p); });
				else exec("attach " + hs + " " + std::to_string(p) + " " + cs, [&] { n->attachClock(toNull ? nullptr : clocks[c], p); });
			}
		} else if (op < 92) { // NodePtr handles
			if (rng.chance(1, 2) && ptrs.size() < 6) exec("addref " + hs, [&] { ptrs.emplace_back(h, hlim::NodePtr<BaseNode>(n)); });
			else {
				auto it = std::find_if(ptrs.begin(), ptrs.end(), [&](auto &p) { return p.first == h; });
				if (it != ptrs.end()) exec("remref " + hs, [&] { ptrs.erase(it); });
				else exec("remref " + hs, [&] { n->removeRef(); });  // refcount is zero: asserts
			}
		} else if (op < 98) { // the erase idiom of the cull passes on one position of m_nodes
			auto &v = circuit.getNodes();
			size_t i = rng.below(v.size());
			if (v[i]->hasRef()) return;   // every pass checks hasRef() first
			if (boundDrv(v[i].get())) return;   // … and never deletes a node with side effects
			exec("erase " + std::to_string(i), [&] {
				if (i + 1 != v.size()) v[i] = std::move(v.back());
				v.pop_back();
			});
		} else {
			exec("cull", [&] { circuit.cullOrphanedSignalNodes(); });
		}
	}
};

static void runOpsCase(Rng &rng, uint64_t id, size_t nops) {
	std::cout << "case " << id << " ops\n";
	std::cout.flush();
	{
		OpsCase c(rng, std::cout);
		for (size_t i = 0; i < nops; i++) c.step();
		c.ptrs.clear();
		// tear everything down in one of several orders (matters under the sanitizers: a stale registration or clock pointer is
		// dereferenced by ~BaseNode / ~Clock)
		unsigned order = (unsigned) rng.below(4);
		std::cout << "# teardown " << order << "\n";
		if (order == 0) c.ownClocks.clear();                       // clocks outside the circuit first, then the circuit
		else if (order == 1) { c.circuitPtr.reset(); c.ownClocks.clear(); }   // circuit (its clocks, groups, nodes) first
		else if (order == 2) {                                       // nodes one by one in random order, then clocks, then the rest
			auto &v = c.circuit.getNodes();
			while (!v.empty()) { size_t i = rng.below(v.size()); if (i + 1 != v.size()) v[i] = std::move(v.back()); v.pop_back(); }
			c.ownClocks.clear();
		} else {                                                     // alternate: some clocks, all nodes (back to front), remaining clocks
			for (auto &oc : c.ownClocks) if (rng.chance(1, 2)) oc.reset();
			auto &v = c.circuit.getNodes();
			while (!v.empty()) v.pop_back();
		}
	}
	std::cout << "end\n";
}

// ------------------------------------------------------------------------------------------------------------------
// mode "design"

static Maps mapsOf(hlim::Circuit &c) {
	Maps m;
	size_t h = 0;
	for (auto &n : c.getNodes()) m.node[n.get()] = h++;
	m.size = h;
	collectGroups(c.getRootNodeGroup(), m);
	for (auto &k : c.getClocks()) { m.clock[k.get()] = m.clocks.size(); m.clocks.push_back(k.get()); }
	return m;
}

static void dumpAt(const char *what, hlim::Circuit &c) {
	std::cout << "at " << what << '\n';
	Maps m = mapsOf(c);
	dumpGraph(std::cout, c, m, true);
	std::cout.flush();   // a crash inside the next pass must leave the case header and the last boundary in the stream
}

// Control of the spare capacity of Circuit::m_nodes (unobservable for correct code): before every pass the vector is shrunk
// to size()+r, r in 0..5, so that the (r+1)-th node a pass creates reallocates the vector *inside* that pass. A pass that keeps a
// reference / iterator into m_nodes across createNode() then reads freed memory (crash under MALLOC_PERTURB_ / ASan).
static Rng *g_capRng = nullptr;
static size_t g_capBefore = 0;
static void tighten(hlim::Circuit &c) {
	auto &v = c.getNodes();
	if (g_capRng) { v.shrink_to_fit(); v.reserve(v.size() + g_capRng->below(6)); }
	g_capBefore = v.capacity();
}
static void passDone(const char *pass, hlim::Circuit &c) {
	if (c.getNodes().capacity() != g_capBefore) std::cout << "rl " << pass << '\n';   // m_nodes was reallocated inside this pass
	tighten(c);
}

// pass-boundary hook of /repo (guard GATERY_VERIF): called after every pass inside Default/MinimalPostprocessing
static void hookBoundary(const char *pass, hlim::Circuit &c) { passDone(pass, c); dumpAt(pass, c); }
struct HookScope {
	HookScope() { hlim::verif_passBoundary = &hookBoundary; }
	~HookScope() { hlim::verif_passBoundary = nullptr; }
};

// Circuit::shuffleNodes() uses a default-seeded std::mt19937 (one fixed permutation per node count); permute with the harness RNG as
// well and record how many positions really changed (the dump numbers nodes by position, so the order is not visible there)
static void shuffleBoth(hlim::Circuit &c, Rng &rng) {
	auto &v = c.getNodes();
	std::vector<const BaseNode*> before; for (auto &n : v) before.push_back(n.get());
	if (rng.chance(1, 2)) c.shuffleNodes();
	for (size_t i = v.size(); i > 1; i--) std::swap(v[i - 1], v[rng.below(i)]);
	size_t moved = 0; for (size_t i = 0; i < v.size(); i++) if (v[i].get() != before[i]) moved++;
	std::cout << "sh " << moved << ' ' << v.size() << '\n';
}

// DefaultPostprocessing::run replayed through the public methods, with a dump after every pass (Circuit.cpp:1675-1782)
struct SteppedPostprocessing : public hlim::PostProcessor {
	bool dumps;
	explicit SteppedPostprocessing(bool d) : dumps(d) {}
	void at(const char *w, hlim::Circuit &c) const { passDone(w, c); if (dumps) dumpAt(w, c); }
	void generalOptimization(hlim::Circuit &circuit) const {
		using namespace hlim;
		circuit.insertConstUndefinedNodes(); at("insertConstUndefinedNodes", circuit);
		Subnet subnet = Subnet::all(circuit);
		circuit.disconnectZeroBitConnections(); at("disconnectZeroBitConnections", circuit);
		circuit.disconnectZeroBitOutputPins(); at("disconnectZeroBitOutputPins", circuit);
		defaultValueResolution(circuit, subnet); at("defaultValueResolution", circuit);
		circuit.cullUnusedNodes(subnet); at("cullUnusedNodes", circuit);
		circuit.propagateConstants(subnet); at("propagateConstants", circuit);
		circuit.ensureEntityPortSignalNodes(); at("ensureEntityPortSignalNodes", circuit);
		circuit.cullOrphanedSignalNodes(); at("cullOrphanedSignalNodes", circuit);
		circuit.cullUnnamedSignalNodes(); at("cullUnnamedSignalNodes", circuit);
		circuit.cullSequentiallyDuplicatedSignalNodes(); at("cullSequentiallyDuplicatedSignalNodes", circuit);
		subnet = Subnet::all(circuit);
		circuit.mergeRewires(subnet); at("mergeRewires", circuit);
		circuit.optimizeRewireNodes(subnet); at("optimizeRewireNodes", circuit);
		circuit.cullMuxConditionNegations(subnet); at("cullMuxConditionNegations", circuit);
		circuit.mergeMuxes(subnet); at("mergeMuxes", circuit);
		circuit.removeIrrelevantComparisons(subnet); at("removeIrrelevantComparisons", circuit);
		circuit.removeIrrelevantMuxes(subnet); at("removeIrrelevantMuxes", circuit);
		circuit.mergeBinaryMuxChain(subnet); at("mergeBinaryMuxChain", circuit);
		circuit.removeNoOps(subnet); at("removeNoOps", circuit);
		circuit.foldRegisterMuxEnableLoops(subnet); at("foldRegisterMuxEnableLoops", circuit);
		circuit.removeConstSelectMuxes(subnet); at("removeConstSelectMuxes", circuit);
		circuit.propagateConstants(subnet); at("propagateConstants2", circuit);
		circuit.cullUnusedNodes(subnet); at("cullUnusedNodes2", circuit);
		circuit.removeDisabledWritePorts(subnet); at("removeDisabledWritePorts", circuit);
		subnet = Subnet::all(circuit);
		determineNegativeRegisterEnables(circuit, subnet); at("determineNegativeRegisterEnables", circuit);
		resolveRetimingHints(circuit, subnet); at("resolveRetimingHints", circuit);
		annihilateNegativeRegisters(circuit, subnet); at("annihilateNegativeRegisters", circuit);
		bypassRetimingBlockers(circuit, subnet); at("bypassRetimingBlockers", circuit);
		attributeFusion(circuit); at("attributeFusion", circuit);
	}
	void run(hlim::Circuit &circuit) const override {
		using namespace hlim;
		TechnologyMapping mapping;
		mapping.apply(circuit, circuit.getRootNodeGroup(), true); at("techMapping1", circuit);
		generalOptimization(circuit);
		findMemoryGroups(circuit); at("findMemoryGroups", circuit);
		circuit.cullUnnamedSignalNodes(); at("cullUnnamedSignalNodes_m", circuit);
		{ Subnet subnet = Subnet::all(circuit); circuit.cullUnusedNodes(subnet); } at("cullUnusedNodes_m", circuit);
		mapping.apply(circuit, circuit.getRootNodeGroup(), false); at("techMapping2", circuit);
		generalOptimization(circuit);
		circuit.moveClockDriversToTop(); at("moveClockDriversToTop", circuit);
		circuit.ensureSignalNodePlacement(); at("ensureSignalNodePlacement", circuit);
		circuit.ensureMultiDriverNodePlacement(); at("ensureMultiDriverNodePlacement", circuit);
		circuit.ensureNoLiteralComparison(); at("ensureNoLiteralComparison", circuit);
		circuit.ensureChildNotReadingTristatePin(); at("ensureChildNotReadingTristatePin", circuit);
		circuit.inferSignalNames(); at("inferSignalNames", circuit);
	}
};

struct DesignGen {
	Rng &rng;
	std::vector<UInt> vecs;
	std::vector<Bit> bits;
	std::vector<UInt> zeros;     // zero-width signals
	size_t nameCtr = 0;
	explicit DesignGen(Rng &r) : rng(r) {}

	UInt &z() { return zeros[rng.below(zeros.size())]; }
	// statements around zero-width signals: 0-bit pins, slices, constants, concatenations, registers, muxes, compares, extensions
	// feeding wider logic, 0-bit output pins
	void zstmt() {
		unsigned k = (unsigned) rng.below(100);
		if (zeros.empty() || k < 12) { UInt e = pinIn(0_b).setName(name("zin")); zeros.push_back(e); }
		else if (k < 22) { UInt a = v(); UInt e = a(rng.below(a.width().bits() + 1), 0_b); zeros.push_back(e); }
		else if (k < 27) { UInt e = ConstUInt(0, 0_b); zeros.push_back(e); }
		else if (k < 33) { UInt e = cat(z(), z()); zeros.push_back(e); }
		else if (k < 39) { UInt e = rng.chance(1, 2) ? reg(z()) : reg(z(), ConstUInt(0, 0_b)); zeros.push_back(e); }
		else if (k < 45) { UInt e = mux(b(), {z(), z()}); zeros.push_back(e); }
		else if (k < 51) { UInt e = z(); UInt o = z(); IF (b()) e = o; zeros.push_back(e); }
		else if (k < 57) { Bit r = (z() == z()); maybeName(r); bits.push_back(r); }
		else if (k < 73) { UInt r = zext(z(), BitWidth{(unsigned)(1 + rng.below(4))}); maybeName(r); vecs.push_back(r); }
		else if (k < 85) { UInt a = v(); UInt r = rng.chance(1, 2) ? cat(z(), a) : cat(a, z()); if (r.width().bits() <= 80) vecs.push_back(r); }
		else if (k < 90) { UInt a = v(); UInt r = a + zext(z(), a.width()); vecs.push_back(r); }
		else if (k < 94) { UInt e = z(); if (rng.chance(1, 2)) e.setName(name("zs")); zeros.push_back(e); }
		else pinOut(z()).setName(name("zout"));
	}

	size_t genWidth() { return rng.chance(1, 12) ? 60 + rng.below(11) : 1 + rng.below(6); }
	std::string name(const char *p) { return std::string(p) + std::to_string(nameCtr++); }
	UInt &v() { return vecs[rng.below(vecs.size())]; }
	Bit &b() { return bits[rng.below(bits.size())]; }
	UInt fit(const UInt &a, size_t w) {
		if (a.width().bits() == w) return a;
		if (a.width().bits() > w) return a(0, BitWidth{(unsigned)w});
		return zext(a, BitWidth{(unsigned)w});
	}
	void maybeName(UInt &x) { if (rng.chance(1, 3)) x.setName(name("s")); }
	void maybeName(Bit &x) { if (rng.chance(1, 3)) x.setName(name("b")); }

	void stmt(int depth) {
		unsigned k = (unsigned) rng.below(100);
		if (k < 14) { UInt a = v(); UInt bb = fit(v(), a.width().bits()); UInt r;
			switch (rng.below(5)) { case 0: r = a + bb; break; case 1: r = a - bb; break; case 2: r = a & bb; break; case 3: r = a | bb; break; default: r = a ^ bb; }
			maybeName(r); vecs.push_back(r);
		} else if (k < 18) { UInt r = ~v(); maybeName(r); vecs.push_back(r);
		} else if (k < 26) { UInt a = v(); UInt bb = fit(v(), a.width().bits()); Bit r;
			switch (rng.below(4)) { case 0: r = a == bb; break; case 1: r = a != bb; break; case 2: r = a < bb; break; default: r = a == 0; }
			maybeName(r); bits.push_back(r);
		} else if (k < 32) { Bit x = b(), y = b(); Bit r;
			switch (rng.below(4)) { case 0: r = x & y; break; case 1: r = x | y; break; case 2: r = x ^ y; break; default: r = !x; }
			maybeName(r); bits.push_back(r);
		} else if (k < 38) { UInt a = v(); UInt bb = fit(v(), a.width().bits()); UInt r = mux(b(), {a, bb}); maybeName(r); vecs.push_back(r);
		} else if (k < 42) { // mux with a vector selector
			UInt a = v(); size_t w = a.width().bits();
			UInt sel = fit(v(), 1 + rng.below(2));
			std::vector<UInt> ch; for (size_t i = 0; i < (1u << sel.width().bits()); i++) ch.push_back(fit(v(), w));
			UInt r = mux(sel, ch); vecs.push_back(r);
		} else if (k < 48) { UInt a = v(), bb = v(); UInt r = cat(a, bb); if (r.width().bits() <= 80) vecs.push_back(r);
		} else if (k < 55) { UInt a = v(); size_t w = a.width().bits(); size_t sw = 1 + rng.below(w); size_t off = rng.below(w - sw + 1);
			UInt r = a(off, BitWidth{(unsigned)sw}); maybeName(r); vecs.push_back(r);
		} else if (k < 58) { UInt a = v(); Bit r = a[rng.below(a.width().bits())]; bits.push_back(r);
		} else if (k < 60) { UInt a = v(); UInt r = rng.chance(1, 2) ? UInt(a << (int)rng.below(3)) : UInt(a >> (int)rng.below(3)); vecs.push_back(r);
		} else if (k < 62) { UInt a = v(); UInt amt = fit(v(), 1 + rng.below(3)); UInt r = rng.chance(1, 2) ? zshl(a, amt) : rotr(a, amt); vecs.push_back(r);
		} else if (k < 66) { // read-modify-write of a slice
			UInt a = v(); size_t w = a.width().bits(); size_t sw = 1 + rng.below(w); size_t off = rng.below(w - sw + 1);
			a(off, BitWidth{(unsigned)sw}) = fit(v(), sw); vecs.push_back(a);
		} else if (k < 76) { // register, with / without reset and enable
			UInt a = v(); UInt r;
			if (rng.chance(1, 2)) r = reg(a, 0); else r = reg(a);
			maybeName(r); vecs.push_back(r);
			if (rng.chance(1, 3)) { Bit q = reg(b(), '0'); bits.push_back(q); }
		} else if (k < 80) { // counter-like feedback through a register, enable via IF
			size_t w = 1 + rng.below(5);
			UInt cnt = BitWidth{(unsigned)w};
			Bit en = b();
			UInt nxt = cnt + 1;
			IF (en) cnt = nxt;
			cnt = reg(cnt, 0);
			maybeName(cnt); vecs.push_back(cnt);
		} else if (k < 82 && depth < 2) { // a small memory: read port, conditional write port (sometimes with a constant-zero enable)
			size_t aw = 2 + rng.below(2), dw = 1 + rng.below(5);
			Memory<UInt> mem(1ull << aw, BitWidth{(unsigned)dw});
			if (rng.chance(1, 2)) mem.noConflicts();
			UInt addr = fit(v(), aw);
			UInt rd = mem[addr];
			Bit we = rng.chance(1, 4) ? Bit('0') : b();
			UInt waddr = rng.chance(1, 2) ? addr : fit(v(), aw);
			IF (we) mem[waddr] = fit(v(), dw);
			if (rng.chance(1, 2)) rd = reg(rd);
			maybeName(rd); vecs.push_back(rd);
		} else if (k < 90 && depth < 3) { // conditional assignment
			UInt x = v(); size_t w = x.width().bits();
			UInt y = x;
			Bit c1 = b(), c2 = b();
			IF (c1) {
				y = fit(v(), w);
				if (rng.chance(1, 2)) { IF (c2) y = fit(v(), w); }
				if (rng.chance(1, 3)) stmt(depth + 1);
			} ELSE {
				if (rng.chance(1, 2)) y = fit(v(), w);
			}
			maybeName(y); vecs.push_back(y);
		} else if (k < 93 && depth < 2) { // sub-entity / area
			Area area(name("area"), true);
			size_t n = 1 + rng.below(4);
			for (size_t i = 0; i < n; i++) stmt(depth + 1);
		} else if (k < 98) { // patterns for the node-creating passes: compare-with-constant mux chain, undriven signal, constant operands
			UInt sel = fit(v(), 2); UInt a = v(); size_t w = a.width().bits(); UInt y = a;
			size_t n = 2 + rng.below(3);
			for (size_t i = 0; i < n; i++) { IF (sel == ConstUInt(i, 2_b)) y = fit(v(), w); }
			vecs.push_back(y);
			if (rng.chance(1, 2)) { UInt undriven = BitWidth{(unsigned)w}; UInt r = a ^ undriven; vecs.push_back(r); }
			if (rng.chance(1, 2)) { // register with an enable of its own whose input is a mux of itself (foldRegisterMuxEnableLoops)
				UInt cnt = BitWidth{(unsigned)w}; Bit en1 = b(), en2 = b(); UInt nxt = cnt + 1;
				ENIF (en1) { IF (en2) cnt = nxt; cnt = reg(cnt, 0); }
				vecs.push_back(cnt);
			}
			if (rng.chance(1, 2)) { UInt r = (ConstUInt(rng.below(1u << std::min<size_t>(w, 20)), BitWidth{(unsigned)w}) & ConstUInt(1, BitWidth{(unsigned)w})) | a; vecs.push_back(r); }
		} else { // constant
			size_t w = genWidth();
			UInt c = ConstUInt(rng.below(1ull << std::min<size_t>(w, 30)), BitWidth{(unsigned)w});
			vecs.push_back(c);
		}
	}
};

static void runDesignCase(Rng &rng, uint64_t id, size_t nstmts) {
	unsigned variant = (unsigned) rng.below(6);
	static const char *vn[] = {"default", "minimal", "stepped", "shuffled-stepped", "twice", "default-norefs"};
	bool tight = rng.chance(3, 4);        // m_nodes capacity kept just above its size before every pass
	unsigned zeroMode = (unsigned) rng.below(3);   // 0: no zero-width signals, 1: some, 2: dominated by zero-width signals
	Rng capRng = rng.fork();
	g_capRng = tight ? &capRng : nullptr;
	std::cout << "case " << id << " design " << vn[variant] << (tight ? " tight" : " loose") << " zero" << zeroMode << '\n';
	std::cout.flush();
	try {
		DesignScope design;
		{
			Clock clock({ .absoluteFrequency = 100'000'000, .name = "clk" });
			ClockScope clockScope(clock);
			DesignGen g(rng);
			size_t nin = 2 + rng.below(3);
			for (size_t i = 0; i < nin; i++) { UInt a = pinIn(BitWidth{(unsigned)g.genWidth()}).setName(g.name("in")); g.vecs.push_back(a); }
			for (size_t i = 0; i < 2; i++) { Bit a = pinIn().setName(g.name("inb")); g.bits.push_back(a); }
			size_t nzero = zeroMode == 0 ? 0 : zeroMode == 1 ? 3 + rng.below(12) : 30 + rng.below(170);
			for (size_t i = 0; i < nstmts; i++) {
				g.stmt(0);
				for (size_t j = (nzero + nstmts - 1 - i) / nstmts; j > 0 && nzero > 0; j--, nzero--) g.zstmt();
				if (rng.chance(1, 10)) dumpAt("construction", design.getCircuit());
			}
			// clocks whose clock and/or reset are driven by logic (Clock::overrideClkWith / overrideRstWith → Node_Signal2Clk / Node_Signal2Rst
			// + Clock::setLogicClockDriver / setLogicResetDriver), in both orders and overridden again
			for (size_t nx = rng.below(3); nx > 0; nx--) {
				Clock gc({ .absoluteFrequency = 100'000'000, .name = g.name("gclk"), .resetName = g.name("grst") });
				size_t calls = 1 + rng.below(4);
				bool first = rng.chance(1, 2);
				for (size_t r = 0; r < calls; r++) {
					Bit ctl = rng.chance(2, 3) ? Bit(pinIn().setName(g.name("gctl"))) : g.b();
					bool doClk = (r < 2) ? (first == (r == 0)) : rng.chance(1, 2);
					if (doClk) gc.overrideClkWith(clock.clkSignal() & ctl); else gc.overrideRstWith(ctl);
				}
				UInt cnt = BitWidth{(unsigned)(1 + rng.below(5))};
				cnt = reg(cnt + 1, 0, { .clock = gc });
				pinOut(allowClockDomainCrossing(cnt, gc, clock)).setName(g.name("gout"));
				if (rng.chance(1, 3)) dumpAt("construction", design.getCircuit());
			}
			size_t nout = 1 + rng.below(4);
			for (size_t i = 0; i < nout; i++) {
				if (rng.chance(2, 3)) pinOut(g.vecs[g.vecs.size() - 1 - rng.below(std::min<size_t>(g.vecs.size(), 6))]).setName(g.name("out"));
				else pinOut(g.bits[g.bits.size() - 1 - rng.below(std::min<size_t>(g.bits.size(), 4))]).setName(g.name("outb"));
			}
			dumpAt("constructed", design.getCircuit());
			if (variant == 5) { g.vecs.clear(); g.bits.clear(); g.zeros.clear(); }  // no frontend references left during post-processing
			auto &circuit = design.getCircuit();
			tighten(circuit);
			try {
				switch (variant) {
					case 0: case 5: { HookScope hk; design.postprocess(); } dumpAt("postprocess", circuit); break;
					case 1: { HookScope hk; circuit.postprocess(hlim::MinimalPostprocessing{}); } dumpAt("postprocessMinimal", circuit); break;
					case 2: circuit.postprocess(SteppedPostprocessing{true}); dumpAt("postprocessStepped", circuit); break;
					case 3: shuffleBoth(circuit, rng); dumpAt("shuffleNodes", circuit); circuit.postprocess(SteppedPostprocessing{true}); dumpAt("postprocessStepped", circuit); break;
					case 4: design.postprocess(); dumpAt("postprocess", circuit);
						{ SteppedPostprocessing again{true}; again.generalOptimization(circuit); } dumpAt("repeated", circuit);
						shuffleBoth(circuit, rng); { SteppedPostprocessing again{false}; again.generalOptimization(circuit); } dumpAt("repeated-shuffled", circuit);
						break;
				}
				std::cout << "post ok\n";
			} catch (const utils::InternalError &e) { std::cout << "post internal\n"; dumpAt("exception", circuit); }
			  catch (const utils::DesignError &e) { std::cout << "post design\n"; dumpAt("exception", circuit); }
		}
	} catch (const utils::InternalError &e) { std::cout << "build internal\n"; }
	  catch (const utils::DesignError &e) { std::cout << "build design\n"; }
	g_capRng = nullptr;
	std::cout << "end\n";
}

int main(int argc, char **argv) {
	uint64_t seed = vh::argU64(argc, argv, 1, 1);
	uint64_t ncases = vh::argU64(argc, argv, 2, 10);
	uint64_t param = vh::argU64(argc, argv, 3, 50);
	std::string mode = argc > 4 ? argv[4] : "ops";
	uint64_t only = vh::argU64(argc, argv, 5, ~0ull);   // replay a single case id
	std::ios::sync_with_stdio(false);
	std::cout << "# prop=C09 seed=" << seed << " mode=" << mode << " param=" << param << '\n';
	Rng master(vh::hashSeed(seed) + (mode == "ops" ? 1 : 2));
	for (uint64_t k = 0; k < ncases; k++) {
		Rng rng = master.fork();
		if (only != ~0ull && k != only) continue;
		if (mode == "ops") runOpsCase(rng, k, param);
		else runDesignCase(rng, k, param);
		std::cout.flush();
	}
	return 0;
}
