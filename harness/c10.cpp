// C10 harness — results are a function of the design only, not of memory addresses or node order.
//
//   c10 <seed> <ncases> <nsteps> 0 [nlayouts] [only-case]   design stream: every generated design is built in >= 4 child processes
//                                              (fork/exec of this binary) under different heap layouts; all emitted files,
//                                              file lists and simulation traces are byte-compared
//   c10 <seed> <ncases> <maxKeys> 1            container stream: operation histories on the real StableSet/StableMap/UnstableMap
//                                              instantiations + comparator calls + std::sort, replayed on the Lean model
//   c10 --child <layout> <layoutSeed> <outdir> <seed> <case> <nsteps>     (internal)
//
// Layouts (child processes): 0 plain (ASLR as configured; two builds with unrelated allocations in between; + 5 permutations of
// the node storage order made and observed by the harness (random, reverse, rotate, swap neighbours, library shuffleNodes()), traces only) | 1 ASLR off (personality ADDR_NO_RANDOMIZE) + LD_PRELOAD malloc shim (seeded padding/holes)
// | 2 shim with another seed + glibc malloc tunables (MALLOC_TOP_PAD_, MALLOC_MMAP_THRESHOLD_, MALLOC_PERTURB_)
// | 3 operator-new arena: small objects in descending address order, second build seeded mix | 4.. seeded combinations.
// In every layout but the reference construction, seeded dummy allocations are also made *between construction steps* of the
// design (perturbStep), so that nodes created within one design change their relative address order.
// Design families: gen (harness/designgen.h recipes, optional areas/partitions) | fsm (heap-allocated state objects) |
// ret (register / memory read port enabled by a 2..4-term conjunction that post-processing rebuilds with Conjunction::build) |
// lit (literal-vs-literal comparisons with undefined bits that survive constant folding).
#include <gatery/pch.h>
#include "c10_alloc.h"
#include "designgen.h"
#include <gatery/frontend/FSM.h>
#include <gatery/export/vhdl/VHDLExport.h>
#include <gatery/export/vhdl/NamespaceScope.h>
#include <gatery/export/vhdl/Process.h>
#include <gatery/utils/StableContainers.h>
#include <gatery/scl/synthesisTools/GHDL.h>
#include <gatery/scl/synthesisTools/IntelQuartus.h>
#include <gatery/scl/synthesisTools/XilinxVivado.h>
#include <gatery/hlim/Circuit.h>
#include <gatery/hlim/Clock.h>
#include <gatery/hlim/NodeGroup.h>
#include <gatery/hlim/coreNodes/Node_Signal.h>
#include <filesystem>
#include <fstream>
#include <iostream>
#include <dlfcn.h>
#include <sys/personality.h>
#include <sys/wait.h>
#include <unistd.h>

using namespace gtry;
using vh::Rng;
namespace fs = std::filesystem;

// ------------------------------------------------------------------------------------------------------------------
// case generation (pure function of seed, case index, nsteps — parent and children regenerate the same case)

struct CaseSpec {
	std::string family;          // gen | fsm | ret | lit
	vh::Recipe recipe;
	vh::Decoration deco;
	uint64_t partSeed = 0;
	bool perPartition = false, tb = false, undef = false;
	uint64_t stimSeed = 0, fsmSeed = 0;
	size_t ncycles = 8, fsmStates = 3;
	uint64_t retSeed = 0;        // family ret: conjunction-enabled registers that retiming / memory detection rebuild
	unsigned tool = 0;           // 0 default synthesis tool, 1 GHDL, 2 IntelQuartus, 3 XilinxVivado (project / file-list writers)

	std::string cfg() const {
		std::ostringstream o;
		o << "family=" << family << " export=" << (perPartition ? "file_per_partition" : "single_file") << " tb=" << tb << " areas=" << deco.areas
		  << " names=" << deco.names << " tool=" << tool << " partSeed=" << partSeed << " ncycles=" << ncycles;
		if (family == "fsm") o << " fsmStates=" << fsmStates << " fsmSeed=" << fsmSeed;
		if (family == "ret" || family == "lit") o << " retSeed=" << retSeed;
		return o.str();
	}
};

static CaseSpec genCase(uint64_t seed, uint64_t k, uint64_t nsteps) {
	Rng top(seed * 0x100000001b3ull + 10);
	Rng rng(0);
	for (uint64_t i = 0; i <= k; i++) rng = top.fork();
	CaseSpec s;
	s.family = rng.chance(1, 6) ? "fsm" : "gen";
	s.stimSeed = rng.next();
	s.ncycles = 6 + rng.below(8);
	s.tb = rng.chance(1, 2);
	s.perPartition = rng.chance(1, 2);
	s.partSeed = rng.next();
	s.tool = (unsigned) rng.below(4);
	if (k % 4 == 2) { // every fourth case (chosen by index so that the random stream of the other families is unchanged)
		s.family = "ret";
		s.retSeed = Rng(vh::hashSeed(seed) + k * 7919 + 1).next();
		s.perPartition = false;
		return s;
	}
	if (k % 8 == 7) { // comparisons of literals with literals that constant propagation cannot fold (undefined bits)
		s.family = "lit";
		s.retSeed = Rng(vh::hashSeed(seed) + k * 104729 + 5).next();
		s.perPartition = false;
		return s;
	}
	if (s.family == "fsm") {
		s.fsmSeed = rng.next();
		s.fsmStates = 3 + rng.below(4);
		return s;
	}
	vh::GenOpts go;
	go.nInputs = 2 + rng.below(4);
	go.nSteps = 3 + rng.below(nsteps);
	go.maxWidth = 1 + rng.below(6);
	go.regs = rng.chance(3, 4);
	go.wide = rng.chance(1, 6);
	go.undefinedConsts = rng.chance(1, 8);
	go.fullyDefined = rng.chance(2, 3);
	go.patternBias = rng.chance(1, 3) ? 30 : 8;
	vh::RecipeGen gen(rng, go);
	s.recipe = gen.generate();
	s.undef = !go.fullyDefined && rng.chance(1, 2);
	s.deco.seed = rng.next();
	s.deco.areas = s.perPartition || rng.chance(1, 3);
	s.deco.names = rng.chance(1, 3);
	s.deco.comments = rng.chance(1, 4);
	return s;
}

// ------------------------------------------------------------------------------------------------------------------
// building

struct FsmHolder {
	std::vector<std::unique_ptr<fsm::DelayedState>> states;
	std::unique_ptr<fsm::FSM> machine;
	std::vector<size_t> kind, t1, t2, cmpv;
	std::optional<UInt> cnt, sel;
	std::optional<Bit> go;
};

template<class S> static hlim::Node_Pin *pinOf(S &s) { return dynamic_cast<hlim::Node_Pin*>(s.node()->getNonSignalDriver(0).node); }

// FSM whose state objects live on the heap (one `new` each): their relative addresses are a property of the heap layout
static vh::Built buildFsm(const CaseSpec &s, FsmHolder &h) {
	vh::Built b;
	Rng r(s.fsmSeed);
	b.clock.emplace(ClockConfig{.absoluteFrequency = 100'000'000, .name = "clk", .resetType = ClockConfig::ResetType::SYNCHRONOUS,
		.memoryResetType = ClockConfig::ResetType::NONE, .initializeRegs = true});
	ClockScope clkScope(*b.clock);
	size_t n = s.fsmStates;
	for (size_t i = 0; i < n; i++) {
		h.states.push_back(std::make_unique<fsm::DelayedState>());
		h.states.back()->setName("st" + std::to_string(i));
		h.kind.push_back(r.below(3)); h.t1.push_back((i + 1) % n); h.t2.push_back(r.below(n)); h.cmpv.push_back(1 + r.below(14));
	}
	h.go.emplace(pinIn().setName("go"));
	h.sel.emplace(pinIn(2_b).setName("sel"));
	b.inPins = {pinOf(*h.go), pinOf(*h.sel)}; b.inWidths = {0, 2};
	h.cnt.emplace(4_b);
	*h.cnt = reg(*h.cnt, "4b0");
	for (size_t i = 0; i < n; i++) {
		h.states[i]->onActive([&h, i] {
			if (h.kind[i] == 0) { IF (*h.go) fsm::delayedSwitch(*h.states[h.t1[i]]); }
			else if (h.kind[i] == 1) { *h.cnt += 1; IF (*h.cnt == h.cmpv[i]) fsm::delayedSwitch(*h.states[h.t1[i]]); }
			else { IF (*h.sel == (h.cmpv[i] & 3)) fsm::delayedSwitch(*h.states[h.t2[i]]); IF (*h.go) fsm::delayedSwitch(*h.states[h.t1[i]]); }
		});
	}
	h.machine = std::make_unique<fsm::FSM>(*b.clock, *h.states[0]);
	{ auto p = pinOut(*h.cnt).setName("cnt"); b.outPins.push_back(p.node()); b.outWidths.push_back(4); }
	for (size_t i = 0; i < n; i++) { auto p = pinOut(h.machine->isInState(*h.states[i])).setName("in_st" + std::to_string(i)); b.outPins.push_back(p.node()); b.outWidths.push_back(0); }
	return b;
}

// ---- unrelated allocations *between construction steps* of one design (seed set per build by the child; 0 = none)
static uint64_t g_perturbSeed = 0;
static std::vector<void*> g_perturbHeld;
static void perturbStep() {
	if (!g_perturbSeed) return;
	Rng r(g_perturbSeed); g_perturbSeed = r.next() | 1;
	size_t n = r.below(6);
	for (size_t i = 0; i < n; i++) {
		size_t sz = 16 + r.below(r.chance(1, 4) ? 4000 : 700);
		g_perturbHeld.push_back(r.chance(1, 2) ? std::malloc(sz) : ::operator new(sz));
	}
	// free a few of the malloc'ed ones is not possible without knowing the allocator; instead release whole std::strings / vectors
	std::vector<std::string> tmp;
	for (size_t i = 0, m = r.below(8); i < m; i++) tmp.emplace_back(24 + r.below(900), 'y');
	if (r.chance(1, 2)) { auto *keep = new std::vector<std::string>(); for (size_t i = 0; i < tmp.size(); i += 2) keep->push_back(std::move(tmp[i])); g_perturbHeld.push_back(keep); }
}

// Family "ret": a register (or memory read port register) enabled by a conjunction of >= 2 (possibly negated) terms, in a shape that
// post-processing *rebuilds* (Conjunction::build): backward retiming of the register into a memory read port, forward retiming of
// movable registers pulled by pipestage hints, negative registers. The condition is built from nested ENIF/IF scopes and `&`.
static vh::Built buildRet(const CaseSpec &s) {
	vh::Built b;
	Rng r(s.retSeed);
	b.clock.emplace(ClockConfig{.absoluteFrequency = 100'000'000, .name = "clk", .resetType = ClockConfig::ResetType::NONE,
		.memoryResetType = ClockConfig::ResetType::NONE, .initializeRegs = true});
	ClockScope clkScope(*b.clock);
	unsigned kind = (unsigned) r.below(4);           // 0 memory read port, 1 pipestage over movable registers, 2 negative register, 3 memory + nested scopes
	size_t nt = 2 + r.below(3);                      // terms of the conjunction
	size_t w = 2 + r.below(5), aw = 2 + r.below(2);
	std::vector<Bit> term;
	auto addIn = [&](auto &sig, size_t width) { b.inPins.push_back(pinOf(sig)); b.inWidths.push_back(width); };
	for (size_t i = 0; i < nt; i++) {
		perturbStep();
		static const char *names[] = {"consumer_ready", "pipeline_advance", "valid", "not_stalled", "sel"};
		term.push_back(pinIn().setName(names[i]));
		addIn(term.back(), 0);
	}
	std::vector<bool> neg; std::vector<size_t> perm;
	for (size_t i = 0; i < nt; i++) { neg.push_back(r.chance(1, 4)); perm.push_back(i); }
	for (size_t i = nt; i > 1; i--) std::swap(perm[i - 1], perm[r.below(i)]);
	auto lit = [&](size_t i) { perturbStep(); return neg[i] ? Bit(!term[i]) : Bit(term[i]); };
	size_t outer = r.below(nt);                      // the first `outer` literals come from enclosing ENIF scopes, the rest from one `&` chain
	perturbStep();
	UInt x = pinIn(BitWidth(w)).setName("x"); addIn(x, w);
	UInt y = pinIn(BitWidth(w)).setName("y"); addIn(y, w);
	UInt out = BitWidth(w);
	{
		std::vector<std::unique_ptr<EnableScope>> scopes;
		for (size_t i = 0; i < outer; i++) scopes.push_back(std::make_unique<EnableScope>(lit(perm[i])));
		if (outer < nt) {
			Bit c = lit(perm[outer]);
			for (size_t i = outer + 1; i < nt; i++) c = c & lit(perm[i]);
			if (r.chance(1, 3)) c.setName("enable_cond");
			scopes.push_back(std::make_unique<EnableScope>(c));
		}
		UInt rv = vh::constU(std::string(w, '0'));
		if (kind == 0 || kind == 3) {
			UInt raddr = pinIn(BitWidth(aw)).setName("raddr"); addIn(raddr, aw);
			UInt waddr = pinIn(BitWidth(aw)).setName("waddr"); addIn(waddr, aw);
			Bit we = pinIn().setName("we"); addIn(we, 0);
			Memory<UInt> mem(size_t(1) << aw, BitWidth(w));
			mem.setPowerOnStateZero();
			mem.setType(MemType::MEDIUM, 1);
			perturbStep();
			UInt rd = mem[raddr];
			if (kind == 3) { IF (we & !term[0]) mem[waddr] = x; } else { IF (we) mem[waddr] = x; }
			UInt v = r.chance(1, 2) ? UInt(rd ^ y) : UInt(rd);
			out = reg(v, rv, {.allowRetimingBackward = true});
		} else if (kind == 1) {
			UInt xr = reg(x, rv, {.allowRetimingForward = true});
			perturbStep();
			UInt yr = reg(y, rv, {.allowRetimingForward = true});
			UInt v = xr + yr;
			v = pipestage(v);
			out = v ^ 1;
		} else {
			UInt xr = reg(x, rv, {.allowRetimingForward = true});
			UInt v = xr ^ y;
			auto [nx, en] = negativeReg(v);
			EnableScope inner(en);
			out = reg(nx, rv);
		}
		while (!scopes.empty()) scopes.pop_back();
	}
	auto p = pinOut(out).setName("out"); b.outPins.push_back(p.node()); b.outWidths.push_back(w);
	return b;
}

// Family "lit": comparisons whose two operands are both literals and that survive constant folding because one side has undefined
// bits (unassigned signal, constant with x bits, a literal compared with itself, literal on the left / right of == != < > <= >=),
// used as IF condition, register enable, mux selector or output. Export preparation treats such comparisons specially
// (Circuit::ensureNoLiteralComparison inserts a named helper signal).
static vh::Built buildLit(const CaseSpec &s) {
	vh::Built b;
	Rng r(s.retSeed);
	b.clock.emplace(ClockConfig{.absoluteFrequency = 100'000'000, .name = "clk", .resetType = ClockConfig::ResetType::SYNCHRONOUS,
		.memoryResetType = ClockConfig::ResetType::NONE, .initializeRegs = true});
	ClockScope clkScope(*b.clock);
	size_t w = 2 + r.below(5);
	auto addIn = [&](auto &sig, size_t width) { b.inPins.push_back(pinOf(sig)); b.inWidths.push_back(width); };
	Bit e0 = pinIn().setName("e0"); addIn(e0, 0);
	UInt x = pinIn(BitWidth(w)).setName("x"); addIn(x, w);
	UInt y = pinIn(BitWidth(w)).setName("y"); addIn(y, w);
	auto litStr = [&](bool withX) { std::string v; for (size_t i = 0; i < w; i++) v.push_back(withX && r.chance(1, 2) ? 'x' : (r.chance(1, 2) ? '1' : '0')); if (withX && v.find('x') == std::string::npos) v[r.below(w)] = 'x'; return v; };
	size_t n = 1 + r.below(3);
	for (size_t i = 0; i < n; i++) {
		perturbStep();
		Bit c;
		unsigned form = (unsigned) r.below(6), op = (unsigned) r.below(6);
		auto cmp = [&](const UInt &l, const UInt &rr) -> Bit {
			switch (op) { case 0: return l == rr; case 1: return l != rr; case 2: return l < rr; case 3: return l > rr; case 4: return l <= rr; default: return l >= rr; } };
		if (form == 0) { UInt u = BitWidth(w); c = (op & 1) ? Bit(u != r.below(size_t(1) << w)) : Bit(u == r.below(size_t(1) << w)); }   // unassigned signal vs integer literal
		else if (form == 1) { UInt l = vh::constU(litStr(true)); UInt k = vh::constU(litStr(false)); c = cmp(l, k); }                       // undefined bits on the left
		else if (form == 2) { UInt l = vh::constU(litStr(false)); UInt k = vh::constU(litStr(true)); c = cmp(l, k); }                       // … on the right
		else if (form == 3) { UInt l = vh::constU(litStr(true)); c = cmp(l, l); }                                                           // a literal compared with itself
		else if (form == 4) { UInt u = BitWidth(w); UInt k = vh::constU(litStr(false)); c = cmp(k, u); }                                    // literal on the left, unassigned on the right
		else { UInt l = vh::constU(litStr(false)); UInt k = vh::constU(litStr(false)); c = cmp(l, k); }                                     // fully defined (folds away)
		UInt out = x;
		switch (r.below(5)) {
			case 0: IF (c) out = y; break;
			case 1: { EnableScope es(c); out = reg(y, vh::constU(std::string(w, '0'))); } break;
			case 2: out = mux(c, {x, y}); break;
			case 3: IF (c & e0) out = x + y; break;
			default: { auto p = pinOut(c).setName("cmp" + std::to_string(i)); b.outPins.push_back(p.node()); b.outWidths.push_back(0); } break;
		}
		auto p = pinOut(out).setName("out" + std::to_string(i)); b.outPins.push_back(p.node()); b.outWidths.push_back(w);
	}
	return b;
}

static void markPartitions(hlim::NodeGroup *g, Rng &r, size_t &marked) {
	for (auto &c : g->getChildren()) {
		if (c->getGroupType() == hlim::NodeGroupType::ENTITY && r.chance(2, 3)) { c->setPartition(true); c->useComponentInstantiation(true); marked++; }
		markPartitions(c.get(), r, marked);
	}
}

using Trace = std::vector<std::vector<std::string>>;

static void writeTrace(const fs::path &p, const Trace &t) {
	std::ofstream o(p);
	for (size_t c = 0; c < t.size(); c++) { o << c; for (auto &v : t[c]) o << ' ' << v; o << '\n'; }
}

// like vh::simulate, but on a simulator that the caller compiled (so that a test-bench recorder can be attached before power-on)
// `outDrv` = drivers of the output pins at the time the simulator was compiled (a synthesis tool's prepareCircuit may insert nodes during export)
static Trace drive(sim::ReferenceSimulator &sim, const vh::Built &b, const vh::Stimulus &st, bool recordReads, const std::vector<hlim::NodePort> &outDrv) {
	sim.powerOn();
	hlim::ClockRational period = hlim::ClockRational(1, 1) / b.clock->absoluteFrequency();
	Trace trace;
	sim.advance(period / hlim::ClockRational(4, 1));
	for (auto &row : st.cycles) {
		for (size_t i = 0; i < b.inPins.size(); i++)
			sim.simProcSetInputPin(b.inPins[i], sim::convertToExtended(vh::bitsFromString(row[i])));
		sim.reevaluate();
		std::vector<std::string> outs;
		for (auto drv : outDrv) {
			if (!drv.node) { outs.push_back("u"); continue; }
			outs.push_back(vh::bitsToString(recordReads ? sim.simProcGetValueOfOutput(drv) : sim.getValueOfOutput(drv)));
		}
		trace.push_back(outs);
		sim.advance(period);
	}
	return trace;
}

// Permutation of the node storage order, produced and *observed* by the harness (mode 5 = the library's own shuffleNodes(), observed too).
static const char *permModeName(unsigned m) { static const char *n[] = {"none", "random", "reverse", "rotate", "swap-neighbours", "library-shuffleNodes", "random2"}; return n[m % 7]; }
static std::string permuteNodes(hlim::Circuit &c, unsigned mode, uint64_t seed) {
	auto &v = c.getNodes();
	size_t n = v.size();
	std::vector<hlim::BaseNode*> before; for (auto &p : v) before.push_back(p.get());
	Rng r(vh::hashSeed(seed) + mode);
	switch (mode) {
		case 1: case 6: for (size_t i = n; i > 1; i--) std::swap(v[i - 1], v[r.below(i)]); break;
		case 2: std::reverse(v.begin(), v.end()); break;
		case 3: if (n > 1) std::rotate(v.begin(), v.begin() + 1 + r.below(n - 1), v.end()); break;
		case 4: for (size_t i = r.below(2); i + 1 < n; i += 2) std::swap(v[i], v[i + 1]); if (n == 2) std::swap(v[0], v[1]); break;
		case 5: c.shuffleNodes(); break;
		default: break;
	}
	// observe the result
	std::map<hlim::BaseNode*, size_t> oldIdx; for (size_t i = 0; i < n; i++) oldIdx[before[i]] = i;
	size_t moved = 0, tail = 0; uint64_t dg = 0xcbf29ce484222325ull; bool sameSet = c.getNodes().size() == n;
	for (size_t i = 0; i < c.getNodes().size(); i++) {
		auto it = oldIdx.find(c.getNodes()[i].get());
		if (it == oldIdx.end()) { sameSet = false; continue; }
		if (it->second != i) { moved++; if (i >= n - n / 4) tail++; }
		dg = (dg ^ it->second) * 0x100000001b3ull;
		oldIdx.erase(it);
	}
	if (!oldIdx.empty()) sameSet = false;
	std::ostringstream o;
	o << "mode=" << permModeName(mode) << " n=" << n << " moved=" << moved << " tail=" << tail << " same_set=" << sameSet << " digest=" << vh::hex64(dg) << '\n';
	return o.str();
}

// one construction of the design: traces before/after post-processing, export (+ test vectors, project files) into dir/export
// shuffles: 0 = none (full export compared) | 1..6 = permutation mode of permuteNodes (traces compared)
static void runVariant(const CaseSpec &s, const fs::path &dir, unsigned shuffles) {
	fs::create_directories(dir);
	std::ofstream status(dir / "status.txt");
	try {
		DesignScope design;
		FsmHolder fh;
		vh::Built b = s.family == "fsm" ? buildFsm(s, fh) : s.family == "ret" ? buildRet(s) : s.family == "lit" ? buildLit(s) : vh::build(s.recipe, s.deco);
		size_t marked = 0;
		if (s.perPartition) { Rng pr(s.partSeed); markPartitions(design.getCircuit().getRootNodeGroup(), pr, marked); }
		Rng srng(s.stimSeed);
		vh::Stimulus st = vh::genStimulus(srng, b.inWidths, s.ncycles, s.undef);
		writeTrace(dir / "trace_pre.txt", vh::simulate(design.getCircuit(), b, st));
		if (shuffles) std::ofstream(dir / "perm.txt") << permuteNodes(design.getCircuit(), shuffles, s.stimSeed ^ g_perturbSeed);
		if (getenv("C10_PASSES")) { // debugging aid: first output row after every post-processing pass
			static const vh::Built *gb; static const vh::Stimulus *gs; gb = &b; gs = &st;
			hlim::verif_passBoundary = +[](const char *pass, hlim::Circuit &c) { try { auto t = vh::simulate(c, *gb, *gs); std::cerr << pass << ":"; for (auto &v : t[0]) std::cerr << ' ' << v; std::cerr << '\n'; } catch (...) { std::cerr << pass << ": nosim\n"; } };
		}
		design.postprocess();
		hlim::verif_passBoundary = nullptr;
		status << "nodes " << design.getCircuit().getNodes().size() << " partitions " << marked << '\n';
		// shuffled variants (node order permuted) go through the same export + recorder path so that the traces are measured the same
		// way; their emitted text may legitimately be reordered and is not compared (directory name differs from "export")
		fs::path ex = dir / (shuffles ? "export_not_compared" : "export");
		fs::create_directories(ex);
		sim::ReferenceSimulator sim(false);
		sim.compileProgram(design.getCircuit());
		std::vector<hlim::NodePort> outDrv;
		for (auto *p : b.outPins) outDrv.push_back(p->getDriver(0));
		Trace post;
		{
			vhdl::VHDLExport vhdl(ex / "design.vhd", true);
			if (s.perPartition) vhdl.outputMode(vhdl::OutputMode::FILE_PER_PARTITION);
			if (s.tool == 1) vhdl.targetSynthesisTool(new GHDL());
			else if (s.tool == 2) vhdl.targetSynthesisTool(new IntelQuartus());
			else if (s.tool == 3) vhdl.targetSynthesisTool(new XilinxVivado());
			vhdl.writeProjectFile("projectFile.txt");
			vhdl.writeStandAloneProjectFile("standAloneProjectFile.txt");
			vhdl.writeConstraintsFile("constraints.txt");
			vhdl.writeClocksFile("clocks.txt");
			if (s.tb) vhdl.addTestbenchRecorder(sim, "testbench", false);
			vhdl(design.getCircuit());
			post = drive(sim, b, st, s.tb, outDrv);
		}
		writeTrace(dir / "trace_post.txt", post);
		status << "ok\n";
	} catch (const std::exception &e) {
		status << "threw " << typeid(e).name() << '\n';
		if (shuffles && !fs::exists(dir / "perm.txt")) // the construction threw before the node list could be permuted (same in every variant, see status.txt)
			std::ofstream(dir / "perm.txt") << "mode=" << permModeName(shuffles) << " n=0 moved=0 tail=0 same_set=1 digest=0 skipped=construction-threw\n"; if (getenv("C10_CHILD_STDERR")) std::cerr << e.what() << std::endl;
	}
}

static std::vector<void*> g_junk;
// unrelated allocations between two constructions
static void junk(uint64_t seed) {
	Rng r(seed);
	size_t n = 200 + r.below(3000);
	std::vector<void*> tmp;
	for (size_t i = 0; i < n; i++) {
		size_t sz = 8 + r.below(r.chance(1, 20) ? 20000 : 600);
		void *p = r.chance(1, 2) ? std::malloc(sz) : ::operator new(sz);
		if (r.chance(1, 2)) tmp.push_back(p); else g_junk.push_back(p); // kept until exit (leak on purpose)
	}
	// free half of them in a scrambled order: holes
	for (size_t i = tmp.size(); i > 1; i--) std::swap(tmp[i - 1], tmp[r.below(i)]);
	for (size_t i = 0; i < tmp.size(); i++) g_junk.push_back(tmp[i]);
	// (we cannot know which allocator produced tmp[i]; they stay allocated, the scrambling happened on sizes)
	std::vector<std::string> strs;
	for (size_t i = 0; i < 500; i++) strs.push_back(std::string(10 + r.below(200), 'x'));
	for (size_t i = 0; i < strs.size(); i += 2) strs[i].clear(), strs[i].shrink_to_fit();
	auto *keep = new std::vector<std::string>(std::move(strs)); g_junk.push_back(keep);
}

static const char *layoutName(unsigned l) {
	static const char *n[] = {"plain", "noaslr+shim", "shim+tunables", "newarena", "mix+shim", "noaslr+mix", "shim+reverse", "tunables+mix"};
	return n[l % 8];
}

static int childMain(int argc, char **argv) {
	unsigned layout = (unsigned) vh::argU64(argc, argv, 2, 0);
	uint64_t lseed = vh::argU64(argc, argv, 3, 1);
	fs::path out = argv[4];
	uint64_t seed = vh::argU64(argc, argv, 5, 1), k = vh::argU64(argc, argv, 6, 0), nsteps = vh::argU64(argc, argv, 7, 25);
	CaseSpec s = genCase(seed, k, nsteps);
	using namespace c10alloc;
	Mode m0 = NORMAL, m1 = NORMAL;
	switch (layout % 8) {
		case 3: m0 = REVERSE; m1 = MIX; break;
		case 4: m0 = MIX; m1 = REVERSE; break;
		case 5: m0 = MIX; m1 = MIX; break;
		case 6: m0 = REVERSE; m1 = REVERSE; break;
		case 7: m0 = NORMAL; m1 = MIX; break;
		default: break;
	}
	if (layout) junk(lseed * 3 + 1);
	setMode(m0, lseed);
	g_perturbSeed = layout ? (lseed * 2 + 1) : 0;
	runVariant(s, out / "b0", 0);
	setMode(NORMAL, 0);
	junk(lseed * 3 + 2);
	setMode(m1, lseed + 77);
	g_perturbSeed = (lseed + 0x5bd1e995) * 2 + 1;
	runVariant(s, out / "b1", 0);
	g_perturbSeed = 0;
	setMode(NORMAL, 0);
	if (layout == 0) {
		for (unsigned i = 1; i <= 5; i++) runVariant(s, out / ("s" + std::to_string(i)), i);
	} else if (layout % 8 == 4) {
		setMode(MIX, lseed + 5);
		g_perturbSeed = lseed | 1; // also a different permutation seed than in layout 0
		runVariant(s, out / "s6", 6);
		g_perturbSeed = 0;
		setMode(NORMAL, 0);
	}
	auto shimCalls = (unsigned long (*)()) dlsym(RTLD_DEFAULT, "c10_shim_calls");
	std::ofstream(out / "alloc.txt") << "arena_served " << g_served.load() << " shim_active " << (shimCalls && shimCalls() > 0 ? 1 : 0)
		<< " aslr_off " << ((personality(0xffffffff) & ADDR_NO_RANDOMIZE) ? 1 : 0) << '\n';
	return 0;
}

// ------------------------------------------------------------------------------------------------------------------
// parent: spawn, collect, compare

static std::string selfExe() { return fs::read_symlink("/proc/self/exe").string(); }

static pid_t spawnChild(unsigned layout, uint64_t lseed, const fs::path &out, uint64_t seed, uint64_t k, uint64_t nsteps, const std::string &shim) {
	pid_t pid = fork();
	if (pid != 0) return pid;
	bool useShim = false, noAslr = false, tunables = false;
	switch (layout % 8) { case 1: useShim = noAslr = true; break; case 2: useShim = tunables = true; break; case 4: useShim = true; break;
		case 5: noAslr = true; break; case 6: useShim = true; break; case 7: tunables = true; break; default: break; }
	if (noAslr) personality(ADDR_NO_RANDOMIZE);
	if (useShim && !shim.empty()) { setenv("LD_PRELOAD", shim.c_str(), 1); setenv("C10_SHIM_SEED", std::to_string(lseed | 1).c_str(), 1); }
	if (tunables) {
		setenv("MALLOC_TOP_PAD_", std::to_string(4096 * (1 + lseed % 64)).c_str(), 1);
		setenv("MALLOC_MMAP_THRESHOLD_", std::to_string(4096 * (1 + (lseed >> 8) % 16)).c_str(), 1);
		setenv("MALLOC_PERTURB_", std::to_string(1 + (lseed >> 16) % 250).c_str(), 1);
		setenv("MALLOC_ARENA_MAX", "1", 1);
	}
	std::string exe = selfExe();
	std::string a2 = std::to_string(layout), a3 = std::to_string(lseed), a4 = out.string(), a5 = std::to_string(seed), a6 = std::to_string(k), a7 = std::to_string(nsteps);
	int devnull = open("/dev/null", O_WRONLY);
	if (devnull >= 0) { dup2(devnull, 1); if (!getenv("C10_CHILD_STDERR")) dup2(devnull, 2); }
	execl(exe.c_str(), exe.c_str(), "--child", a2.c_str(), a3.c_str(), a4.c_str(), a5.c_str(), a6.c_str(), a7.c_str(), (char*) nullptr);
	_exit(127);
}

static uint64_t fnv(uint64_t h, const std::string &s) { for (unsigned char c : s) { h ^= c; h *= 0x100000001b3ull; } h ^= 0xff; h *= 0x100000001b3ull; return h; }

struct Snapshot { std::map<std::string, std::string> files; }; // relative path -> content

static Snapshot snapshot(const fs::path &dir) {
	Snapshot s;
	if (!fs::exists(dir)) return s;
	for (auto &e : fs::recursive_directory_iterator(dir)) {
		if (!e.is_regular_file()) continue;
		std::ifstream f(e.path(), std::ios::binary); std::stringstream ss; ss << f.rdbuf();
		s.files[fs::relative(e.path(), dir).string()] = ss.str();
	}
	return s;
}

static std::string kindOf(const std::string &file) {
	auto ends = [&](const char *s) { std::string e = s; return file.size() >= e.size() && file.compare(file.size() - e.size(), e.size(), e) == 0; };
	if (file.rfind("trace_", 0) == 0) return "trace";
	if (file == "status.txt") return "status";
	if (file.find("testvectors") != std::string::npos) return "testvectors";
	if (file.find("projectFile") != std::string::npos || file.find("standAlone") != std::string::npos || ends(".do") || ends(".sh") || ends(".tcl") || ends(".qsf") || ends(".xpr"))
		return "filelist"; // project scripts: lists of source files in compile order
	if (file.find("testbench") != std::string::npos) return "testvectors";
	if (ends(".vhd") || ends(".vhdl")) return "vhdl";
	return "other";
}

static std::string oneLine(std::string s) { for (auto &c : s) if (c == '\n' || c == '\r') c = ' '; while (!s.empty() && s.back() == ' ') s.pop_back(); if (s.size() > 300) s.resize(300); return s; }

// first difference between two snapshots (restricted to trace files if tracesOnly); returns false if equal
static bool firstDiff(const Snapshot &a, const Snapshot &b, bool tracesOnly, std::ostream &o, const std::string &an, const std::string &bn) {
	auto relevant = [&](const std::string &f) { return f != "alloc.txt" && f != "perm.txt" && (!tracesOnly || f.rfind("trace_", 0) == 0 || f == "status.txt"); };
	std::vector<std::string> la, lb;
	for (auto &p : a.files) if (relevant(p.first) && (!tracesOnly || b.files.count(p.first))) la.push_back(p.first);
	for (auto &p : b.files) if (relevant(p.first) && (!tracesOnly || a.files.count(p.first))) lb.push_back(p.first);
	if (la != lb) {
		std::string onlyA, onlyB;
		for (auto &f : la) if (!std::binary_search(lb.begin(), lb.end(), f)) onlyA += f + ",";
		for (auto &f : lb) if (!std::binary_search(la.begin(), la.end(), f)) onlyB += f + ",";
		o << "mismatch ref=" << an << " other=" << bn << " kind=filelist file=<set-of-emitted-files> line=0\n";
		o << "mA only:" << oneLine(onlyA) << "\nmB only:" << oneLine(onlyB) << '\n';
		return true;
	}
	// report the most telling file first: status, traces, then exported text
	std::vector<std::string> order = la;
	std::stable_sort(order.begin(), order.end(), [](const std::string &x, const std::string &y) {
		auto rank = [](const std::string &f) { std::string k = kindOf(f); return k == "status" ? 0 : k == "trace" ? 1 : k == "vhdl" ? 2 : 3; };
		return rank(x) < rank(y); });
	for (auto &f : order) {
		const std::string &ca = a.files.at(f), &cb = b.files.at(f);
		if (ca == cb) continue;
		std::istringstream ia(ca), ib(cb); std::string x, y; size_t line = 0;
		while (true) {
			bool ga = (bool) std::getline(ia, x), gb = (bool) std::getline(ib, y); line++;
			if (!ga && !gb) break;
			if (ga != gb || x != y) { if (!ga) x = "<eof>"; if (!gb) y = "<eof>"; break; }
		}
		o << "mismatch ref=" << an << " other=" << bn << " kind=" << kindOf(f) << " file=" << f << " line=" << line << '\n';
		o << "mA " << oneLine(x) << "\nmB " << oneLine(y) << '\n';
		return true;
	}
	return false;
}

static int designStream(uint64_t seed, uint64_t ncases, uint64_t nsteps, unsigned nlayouts, uint64_t only) {
	std::cout << "# prop=C10 stream=design seed=" << seed << " cases=" << ncases << " nsteps=" << nsteps << " layouts=" << nlayouts << "\n";
	std::string shim = (fs::path(selfExe()).parent_path() / "c10_shim.so").string();
	if (!fs::exists(shim)) { std::cerr << "c10: " << shim << " missing\n"; return 3; }
	fs::path base = fs::path("/var/tmp") / ("gv_c10_" + std::to_string(getpid()));
	fs::remove_all(base);
	for (uint64_t k = 0; k < ncases; k++) {
		if (only != ~0ull && k != only) continue;
		CaseSpec s = genCase(seed, k, nsteps);
		fs::path cdir = base / ("c" + std::to_string(k));
		fs::create_directories(cdir);
		std::vector<pid_t> pids;
		std::vector<uint64_t> lseeds;
		Rng lr(seed * 1315423911ull + k * 2654435761ull + 7);
		for (unsigned l = 0; l < nlayouts; l++) { lseeds.push_back(lr.next() >> 16); pids.push_back(spawnChild(l, lseeds.back(), cdir / ("L" + std::to_string(l)), seed, k, nsteps, shim)); }
		std::ostringstream o;
		o << "case " << k << ' ' << s.cfg() << '\n';
		if (s.family == "gen") { std::istringstream rs(s.recipe.toString()); std::string l; while (std::getline(rs, l)) o << "r " << l << '\n'; }
		std::vector<std::string> crashed;
		for (unsigned l = 0; l < nlayouts; l++) {
			int st = 0; waitpid(pids[l], &st, 0);
			bool ok = WIFEXITED(st) && WEXITSTATUS(st) == 0;
			o << "layout L" << l << " name=" << layoutName(l) << " lseed=" << lseeds[l] << " exit=" << (WIFEXITED(st) ? WEXITSTATUS(st) : -WTERMSIG(st)) << '\n';
			if (!ok) crashed.push_back("L" + std::to_string(l));
		}
		// collect
		Snapshot ref = snapshot(cdir / "L0" / "b0");
		{ auto it = ref.files.find("status.txt"); if (it != ref.files.end()) o << "info " << oneLine(it->second) << '\n'; }
		size_t mism = 0; std::set<std::string> seenKinds;
		for (unsigned l = 0; l < nlayouts; l++) {
			fs::path ld = cdir / ("L" + std::to_string(l));
			if (!fs::exists(ld)) continue;
			std::vector<std::string> vars;
			for (auto &e : fs::directory_iterator(ld)) if (e.is_directory()) vars.push_back(e.path().filename().string());
			std::sort(vars.begin(), vars.end());
			for (auto &v : vars) {
				Snapshot sn = snapshot(ld / v);
				bool shuffle = v[0] == 's';
				uint64_t dg = 0xcbf29ce484222325ull, tr = 0xcbf29ce484222325ull; size_t nf = 0;
				for (auto &p : sn.files) {
					if (p.first == "alloc.txt" || p.first == "perm.txt") continue;
					if (p.first.rfind("trace_", 0) == 0) { tr = fnv(fnv(tr, p.first), p.second); continue; }
					if (shuffle && p.first != "status.txt") continue;
					dg = fnv(fnv(dg, p.first), p.second); nf++;
				}
				std::string name = "L" + std::to_string(l) + "/" + v;
				if (shuffle) o << "perm " << name << ' ' << (sn.files.count("perm.txt") ? oneLine(sn.files["perm.txt"]) : std::string("missing")) << '\n';
				o << "variant " << name << " kind=" << (shuffle ? "shuffle" : "full") << " files=" << nf << " digest=" << vh::hex64(dg) << " trace=" << vh::hex64(tr) << '\n';
				if (name == "L0/b0") continue;
				std::ostringstream mm;
				if (firstDiff(ref, sn, shuffle, mm, "L0/b0", name)) { // one block per distinct (kind, shuffle?) so that a known difference cannot hide a new one
					std::string s = mm.str(); size_t kp = s.find(" kind="); std::string key = s.substr(kp, s.find(' ', kp + 1) - kp) + (shuffle ? "s" : "l");
					if (seenKinds.insert(key).second) o << s;
					mism++;
				}
			}
			auto sn = snapshot(ld);
			if (sn.files.count("alloc.txt")) o << "alloc L" << l << ' ' << oneLine(sn.files["alloc.txt"]) << '\n';
		}
		for (auto &c : crashed) o << "mismatch ref=L0/b0 other=" << c << " kind=crash file=<child-process> line=0\nmA ok\nmB child process crashed or failed\n";
		o << "end\n";
		std::cout << o.str() << std::flush;
		fs::remove_all(cdir);
	}
	fs::remove_all(base);
	return 0;
}

// ------------------------------------------------------------------------------------------------------------------
// container stream: real StableSet/StableMap/UnstableMap, comparators and std::sort on real nodes / clocks / groups

struct Objs {
	hlim::Circuit circuit;
	std::vector<hlim::BaseNode*> nodes;
	std::vector<hlim::Clock*> clocks;
	std::vector<hlim::NodeGroup*> groups;
	std::map<const void*, size_t> rank; // address rank among all objects of the case (0 = nullptr)
	std::map<const void*, size_t> cidx; // creation index within the object's kind (what the harness knows without asking getId())

	void create(Rng &r, size_t n) {
		using namespace c10alloc;
		for (size_t i = 0; i < n; i++) {
			if (r.chance(1, 3)) setMode(r.chance(1, 2) ? REVERSE : MIX, r.next());
			auto *s = circuit.createNode<hlim::Node_Signal>();
			s->moveToGroup(circuit.getRootNodeGroup());
			nodes.push_back(s);
			if (r.chance(1, 3)) clocks.push_back(circuit.createClock<hlim::RootClock>("clk" + std::to_string(i), hlim::ClockRational(1000 + i, 1)));
			if (!clocks.empty() && r.chance(1, 4)) clocks.push_back(circuit.createUnconnectedClock(clocks[r.below(clocks.size())], nullptr)); // the clone path assigns ids separately (Circuit.cpp:187-192)
			if (r.chance(1, 3)) groups.push_back(circuit.getRootNodeGroup()->addChildNodeGroup(hlim::NodeGroupType::ENTITY, "g" + std::to_string(i)));
			setMode(NORMAL, 0);
		}
		if (clocks.empty()) clocks.push_back(circuit.createClock<hlim::RootClock>("clk", hlim::ClockRational(1000, 1)));
		if (groups.empty()) groups.push_back(circuit.getRootNodeGroup()->addChildNodeGroup(hlim::NodeGroupType::ENTITY, "g"));
		std::vector<const void*> all;
		for (auto *p : nodes) all.push_back(p);
		for (auto *p : clocks) all.push_back(p);
		for (auto *p : groups) all.push_back(p);
		std::sort(all.begin(), all.end());
		for (size_t i = 0; i < all.size(); i++) rank[all[i]] = i + 1;
		rank[nullptr] = 0;
		for (size_t i = 0; i < nodes.size(); i++) cidx[nodes[i]] = i;
		for (size_t i = 0; i < clocks.size(); i++) cidx[clocks[i]] = i;
		for (size_t i = 0; i < groups.size(); i++) cidx[groups[i]] = i;
	}
};

template<class Ptr> static void printPtr(std::ostream &o, Ptr *p, Objs &ob) {
	// null? | id as reported by the implementation | address rank | creation index known to the harness
	if (!p) o << " 1 0 0 0"; else o << " 0 " << p->getId() << ' ' << ob.rank[p] << ' ' << ob.cidx[p];
}

static void containerCase(uint64_t k, Rng &r, size_t maxKeys, std::ostream &o) {
	Objs ob;
	size_t n = 2 + r.below(maxKeys);
	ob.create(r, n);
	unsigned kind = (unsigned) (k % 7);
	static const char *kn[] = {"np", "node", "clock", "group", "ss", "rc", "umap"};
	bool inverted = false;
	for (size_t i = 1; i < ob.nodes.size(); i++) if (ob.nodes[i] < ob.nodes[i - 1]) inverted = true;
	o << "case " << k << " kind=" << kn[kind] << " addr_order_differs_from_id_order=" << inverted << '\n';
	size_t nk = 2 + r.below(2 * n);
	size_t nops = 4 + r.below(40);
	auto opSeq = [&](auto &&ins, auto &&era) {
		for (size_t i = 0; i < nops; i++) {
			size_t x = r.below(nk);
			if (r.chance(3, 4)) { o << "o i " << x << '\n'; ins(x); } else { o << "o e " << x << '\n'; era(x); }
		}
	};
	auto cmpPairs = [&](auto &&cmp) { for (size_t i = 0; i < 12; i++) { size_t a = r.below(nk), b = r.chance(1, 6) ? a : r.below(nk); o << "c " << a << ' ' << b << ' ' << (cmp(a, b) ? 1 : 0) << '\n'; } };
	if (kind == 0 || kind == 4 || kind == 6) {
		// keys: NodePort / NodeInternalStorageSignal
		std::vector<hlim::NodePort> keys;
		for (size_t i = 0; i < nk; i++) {
			hlim::NodePort np;
			if (!r.chance(1, 10)) np.node = ob.nodes[r.below(ob.nodes.size())];
			np.port = r.below(3);
			bool dup = false; for (auto &q : keys) if (q.node == np.node && q.port == np.port) dup = true;
			if (dup) { i--; if (keys.size() >= 3 * ob.nodes.size()) { nk = keys.size(); break; } continue; }
			keys.push_back(np);
		}
		nk = keys.size();
		for (size_t i = 0; i < nk; i++) { o << "k " << i << " np"; printPtr(o, keys[i].node, ob); o << ' ' << keys[i].port << '\n'; }
		auto idxOf = [&](hlim::BaseNode *node, size_t port) { for (size_t i = 0; i < nk; i++) if (keys[i].node == node && keys[i].port == port) return i; return (size_t) 999999; };
		if (kind == 0) {
			utils::StableSet<hlim::NodePort> set; utils::StableMap<hlim::RefCtdNodePort, size_t> map;
			opSeq([&](size_t x) { set.insert(keys[x]); map.emplace(hlim::RefCtdNodePort(keys[x]), x); }, [&](size_t x) { set.erase(keys[x]); map.erase(hlim::RefCtdNodePort(keys[x])); });
			o << "iter"; for (auto &np : set) o << ' ' << idxOf(np.node, np.port); o << '\n';
			o << "iter2"; for (auto &p : map) o << ' ' << idxOf(p.first.node.get(), p.first.port); o << '\n';
			cmpPairs([&](size_t a, size_t b) { return utils::StableCompare<hlim::NodePort>()(keys[a], keys[b]); });
			std::vector<hlim::NodePort> v; o << "sin"; for (size_t i = 0; i < nk; i++) if (r.chance(2, 3)) { v.push_back(keys[i]); }
			for (size_t i = v.size(); i > 1; i--) std::swap(v[i - 1], v[r.below(i)]);
			for (auto &np : v) o << ' ' << idxOf(np.node, np.port); o << '\n';
			std::sort(v.begin(), v.end(), utils::StableCompare<hlim::NodePort>());
			o << "sout"; for (auto &np : v) o << ' ' << idxOf(np.node, np.port); o << '\n';
		} else if (kind == 4) {
			utils::StableMap<vhdl::NodeInternalStorageSignal, size_t> map;
			auto key = [&](size_t x) { return vhdl::NodeInternalStorageSignal{.node = keys[x].node, .signalIdx = keys[x].port}; };
			opSeq([&](size_t x) { map.emplace(key(x), x); }, [&](size_t x) { map.erase(key(x)); });
			o << "iter"; for (auto &p : map) o << ' ' << idxOf(p.first.node, p.first.signalIdx); o << '\n';
			cmpPairs([&](size_t a, size_t b) { return utils::StableCompare<vhdl::NodeInternalStorageSignal>()(key(a), key(b)); });
		} else {
			utils::UnstableMap<hlim::NodePort, size_t> um;
			for (size_t i = 0; i < nops + 10; i++) {
				size_t x = r.below(nk); size_t v = r.below(100);
				switch (r.below(8)) {
					case 0: case 1: { auto [it, ins] = um.emplace(keys[x], v); o << "u ins " << x << ' ' << v << ' ' << ins << ' ' << it->second << '\n'; } break;
					case 2: { bool had = um.contains(keys[x]); size_t &ref = um[keys[x]]; if (!had) ref = v; o << "u ins " << x << ' ' << v << ' ' << !had << ' ' << ref << '\n'; } break;
					case 3: um[keys[x]] = v; o << "u asg " << x << ' ' << v << '\n'; break;
					case 4: { auto it = um.find(keys[x]); if (it == um.end()) o << "u find " << x << " 0 0\n"; else o << "u find " << x << " 1 " << it->second << '\n'; } break;
					case 5: o << "u era " << x << ' ' << um.erase(keys[x]) << '\n'; break;
					case 6: o << "u has " << x << ' ' << um.contains(keys[x]) << '\n'; break;
					default: o << "u size " << um.size() << '\n'; if (r.chance(1, 10)) { um.clear(); o << "u clr\n"; } break;
				}
			}
		}
	} else if (kind <= 3) {
		auto run = [&](auto &objs, auto tag) {
			using P = typename std::remove_reference_t<decltype(objs)>::value_type;
			std::vector<P> keys; keys.push_back(nullptr);
			for (auto *p : objs) keys.push_back(p);
			nk = keys.size();
			for (size_t i = 0; i < nk; i++) { o << "k " << i << " ptr"; printPtr(o, keys[i], ob); o << '\n'; }
			auto idxOf = [&](const void *p) { for (size_t i = 0; i < nk; i++) if ((const void*) keys[i] == p) return i; return (size_t) 999999; };
			utils::StableSet<P> set;
			opSeq([&](size_t x) { set.insert(keys[x]); }, [&](size_t x) { set.erase(keys[x]); });
			o << "iter"; for (auto *p : set) o << ' ' << idxOf(p); o << '\n';
			cmpPairs([&](size_t a, size_t b) { return utils::StableCompare<P>()(keys[a], keys[b]); });
		};
		if (kind == 1) run(ob.nodes, 0); else if (kind == 2) run(ob.clocks, 0); else run(ob.groups, 0);
	} else { // rc
		std::vector<vhdl::RegisterConfig> keys;
		auto same = [](const vhdl::RegisterConfig &a, const vhdl::RegisterConfig &b) { return a.clock == b.clock && a.reset == b.reset && a.triggerEvent == b.triggerEvent && a.resetType == b.resetType && a.resetHighActive == b.resetHighActive; };
		for (size_t t = 0; t < 4 * nk && keys.size() < nk; t++) {
			vhdl::RegisterConfig c;
			c.clock = r.chance(1, 8) ? nullptr : ob.clocks[r.below(ob.clocks.size())];
			c.reset = r.chance(1, 3) ? nullptr : ob.clocks[r.below(ob.clocks.size())];
			c.triggerEvent = (hlim::Clock::TriggerEvent) r.below(3);
			c.resetType = (hlim::RegisterAttributes::ResetType) r.below(3);
			c.resetHighActive = r.chance(1, 2);
			bool dup = false; for (auto &q : keys) if (same(q, c)) dup = true;
			if (!dup) keys.push_back(c);
		}
		nk = keys.size();
		for (size_t i = 0; i < nk; i++) { o << "k " << i << " rc"; printPtr(o, keys[i].clock, ob); printPtr(o, keys[i].reset, ob); o << ' ' << (unsigned) keys[i].triggerEvent << ' ' << (unsigned) keys[i].resetType << ' ' << keys[i].resetHighActive << '\n'; }
		auto idxOf = [&](const vhdl::RegisterConfig &c) { for (size_t i = 0; i < nk; i++) if (same(keys[i], c)) return i; return (size_t) 999999; };
		utils::StableMap<vhdl::RegisterConfig, size_t> map;
		opSeq([&](size_t x) { map.emplace(keys[x], x); }, [&](size_t x) { map.erase(keys[x]); });
		o << "iter"; for (auto &p : map) o << ' ' << idxOf(p.first); o << '\n';
		cmpPairs([&](size_t a, size_t b) { return utils::StableCompare<vhdl::RegisterConfig>()(keys[a], keys[b]); });
	}
	o << "end\n";
}

int main(int argc, char **argv) {
	if (argc > 1 && std::string(argv[1]) == "--child") return childMain(argc, argv);
	uint64_t seed = vh::argU64(argc, argv, 1, 1), ncases = vh::argU64(argc, argv, 2, 20), p3 = vh::argU64(argc, argv, 3, 20), mode = vh::argU64(argc, argv, 4, 0);
	std::ios::sync_with_stdio(false);
	if (mode == 0) return designStream(seed, ncases, p3, (unsigned) vh::argU64(argc, argv, 5, 4), vh::argU64(argc, argv, 6, ~0ull));
	std::cout << "# prop=C10 stream=containers seed=" << seed << " cases=" << ncases << " maxKeys=" << p3 << "\n";
	Rng top(seed * 0x100000001b3ull + 3);
	for (uint64_t k = 0; k < ncases; k++) {
		Rng r = top.fork();
		std::ostringstream o;
		containerCase(k, r, (size_t) p3, o);
		std::cout << o.str();
	}
	return 0;
}
