// C10: replacement of the global operator new/delete of the harness binary (covers every `new`, make_unique, std container node of
// the statically linked gatery libraries). Default = plain malloc. When switched on, small objects are served from a private
// arena in *descending* address order (REVERSE) or from a seeded mix of arena and malloc (MIX), so that objects created in the
// same order end up in a different address order — the layouts a test run never sees.
// Arena memory is never reused (delete of an arena pointer is a no-op); a child process handles one case and exits.
#pragma once
#include <atomic>
#include <cstdint>
#include <cstdlib>
#include <new>
#include <sys/mman.h>

namespace c10alloc {

enum Mode : int { NORMAL = 0, REVERSE = 1, MIX = 2 };

inline std::atomic<int> g_mode{NORMAL};
inline std::atomic<uint64_t> g_counter{0};
inline uint64_t g_seed = 0;
inline char *g_lo = nullptr, *g_hi = nullptr;
inline std::atomic<char *> g_cur{nullptr};
inline std::atomic<uint64_t> g_served{0};

inline uint64_t mix64(uint64_t x) {
	x += 0x9E3779B97F4A7C15ull;
	x = (x ^ (x >> 30)) * 0xBF58476D1CE4E5B9ull;
	x = (x ^ (x >> 27)) * 0x94D049BB133111EBull;
	return x ^ (x >> 31);
}

inline bool setupArena(size_t bytes = size_t(3) << 30) {
	if (g_lo) return true;
	void *p = mmap(nullptr, bytes, PROT_READ | PROT_WRITE, MAP_PRIVATE | MAP_ANONYMOUS | MAP_NORESERVE, -1, 0);
	if (p == MAP_FAILED) return false;
	g_lo = (char *) p; g_hi = g_lo + bytes; g_cur = g_hi;
	return true;
}

inline void setMode(Mode m, uint64_t seed) { if (m != NORMAL && !setupArena()) m = NORMAL; g_seed = seed; g_mode = m; }

inline bool inArena(void *p) { return (char *) p >= g_lo && (char *) p < g_hi; }

inline void *alloc(size_t n, size_t align) {
	int m = g_mode.load(std::memory_order_relaxed);
	if (m != NORMAL && n <= 16384 && align <= 64) {
		uint64_t r = mix64(g_seed ^ g_counter.fetch_add(1, std::memory_order_relaxed));
		if (m == REVERSE || (r & 1)) {
			size_t gap = (m == MIX) ? 16 * ((r >> 8) % 4) : 0;
			size_t sz = ((n ? n : 1) + gap + 63) & ~size_t(63); // 64-byte slots keep every alignment <= 64
			char *p = g_cur.fetch_sub((ptrdiff_t) sz) - sz;
			if (p >= g_lo) { g_served.fetch_add(1, std::memory_order_relaxed); return p; }
			g_mode = NORMAL; // arena exhausted
		}
	}
	void *p;
	if (align > alignof(std::max_align_t)) { if (posix_memalign(&p, align, n ? n : 1) != 0) p = nullptr; }
	else p = std::malloc(n ? n : 1);
	return p;
}

inline void dealloc(void *p) { if (p && !inArena(p)) std::free(p); }

}

void *operator new(std::size_t n) { void *p = c10alloc::alloc(n, 16); if (!p) throw std::bad_alloc(); return p; }
void *operator new[](std::size_t n) { void *p = c10alloc::alloc(n, 16); if (!p) throw std::bad_alloc(); return p; }
void *operator new(std::size_t n, const std::nothrow_t &) noexcept { return c10alloc::alloc(n, 16); }
void *operator new[](std::size_t n, const std::nothrow_t &) noexcept { return c10alloc::alloc(n, 16); }
void *operator new(std::size_t n, std::align_val_t a) { void *p = c10alloc::alloc(n, (size_t) a); if (!p) throw std::bad_alloc(); return p; }
void *operator new[](std::size_t n, std::align_val_t a) { void *p = c10alloc::alloc(n, (size_t) a); if (!p) throw std::bad_alloc(); return p; }
void *operator new(std::size_t n, std::align_val_t a, const std::nothrow_t &) noexcept { return c10alloc::alloc(n, (size_t) a); }
void *operator new[](std::size_t n, std::align_val_t a, const std::nothrow_t &) noexcept { return c10alloc::alloc(n, (size_t) a); }
void operator delete(void *p) noexcept { c10alloc::dealloc(p); }
void operator delete[](void *p) noexcept { c10alloc::dealloc(p); }
void operator delete(void *p, std::size_t) noexcept { c10alloc::dealloc(p); }
void operator delete[](void *p, std::size_t) noexcept { c10alloc::dealloc(p); }
void operator delete(void *p, std::align_val_t) noexcept { c10alloc::dealloc(p); }
void operator delete[](void *p, std::align_val_t) noexcept { c10alloc::dealloc(p); }
void operator delete(void *p, std::size_t, std::align_val_t) noexcept { c10alloc::dealloc(p); }
void operator delete[](void *p, std::size_t, std::align_val_t) noexcept { c10alloc::dealloc(p); }
void operator delete(void *p, const std::nothrow_t &) noexcept { c10alloc::dealloc(p); }
void operator delete[](void *p, const std::nothrow_t &) noexcept { c10alloc::dealloc(p); }
