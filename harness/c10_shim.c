// C10: LD_PRELOAD malloc interposer that perturbs the heap layout from a seed (env C10_SHIM_SEED).
// Every request is padded by a seeded amount (changes the size class and therefore the address), and seeded dummy blocks are
// allocated in between (some leaked, some freed later, which leaves holes that later requests fall into in a different order).
// Only ever *grows* requests, so it is transparent to the program.  Build: gcc -O1 -shared -fPIC c10_shim.c -o c10_shim.so -ldl
#define _GNU_SOURCE
#include <dlfcn.h>
#include <stddef.h>
#include <stdint.h>
#include <stdlib.h>
#include <string.h>

static void *(*r_malloc)(size_t);
static void (*r_free)(void *);
static void *(*r_calloc)(size_t, size_t);
static void *(*r_realloc)(void *, size_t);
static void *(*r_memalign)(size_t, size_t);
static int (*r_posix_memalign)(void **, size_t, size_t);
static void *(*r_aligned_alloc)(size_t, size_t);

static int g_init = 0;           // 0 = not yet, 1 = in progress, 2 = done
static uint64_t g_state = 0;
static unsigned g_level = 0;     // 0 = pass through
static __thread int g_inside = 0;
static unsigned long g_calls = 0;
unsigned long c10_shim_calls(void) { return g_level ? g_calls : 0; } // evidence that the shim is loaded and active

// bootstrap arena for calloc calls made by dlsym itself
static char g_boot[65536];
static size_t g_bootUsed = 0;
static int isBoot(void *p) { return (char *)p >= g_boot && (char *)p < g_boot + sizeof g_boot; }
static void *bootAlloc(size_t n) {
	size_t a = (g_bootUsed + 15) & ~(size_t)15;
	if (a + n > sizeof g_boot) return 0;
	g_bootUsed = a + n;
	memset(g_boot + a, 0, n);
	return g_boot + a;
}

static uint64_t rnd(void) { // splitmix64; races between threads only perturb more
	uint64_t z = (g_state += 0x9E3779B97F4A7C15ull);
	z = (z ^ (z >> 30)) * 0xBF58476D1CE4E5B9ull;
	z = (z ^ (z >> 27)) * 0x94D049BB133111EBull;
	return z ^ (z >> 31);
}

static void init(void) {
	if (g_init) return;
	g_init = 1;
	r_malloc = dlsym(RTLD_NEXT, "malloc");
	r_free = dlsym(RTLD_NEXT, "free");
	r_calloc = dlsym(RTLD_NEXT, "calloc");
	r_realloc = dlsym(RTLD_NEXT, "realloc");
	r_memalign = dlsym(RTLD_NEXT, "memalign");
	r_posix_memalign = dlsym(RTLD_NEXT, "posix_memalign");
	r_aligned_alloc = dlsym(RTLD_NEXT, "aligned_alloc");
	const char *s = getenv("C10_SHIM_SEED");
	if (s && *s) {
		g_state = strtoull(s, 0, 0) * 0x100000001b3ull + 12345;
		g_level = 1 + (unsigned)(rnd() % 3);
	}
	g_init = 2;
}

#define HOLES 64
static void *g_holes[HOLES];

static size_t pad(size_t n) {
	if (!g_level || n > (1u << 20)) return n;
	uint64_t r = rnd();
	size_t p = 16 * (size_t)(r % (g_level == 1 ? 2 : g_level == 2 ? 5 : 17));
	return n + p;
}

static void perturb(void) {
	if (!g_level || g_inside) return;
	g_inside = 1;
	uint64_t r = rnd();
	if ((r & 7) < g_level) {
		size_t sz = 16 + (size_t)((r >> 8) % 700);
		void *d = r_malloc(sz);
		unsigned slot = (unsigned)((r >> 32) % HOLES);
		if ((r >> 40) & 1) { // keep for a while, free what was there before: a hole opens somewhere else
			void *old = g_holes[slot];
			g_holes[slot] = d;
			if (old) r_free(old);
		} // else: leaked on purpose
	}
	g_inside = 0;
}

void *malloc(size_t n) {
	if (g_init != 2) { if (g_init == 1) return bootAlloc(n); init(); }
	g_calls++;
	perturb();
	return r_malloc(pad(n));
}

void free(void *p) {
	if (!p || isBoot(p)) return;
	if (g_init != 2) init();
	r_free(p);
}

void *calloc(size_t a, size_t b) {
	if (g_init != 2) { if (g_init == 1) return bootAlloc(a * b); init(); }
	perturb();
	if (b && a > (size_t)-1 / b) return 0;
	return r_calloc(1, pad(a * b));
}

void *realloc(void *p, size_t n) {
	if (g_init != 2) init();
	if (isBoot(p)) { void *q = r_malloc(pad(n)); if (q) memcpy(q, p, n < 4096 ? n : 4096); return q; }
	perturb();
	return r_realloc(p, n ? pad(n) : n);
}

void *memalign(size_t al, size_t n) { if (g_init != 2) init(); perturb(); return r_memalign(al, pad(n)); }
int posix_memalign(void **out, size_t al, size_t n) { if (g_init != 2) init(); perturb(); return r_posix_memalign(out, al, pad(n)); }
void *aligned_alloc(size_t al, size_t n) {
	if (g_init != 2) init();
	perturb();
	size_t m = pad(n);
	m = (m + al - 1) / al * al;
	return r_aligned_alloc(al, m);
}
