// C11 harness: one generated design is built as an undecorated twin U and as k decorated twins D_i (names, areas, comments,
// attributes, taps, extra signal copies); every twin is simulated on the same stimulus before and after post-processing.
// Usage: c11 <seed> <ncases> <nsteps> [twins]
#include <gatery/pch.h>
#include "designgen.h"
#include <gatery/hlim/Circuit.h>
#include <iostream>
#include <fstream>
#include <filesystem>
#include <regex>
#include <set>
#include <unistd.h>
#include <gatery/export/vhdl/VHDLExport.h>

using namespace gtry;
using vh::Rng;

static void printTrace(std::ostream &o, const std::string &tag, const std::vector<std::vector<std::string>> &tr) {
	for (size_t c = 0; c < tr.size(); c++) { o << tag << ' ' << c; for (auto &v : tr[c]) o << ' ' << v; o << '\n'; }
}

struct TwinResult { bool ok = false; std::string err; std::string iface; /* port list of the exported top entity */ std::vector<std::vector<std::string>> pre, post; bool adef = false; size_t nodesPre = 0, nodesPost = 0; };

// The export half of the property, interface level: the exported top entity has one port per pin, clock and reset of the design, whatever
// names, areas, comments, attributes, taps or signal copies decorate the logic inside. Returns the sorted port list "name:dir:type;…" of the
// top entity (lower case), or "export-threw:<message>".
static std::string exportInterface(DesignScope &design) {
	namespace fs = std::filesystem;
	fs::path dir = fs::current_path() / ("c11_export_" + std::to_string((long) getpid()));
	std::string result;
	try {
		fs::create_directories(dir);
		{
			vhdl::VHDLExport vhdl(dir / "design.vhd");
			vhdl.outputMode(vhdl::OutputMode::SINGLE_FILE);
			vhdl(design.getCircuit());
		}
		std::ifstream f(dir / "design.vhd"); std::stringstream ss; ss << f.rdbuf(); std::string text = ss.str();
		for (auto &c : text) c = (char) std::tolower((unsigned char) c);
		std::string top = design.getCircuit().getRootNodeGroup()->getName();
		for (auto &c : top) c = (char) std::tolower((unsigned char) c);
		// all "entity <name> is … end" blocks; the top entity is the one named like the root group (else the last one)
		std::regex ent("entity\\s+(\\w+)\\s+is([\\s\\S]*?)end\\s+(entity\\s+)?\\1");
		std::string block; bool found = false;
		for (auto it = std::sregex_iterator(text.begin(), text.end(), ent); it != std::sregex_iterator(); ++it) {
			if (!found) block = (*it)[2];
			if ((*it)[1] == top) { block = (*it)[2]; found = true; }
		}
		std::regex port("(\\w+)\\s*:\\s*(in|out|inout)\\s+([\\w_]+)");
		// clock and reset ports are not compared: a tap or an attribute may keep a register alive that the undecorated design loses
		// (an unused register), and with it the clock; the data pins are what the property is about
		std::set<std::string> clockNames;
		for (auto &c : design.getCircuit().getClocks()) for (std::string n : {c->getName(), c->getResetName()}) { for (auto &ch : n) ch = (char) std::tolower((unsigned char) ch); clockNames.insert(n); }
		std::vector<std::string> ports;
		for (auto it = std::sregex_iterator(block.begin(), block.end(), port); it != std::sregex_iterator(); ++it)
			if (!clockNames.contains((*it)[1].str()))
				ports.push_back((*it)[1].str() + ":" + (*it)[2].str() + ":" + (*it)[3].str());
		std::sort(ports.begin(), ports.end());
		for (auto &p : ports) result += p + ";";
		if (result.empty()) result = "no-ports";
	} catch (const std::exception &e) { result = std::string("export-threw:") + e.what(); for (auto &ch : result) if (ch == '\n' || ch == ' ') ch = '_'; result = result.substr(0, 160); }
	std::error_code ec; fs::remove_all(dir, ec);
	return result;
}

static TwinResult runTwin(const vh::Recipe &recipe, const vh::Decoration &deco, uint64_t stimSeed, size_t ncycles, bool withUndef, bool minimal, bool doExport = false) {
	TwinResult r;
	try {
		DesignScope design;
		vh::Built b = vh::build(recipe, deco);
		Rng srng(stimSeed);
		vh::Stimulus st = vh::genStimulus(srng, b.inWidths, ncycles, withUndef);
		r.adef = !withUndef;
		r.nodesPre = design.getCircuit().getNodes().size();
		r.pre = vh::simulate(design.getCircuit(), b, st, &r.adef);
		if (minimal) design.getCircuit().postprocess(hlim::MinimalPostprocessing{}); else design.postprocess();
		r.nodesPost = design.getCircuit().getNodes().size();
		r.post = vh::simulate(design.getCircuit(), b, st);
		if (doExport && !minimal) r.iface = exportInterface(design);
		r.ok = true;
	} catch (const std::exception &e) { r.err = e.what(); for (auto &ch : r.err) if (ch == '\n' || ch == ' ') ch = '_'; r.err = r.err.substr(0, 120); }
	return r;
}

int main(int argc, char **argv) {
	uint64_t seed = vh::argU64(argc, argv, 1, 1), ncases = vh::argU64(argc, argv, 2, 50), nsteps = vh::argU64(argc, argv, 3, 25), twins = vh::argU64(argc, argv, 4, 4), only = vh::argU64(argc, argv, 5, ~0ull);
	std::ios::sync_with_stdio(false);
	std::cout << "# prop=C11 seed=" << seed << " cases=" << ncases << " nsteps=" << nsteps << " twins=" << twins << "\n";
	Rng top(seed * 0x100000001b3ull + 11);
	for (uint64_t k = 0; k < ncases; k++) {
		Rng rng = top.fork();
		if (only != ~0ull && k != only) continue;
		vh::GenOpts go;
		go.nInputs = 2 + rng.below(4); go.nSteps = 3 + rng.below(nsteps); go.maxWidth = 1 + rng.below(6);
		go.regs = rng.chance(3, 4); go.wide = rng.chance(1, 6); go.undefinedConsts = rng.chance(1, 8); go.fullyDefined = rng.chance(2, 3); go.patternBias = rng.chance(1, 3) ? 30 : 8;
		vh::RecipeGen gen(rng, go);
		vh::Recipe recipe = gen.generate();
		bool withUndef = !go.fullyDefined && rng.chance(1, 2);
		bool minimal = rng.chance(1, 4);
		uint64_t stimSeed = rng.next(); size_t ncycles = 6 + rng.below(10);
		bool doExport = rng.chance(1, 3); // a third of the cases is also exported (default post-processing only)
		// the VHDL exporter has no division / remainder (Process.cpp: "Unhandled operation!"): a design that contains one exports only while
		// the operator is dead code, which a tap or an attribute changes — such recipes are left out of the export comparison
		for (auto &st : recipe.steps) if (st.kind == "div" || st.kind == "rem") doExport = false;
		TwinResult u = runTwin(recipe, {}, stimSeed, ncycles, withUndef, minimal, doExport);
		if (!u.ok) { std::cout << "# case " << k << " undecorated twin not constructible/processable: " << u.err << '\n'; continue; }
		std::cout << "case " << k << " pp=" << (minimal ? "minimal" : "default") << " adef=" << u.adef << " nodes=" << u.nodesPre << "->" << u.nodesPost << '\n';
		std::cout << recipe.toString();
		printTrace(std::cout, "upre", u.pre);
		printTrace(std::cout, "upost", u.post);
		for (uint64_t t = 0; t < twins; t++) {
			vh::Decoration d; d.seed = rng.next();
			d.names = rng.chance(1, 2); d.areas = rng.chance(1, 2); d.comments = rng.chance(1, 3); d.copies = rng.chance(1, 2); d.attribs = rng.chance(1, 3); d.taps = rng.chance(1, 4);
			if (!d.any()) d.names = true;
			d.chains = (d.seed % 5 == 0); // taken from the seed so that the other random choices keep their stream
			std::cout << "twin " << t << " names=" << d.names << " areas=" << d.areas << " comments=" << d.comments << " copies=" << d.copies << " attribs=" << d.attribs << " taps=" << d.taps << " chains=" << d.chains << " dseed=" << d.seed << '\n';
			TwinResult r = runTwin(recipe, d, stimSeed, ncycles, withUndef, minimal, doExport);
			if (!r.ok) { std::cout << "terr " << t << ' ' << r.err << '\n'; continue; }
			std::cout << "tnodes " << t << ' ' << r.nodesPre << ' ' << r.nodesPost << '\n';
			if (r.pre == u.pre) std::cout << "dpre_same " << t << '\n'; else printTrace(std::cout, "dpre " + std::to_string(t), r.pre);
			if (r.post == u.post) std::cout << "dpost_same " << t << '\n'; else printTrace(std::cout, "dpost " + std::to_string(t), r.post);
			if (doExport && !minimal) std::cout << "dif " << t << ' ' << (r.iface == u.iface ? "same" : "differs") << " u=" << u.iface << " d=" << r.iface << '\n';
		}
		std::cout << "end\n";
	}
	return 0;
}
