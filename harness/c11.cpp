// C11 harness: one generated design is built as an undecorated twin U and as k decorated twins D_i (names, areas, comments,
// attributes, taps, extra signal copies); every twin is simulated on the same stimulus before and after post-processing.
// Usage: c11 <seed> <ncases> <nsteps> [twins]
#include <gatery/pch.h>
#include "designgen.h"
#include <gatery/hlim/Circuit.h>
#include <iostream>

using namespace gtry;
using vh::Rng;

static void printTrace(std::ostream &o, const std::string &tag, const std::vector<std::vector<std::string>> &tr) {
	for (size_t c = 0; c < tr.size(); c++) { o << tag << ' ' << c; for (auto &v : tr[c]) o << ' ' << v; o << '\n'; }
}

struct TwinResult { bool ok = false; std::string err; std::vector<std::vector<std::string>> pre, post; bool adef = false; size_t nodesPre = 0, nodesPost = 0; };

static TwinResult runTwin(const vh::Recipe &recipe, const vh::Decoration &deco, uint64_t stimSeed, size_t ncycles, bool withUndef, bool minimal) {
	TwinResult r;
	try {
		DesignScope design;
		vh::Built b = vh::build(recipe, deco);
		Rng srng(stimSeed);
		vh::Stimulus st = vh::genStimulus(srng, b.inWidths, ncycles, withUndef);
		r.adef = !withUndef;
		r.nodesPre = design.getCircuit().getNodes().size();
		r.pre = vh::simulate(design.getCircuit(), b, st, &r.adef);
		if (minimal) design.getCircuit().postprocess(hlim::MinimalPostprocessing{}); else design.postprocess();
		r.nodesPost = design.getCircuit().getNodes().size();
		r.post = vh::simulate(design.getCircuit(), b, st);
		r.ok = true;
	} catch (const std::exception &e) { r.err = e.what(); for (auto &ch : r.err) if (ch == '\n' || ch == ' ') ch = '_'; r.err = r.err.substr(0, 120); }
	return r;
}

int main(int argc, char **argv) {
	uint64_t seed = vh::argU64(argc, argv, 1, 1), ncases = vh::argU64(argc, argv, 2, 50), nsteps = vh::argU64(argc, argv, 3, 25), twins = vh::argU64(argc, argv, 4, 4), only = vh::argU64(argc, argv, 5, ~0ull);
	std::ios::sync_with_stdio(false);
	std::cout << "# prop=C11 seed=" << seed << " cases=" << ncases << " nsteps=" << nsteps << " twins=" << twins << "\n";
	Rng top(seed * 0x100000001b3ull + 11);
	for (uint64_t k = 0; k < ncases; k++) {
		Rng rng = top.fork();
		if (only != ~0ull && k != only) continue;
		vh::GenOpts go;
		go.nInputs = 2 + rng.below(4); go.nSteps = 3 + rng.below(nsteps); go.maxWidth = 1 + rng.below(6);
		go.regs = rng.chance(3, 4); go.wide = rng.chance(1, 6); go.undefinedConsts = rng.chance(1, 8); go.fullyDefined = rng.chance(2, 3); go.patternBias = rng.chance(1, 3) ? 30 : 8;
		vh::RecipeGen gen(rng, go);
		vh::Recipe recipe = gen.generate();
		bool withUndef = !go.fullyDefined && rng.chance(1, 2);
		bool minimal = rng.chance(1, 4);
		uint64_t stimSeed = rng.next(); size_t ncycles = 6 + rng.below(10);
		TwinResult u = runTwin(recipe, {}, stimSeed, ncycles, withUndef, minimal);
		if (!u.ok) { std::cout << "# case " << k << " undecorated twin not constructible/processable: " << u.err << '\n'; continue; }
		std::cout << "case " << k << " pp=" << (minimal ? "minimal" : "default") << " adef=" << u.adef << " nodes=" << u.nodesPre << "->" << u.nodesPost << '\n';
		std::cout << recipe.toString();
		printTrace(std::cout, "upre", u.pre);
		printTrace(std::cout, "upost", u.post);
		for (uint64_t t = 0; t < twins; t++) {
			vh::Decoration d; d.seed = rng.next();
			d.names = rng.chance(1, 2); d.areas = rng.chance(1, 2); d.comments = rng.chance(1, 3); d.copies = rng.chance(1, 2); d.attribs = rng.chance(1, 3); d.taps = rng.chance(1, 4);
			if (!d.any()) d.names = true;
			d.chains = (d.seed % 5 == 0); // taken from the seed so that the other random choices keep their stream
			std::cout << "twin " << t << " names=" << d.names << " areas=" << d.areas << " comments=" << d.comments << " copies=" << d.copies << " attribs=" << d.attribs << " taps=" << d.taps << " chains=" << d.chains << " dseed=" << d.seed << '\n';
			TwinResult r = runTwin(recipe, d, stimSeed, ncycles, withUndef, minimal);
			if (!r.ok) { std::cout << "terr " << t << ' ' << r.err << '\n'; continue; }
			std::cout << "tnodes " << t << ' ' << r.nodesPre << ' ' << r.nodesPost << '\n';
			if (r.pre == u.pre) std::cout << "dpre_same " << t << '\n'; else printTrace(std::cout, "dpre " + std::to_string(t), r.pre);
			if (r.post == u.post) std::cout << "dpost_same " << t << '\n'; else printTrace(std::cout, "dpost " + std::to_string(t), r.post);
		}
		std::cout << "end\n";
	}
	return 0;
}
