// C12 harness: generates random multi-clock designs through the real frontend, runs the real
// design.postprocess() (records whether it throws the CDC DesignError) and, separately, calls
// hlim::inferClockDomains / hlim::detectUnguardedCDCCrossings directly on the graph before and after
// post-processing, dumping the graph structure, the per-port domain map and the flagged nodes.
// Usage: c12 <seed> <ncases> <statements-per-design>   |   c12 replay <subseed> <statements-per-design>  (one design, as printed in its `case` line)   |   c12 fixed  (hand-written designs)   |   c12 quirk  (see Gen::buildQuirk)
#include <gatery/pch.h>
#include <gatery/frontend.h>
#include <gatery/scl/cdc.h>
#include <gatery/hlim/Circuit.h>
#include <gatery/hlim/Subnet.h>
#include <gatery/hlim/postprocessing/CDCDetection.h>
#include <gatery/hlim/supportNodes/Node_CDC.h>
#include <gatery/hlim/supportNodes/Node_MemPort.h>
#include <gatery/hlim/supportNodes/Node_External.h>
#include <gatery/hlim/coreNodes/Node_Signal2Clk.h>
#include <gatery/hlim/coreNodes/Node_Signal2Rst.h>
#include <gatery/hlim/coreNodes/Node_Register.h>
#include <gatery/hlim/coreNodes/Node_Pin.h>
#include "common.h"
#include <iostream>
#include <set>
#include <map>
#include <algorithm>
#include <filesystem>
#include <fstream>
#include <unistd.h>
#include <csignal>
#include <fcntl.h>
#include <sys/stat.h>

using namespace gtry;
using vh::Rng;

static std::ostream &o = std::cout;

// ------------------------------------------------------------------------------------------------
// structural dump + direct calls of the CDC detection
// ------------------------------------------------------------------------------------------------

static void dumpClocks(hlim::Circuit &c, std::map<const hlim::Clock*, size_t> &clkIdx)
{
	const auto &clocks = c.getClocks();
	for (size_t i = 0; i < clocks.size(); i++) clkIdx[clocks[i].get()] = i;
	o << "clocks " << clocks.size() << '\n';
	for (size_t i = 0; i < clocks.size(); i++) {
		const hlim::Clock *k = clocks[i].get();
		const hlim::Clock *par = k->getParentClock();
		o << "clock " << i << ' ';
		if (par) o << clkIdx.at(par); else o << '-';
		o << ' ' << k->isSelfDriven(true, true) << ' ' << k->isSelfDriven(false, true) << ' ';
		if (par) o << (par->getName() == k->getName()) << ' ' << (par->absoluteFrequency() == k->absoluteFrequency());
		else o << "0 0";
		o << ' ' << k->getPhaseSynchronousWithParent() << ' ' << clkIdx.at(k->getClockPinSource()) << '\n';
	}
}

static std::string clkStr(const hlim::Clock *k, const std::map<const hlim::Clock*, size_t> &clkIdx)
{
	if (!k) return "n";
	return std::to_string(clkIdx.at(k));
}

// what the generator REQUESTED from the frontend (not read back from the library): the physical-source class of every clock it created
// and the clock(s) it asked for at every register, pin, crossing marker and memory port it created
struct Requests {
	std::map<const hlim::Clock*, int> gps;
	std::vector<std::pair<const hlim::BaseNode*, std::vector<const hlim::Clock*>>> nodes;
};

static void dumpGraph(const char *tag, hlim::Circuit &c, const Requests *req = nullptr)
{
	std::map<const hlim::Clock*, size_t> clkIdx;
	o << "graph " << tag << '\n';
	dumpClocks(c, clkIdx);

	std::vector<hlim::BaseNode*> nodes;
	for (auto &n : c.getNodes()) nodes.push_back(n.get());
	std::vector<hlim::BaseNode*> storage = nodes;
	std::sort(nodes.begin(), nodes.end(), [](auto *a, auto *b) { return a->getId() < b->getId(); });
	std::map<const hlim::BaseNode*, size_t> nodeIdx, firstPort;
	size_t nports = 0;
	for (size_t i = 0; i < nodes.size(); i++) { nodeIdx[nodes[i]] = i; firstPort[nodes[i]] = nports; nports += nodes[i]->getNumOutputPorts(); }
	o << "size " << nodes.size() << ' ' << nports << '\n';

	for (size_t i = 0; i < nodes.size(); i++) {
		auto *n = nodes[i];
		const auto &clks = n->getClocks();
		o << "node " << i << ' ' << n->getNumOutputPorts() << ' ';
		if (auto *cdc = dynamic_cast<hlim::Node_CDC*>(n)) {
			auto *ic = clks[(size_t)hlim::Node_CDC::Clocks::INPUT_CLOCK];
			auto *oc = clks[(size_t)hlim::Node_CDC::Clocks::OUTPUT_CLOCK];
			if (ic) o << "cdc " << clkStr(ic, clkIdx) << ' ' << clkStr(oc, clkIdx); else o << "other - -";
		} else if (dynamic_cast<hlim::Node_MemPort*>(n)) o << "memport " << clkStr(clks[0], clkIdx) << " -";
		else if (dynamic_cast<hlim::Node_Signal2Clk*>(n) || dynamic_cast<hlim::Node_Signal2Rst*>(n)) o << "nocheck " << clkStr(clks[0], clkIdx) << " -";
		else if (dynamic_cast<hlim::Node_External*>(n)) o << "other - -";
		else if (clks.empty()) o << "plain - -";
		else if (clks.size() == 1) o << "plain " << clkStr(clks[0], clkIdx) << " -";
		else o << "other - -";
		std::string ty = n->getTypeName();
		for (auto &ch : ty) if (ch == ' ' || ch == '\n' || ch == '\t') ch = '_';
		if (ty.empty()) ty = "?";
		o << ' ' << ty << " ins";
		for (size_t j = 0; j < n->getNumInputPorts(); j++) {
			auto d = n->getDriver(j);
			if (d.node == nullptr) o << " -"; else o << ' ' << firstPort.at(d.node) + d.port;
		}
		o << '\n';
	}
	o << "order";
	for (auto *n : storage) o << ' ' << nodeIdx.at(n);
	o << '\n';

	// the real getOutputClockRelation of every port
	for (size_t i = 0; i < nodes.size(); i++)
		for (size_t p = 0; p < nodes[i]->getNumOutputPorts(); p++) {
			o << "ocr " << firstPort.at(nodes[i]) + p << ' ';
			try {
				auto r = nodes[i]->getOutputClockRelation(p);
				if (!r.dependentClocks.empty()) o << "c " << clkStr(r.dependentClocks[0], clkIdx);
				else {
					o << "i";
					for (auto j : r.dependentInputs) {
						auto d = nodes[i]->getDriver(j);
						if (d.node == nullptr) o << " -"; else o << ' ' << firstPort.at(d.node) + d.port;
					}
				}
			} catch (...) { o << "e"; }
			o << '\n';
		}

	// the real inferClockDomains
	utils::UnstableMap<hlim::NodePort, hlim::SignalClockDomain> domains;
	o << "dom";
	try {
		hlim::inferClockDomains(c, domains);
		for (size_t i = 0; i < nodes.size(); i++)
			for (size_t p = 0; p < nodes[i]->getNumOutputPorts(); p++) {
				auto it = domains.find(hlim::NodePort{ .node = nodes[i], .port = p });
				if (it == domains.end()) o << " -";
				else switch (it->second.type) {
					case hlim::SignalClockDomain::UNKNOWN: o << " u"; break;
					case hlim::SignalClockDomain::CONSTANT: o << " c"; break;
					case hlim::SignalClockDomain::CLOCK: o << " k" << clkIdx.at(it->second.clk); break;
				}
			}
	} catch (...) { o << " e"; }
	o << '\n';

	// the real detectUnguardedCDCCrossings with a collecting callback
	std::vector<size_t> flagged;
	o << "flagged";
	try {
		hlim::detectUnguardedCDCCrossings(c, hlim::ConstSubnet::all(c), [&](const hlim::BaseNode *n) { flagged.push_back(nodeIdx.at(n)); });
		std::sort(flagged.begin(), flagged.end());
		for (auto f : flagged) o << ' ' << f;
	} catch (...) { o << " e"; }
	o << '\n';
	if (req) {
		for (auto &g : req->gps) if (clkIdx.count(g.first)) o << "gps " << clkIdx.at(g.first) << ' ' << g.second << '\n';
		for (auto &r : req->nodes) {
			if (!nodeIdx.count(r.first)) continue;
			o << "req " << nodeIdx.at(r.first);
			for (auto *k : r.second) o << ' ' << clkStr(k, clkIdx);
			o << '\n';
		}
	}
	o << "endgraph\n";
}

// ------------------------------------------------------------------------------------------------
// generator
// ------------------------------------------------------------------------------------------------

static const int UNK = -1; // label of a clocked source whose clock slot is empty

// `ps`: physical clock source as REQUESTED (a derived clock keeps its parent's source unless it was given another name, a frequency
// multiplier != 1 or phaseSynchronousWithParent = false).  `phaseSync`: false iff the clock itself was requested with
// phaseSynchronousWithParent = false (children of such clocks that change only register attributes share ITS source: finding F21, fixed).
struct GClock { Clock clk; int ps; bool phaseSync = true; };

struct GSig {
	UInt sig;
	std::set<int> labels;    // pin-source classes (generator's own bookkeeping) that influence the signal marker-free
	bool used = false;
	explicit GSig(const UInt &s) : sig(s) {}
	explicit GSig(BitWidth w) : sig(w) {}   // not yet driven: the first assignment closes the loop for earlier readers
};

struct GBit {
	Bit sig;
	std::set<int> labels;
	bool used = false;
	explicit GBit(const Bit &b) : sig(b) {}
};

struct Gen {
	Rng &rng;
	std::vector<GClock> clocks;
	std::vector<std::unique_ptr<GSig>> pool;
	std::vector<std::unique_ptr<GBit>> bits;                  // single-bit signals: conditions, enables, flags
	std::vector<std::unique_ptr<Memory<UInt>>> localMems;
	struct Placeholder { GSig *s; size_t clk; };
	std::vector<Placeholder> placeholders;
	bool intent = false;             // generator's ground truth: the design contains an unmarked / wrongly marked crossing
	std::map<std::string, unsigned> hist;
	int nextPs = 0;
	int defaultPs = 0;
	bool multiDomain = true;
	unsigned nameCtr = 0;
	// one optional memory
	std::unique_ptr<Memory<UInt>> mem;
	bool memNoConflicts = false, memHasPort = false;
	size_t memWriteClk = ~size_t(0);
	std::set<int> memOrderLabels;
	// hierarchy
	std::vector<std::unique_ptr<Area>> areas;
	std::vector<std::unique_ptr<GroupScope>> scopes;

	explicit Gen(Rng &r) : rng(r) {}

	// ---- record of what was requested from the frontend ---------------------------------------------------------------
	Requests req;
	const hlim::Clock *hclk(size_t c) const { return clocks[c].clk.getClk(); }
	void noteClock(const Clock &k, int ps) { req.gps[k.getClk()] = ps; }
	// the node that produces a signal handed back by the frontend (behind the signal nodes; for memory reads also behind the unpacking rewire)
	template<class S> static hlim::BaseNode *producer(const S &sig) {
		hlim::BaseNode *n = sig.readPort().node;
		for (int t = 0; t < 6 && n; t++) {
			if (dynamic_cast<hlim::Node_Register*>(n) || dynamic_cast<hlim::Node_CDC*>(n) || dynamic_cast<hlim::Node_MemPort*>(n) || dynamic_cast<hlim::Node_Pin*>(n)) return n;
			if (n->getNumInputPorts() == 0) return nullptr;
			n = n->getNonSignalDriver(0).node;
		}
		return nullptr;
	}
	template<class N, class S> void note(const S &sig, std::vector<const hlim::Clock*> ks) {
		hlim::BaseNode *n = producer(sig);
		if (dynamic_cast<N*>(n)) req.nodes.push_back({ n, std::move(ks) }); else hist["req.unlocated"]++;
	}
	template<class S> S R(const S &r, size_t c) { note<hlim::Node_Register>(r, { hclk(c) }); return r; }                       // register on clock c
	template<class S> S M(const S &r, size_t src, size_t dst) { note<hlim::Node_CDC>(r, { hclk(src), hclk(dst) }); return r; }  // marker src -> dst
	UInt MR(const UInt &r, size_t c) { note<hlim::Node_MemPort>(r, { hclk(c) }); return r; }                                    // memory read port
	void MW(hlim::Node_MemPort *port, size_t c) { req.nodes.push_back({ port, { hclk(c) } }); }                                // memory write port
	void P(hlim::Node_Pin *pin, const hlim::Clock *k) { req.nodes.push_back({ pin, { k } }); }
	const hlim::Clock *defaultClk = nullptr;

	static bool compat(int a, int b) { return a != UNK && b != UNK && a == b; }

	// a node combining the given operands (by input position), optionally bound to a clock
	void meet(const std::vector<const std::set<int>*> &ops, int ownPs = -2) {
		for (size_t i = 0; i < ops.size(); i++) {
			for (int l : *ops[i]) {
				if (ownPs != -2 && !compat(l, ownPs)) intent = true;
				for (size_t j = i + 1; j < ops.size(); j++)
					for (int m : *ops[j])
						if (!compat(l, m)) intent = true;
			}
		}
	}

	GSig &add(const UInt &s, std::set<int> labels) {
		pool.push_back(std::make_unique<GSig>(s));
		pool.back()->labels = std::move(labels);
		if (rng.chance(1, 3)) pool.back()->sig.setName("s" + std::to_string(nameCtr++));
		return *pool.back();
	}

	// discipline of the design: probability (percent) that an operand / clock is picked without regard to its domain
	unsigned wildPct = 0;
	bool wildNow = false;   // one-fault designs: exactly one statement is built wild
	bool wild() { return wildNow || rng.below(100) < wildPct; }

	static bool hasUnk(const GSig &s) { return s.labels.count(UNK) != 0; }
	// the one domain of a signal, -2 if constant, -3 if it already mixes domains / is unknown
	static int domainOf(const GSig &s) {
		if (s.labels.empty()) return -2;
		if (s.labels.size() == 1 && *s.labels.begin() != UNK) return *s.labels.begin();
		return -3;
	}

	GSig &pickAny() { auto &s = *pool[rng.below(pool.size())]; s.used = true; return s; }
	// first operand: in disciplined mode avoid signals of unknown domain / already mixed ones for multi-operand nodes
	GSig &pickSig(bool single = false) {
		if (wild()) return pickAny();
		for (int t = 0; t < 20; t++) {
			auto &s = *pool[rng.below(pool.size())];
			if (domainOf(s) == -3 && !(single && s.labels.size() == 1)) continue;
			s.used = true; return s;
		}
		return newInput(pickClock());
	}
	// further operand that may legally meet domain `ps` (-2: anything of a single domain)
	GSig &pickCompat(int ps) {
		if (wild()) return pickAny();
		for (int t = 0; t < 30; t++) {
			auto &s = *pool[rng.below(pool.size())];
			int d = domainOf(s);
			if (d == -3) continue;
			if (d == -2 || ps == -2 || d == ps) { s.used = true; return s; }
		}
		if (ps < 0) return newInput(pickClock());
		return newInput(pickClockOfPs(ps));
	}
	GSig &newInput(size_t c) {
		ClockScope cs(clocks[c].clk);
		auto pin = pinIn(4_b); P(pin.node(), hclk(c));
		GSig &s = add(pin, { clocks[c].ps }); hist["pinIn"]++;
		s.used = true;
		return s;
	}
	// clock for a node consuming signals of domain `ps`
	size_t pickClockFor(int ps) { return (ps < 0 || wild()) ? pickClock() : pickClockOfPs(ps); }
	static int join(int a, int b) { return a == -2 ? b : a; }
	size_t pickClock() { return rng.below(clocks.size()); }
	// a clock with the given pin-source class, if any (possibly a derived sibling)
	size_t pickClockOfPs(int ps) {
		std::vector<size_t> c;
		for (size_t i = 0; i < clocks.size(); i++) if (clocks[i].ps == ps) c.push_back(i);
		if (c.empty()) return pickClock();
		return c[rng.below(c.size())];
	}

	// `samePin`: only register attributes / reset name are changed, or a frequency multiplier of 1 is given: same physical clock.
	void addDerived(size_t parent, const ClockConfig &cfg, bool samePin) {
		GClock c{ clocks[parent].clk.deriveClock(cfg), samePin ? clocks[parent].ps : nextPs++, true };
		clocks.push_back(c);
		noteClock(c.clk, c.ps);
		if (samePin) hist[clocks[parent].phaseSync ? "clk.derived.samepin" : "clk.derived.samepin.of.unsynchronised"]++;
	}
	void makeClocksBase() {
		// DesignScope keeps a default clock ("GateryDefaultClock") in scope: pins created outside any user ClockScope belong to it
		defaultPs = nextPs;
		clocks.push_back({ ClockScope::getClk(), nextPs++ });
		defaultClk = clocks.back().clk.getClk();
		noteClock(clocks.back().clk, clocks.back().ps);
	}
	void makeClocks() {
		makeClocksBase();
		size_t nroot = 1 + rng.below(3);
		for (size_t i = 0; i < nroot; i++) {
			ClockConfig cfg;
			cfg.absoluteFrequency = hlim::ClockRational{ rng.chance(1, 2) ? 100'000'000u : 10'000u * (1 + rng.below(3)), 1 };
			if (rng.chance(2, 3)) cfg.name = "clk" + std::to_string(rng.below(3)); // same names/frequencies on purpose: still distinct pins
			if (rng.chance(1, 4)) cfg.resetType = Clock::ResetType::ASYNCHRONOUS;
			clocks.push_back({ Clock(cfg), nextPs++ });
			noteClock(clocks.back().clk, clocks.back().ps);
			hist["clk.root"]++;
		}
		size_t nder = rng.below(4);
		for (size_t i = 0; i < nder; i++) {
			size_t parent = pickClock();
			ClockConfig cfg;
			switch (rng.below(7)) {
				case 0: case 1: // only register attributes differ: same pin
					cfg.resetType = rng.chance(1, 2) ? Clock::ResetType::SYNCHRONOUS : Clock::ResetType::ASYNCHRONOUS;
					addDerived(parent, cfg, true); break;
				case 2: // trigger/reset name differ: same pin
					cfg.resetName = "rst" + std::to_string(i);
					if (rng.chance(1, 2)) cfg.synchronizationRegister = true;
					if (rng.chance(1, 3)) cfg.triggerEvent = hlim::Clock::TriggerEvent::FALLING;
					addDerived(parent, cfg, true); break;
				case 3:
					cfg.frequencyMultiplier = hlim::ClockRational{ 2, 1 };
					addDerived(parent, cfg, false); hist["clk.derived.freq"]++; break;
				case 4:
					cfg.name = "drv" + std::to_string(i);
					addDerived(parent, cfg, false); hist["clk.derived.name"]++; break;
				case 5:
					cfg.phaseSynchronousWithParent = false;
					addDerived(parent, cfg, false); clocks.back().phaseSync = false; hist["clk.derived.phase"]++; break;
				default: { // frequency multiplier 1/1 given explicitly: same pin
					cfg.frequencyMultiplier = hlim::ClockRational{ 1, 1 };
					addDerived(parent, cfg, true); break;
				}
			}
		}
	}

	void stInput() {
		if (multiDomain && rng.chance(1, 15)) { // pin outside any user ClockScope: default clock
			auto pin = pinIn(4_b); P(pin.node(), defaultClk);
			add(pin, { defaultPs }); hist["pinIn.defaultclock"]++;
		} else if (multiDomain && rng.chance(1, 15)) { // pin whose clock slot is emptied through the hlim API: UNKNOWN domain
			auto pin = pinIn(4_b);
			pin.node()->setClockDomain(nullptr); P(pin.node(), nullptr);
			add(pin, { UNK }); hist["pinIn.noclock"]++;
		} else {
			size_t c = pickClock();
			ClockScope cs(clocks[c].clk);
			auto pin = pinIn(4_b); P(pin.node(), hclk(c));
			add(pin, { clocks[c].ps }); hist["pinIn"]++;
		}
	}

	void stConst() { add(UInt(ConstUInt(rng.below(16), 4_b)), {}); hist["const"]++; }

	void stBinary() {
		GSig &a = pickSig(); GSig &b = pickCompat(domainOf(a));
		std::set<int> l = a.labels; l.insert(b.labels.begin(), b.labels.end());
		meet({ &a.labels, &b.labels });
		UInt r;
		// (post-processing folds AND/OR with a constant operand bitwise, which can cut the other operand off)
		bool hasConst = a.labels.empty() || b.labels.empty();
		switch (hasConst ? (rng.chance(1, 2) ? 0 : 4) : rng.below(6)) {
			case 0: r = a.sig + b.sig; break;
			case 1: r = a.sig - b.sig; break;
			case 2: r = a.sig & b.sig; break;
			case 3: r = a.sig | b.sig; break;
			case 4: r = a.sig ^ b.sig; break;
			default: r = cat(a.sig.lower(2_b), b.sig.upper(2_b)); break;
		}
		add(r, l); hist["binary"]++;
	}

	void stUnary() {
		GSig &a = pickSig(true);
		UInt r;
		switch (rng.below(3)) {
			case 0: r = ~a.sig; break;
			case 1: r = a.sig + 1; break;
			default: r = a.sig ^ ConstUInt(rng.below(16), 4_b); break;
		}
		add(r, a.labels); hist["unary"]++;
	}

	void stMux() {
		// (a constant selector or identical data inputs would let post-processing fold the mux away, and with it the meeting of its operands)
		GSig *cp = &pickSig();
		for (int t = 0; t < 20 && cp->labels.empty(); t++) cp = &pickSig();
		if (cp->labels.empty()) cp = &newInput(pickClock());
		GSig &c = *cp; GSig &a = pickCompat(domainOf(c));
		GSig *bp = &pickCompat(join(domainOf(c), domainOf(a)));
		for (int t = 0; t < 20 && bp == &a; t++) bp = &pickCompat(join(domainOf(c), domainOf(a)));
		if (bp == &a) bp = &newInput(pickClockFor(join(domainOf(c), domainOf(a))));
		// two constant data inputs may carry the same value (mux(c; 6, 6) is 6: post-processing folds it and the selector influences nothing)
		if (a.labels.empty() && bp->labels.empty()) bp = &newInput(pickClockFor(domainOf(c)));
		GSig &b = *bp;
		std::set<int> l = a.labels; l.insert(b.labels.begin(), b.labels.end()); l.insert(c.labels.begin(), c.labels.end());
		meet({ &c.labels, &a.labels, &b.labels });
		UInt r = a.sig;
		if (rng.chance(1, 2)) { IF(c.sig.lsb()) r = b.sig; }
		else { IF(c.sig == ConstUInt(rng.below(16), 4_b)) r = b.sig; }
		add(r, l); hist["mux"]++;
	}

	void stReg() {
		GSig &a = pickSig();
		size_t c = pickClockFor(domainOf(a));
		meet({ &a.labels }, clocks[c].ps);
		UInt r;
		if (rng.chance(1, 2)) { ClockScope cs(clocks[c].clk); r = rng.chance(1, 2) ? reg(a.sig) : reg(a.sig, 0); }
		else r = reg(a.sig, RegisterSettings{ .clock = clocks[c].clk });
		R(r, c);
		add(r, { clocks[c].ps }); hist["reg"]++;
	}

	void stRegEnable() {
		GSig &a = pickSig(); GSig &e = pickCompat(domainOf(a));
		size_t c = pickClockFor(join(domainOf(a), domainOf(e)));
		// Node_Register inputs: DATA, RESET_VALUE, ENABLE
		meet({ &a.labels, &e.labels }, clocks[c].ps);
		UInt r;
		{
			ClockScope cs(clocks[c].clk);
			ENIF(e.sig.lsb()) r = R(reg(a.sig), c);
		}
		add(r, { clocks[c].ps }); hist["reg.enable"]++;
	}

	void stPlaceholder() {
		size_t c = pickClock();
		pool.push_back(std::make_unique<GSig>(4_b));
		pool.back()->labels = { clocks[c].ps };
		placeholders.push_back({ pool.back().get(), c }); hist["reg.feedback"]++;
	}

	// move a signal to another clock domain: marked correctly / marked wrongly / unmarked
	void stCross() {
		// (constant propagation folds a marker with a constant input away, and with it whatever its declared clocks would have caused)
		GSig *ap = &pickSig();
		for (int t = 0; t < 20 && ap->labels.empty(); t++) ap = &pickSig();
		if (ap->labels.empty()) ap = &newInput(pickClock());
		GSig &a = *ap;
		size_t dst = pickClock();
		bool w = wild();
		unsigned how = w ? 50 + (unsigned)rng.below(50) : 0;
		if (!w) {
			// correct marker: declared source = any clock sharing the pin with the signal's domain, declared destination = a clock sharing the pin with the consumer
			size_t src = domainOf(a) >= 0 ? pickClockOfPs(domainOf(a)) : pickClock();
			size_t dstDecl = pickClockOfPs(clocks[dst].ps);
			meet({ &a.labels }, clocks[src].ps);
			if (rng.chance(1, 4)) {
				scl::SynchronizeParams p; p.outStages = 2; p.inStage = rng.chance(1, 2);
				size_t nclk = DesignScope::get()->getCircuit().getClocks().size();
				UInt r = scl::synchronize(a.sig, clocks[src].clk, clocks[dstDecl].clk, p);
				// synchronize() puts its registers on a clock it derives from the destination clock, changing only a register attribute: same physical clock
				int regPs = clocks[dstDecl].ps;
				auto &all = DesignScope::get()->getCircuit().getClocks();
				for (size_t i = nclk; i < all.size(); i++) req.gps[all[i].get()] = regPs;
				add(r, { regPs }); hist["cross.synchronize"]++;
			} else {
				UInt r = M(allowClockDomainCrossing(a.sig, clocks[src].clk, clocks[dstDecl].clk), src, dstDecl);
				GSig &m = add(r, { clocks[dstDecl].ps });
				// consume it in the destination domain right away
				hist["cross.marked"]++;
				consumeUInt(m, dst, true);
			}
		} else if (how < 75) {
			// marker with arbitrary (often wrong) declared clocks
			size_t src = pickClock(), dstDecl = pickClock();
			meet({ &a.labels }, clocks[src].ps);
			UInt r = M(allowClockDomainCrossing(a.sig, clocks[src].clk, clocks[dstDecl].clk), src, dstDecl);
			GSig &m = add(r, { clocks[dstDecl].ps });
			hist["cross.marked.random"]++;
			consumeUInt(m, dst, false);
		} else {
			meet({ &a.labels }, clocks[dst].ps);
			ClockScope cs(clocks[dst].clk);
			add(R(reg(a.sig), dst), { clocks[dst].ps }); hist["cross.unmarked"]++;
		}
	}

	// ---- single-bit signals and the uses of crossing-marker outputs -------------------------------------------------

	// everything but the choice of the marker's clocks is built disciplined in these statements
	struct Calm {
		Gen &g; unsigned pct; bool now;
		explicit Calm(Gen &gen) : g(gen), pct(gen.wildPct), now(gen.wildNow) { g.wildPct = 0; g.wildNow = false; }
		~Calm() { g.wildPct = pct; g.wildNow = now; }
	};

	static int domainOfBit(const GBit &s) {
		if (s.labels.empty()) return -2;
		if (s.labels.size() == 1 && *s.labels.begin() != UNK) return *s.labels.begin();
		return -3;
	}
	static std::set<int> uni(std::initializer_list<const std::set<int>*> l) {
		std::set<int> r; for (auto *x : l) r.insert(x->begin(), x->end()); return r;
	}

	GBit &addBit(const Bit &b, std::set<int> labels) {
		bits.push_back(std::make_unique<GBit>(b));
		bits.back()->labels = std::move(labels);
		if (rng.chance(1, 3)) bits.back()->sig.setName("b" + std::to_string(nameCtr++));
		return *bits.back();
	}

	// a non-constant 4-bit signal of exactly domain `ps`, different from the ones in `excl`
	GSig &pickData(int ps, std::vector<GSig*> &excl) {
		for (int t = 0; t < 30; t++) {
			auto &s = *pool[rng.below(pool.size())];
			if (domainOf(s) != ps || std::find(excl.begin(), excl.end(), &s) != excl.end()) continue;
			s.used = true; excl.push_back(&s); return s;
		}
		GSig &n = newInput(pickClockOfPs(ps));
		excl.push_back(&n); return n;
	}

	// a fresh flag of domain `ps`, derived from a multi-bit signal
	GBit &newBit(int ps) {
		std::vector<GSig*> ex;
		GSig &a = pickData(ps, ex);
		hist["bit.from"]++;
		switch (rng.below(5)) {
			case 0: return addBit(a.sig.lsb(), a.labels);
			case 1: return addBit(a.sig.msb(), a.labels);
			case 2: return addBit(a.sig == ConstUInt(rng.below(16), 4_b), a.labels);
			case 3: return addBit(a.sig != ConstUInt(rng.below(16), 4_b), a.labels);
			default: { GSig &b = pickData(ps, ex); meet({ &a.labels, &b.labels }); return addBit(a.sig < b.sig, uni({ &a.labels, &b.labels })); }
		}
	}
	GBit &pickBit(int ps) {
		for (int t = 0; t < 10 && !bits.empty(); t++) {
			auto &b = *bits[rng.below(bits.size())];
			if (domainOfBit(b) == ps) { b.used = true; return b; }
		}
		GBit &b = newBit(ps); b.used = true; return b;
	}

	// logic in front of / behind a marker: what the rewriting passes of post-processing look for (negations, conjunctions, no-ops)
	GBit &decorate(GBit &c, int ps, const char *where) {
		if (ps < 0) return c;
		c.used = true;
		unsigned k = (unsigned)rng.below(12);
		std::string h = std::string("bit.logic.") + where + ".";
		if (k < 4) { hist[h + "none"]++; return c; }
		if (k == 4 || k == 5) { hist[h + "not"]++; GBit &r = addBit(!c.sig, c.labels); r.used = true; return r; }
		if (k == 6) { hist[h + "notnot"]++; Bit n = !c.sig; GBit &r = addBit(!n, c.labels); r.used = true; return r; }
		if (k == 7) { hist[h + "noop"]++; Bit one = '1'; Bit zero = '0'; GBit &r = addBit(rng.chance(1, 2) ? (c.sig & one) : (c.sig | zero), c.labels); r.used = true; return r; }
		GBit *pp = &pickBit(ps);
		for (int t = 0; t < 5 && pp == &c; t++) pp = &pickBit(ps);
		if (pp == &c) pp = &newBit(ps);
		GBit &p2 = *pp; p2.used = true;
		meet({ &c.labels, &p2.labels });
		Bit r;
		switch (k) {
			case 8: hist[h + "and"]++; r = c.sig & p2.sig; break;
			case 9: hist[h + "or"]++; r = c.sig | p2.sig; break;
			case 10: hist[h + "andnot"]++; r = !c.sig & p2.sig; break;
			default: hist[h + "xor"]++; r = c.sig ^ p2.sig; break;
		}
		GBit &res = addBit(r, uni({ &c.labels, &p2.labels })); res.used = true; return res;
	}

	Memory<UInt> &newLocalMem() {
		localMems.push_back(std::make_unique<Memory<UInt>>(16, UInt(4_b)));
		localMems.back()->noConflicts();
		return *localMems.back();
	}

	// a flag `c` (usually the output of a marker, possibly behind some logic) is used in the domain of clock `dst`
	void consumeBit(GBit &c, size_t dst) {
		Calm calm(*this);
		c.used = true;
		int D = clocks[dst].ps;
		std::vector<GSig*> ex;
		GSig &x0 = pickData(D, ex), &a = pickData(D, ex), &b = pickData(D, ex);
		ClockScope cs(clocks[dst].clk);
		unsigned k = (unsigned)rng.below(12);
		switch (k) {
			case 0: { // IF condition directly
				meet({ &c.labels, &x0.labels, &a.labels });
				UInt x = x0.sig; IF(c.sig) x = a.sig;
				add(x, uni({ &c.labels, &x0.labels, &a.labels })); hist["use.if"]++; break;
			}
			case 1: { // negated condition
				meet({ &c.labels, &x0.labels, &a.labels });
				UInt x = x0.sig; IF(!c.sig) x = a.sig;
				add(x, uni({ &c.labels, &x0.labels, &a.labels })); hist["use.if.not"]++; break;
			}
			case 2: { // IF / ELSE
				meet({ &c.labels, &x0.labels, &a.labels, &b.labels });
				UInt x = x0.sig; IF(c.sig) x = a.sig; ELSE x = b.sig;
				add(x, uni({ &c.labels, &x0.labels, &a.labels, &b.labels })); hist["use.if.else"]++; break;
			}
			case 3: { // the same condition in two sequential IFs
				meet({ &c.labels, &x0.labels, &a.labels, &b.labels });
				UInt x = x0.sig; IF(c.sig) x = a.sig; IF(c.sig) x = b.sig;
				add(x, uni({ &c.labels, &x0.labels, &a.labels, &b.labels })); hist["use.if.twice"]++; break;
			}
			case 4: { // condition and its negation in sequential IFs
				meet({ &c.labels, &x0.labels, &a.labels, &b.labels });
				UInt x = x0.sig; IF(c.sig) x = a.sig; IF(!c.sig) x = b.sig;
				add(x, uni({ &c.labels, &x0.labels, &a.labels, &b.labels })); hist["use.if.then.ifnot"]++; break;
			}
			case 5: { // nested conditions
				GBit &c2 = pickBit(D);
				meet({ &c.labels, &c2.labels, &x0.labels, &a.labels });
				UInt x = x0.sig;
				if (rng.chance(1, 2)) { IF(c.sig) { IF(c2.sig) x = a.sig; } } else { IF(c2.sig) { IF(!c.sig) x = a.sig; } }
				add(x, uni({ &c.labels, &c2.labels, &x0.labels, &a.labels })); hist["use.if.nested"]++; break;
			}
			case 6: { // register enable
				meet({ &a.labels, &c.labels }, D);
				UInt r;
				ENIF(c.sig) r = R(reg(a.sig), dst);
				add(r, { D }); hist["use.enable"]++; break;
			}
			case 7: { // write enable of a memory port
				auto &m = newLocalMem();
				meet({ &c.labels, &a.labels, &b.labels }, D);
				IF(c.sig) MW(m[a.sig].write(b.sig), dst);
				meet({ &x0.labels }, D);
				UInt r = MR(m[x0.sig], dst);
				add(r, x0.labels); hist["use.mem.enable"]++; break;
			}
			case 8: { // selector of an explicit multiplexer
				meet({ &c.labels, &a.labels, &b.labels });
				UInt r = mux(c.sig, { a.sig, b.sig });
				add(r, uni({ &c.labels, &a.labels, &b.labels })); hist["use.mux"]++; break;
			}
			case 9: { // data: packed next to other bits, then registered
				meet({ &c.labels, &a.labels });
				UInt r = cat(c.sig, a.sig.lower(3_b));
				std::set<int> l = uni({ &c.labels, &a.labels });
				meet({ &l }, D);
				add(R(reg(r), dst), { D }); hist["use.data"]++; break;
			}
			case 10: { // registered flag, then condition (the plain synchroniser shape)
				meet({ &c.labels }, D);
				Bit f = R(reg(c.sig), dst);
				std::set<int> fl{ D };
				meet({ &fl, &x0.labels, &a.labels });
				UInt x = x0.sig; IF(f) x = a.sig;
				add(x, uni({ &fl, &x0.labels, &a.labels })); hist["use.reg.if"]++; break;
			}
			default: { // condition shared by two different statements, once negated
				meet({ &c.labels, &x0.labels, &a.labels, &b.labels });
				UInt x = x0.sig; IF(c.sig) x = a.sig;
				UInt y = b.sig; IF(!c.sig) y = x0.sig;
				add(x, uni({ &c.labels, &x0.labels, &a.labels }));
				add(y, uni({ &c.labels, &x0.labels, &b.labels })); hist["use.if.shared"]++; break;
			}
		}
	}

	// a flag crosses into another domain: logic, marker (chain), logic, use
	void stBitCross() {
		bool w = wild();
		Calm calm(*this);
		size_t srcC = pickClock();
		int S = clocks[srcC].ps;
		GBit *s = &pickBit(S);
		s = &decorate(*s, S, "before");
		size_t dst = pickClock();
		for (int t = 0; t < 4 && clocks[dst].ps == S; t++) dst = pickClock();
		GBit *c = s;
		unsigned how = w ? 50 + (unsigned)rng.below(50) : 0;
		if (!w) {
			size_t src = pickClockOfPs(S), dstDecl = pickClockOfPs(clocks[dst].ps);
			meet({ &s->labels }, clocks[src].ps);
			c = &addBit(M(allowClockDomainCrossing(s->sig, clocks[src].clk, clocks[dstDecl].clk), src, dstDecl), { clocks[dstDecl].ps });
			hist["bitcross.marked"]++;
			if (rng.chance(1, 4)) { // marker feeding another marker, optionally with logic in between
				c = &decorate(*c, clocks[dst].ps, "between");
				size_t dst2 = pickClock();
				size_t src2 = pickClockOfPs(clocks[dst].ps), dstDecl2 = pickClockOfPs(clocks[dst2].ps);
				meet({ &c->labels }, clocks[src2].ps);
				c->used = true;
				c = &addBit(M(allowClockDomainCrossing(c->sig, clocks[src2].clk, clocks[dstDecl2].clk), src2, dstDecl2), { clocks[dstDecl2].ps });
				dst = dst2; hist["bitcross.chain"]++;
			}
		} else if (how < 75) {
			size_t src = pickClock(), dstDecl = pickClock();
			meet({ &s->labels }, clocks[src].ps);
			c = &addBit(M(allowClockDomainCrossing(s->sig, clocks[src].clk, clocks[dstDecl].clk), src, dstDecl), { clocks[dstDecl].ps });
			hist["bitcross.marked.random"]++;
		} else hist["bitcross.unmarked"]++;
		c = &decorate(*c, clocks[dst].ps, "after");
		consumeBit(*c, dst);
	}

	// plain flag logic inside one domain (also grows the pool of flags)
	void stBitLogic() {
		Calm calm(*this);
		int ps = clocks[pickClock()].ps;
		GBit &c = decorate(pickBit(ps), ps, "local");
		if (rng.chance(1, 2)) consumeBit(c, pickClockOfPs(ps));
		else c.used = false;
	}

	// a multi-bit marker output `m` is used in the domain of clock `dst`; `clean`: the marker is known to be correct
	void consumeUInt(GSig &m, size_t dst, bool clean) {
		Calm calm(*this);
		m.used = true;
		int D = clocks[dst].ps;
		std::vector<GSig*> ex{ &m };
		GSig &x0 = pickData(D, ex), &a = pickData(D, ex);
		ClockScope cs(clocks[dst].clk);
		unsigned k = (unsigned)rng.below(clean ? 12 : 10);
		switch (k) {
			case 0: case 1: case 2: { // register (the usual case)
				meet({ &m.labels }, D);
				add(R(rng.chance(1, 2) ? reg(m.sig) : reg(m.sig, 0), dst), { D }); hist["muse.reg"]++; break;
			}
			case 3: { // data input of a multiplexer
				GBit &c = pickBit(D);
				meet({ &c.labels, &x0.labels, &m.labels });
				UInt x = x0.sig;
				if (rng.chance(1, 2)) { IF(c.sig) x = m.sig; } else { IF(!c.sig) x = m.sig; }
				add(x, uni({ &c.labels, &x0.labels, &m.labels })); hist["muse.mux.data"]++; break;
			}
			case 4: { // arithmetic with a signal of the destination domain
				meet({ &m.labels, &a.labels });
				add(rng.chance(1, 2) ? UInt(m.sig + a.sig) : UInt(a.sig ^ m.sig), uni({ &m.labels, &a.labels })); hist["muse.arith"]++; break;
			}
			case 5: { // address of a read port, the memory being written in the destination domain
				auto &mm = newLocalMem();
				meet({ &x0.labels, &a.labels }, D);
				MW(mm[x0.sig].write(a.sig), dst);
				meet({ &m.labels }, D);
				UInt r = MR(mm[m.sig], dst);
				add(r, m.labels); hist["muse.mem.raddr"]++; break;
			}
			case 6: { // address or data of a write port
				auto &mm = newLocalMem();
				meet({ &m.labels, &a.labels }, D);
				if (rng.chance(1, 2)) MW(mm[m.sig].write(a.sig), dst); else MW(mm[a.sig].write(m.sig), dst);
				meet({ &x0.labels }, D);
				UInt r = MR(mm[x0.sig], dst);
				add(r, x0.labels); hist["muse.mem.write"]++; break;
			}
			case 7: { // comparison, then condition
				meet({ &m.labels, &x0.labels, &a.labels });
				UInt x = x0.sig;
				if (rng.chance(1, 2)) { IF(m.sig == ConstUInt(rng.below(16), 4_b)) x = a.sig; } else { IF(!m.sig.lsb()) x = a.sig; }
				add(x, uni({ &m.labels, &x0.labels, &a.labels })); hist["muse.compare.if"]++; break;
			}
			case 8: { // no-op logic / rewires, then register
				UInt r;
				switch (rng.below(3)) {
					case 0: r = cat(m.sig.upper(2_b), m.sig.lower(2_b)); break;
					case 1: { UInt n = ~m.sig; r = ~n; break; }
					default: r = m.sig.lower(2_b); r = zext(r, 4_b); break;
				}
				meet({ &m.labels }, D);
				add(R(reg(r), dst), { D }); hist["muse.noop.reg"]++; break;
			}
			case 9: { // marker feeding another marker
				size_t dst2 = pickClock();
				size_t src2 = pickClockOfPs(D), dstDecl2 = pickClockOfPs(clocks[dst2].ps);
				meet({ &m.labels }, clocks[src2].ps);
				GSig &m2 = add(M(allowClockDomainCrossing(m.sig, clocks[src2].clk, clocks[dstDecl2].clk), src2, dstDecl2), { clocks[dstDecl2].ps });
				m2.used = true;
				meet({ &m2.labels }, clocks[dst2].ps);
				ClockScope cs2(clocks[dst2].clk);
				add(R(reg(m2.sig), dst2), { clocks[dst2].ps }); hist["muse.chain"]++; break;
			}
			case 10: { // constant condition (folded by post-processing): only with a marker known to be right
				Bit t = rng.chance(1, 2) ? '1' : '0';
				meet({ &x0.labels, &m.labels });
				UInt x = x0.sig; IF(t) x = m.sig;
				std::set<int> l = uni({ &x0.labels, &m.labels });
				meet({ &l }, D);
				add(R(reg(x), dst), { D }); hist["muse.constcond"]++; break;
			}
			default: { // enable derived from the marker output
				meet({ &a.labels, &m.labels }, D);
				UInt r;
				ENIF(m.sig.msb()) r = R(reg(a.sig), dst);
				add(r, { D }); hist["muse.enable"]++; break;
			}
		}
	}

	void stMem() {
		if (!mem) {
			mem = std::make_unique<Memory<UInt>>(16, UInt(4_b));
			memNoConflicts = rng.chance(1, 2);
			if (memNoConflicts) mem->noConflicts();
			hist[memNoConflicts ? "mem.noconflicts" : "mem"]++;
		}
		bool order = !memNoConflicts && memHasPort;
		static const std::set<int> none;
		// the chain of orderAfter dependencies carries the domains of all earlier ports' inputs
		int od = -2;
		if (order) { if (memOrderLabels.size() == 1 && *memOrderLabels.begin() != UNK) od = *memOrderLabels.begin(); else if (!memOrderLabels.empty()) od = -3; }
		bool isRead = rng.chance(1, 2);
		// Memory detection drops the order dependency between two read ports before the CDC check runs, so a read port that sits in
		// another domain than the ports before it is a crossing only on the raw graph: keep ordered read ports disciplined.
		unsigned savePct = wildPct; bool saveNow = wildNow;
		if (isRead && order && od >= 0) { wildPct = 0; wildNow = false; }
		GSig &addr = (od >= 0) ? pickCompat(od) : pickSig();
		if (isRead) { // read port: address, orderAfter
			size_t c = pickClockFor(join(domainOf(addr), od));
			wildPct = savePct; wildNow = saveNow;
			meet({ &addr.labels, order ? &memOrderLabels : &none }, clocks[c].ps);
			std::set<int> l = addr.labels; if (order) l.insert(memOrderLabels.begin(), memOrderLabels.end());
			ClockScope cs(clocks[c].clk);
			UInt r = MR((*mem)[addr.sig], c);
			add(r, l);
			memOrderLabels = l; hist["mem.read"]++;
		} else { // write port: address, wrData, orderAfter
			GSig &data = pickCompat(join(domainOf(addr), od));
			// memory detection insists that all write ports of a memory use the very same clock ("All write ports to a memory must have the same clock!")
			if (memWriteClk == ~size_t(0)) memWriteClk = pickClockFor(join(join(domainOf(addr), domainOf(data)), od));
			size_t c = memWriteClk;
			meet({ &addr.labels, &data.labels, order ? &memOrderLabels : &none }, clocks[c].ps);
			std::set<int> l = addr.labels; l.insert(data.labels.begin(), data.labels.end()); if (order) l.insert(memOrderLabels.begin(), memOrderLabels.end());
			ClockScope cs(clocks[c].clk);
			MW((*mem)[addr.sig].write(data.sig), c);
			memOrderLabels = l; hist["mem.write"]++;
		}
		memHasPort = true;
	}

	void stPinOut(GSig &a) {
		a.used = true;
		if (hasUnk(a) && !wild()) { // the only legal consumer of an unknown-domain signal: a pin without clock
			auto pin = pinOut(a.sig);
			pin.setName("o" + std::to_string(nameCtr++));
			pin.node()->setClockDomain(nullptr); P(pin.node(), nullptr);
			hist["pinOut.noclock"]++; return;
		}
		size_t c = pickClockFor(domainOf(a));
		meet({ &a.labels }, clocks[c].ps);
		ClockScope cs(clocks[c].clk);
		auto pin = pinOut(a.sig); P(pin.node(), hclk(c));
		pin.setName("o" + std::to_string(nameCtr++)); hist["pinOut"]++;
	}

	void stScope() {
		if (!scopes.empty() && rng.chance(1, 2)) { scopes.pop_back(); hist["scope.leave"]++; return; }
		if (scopes.size() >= 3) return;
		if (rng.chance(1, 2)) {
			areas.push_back(std::make_unique<Area>("area" + std::to_string(nameCtr++)));
			scopes.emplace_back(new GroupScope(areas.back()->enter())); hist["scope.area"]++;
		} else {
			scopes.emplace_back(new GroupScope(GroupScope::GroupType::ENTITY, "ent" + std::to_string(nameCtr++))); hist["scope.entity"]++;
		}
	}

	// Finding F21 (fixed in /repo by 1913949; replayed first on every run through corpus/C12): a clock derived from a non-phase-synchronous
	// clock, changing only a register attribute, is the same physical clock as its parent. hlim::DerivedClock used to copy the parent's
	// m_phaseSynchronousWithParent, which made the child a pin source of its own, and post-processing rejected these two clean designs.
	void buildQuirk(int which) {
		makeClocksBase();
		ClockConfig rc; rc.absoluteFrequency = hlim::ClockRational{ 100'000'000, 1 }; rc.name = "clkA";
		clocks.push_back({ Clock(rc), nextPs++ }); noteClock(clocks.back().clk, clocks.back().ps);       // 1: A
		ClockConfig bc; bc.phaseSynchronousWithParent = false;
		addDerived(1, bc, false); clocks.back().phaseSync = false;                                        // 2: B, unrelated phase: another source
		hist["quirk." + std::to_string(which)]++;
		if (which == 0) {
			ClockConfig cc; cc.resetType = Clock::ResetType::ASYNCHRONOUS;
			addDerived(2, cc, true);                                                                      // 3: C = B with another reset type
			GSig &x = newInput(2);
			UInt r1, r2;
			{ ClockScope cs(clocks[2].clk); r1 = R(reg(x.sig, 0), 2); }
			meet({ &x.labels }, clocks[2].ps);
			std::set<int> l{ clocks[2].ps };
			meet({ &l }, clocks[3].ps);
			{ ClockScope cs(clocks[3].clk); r2 = R(reg(r1 + 1, 0), 3); }
			stPinOutOn(add(r2, { clocks[3].ps }), 3);
		} else {
			GSig &x = newInput(1);
			scl::SynchronizeParams p; p.outStages = 2;
			size_t nclk = DesignScope::get()->getCircuit().getClocks().size();
			UInt r = scl::synchronize(x.sig, clocks[1].clk, clocks[2].clk, p);
			auto &all = DesignScope::get()->getCircuit().getClocks();
			for (size_t i = nclk; i < all.size(); i++) req.gps[all[i].get()] = clocks[2].ps;
			stPinOutOn(add(r, { clocks[2].ps }), 2);
		}
	}
	void stPinOutOn(GSig &a, size_t c) {
		a.used = true;
		meet({ &a.labels }, clocks[c].ps);
		ClockScope cs(clocks[c].clk);
		auto pin = pinOut(a.sig); P(pin.node(), hclk(c));
		pin.setName("o" + std::to_string(nameCtr++));
	}

	void build(size_t nst, bool multi) {
		multiDomain = multi;
		makeClocks();
		if (!multi) { // single-domain design: must always be accepted
			int ps0 = clocks[1].ps;
			std::vector<GClock> keep;
			for (auto &c : clocks) if (c.ps == ps0) keep.push_back(c);
			clocks = keep;
		}
		// discipline: clean / exactly one undisciplined statement / a few / many
		unsigned mode = (unsigned)rng.below(100);
		size_t faultAt = ~size_t(0);
		if (mode < 35) { wildPct = 0; hist["mode.clean"]++; }
		else if (mode < 65) { wildPct = 0; faultAt = rng.below(nst ? nst : 1); hist["mode.onefault"]++; }
		else if (mode < 85) { wildPct = 8; hist["mode.few"]++; }
		else { wildPct = 50; hist["mode.wild"]++; }
		for (size_t i = 0; i < 3; i++) stInput();
		for (size_t i = 0; i < nst; i++) {
			wildNow = (i == faultAt);
			unsigned k = (unsigned)rng.below(100);
			if (wildNow && (k < 60 || k >= 84)) k = 60 + (unsigned)rng.below(24); // the one fault is a crossing attempt
			if (k < 8) stInput();
			else if (k < 12) stConst();
			else if (k < 26) stBinary();
			else if (k < 31) stUnary();
			else if (k < 39) stMux();
			else if (k < 49) stReg();
			else if (k < 52) stRegEnable();
			else if (k < 56) stPlaceholder();
			else if (k < 60) stBitLogic();
			else if (k < 72) stCross();
			else if (k < 84) stBitCross();
			else if (k < 89) stMem();
			else if (k < 93) stPinOut(pickSig(true));
			else stScope();
		}
		wildNow = false;
		// close the register feedback loops
		for (auto &ph : placeholders) {
			GSig &a = pickCompat(clocks[ph.clk].ps);
			meet({ &a.labels }, clocks[ph.clk].ps);
			ClockScope cs(clocks[ph.clk].clk);
			ph.s->sig = R(reg(a.sig, 0), ph.clk);
		}
		while (!scopes.empty()) scopes.pop_back();
		// nothing may be culled: every signal nobody reads goes to an output pin
		size_t n = pool.size();
		for (size_t i = 0; i < n; i++) if (!pool[i]->used) stPinOut(*pool[i]);
		for (auto &b : bits) if (!b->used) {
			b->used = true;
			int d = domainOfBit(*b);
			size_t c = d >= 0 ? pickClockOfPs(d) : pickClock();
			meet({ &b->labels }, clocks[c].ps);
			ClockScope cs(clocks[c].clk);
			auto pin = pinOut(b->sig); P(pin.node(), hclk(c));
			pin.setName("ob" + std::to_string(nameCtr++)); hist["pinOut.bit"]++;
		}
	}
};

// ------------------------------------------------------------------------------------------------

// hand-written designs with known verdict (the upstream unit tests of tests/frontend/CDC.cpp, pinned out, plus the corner cases of the property)
static const int numFixed = 16;
static bool buildFixed(int which, std::map<std::string, unsigned> &hist)
{
	Clock clock1({ .absoluteFrequency = 10'000 });
	Clock clock2({ .absoluteFrequency = 10'000 });
	hist["fixed." + std::to_string(which)]++;
	auto out = [](const UInt &x, const Clock &c, const char *name) { ClockScope cs(c); pinOut(x).setName(name); };
	auto in = [](const Clock &c, const char *name) { ClockScope cs(c); UInt x = pinIn(8_b).setName(name); return x; };
	switch (which) {
		case 0: { // unintentionalCDCDetection
			UInt a = 8_b, b = 8_b;
			{ ClockScope cs(clock1); a = reg(b, 0); }
			{ ClockScope cs(clock2); b = reg(a, 0); }
			out(a, clock1, "a"); out(b, clock2, "b");
			return true;
		}
		case 1: { // intentionalCDCDetection
			UInt a = 8_b, b = 8_b;
			{ ClockScope cs(clock1); a = reg(b, 0); }
			out(a, clock1, "a");
			a = allowClockDomainCrossing(a, clock1, clock2);
			{ ClockScope cs(clock2); b = reg(a, 0); }
			out(b, clock2, "b");
			b = allowClockDomainCrossing(b, clock2, clock1);
			return false;
		}
		case 2: { // unintentionalCDCDetectionMemory: the order dependency between the ports carries clock1's domain into the clock2 port
			UInt a = in(clock1, "ia"), b = in(clock2, "ib");
			Memory<UInt> mem(42, 8_b);
			{ ClockScope cs(clock1); a = mem[a.lower(6_b)]; a = reg(a, 0); }
			{ ClockScope cs(clock2); mem[b.lower(6_b)] = b; b += 1; b = reg(b, 0); }
			out(a, clock1, "a"); out(b, clock2, "b");
			return true;
		}
		case 3: { // noUnintentionalCDCDetectionMemoryNoConflict
			UInt a = in(clock1, "ia"), b = in(clock2, "ib");
			Memory<UInt> mem(42, 8_b);
			mem.noConflicts();
			{ ClockScope cs(clock1); a = mem[a.lower(6_b)]; }
			{ ClockScope cs(clock2); mem[b.lower(6_b)] = b; b += 1; b = reg(b); }
			out(a, clock1, "a"); out(b, clock2, "b");
			return false;
		}
		case 4: { // derived clock that only changes register attributes shares the pin: one domain
			Clock d = clock1.deriveClock({ .resetType = Clock::ResetType::ASYNCHRONOUS });
			UInt a = in(clock1, "ia");
			{ ClockScope cs(d); a = reg(a, 0); }
			{ ClockScope cs(clock1); a = reg(a + 1, 0); }
			out(a, d, "a");
			return false;
		}
		case 5: { // derived clock with another frequency: another pin, another domain
			Clock d = clock1.deriveClock({ .frequencyMultiplier = hlim::ClockRational{ 2, 1 } });
			UInt a = in(clock1, "ia");
			{ ClockScope cs(d); a = reg(a, 0); }
			out(a, d, "a");
			return true;
		}
		case 6: { // marker declared the wrong way round
			UInt a = in(clock1, "ia");
			a = allowClockDomainCrossing(a, clock2, clock1);
			{ ClockScope cs(clock2); a = reg(a, 0); }
			out(a, clock2, "a");
			return true;
		}
		case 7: { // marker declared with clocks that share the pins with the real source / destination
			Clock d1 = clock1.deriveClock({ .resetType = Clock::ResetType::ASYNCHRONOUS });
			Clock d2 = clock2.deriveClock({ .resetName = "otherReset" });
			UInt a = in(clock1, "ia");
			a = allowClockDomainCrossing(a, d1, d2);
			{ ClockScope cs(clock2); a = reg(a, 0); }
			out(a, d2, "a");
			return false;
		}
		case 8: { // two domains combined in a gate, far away from any register
			UInt a = in(clock1, "ia"), b = in(clock2, "ib");
			UInt c = (a ^ 5) + (~b);
			UInt d = allowClockDomainCrossing(c, clock1, clock2);
			out(d, clock2, "d");
			return true;
		}
		case 10: { // negated flag -> marker -> IF condition (post-processing removes negations in front of mux selectors: it must not look through the marker)
			UInt fa = in(clock1, "fa"), a = in(clock2, "ia"), b = in(clock2, "ib");
			Bit busyA; { ClockScope cs(clock1); busyA = reg(fa.lsb(), '0'); }
			Bit idleB = allowClockDomainCrossing(!busyA, clock1, clock2);
			UInt x = b; IF(idleB) x = a;
			{ ClockScope cs(clock2); x = reg(x, 0); }
			out(x, clock2, "x");
			return false;
		}
		case 11: { // flag -> marker -> negation -> IF condition, IF / ELSE
			UInt fa = in(clock1, "fa"), a = in(clock2, "ia"), b = in(clock2, "ib");
			Bit f = allowClockDomainCrossing(fa.msb(), clock1, clock2);
			UInt x = b; IF(!f) x = a; ELSE x = a + b;
			out(x, clock2, "x");
			return false;
		}
		case 12: { // negations on both sides of the marker, the same condition in sequential IFs and once negated
			UInt fa = in(clock1, "fa"), a = in(clock2, "ia"), b = in(clock2, "ib");
			Bit f = !allowClockDomainCrossing(!(fa == 3), clock1, clock2);
			UInt x = b; IF(f) x = a; IF(f) x = a ^ b; IF(!f) x = a + b;
			out(x, clock2, "x");
			return false;
		}
		case 13: { // marker output as register enable and as memory write enable
			UInt fa = in(clock1, "fa"), a = in(clock2, "ia"), b = in(clock2, "ib");
			Bit f = allowClockDomainCrossing(!fa.lsb(), clock1, clock2);
			Memory<UInt> mem(16, UInt(8_b));
			UInt r, q;
			{ ClockScope cs(clock2); ENIF(f) r = reg(a); IF(!f) mem[b.lower(4_b)] = a; q = mem[a.lower(4_b)]; }
			out(r, clock2, "r"); out(q, clock2, "q");
			return false;
		}
		case 14: { // conjunction in front of the marker, a chain of two markers, explicit multiplexer behind it
			Clock clock3({ .absoluteFrequency = 20'000 });
			UInt fa = in(clock1, "fa"), a = in(clock3, "ia"), b = in(clock3, "ib");
			Bit f = allowClockDomainCrossing(fa.lsb() & !fa.msb(), clock1, clock2);
			Bit g = allowClockDomainCrossing(!f, clock2, clock3);
			UInt x = mux(g, { a, b });
			out(x, clock3, "x");
			return false;
		}
		case 15: { // as 10, but the marker is declared the wrong way round
			UInt fa = in(clock1, "fa"), a = in(clock2, "ia"), b = in(clock2, "ib");
			Bit idleB = allowClockDomainCrossing(!fa.lsb(), clock2, clock1);
			UInt x = b; IF(idleB) x = a;
			out(x, clock2, "x");
			return true;
		}
		default: { // a long correctly marked chain through a hierarchy, with register feedback
			Clock d2 = clock2.deriveClock({ .synchronizationRegister = true });
			UInt a = in(clock1, "ia");
			UInt cnt = 8_b;
			{
				Area area("inner", true);
				UInt s = scl::synchronize(a + cnt, clock1, clock2, { .outStages = 3 });
				{ ClockScope cs(d2); s = reg(s ^ 1, 0); }
				area.leave();
				out(s, clock2, "s");
			}
			{ ClockScope cs(clock1); cnt = reg(cnt + 1, 0); }
			return false;
		}
	}
}

static void runCase(uint64_t id, Rng rng, size_t nstParam, int fixed = -1)
{
	// replay of exactly this design: c12 replay <subseed> <statements>
	o << "case " << id << ' ' << rng.s << ' ' << nstParam << '\n';
	size_t nst = nstParam ? 1 + rng.below(2 * nstParam) : 0;
	DesignScope design;
	Gen gen(rng);
	bool multi = !rng.chance(1, 10);
	std::string buildErr;
	try {
		if (fixed >= 100) { multi = true; gen.buildQuirk(fixed - 100); }
		else if (fixed >= 0) { multi = true; gen.intent = buildFixed(fixed, gen.hist); }
		else gen.build(nst, multi);
	}
	catch (const std::exception &e) { buildErr = e.what(); }
	if (!buildErr.empty()) {
		// the generator produced something the frontend refuses: not a CDC case
		std::replace(buildErr.begin(), buildErr.end(), '\n', ' ');
		o << "builderror " << buildErr.substr(0, 200) << "\nend\n";
		return;
	}
	o << "gen multi=" << multi << " intent=" << gen.intent;
	for (auto &h : gen.hist) o << ' ' << h.first << '=' << h.second;
	o << '\n';
	dumpGraph("pre", design.getCircuit(), fixed >= 0 && fixed < 100 ? nullptr : &gen.req);
	std::string verdict = "ok", msg;
	try { design.postprocess(); }
	catch (const gtry::utils::DesignError &e) {
		msg = e.what();
		verdict = (msg.find("Unintentional clock domain crossing") != std::string::npos) ? "cdc" : "otherdesignerror";
	}
	catch (const gtry::utils::InternalError &e) { verdict = "internalerror"; msg = e.what(); }
	catch (const std::exception &e) { verdict = "exception"; msg = e.what(); }
	o << "postprocess " << verdict << '\n';
	if (verdict != "ok" && verdict != "cdc") {
		std::replace(msg.begin(), msg.end(), '\n', ' ');
		o << "errmsg " << msg.substr(0, 300) << '\n';
	}
	{
		Requests onlyClocks; onlyClocks.gps = gen.req.gps;   // nodes are rebuilt by post-processing; the clocks stay
		dumpGraph("post", design.getCircuit(), fixed >= 0 && fixed < 100 ? nullptr : &onlyClocks);
	}
	o << "end\n";
}

static std::string g_scratch;
static void cleanup()
{
	if (g_scratch.empty()) return;
	std::error_code ec;
	std::filesystem::current_path("/", ec);
	std::filesystem::remove_all(g_scratch, ec);
	g_scratch.clear();
}
static void onSignal(int) { cleanup(); _exit(3); }

int main(int argc, char **argv)
{
	bool replay = argc > 1 && std::string(argv[1]) == "replay";
	uint64_t seed = replay ? 0 : vh::argU64(argc, argv, 1, 1), ncases = vh::argU64(argc, argv, 2, 100), nst = vh::argU64(argc, argv, 3, 25);
	std::ios::sync_with_stdio(false);
	signal(SIGPIPE, onSignal); signal(SIGTERM, onSignal); signal(SIGINT, onSignal);
	// Circuit::postprocess writes CDC_partial.dot / CDC_full.dot and runs `dot` through system() for every rejection:
	// work in a scratch directory, with a do-nothing `dot` first in PATH, and keep the children's stderr out of the pipe.
	char tmpl[] = "/tmp/c12-XXXXXX";
	char *scratch = mkdtemp(tmpl);
	if (!scratch) { perror("mkdtemp"); return 2; }
	g_scratch = scratch;
	{
		std::ofstream f(std::string(scratch) + "/dot");
		f << "#!/bin/sh\nexit 0\n";
	}
	chmod((std::string(scratch) + "/dot").c_str(), 0755);
	std::string path = std::string(scratch) + ":" + (getenv("PATH") ? getenv("PATH") : "");
	setenv("PATH", path.c_str(), 1);
	if (chdir(scratch) != 0) { perror("chdir"); return 2; }
	int devnull = open("/dev/null", O_WRONLY);
	if (devnull >= 0) dup2(devnull, 2);

	if (argc > 1 && std::string(argv[1]) == "fixed") {
		o << "# prop=C12 fixed designs\n";
		for (int k = 0; k < numFixed; k++) runCase(k, Rng(k), 0, k);
	} else if (argc > 1 && std::string(argv[1]) == "quirk") {
		o << "# prop=C12 derived clocks of a non-phase-synchronous clock\n";
		for (int k = 0; k < 2; k++) runCase(k, Rng(k), 0, 100 + k);
	} else if (replay) {
		o << "# prop=C12 replay subseed=" << ncases << " statements=" << nst << "\n";
		runCase(0, Rng(ncases), nst);
	} else {
		Rng top(seed * 0x100000001b3ull + 12);
		o << "# prop=C12 seed=" << seed << " cases=" << ncases << " statements=" << nst << "\n";
		for (uint64_t k = 0; k < ncases; k++)
			runCase(k, top.fork(), nst);
	}
	o.flush();
	cleanup();
	return 0;
}
