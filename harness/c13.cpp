// C13 harness: (mode 0/1) request sequences through the real gtry::vhdl::NamespaceScope API, (mode 2/3) real VHDL exports
// (vhdl::VHDLExport, single file, scratch directory under /var/tmp, deleted afterwards) of small generated designs whose
// pins / signals / constants / entities / areas / clocks / resets / instances are named from
//   { legal random identifiers, every VHDL-2008 reserved word x {lower, UPPER, MiXed}, case-colliding variants, names that
//     look like the uniquifier's own output (`x_2`) }.
// Usage: c13 <seed> <ncases> <mode>
//   mode 0  random allocator request sequences over random scope trees (ncases cases)
//   mode 1  exhaustive allocator sweep: every reserved word x 3 letter cases x 19 allocation kinds (ncases ignored)
//   mode 2  random designs (ncases cases)
//   mode 3  exhaustive export sweep: one design per reserved word x 3 letter cases, the word used in every name position
//           (ncases = additional random designs appended)
//   mode 4  directed designs: nested/sibling sub-entities, instance labels and entity names from 1..3 base names (ncases cases)
//   mode 5  the four comment formatters of the real vhdl::DefaultCodeFormatting on generated comment texts (ncases cases x 16 calls)
//   mode 6  directed designs with logic-driven resets / clocks (Clock::overrideRstWith / overrideClkWith) whose expressions go
//           through multiplexers over signals that are declared first and assigned later, plus multi-line comments (ncases cases)
//   mode 7  directed designs around vector constants of widths 1..7, 60..70, 65..140, 129..200 (mostly not multiples of 4): fully
//           defined, all-zero, all-one and partly undefined ones, used as register reset values, operands, comparison operands,
//           multiplexer inputs, named constants and output drivers (ncases cases)
// Modes 2, 3, 6 attach generated multi-line comments (entities, areas, nodes) to about half of the designs; every comment line
// carries the marker CMARK so that the driver can verify that the text only ever appears behind `--`.
// Protocol (see lean/Driver/C13.lean):
//   words <w1> <w2> ...                       the harness' copy of the reserved-word list (driver checks it against its own)
//   case <id> alloc / tree <n> <p|-> ... / q <scope> <kind> <desired|-> => <name|!e> / end
//   case <id> export / u <position> <name> ... / c <where> <hex of comment> ... / x <exception text>  |
//        n <kind> <name> ...   names carried by the objects of the circuit that is exported (read back after postprocess():
//                              pins, non-empty entity groups and their instance names, clock / reset pins of the registers,
//                              named signal and constant nodes, non-empty areas) — each must leave a trace in the text
//        nx <kind> <name|->    an object of the circuit carries a name the generator never requested (front end lost/changed it)
//        f <relative path> for EVERY regular file below the scratch directory (recursively) + v <line> ... for *.vhd / *.vhdl
//        g <relative path> + w <line> ... | gx <exception>   (one case in three) the same circuit exported once more,
//                              one file per entity / package, into the sub-directory `split`
//        end
//   case <id> comment / k <entity|block|process|code> <indentation> <hex name|-> <hex comment|-> <hex output|-> ... / end
#include <gatery/pch.h>
#include <gatery/frontend.h>
#include <gatery/export/vhdl/VHDLExport.h>
#include <gatery/export/vhdl/AST.h>
#include <gatery/export/vhdl/NamespaceScope.h>
#include <gatery/export/vhdl/CodeFormatting.h>
#include <gatery/frontend/SynthesisTool.h>
#include <gatery/hlim/Circuit.h>
#include <gatery/hlim/Clock.h>
#include <gatery/hlim/coreNodes/Node_Pin.h>
#include <gatery/hlim/coreNodes/Node_Signal.h>
#include <gatery/hlim/coreNodes/Node_Constant.h>
#include <gatery/hlim/coreNodes/Node_Register.h>
#include <gatery/hlim/NodeGroup.h>
#include "common.h"
#include <set>
#include <filesystem>
#include <fstream>
#include <iostream>
#include <unistd.h>

using namespace gtry;
using vh::Rng;

static const char *const RESERVED[] = {
	"abs", "access", "after", "alias", "all", "and", "architecture", "array", "assert", "assume", "assume_guarantee", "attribute",
	"begin", "block", "body", "buffer", "bus", "case", "component", "configuration", "constant", "context", "cover",
	"default", "disconnect", "downto", "else", "elsif", "end", "entity", "exit", "fairness", "file", "for", "force", "function",
	"generate", "generic", "group", "guarded", "if", "impure", "in", "inertial", "inout", "is", "label", "library", "linkage",
	"literal", "loop", "map", "mod", "nand", "new", "next", "nor", "not", "null", "of", "on", "open", "or", "others", "out",
	"package", "parameter", "port", "postponed", "procedure", "process", "property", "protected", "pure", "range", "record",
	"register", "reject", "release", "rem", "report", "restrict", "restrict_guarantee", "return", "rol", "ror", "select",
	"sequence", "severity", "shared", "signal", "sla", "sll", "sra", "srl", "strong", "subtype", "then", "to", "transport", "type",
	"unaffected", "units", "until", "use", "variable", "vmode", "vprop", "vunit", "wait", "when", "while", "with", "xnor", "xor"};
static const size_t NRES = sizeof(RESERVED) / sizeof(RESERVED[0]);

// identifiers that the exported files reference from ieee / std / the helper package, or that gatery emits as fixed text.
// A user name equal to one of these may hide the library declaration; that is outside the property statement (see report) and
// the random generator avoids them.
static const char *const LIBNAMES[] = {"ieee", "std", "work", "std_logic_1164", "numeric_std", "std_logic", "std_ulogic", "std_logic_vector",
	"std_ulogic_vector", "unsigned", "signed", "bit", "bit_vector", "boolean", "integer", "natural", "positive", "resize", "rising_edge",
	"falling_edge", "to_integer", "to_unsigned", "shift_left", "shift_right", "true", "false", "bool2stdlogic", "stdlogic2bool",
	"to_bit", "to_bitvector", "to_stdlogicvector", "to_stdulogicvector", "gateryhelperpackage", "portmap_to_stdlogic", "portmap_to_stdulogic",
	"portmap_to_bit", "portmap_to_stdlogicvector", "portmap_to_unsigned", "error", "warning", "note", "failure", "event", "now", "time",
	"string", "character", "real", "severity_level", "x", "z", "u", "w", "l", "h"};

static std::string lowerS(std::string s) { for (auto &c : s) c = (char) tolower((unsigned char) c); return s; }
static std::string upperS(std::string s) { for (auto &c : s) c = (char) toupper((unsigned char) c); return s; }
static std::string mixedS(std::string s, Rng &r) {
	bool any = false;
	for (auto &c : s) if (isalpha((unsigned char) c) && r.chance(1, 2)) { c = (char) toupper((unsigned char) c); any = true; }
	if (!any) s[0] = (char) toupper((unsigned char) s[0]);
	if (s == upperS(s) && s.size() > 1) s.back() = (char) tolower((unsigned char) s.back());
	return s;
}
static bool isLibName(const std::string &s) {
	std::string l = lowerS(s);
	for (auto n : LIBNAMES) if (l == n) return true;
	return false;
}

// legal VHDL basic identifier: letter { [_] letter_or_digit }
static std::string randomIdent(Rng &r) {
	static const char letters[] = "abcdefghijklmnopqrstuvwxyzABCDEFGHIJKLMNOPQRSTUVWXYZ";
	static const char digits[] = "0123456789";
	for (;;) {
		size_t len = r.chance(1, 3) ? r.range(1, 2) : r.range(2, 9);
		std::string s(1, letters[r.below(52)]);
		while (s.size() < len) {
			unsigned k = (unsigned) r.below(10);
			if (k == 0 && s.back() != '_' && s.size() + 1 < len) s += '_';
			else if (k < 3) s += digits[r.below(10)];
			else s += letters[r.below(52)];
		}
		if (s.back() == '_') s.back() = 'q';
		if (!isLibName(s)) return s;
	}
}

// per-case pool: a handful of base names so that collisions (exact, case-only, with uniquifier output) happen on purpose
struct NamePool {
	Rng &r;
	std::vector<std::string> bases;
	explicit NamePool(Rng &rng, unsigned nbases = 5) : r(rng) {
		for (unsigned i = 0; i < nbases; i++) {
			unsigned k = (unsigned) r.below(10);
			if (k < 4) bases.push_back(RESERVED[r.below(NRES)]);
			else bases.push_back(randomIdent(r));
		}
	}
	std::string operator()() {
		unsigned k = (unsigned) r.below(20);
		if (k < 2) return randomIdent(r);
		if (k < 4) { std::string w = RESERVED[r.below(NRES)]; unsigned c = (unsigned) r.below(3); return c == 0 ? w : c == 1 ? upperS(w) : mixedS(w, r); }
		std::string b = r.pick(bases);
		unsigned v = (unsigned) r.below(12);
		if (v < 4) return b;
		if (v < 6) return lowerS(b);
		if (v < 8) return upperS(b);
		if (v < 10) return mixedS(b, r);
		if (v < 11) return b + "_" + std::to_string(r.range(2, 4));     // looks like formatDuplicateName output
		return mixedS(b, r) + "_" + std::to_string(r.range(2, 3));
	}
};

// ----------------------------------------------------------------------------------------------------------------------------------
// modes 0 / 1 : allocator
// ----------------------------------------------------------------------------------------------------------------------------------
static const char *const KINDS[] = {"sig0", "sig1", "sig2", "sig3", "sig4", "sig5", "sig6", "sig7", "sig8", "sig9",
	"clk", "rst", "pin", "pkg", "ent", "blk", "procc", "procn", "inst"};
static const unsigned NKINDS = 19;

struct AllocEnv {
	hlim::Circuit circuit;
	vhdl::DefaultCodeFormatting cf;
	vhdl::AST ast;
	AllocEnv() : ast(&cf, nullptr) {}
	hlim::Node_Pin *freshPin() {
		auto *p = circuit.createNode<hlim::Node_Pin>(true, false, false);
		p->setBool();
		p->moveToGroup(circuit.getRootNodeGroup());
		return p;
	}
	hlim::Clock *freshClock() { return circuit.createClock<hlim::RootClock>("c", hlim::ClockRational(1000)); }

	std::string call(vhdl::NamespaceScope &s, unsigned kind, const std::string &desired) {
		try {
			if (kind < 10) return s.allocateName(hlim::NodePort{.node = freshPin(), .port = 0}, desired, vhdl::VHDLDataType::STD_LOGIC, (vhdl::CodeFormatting::SignalType) kind);
			switch (kind) {
				case 10: return s.allocateName(freshClock(), desired);
				case 11: return s.allocateResetName(freshClock(), desired);
				case 12: return s.allocateName(freshPin(), desired, vhdl::VHDLDataType::STD_LOGIC);
				case 13: return s.allocatePackageName(desired);
				case 14: return s.allocateEntityName(desired);
				case 15: return s.allocateBlockName(desired);
				case 16: return s.allocateProcessName(desired, true);
				case 17: return s.allocateProcessName(desired, false);
				default: return s.allocateInstanceName(desired);
			}
		} catch (const gtry::utils::InternalError &) {
			return "!e";
		} catch (const gtry::utils::DesignError &) {
			return "!e";
		}
	}
};

static void allocCase(const std::string &id, const std::vector<int> &parents, const std::vector<std::tuple<unsigned, unsigned, std::string>> &reqs) {
	AllocEnv env;
	std::vector<std::unique_ptr<vhdl::NamespaceScope>> scopes;
	std::cout << "case " << id << " alloc\ntree " << parents.size();
	for (int p : parents) {
		scopes.push_back(std::make_unique<vhdl::NamespaceScope>(env.ast, p < 0 ? nullptr : scopes[(size_t) p].get()));
		if (p < 0) std::cout << " -"; else std::cout << ' ' << p;
	}
	std::cout << '\n';
	for (auto &[sc, kind, desired] : reqs) {
		std::string res = env.call(*scopes[sc], kind, desired);
		std::cout << "q " << sc << ' ' << KINDS[kind] << ' ' << (desired.empty() ? "-" : desired) << " => " << res << '\n';
	}
	std::cout << "end\n";
}

static void allocRandom(Rng &r, uint64_t id) {
	NamePool pool(r, (unsigned) r.range(2, 6));
	size_t n = r.range(1, 6);
	std::vector<int> parents;
	for (size_t i = 0; i < n; i++) {
		if (i == 0 || r.chance(1, 8)) parents.push_back(-1);
		else parents.push_back(r.chance(2, 3) ? (int) i - 1 : (int) r.below(i));
	}
	size_t nreq = r.range(4, 40);
	std::vector<std::tuple<unsigned, unsigned, std::string>> reqs;
	for (size_t i = 0; i < nreq; i++) {
		unsigned sc = (unsigned) r.below(n);
		unsigned kind = (unsigned) r.below(NKINDS);
		// entity / package names only in root scopes, except in a small malformed stream
		if ((kind == 13 || kind == 14) && parents[sc] >= 0 && !r.chance(1, 10)) {
			sc = 0;
		}
		std::string desired = pool();
		if (r.chance(1, 60)) desired.clear();                           // malformed: HCL_ASSERT(!desiredName.empty())
		reqs.push_back({sc, kind, desired});
	}
	allocCase(std::to_string(id), parents, reqs);
}

static void allocSweep(Rng &r) {
	// every reserved word x {lower, UPPER, MiXed} x every kind, in chains root <- child <- grandchild
	for (size_t w = 0; w < NRES; w += 5) {
		std::vector<std::tuple<unsigned, unsigned, std::string>> reqs;
		for (size_t k = w; k < std::min(NRES, w + 5); k++) {
			std::string lo = RESERVED[k], up = upperS(lo), mi = mixedS(lo, r);
			for (unsigned kind = 0; kind < NKINDS; kind++)
				for (const auto &nm : {lo, up, mi}) {
					unsigned sc = (kind == 13 || kind == 14) ? 0 : (unsigned) r.below(3);
					reqs.push_back({sc, kind, nm});
				}
		}
		allocCase("sweep" + std::to_string(w), {-1, 0, 1}, reqs);
	}
}

// ----------------------------------------------------------------------------------------------------------------------------------
// comments
// ----------------------------------------------------------------------------------------------------------------------------------
static const char *const CMARK = "Zq7Zq7";

static std::string hexS(const std::string &s) {
	if (s.empty()) return "-";
	static const char d[] = "0123456789abcdef";
	std::string o;
	for (unsigned char c : s) { o += d[c >> 4]; o += d[c & 15]; }
	return o;
}

// 1..5 lines; lines that are empty, start with blanks / tabs, contain `--`, quotes, semicolons, VHDL keywords and statements,
// very long lines; `\n` or `\r\n` line ends; optional trailing line end. `marked`: every non-empty line carries CMARK.
static std::string randomComment(Rng &r, bool marked) {
	static const char *const pieces[] = {"Adds the two operands", "carry <= '1' would be wrong here;", "see the architecture notes", "END ENTITY;",
		"ENTITY oops IS", "signal x : std_logic;", "LIBRARY ieee;", "-- nested dashes --", "\"quoted\" text", "it's", "a; b; c;", "process(all) begin end process;",
		"x := y", "TODO", "100% (approx.) <= 3 /= 4", "others => 'X'", "port map ( a => b );", "\\backslash\\", "tab\there", "@#$%^&*~`[]{}|?!"};
	size_t nlines = r.range(1, 5);
	std::string out;
	for (size_t i = 0; i < nlines; i++) {
		std::string line;
		unsigned k = (unsigned) r.below(10);
		if (k == 0) line = "";                                                  // empty line
		else {
			if (k <= 3 && i > 0) line += r.chance(1, 2) ? std::string(r.range(1, 8), ' ') : std::string(r.range(1, 3), '\t');   // indented continuation
			else if (k == 4) line += r.chance(1, 2) ? " \t " : "\t  ";
			size_t np = r.range(1, 3);
			for (size_t j = 0; j < np; j++) { if (j) line += ' '; line += pieces[r.below(sizeof(pieces) / sizeof(pieces[0]))]; }
			if (k == 9) { while (line.size() < 300 + r.below(400)) { line += ' '; line += pieces[r.below(sizeof(pieces) / sizeof(pieces[0]))]; } }   // very long
			if (marked) { line += ' '; line += CMARK; }
			else if (r.chance(1, 8)) line = std::string(r.range(1, 4), r.chance(1, 2) ? ' ' : '\t');                          // blanks only
		}
		out += line;
		if (i + 1 < nlines || r.chance(1, 4)) out += r.chance(1, 6) ? "\r\n" : "\n";
	}
	return out;
}

static void commentCase(Rng &r, uint64_t id) {
	vhdl::DefaultCodeFormatting cf;
	std::cout << "case " << id << " comment\n";
	for (unsigned i = 0; i < 16; i++) {
		unsigned kind = (unsigned) r.below(4);
		unsigned indentation = (unsigned) r.below(5);
		std::string name = randomIdent(r);
		std::string comment = r.chance(1, 12) ? std::string() : randomComment(r, false);
		std::ostringstream o;
		switch (kind) {
			case 0: cf.formatEntityComment(o, name, comment); break;
			case 1: cf.formatBlockComment(o, name, comment); break;
			case 2: cf.formatProcessComment(o, indentation, name, comment); break;
			default: cf.formatCodeComment(o, indentation, comment); break;
		}
		static const char *const kinds[] = {"entity", "block", "process", "code"};
		std::cout << "k " << kinds[kind] << ' ' << indentation << ' ' << hexS(name) << ' ' << hexS(comment) << ' ' << hexS(o.str()) << '\n';
	}
	std::cout << "end\n";
}

// ----------------------------------------------------------------------------------------------------------------------------------
// modes 2 / 3 : real exports
// ----------------------------------------------------------------------------------------------------------------------------------
struct NameSource {
	// either a pool (random designs) or one fixed word used everywhere (sweep)
	NamePool *pool = nullptr;
	std::string fixed;
	Rng *r = nullptr;
	std::ostream *log = nullptr;
	std::string get(const char *position) {
		std::string n;
		if (pool) n = (*pool)();
		else {
			// the word itself most of the time, sometimes a case variant so that case-only collisions with itself occur
			unsigned k = (unsigned) r->below(8);
			n = k < 5 ? fixed : k == 5 ? lowerS(fixed) : k == 6 ? upperS(fixed) : mixedS(fixed, *r);
		}
		*log << "u " << position << ' ' << n << '\n';
		requested.insert({position, n});
		return n;
	}
	std::set<std::pair<std::string, std::string>> requested;
	bool comments = false;       // attach comments in this design
	// with probability num/den a comment for `where` (logged), else nothing
	std::optional<std::string> comment(const char *where, unsigned num, unsigned den) {
		if (!comments || !r->chance(num, den)) return std::nullopt;
		std::string c = randomComment(*r, true);
		*log << "c " << where << ' ' << hexS(c) << '\n';
		return c;
	}
};

struct DesignGen {
	Rng &r;
	NameSource &names;
	struct Domain { std::vector<UInt> vec; std::vector<Bit> bits; std::optional<Clock> clk; };
	std::vector<Domain> dom;
	unsigned budget = 0;

	DesignGen(Rng &rng, NameSource &n) : r(rng), names(n) {}

	UInt fit(const UInt &a, size_t w) {
		if (a.width().bits() == w) return a;
		if (a.width().bits() < w) return zext(a, BitWidth(w));
		return a(0, BitWidth(w));
	}
	UInt pickVec(Domain &d) { return r.pick(d.vec); }
	Bit pickBit(Domain &d) { return r.pick(d.bits); }

	void maybeName(UInt &x) { if (r.chance(2, 5)) setName(x, names.get("sig")); }
	void maybeName(Bit &x) { if (r.chance(2, 5)) setName(x, names.get("sig")); }

	void op(Domain &d) {
		ClockScope domainScope(*d.clk);
		unsigned k = (unsigned) r.below(15);
		if (getenv("C13_DEBUG")) std::cerr << "op " << k << std::endl;
		if (auto c = names.comment("node", 1, 6)) HCL_COMMENT << *c;
		switch (k) {
			case 0: case 1: { UInt a = pickVec(d), b = pickVec(d); size_t w = std::max(a.width().bits(), b.width().bits()); a = fit(a, w); b = fit(b, w);
				UInt x = r.chance(1, 2) ? UInt(a + b) : UInt(a - b); maybeName(x); d.vec.push_back(x); } break;
			case 2: { UInt a = pickVec(d), b = pickVec(d); size_t w = std::min<size_t>(std::max(a.width().bits(), b.width().bits()), 5);
				UInt x = fit(a, w) * fit(b, w); maybeName(x); d.vec.push_back(x); } break;
			case 3: case 4: { UInt a = pickVec(d), b = pickVec(d); size_t w = std::max(a.width().bits(), b.width().bits()); a = fit(a, w); b = fit(b, w);
				unsigned o = (unsigned) r.below(3); UInt x = o == 0 ? UInt(a & b) : o == 1 ? UInt(a | b) : UInt(a ^ b); maybeName(x); d.vec.push_back(x); } break;
			case 5: { UInt a = pickVec(d); UInt x = ~a; maybeName(x); d.vec.push_back(x); } break;
			case 6: { UInt a = pickVec(d), b = pickVec(d); size_t w = std::max(a.width().bits(), b.width().bits()); a = fit(a, w); b = fit(b, w);
				unsigned o = (unsigned) r.below(3); Bit x = o == 0 ? Bit(a == b) : o == 1 ? Bit(a < b) : Bit(a != b); maybeName(x); d.bits.push_back(x); } break;
			case 7: { Bit a = pickBit(d), b = pickBit(d); unsigned o = (unsigned) r.below(3); Bit x = o == 0 ? Bit(a & b) : o == 1 ? Bit(a | b) : Bit(!a); maybeName(x); d.bits.push_back(x); } break;
			case 8: case 9: { // conditional assignment -> multiplexer
				UInt a = pickVec(d), b = pickVec(d); size_t w = std::max(a.width().bits(), b.width().bits());
				UInt x = fit(a, w); Bit c = pickBit(d);
				IF (c) x = fit(b, w);
				maybeName(x); d.vec.push_back(x); } break;
			case 10: { // slice / concatenation / bit extract
				UInt a = pickVec(d);
				unsigned o = (unsigned) r.below(3);
				if (o == 0 && a.width().bits() >= 2) { size_t w = r.range(1, a.width().bits() - 1); size_t lo = r.below(a.width().bits() - w + 1); UInt x = a(lo, BitWidth(w)); maybeName(x); d.vec.push_back(x); }
				else if (o == 1) { UInt b = pickVec(d); UInt x = cat(a, b); if (x.width().bits() <= 24) { maybeName(x); d.vec.push_back(x); } }
				else { Bit x = a[r.below(a.width().bits())]; maybeName(x); d.bits.push_back(x); }
			} break;
			case 11: case 12: { // register, with or without reset value, optionally with an enable-like feedback mux
				UInt a = pickVec(d);
				RegisterSettings rs{.clock = *d.clk};
				unsigned o = (unsigned) r.below(3);
				UInt x;
				if (o == 0) x = reg(a, rs);
				else if (o == 1) x = reg(a, 0, rs);
				else {
					UInt st = a.width();
					UInt nx = st;
					IF (pickBit(d)) nx = a;
					st = reg(nx, 0, rs);
					x = st;
				}
				if (r.chance(1, 2)) setName(x, names.get("sig"));
				d.vec.push_back(x);
			} break;
			case 13: { Bit a = pickBit(d); RegisterSettings rs{.clock = *d.clk}; Bit x = r.chance(1, 2) ? reg(a, rs) : reg(a, '0', rs); maybeName(x); d.bits.push_back(x); } break;
			default: { // named constant
				size_t w = r.range(1, 8);
				UInt x = ConstUInt(r.below(1ull << w), BitWidth(w));
				setName(x, names.get("const"));
				d.vec.push_back(x);
			} break;
		}
	}

	void body(unsigned depth) {
		unsigned nops = (unsigned) r.range(1, 5);
		for (unsigned i = 0; i < nops && budget; i++) {
			budget--;
			unsigned k = (unsigned) r.below(10);
			if (depth > 0 && k == 0) {
				Area area(names.get("ent"), true);
				if (r.chance(1, 2)) area.instanceName(names.get("inst"));
				if (r.chance(1, 4)) area.useComponentInstantiation(true);
				if (auto c = names.comment("entity", 2, 3)) GroupScope::get()->setComment(*c);
				body(depth - 1);
			} else if (depth > 0 && k == 1) {
				GroupScope g(GroupScope::GroupType::AREA, names.get("area"));
				if (auto c = names.comment("area", 2, 3)) g.setComment(*c);
				body(depth - 1);
			} else
				op(dom[r.below(dom.size())]);
		}
	}

	void build() {
		size_t nclk = r.chance(1, 3) ? 2 : 1;
		for (size_t i = 0; i < nclk; i++) {
			ClockConfig cfg;
			cfg.absoluteFrequency = hlim::ClockRational(100'000'000);
			cfg.name = names.get("clk");
			if (r.chance(2, 3)) cfg.resetName = names.get("rst");
			unsigned rt = (unsigned) r.below(4);
			cfg.resetType = rt == 0 ? ClockConfig::ResetType::ASYNCHRONOUS : rt == 1 ? ClockConfig::ResetType::NONE : ClockConfig::ResetType::SYNCHRONOUS;
			if (r.chance(1, 4)) cfg.resetActive = ClockConfig::ResetActive::LOW;
			if (r.chance(1, 4)) cfg.triggerEvent = ClockConfig::TriggerEvent::FALLING;
			if (rt != 1 && r.chance(1, 3)) cfg.initializeRegs = false;
			dom.emplace_back();
			dom.back().clk.emplace(cfg);
		}
		ClockScope cs(*dom[0].clk);
		if (auto c = names.comment("top", 1, 2)) GroupScope::get()->setComment(*c);
		for (auto &d : dom) {
			ClockScope domainScope(*d.clk);
			size_t nin = r.range(1, 3);
			for (size_t i = 0; i < nin; i++) {
				static const size_t widths[] = {1, 2, 3, 4, 8};
				UInt x = pinIn(BitWidth(widths[r.below(5)])).setName(names.get("pin"));
				d.vec.push_back(x);
			}
			Bit b = pinIn().setName(names.get("pin"));
			d.bits.push_back(b);
		}
		budget = (unsigned) r.range(3, 18);
		size_t before0 = dom[0].vec.size();
		body(2);
		(void) before0;
		// outputs: the most recent values of every domain plus a few random earlier ones
		for (auto &d : dom) {
			ClockScope domainScope(*d.clk);
			size_t nout = r.range(1, 3);
			for (size_t i = 0; i < nout; i++) {
				const UInt &x = i == 0 ? d.vec.back() : r.pick(d.vec);
				pinOut(x).setName(names.get("pin"));
			}
			if (r.chance(1, 2)) pinOut(d.bits.back()).setName(names.get("pin"));
		}
	}
};

// directed pattern family (mode 4): sibling / nested sub-entities whose instance labels, entity names, pins and named signals are
// drawn from the same two or three base names in different letter cases, with and without component instantiation — the
// situations in which names allocated in *different* NamespaceScopes end up in one VHDL declarative region.
struct DirectedGen {
	Rng &r;
	NameSource &names;
	DirectedGen(Rng &rng, NameSource &n) : r(rng), names(n) {}
	UInt level(UInt v, unsigned depth) {
		unsigned nsub = (unsigned) r.range(1, 3);
		for (unsigned k = 0; k < nsub; k++) {
			Area area(names.get("ent"), true);
			if (r.chance(2, 3)) area.instanceName(names.get("inst"));
			if (r.chance(1, 2)) area.useComponentInstantiation(true);
			UInt x = v + ConstUInt(k + 1, v.width());
			if (r.chance(1, 2)) setName(x, names.get("sig"));
			if (depth > 0 && r.chance(1, 3)) x = level(x, depth - 1);
			if (r.chance(1, 4)) { GroupScope g(GroupScope::GroupType::AREA, names.get("area")); x = x ^ v; }
			v = x;
		}
		return v;
	}
	void build() {
		UInt in = pinIn(4_b).setName(names.get("pin"));
		UInt v = level(in, 1);
		pinOut(v).setName(names.get("pin"));
	}
};

// directed pattern family (mode 6): resets and clocks of derived clocks driven by logic (Node_Signal2Rst / Node_Signal2Clk) whose
// expression goes through multiplexers / conditionals over signals that are declared first and assigned later, so that the
// `<reset> <= expr;` statement of the process depends on process variables created after it.
struct OverrideGen {
	Rng &r;
	NameSource &names;
	std::vector<Bit> bits;
	std::vector<UInt> vecs;
	OverrideGen(Rng &rng, NameSource &n) : r(rng), names(n) {}

	Bit cond() { return r.pick(bits); }
	// a Bit computed through 1..3 conditional assignments (multiplexers) over `pool` and the late signals
	Bit muxed(const std::vector<Bit> &late, const std::vector<UInt> &lateV) {
		Bit x = r.pick(bits);
		unsigned depth = (unsigned) r.range(1, 3);
		for (unsigned i = 0; i < depth; i++) {
			if (auto c = names.comment("node", 1, 5)) HCL_COMMENT << *c;
			Bit alt;
			unsigned k = (unsigned) r.below(6);
			if (k < 3 && !late.empty()) alt = r.pick(late);
			else if (k == 3 && !lateV.empty()) { const UInt &v = r.pick(lateV); alt = v[r.below(v.width().bits())]; }
			else if (k == 4 && !lateV.empty()) { const UInt &v = r.pick(lateV); alt = v == ConstUInt(r.below(1ull << v.width().bits()), v.width()); }
			else alt = r.pick(bits);
			IF (cond()) x = alt;
			if (r.chance(1, 3)) x = r.chance(1, 2) ? Bit(x & cond()) : Bit(!x);
			if (r.chance(1, 3)) setName(x, names.get("sig"));
		}
		return x;
	}

	void build() {
		ClockConfig cfg;
		cfg.absoluteFrequency = hlim::ClockRational(100'000'000);
		cfg.name = names.get("clk");
		if (r.chance(1, 2)) cfg.resetName = names.get("rst");
		Clock clock(cfg);
		ClockScope cs(clock);
		if (auto c = names.comment("top", 1, 2)) GroupScope::get()->setComment(*c);

		size_t nbits = r.range(3, 6);
		for (size_t i = 0; i < nbits; i++) { Bit b = pinIn().setName(names.get("pin")); bits.push_back(b); }
		size_t nvec = r.range(1, 2);
		for (size_t i = 0; i < nvec; i++) { UInt v = pinIn(BitWidth(r.range(2, 4))).setName(names.get("pin")); vecs.push_back(v); }

		// declared first ...
		size_t nlate = r.range(1, 3);
		std::vector<Bit> late(nlate);
		std::vector<UInt> lateV;
		if (r.chance(1, 2)) { lateV.emplace_back(BitWidth(r.range(2, 4))); }

		size_t nder = r.range(1, 2);
		std::vector<Clock> derived;
		for (size_t i = 0; i < nder; i++) {
			ClockConfig dc;
			dc.name = names.get("clk");
			dc.resetName = names.get("rst");
			if (r.chance(1, 4)) dc.resetType = ClockConfig::ResetType::ASYNCHRONOUS;
			derived.push_back(clock.deriveClock(dc));
			unsigned what = (unsigned) r.below(4);        // 0,1: reset  2: clock  3: both
			if (what != 2) derived.back().overrideRstWith(muxed(late, lateV));
			if (what >= 2) derived.back().overrideClkWith(muxed(late, lateV));
		}

		// ... assigned later, each through further multiplexers; later ones may feed earlier ones
		for (size_t i = nlate; i-- > 0;) {
			std::vector<Bit> none;
			std::vector<Bit> assignedAlready(late.begin() + (long) i + 1, late.end());
			Bit v = muxed(assignedAlready, {});
			late[i] = v;
		}
		for (auto &lv : lateV) {
			UInt v = r.pick(vecs);
			UInt w = v.width().bits() >= lv.width().bits() ? UInt(v(0, lv.width())) : zext(v, lv.width());
			IF (cond()) w = ~w;
			lv = w;
		}

		for (size_t i = 0; i < nder; i++) {
			ClockScope scope(derived[i]);
			UInt data = pinIn(4_b).setName(names.get("pin"));
			UInt counter = 4_b;
			counter = reg(counter + data, 0);
			if (r.chance(1, 2)) setName(counter, names.get("sig"));
			pinOut(counter).setName(names.get("pin"));
		}
		for (auto &l : late) if (r.chance(2, 3)) pinOut(l).setName(names.get("pin"));
		for (auto &lv : lateV) pinOut(lv).setName(names.get("pin"));
	}
};

// names carried by the objects of the circuit that is about to be exported (after postprocess(): culled objects are gone)
static bool groupHasNodes(const hlim::NodeGroup *g) {
	if (!g->getNodes().empty()) return true;
	for (auto &c : g->getChildren()) if (groupHasNodes(c.get())) return true;
	return false;
}
static void circuitNames(hlim::Circuit &circuit, const NameSource &names, std::ostream &o) {
	std::set<std::pair<std::string, std::string>> out, notRequested;
	auto req = [&](const char *pos, const std::string &n) { return names.requested.count({pos, n}) != 0; };
	for (auto &up : circuit.getNodes()) {
		hlim::BaseNode *n = up.get();
		if (auto *pin = dynamic_cast<hlim::Node_Pin*>(n)) {
			if (pin->isInputPin() || pin->isOutputPin()) {
				out.insert({"pin", pin->getName()});
				if (!req("pin", pin->getName())) notRequested.insert({"pin", pin->getName()});
			}
		} else if (auto *sig = dynamic_cast<hlim::Node_Signal*>(n)) {
			if (sig->hasGivenName() && sig->getOutputConnectionType(0).width > 0) {
				out.insert({"sig", sig->getName()});
				// pinIn().setName(n) / setName(constant, n) also name a signal node
				if (!req("sig", sig->getName()) && !req("const", sig->getName()) && !req("pin", sig->getName())) notRequested.insert({"sig", sig->getName()});
			}
		} else if (auto *cst = dynamic_cast<hlim::Node_Constant*>(n)) {
			if (cst->hasGivenName()) out.insert({"const", cst->getName()});
		} else if (auto *reg = dynamic_cast<hlim::Node_Register*>(n)) {
			hlim::Clock *clk = reg->getClocks()[0];
			if (clk) {
				std::string cn = clk->getClockPinSource()->getName();
				out.insert({"clk", cn});
				if (!req("clk", cn)) notRequested.insert({"clk", cn});
				if (reg->getNonSignalDriver(hlim::Node_Register::RESET_VALUE).node != nullptr && clk->getRegAttribs().resetType != hlim::RegisterAttributes::ResetType::NONE)
					out.insert({"rst", clk->getResetPinSource()->getResetName()});
			}
		}
	}
	std::function<void(const hlim::NodeGroup*)> walk = [&](const hlim::NodeGroup *g) {
		for (auto &c : g->getChildren()) {
			if (groupHasNodes(c.get())) {
				if (c->getGroupType() == hlim::NodeGroupType::ENTITY) {
					out.insert({"ent", c->getName()});
					out.insert({"inst", c->getInstanceName()});
					if (!req("ent", c->getName())) notRequested.insert({"ent", c->getName()});
				} else if (c->getGroupType() == hlim::NodeGroupType::AREA)
					out.insert({"area", c->getName()});
			}
			walk(c.get());
		}
	};
	walk(circuit.getRootNodeGroup());
	for (auto &e : out) o << "n " << e.first << ' ' << (e.second.empty() ? "-" : e.second) << '\n';
	for (auto &e : notRequested) o << "nx " << e.first << ' ' << (e.second.empty() ? "-" : e.second) << '\n';
}

static void dumpTree(const std::filesystem::path &dir, const std::filesystem::path &skip, const char *ftag, const char *ltag) {
	std::vector<std::filesystem::path> files;
	for (auto it = std::filesystem::recursive_directory_iterator(dir); it != std::filesystem::recursive_directory_iterator(); ++it) {
		if (!skip.empty() && it->path() == skip) { it.disable_recursion_pending(); continue; }
		if (it->is_regular_file()) files.push_back(it->path());
	}
	std::sort(files.begin(), files.end());
	for (auto &f : files) {
		std::cout << ftag << ' ' << std::filesystem::relative(f, dir).string() << '\n';
		if (f.extension() != ".vhd" && f.extension() != ".vhdl") continue;
		std::ifstream in(f);
		std::string line;
		while (std::getline(in, line)) {
			if (!line.empty() && line.back() == '\r') line.pop_back();
			std::cout << ltag << ' ' << line << '\n';
		}
	}
}

// directed pattern family (mode 7): constants of awkward widths in every position a literal can be written to
struct ConstGen {
	Rng &r;
	NameSource &names;
	ConstGen(Rng &rng, NameSource &n) : r(rng), names(n) {}

	size_t pickWidth() {
		for (;;) {
			size_t w;
			switch (r.below(4)) {
				case 0: w = r.range(1, 7); break;
				case 1: w = r.range(60, 70); break;
				case 2: w = r.range(65, 140); break;
				default: w = r.range(129, 200); break;
			}
			if (w % 4 != 0 || r.chance(1, 4)) return w;
		}
	}
	// kind 0 random fully defined, 1 all zero, 2 all one, 3 partly undefined
	UInt constant(size_t w, unsigned kind) {
		std::string lit = "b";
		for (size_t i = 0; i < w; i++) {
			char c = kind == 1 ? '0' : kind == 2 ? '1' : (r.chance(1, 2) ? '1' : '0');
			if (kind == 3 && r.chance(1, 5)) c = 'x';
			lit += c;
		}
		if (kind == 3 && lit.find('x') == std::string::npos) lit[1 + r.below(w)] = 'x';
		UInt c = lit.c_str();
		return c;
	}

	void build() {
		ClockConfig cfg;
		cfg.absoluteFrequency = hlim::ClockRational(100'000'000);
		cfg.name = names.get("clk");
		if (r.chance(1, 2)) cfg.resetName = names.get("rst");
		if (r.chance(1, 3)) cfg.resetType = ClockConfig::ResetType::ASYNCHRONOUS;
		Clock clock(cfg);
		ClockScope cs(clock);
		Bit sel = pinIn().setName(names.get("pin"));
		size_t nw = r.range(1, 3);
		for (size_t k = 0; k < nw; k++) {
			size_t w = pickWidth();
			UInt in = pinIn(BitWidth(w)).setName(names.get("pin"));
			UInt v = in;
			size_t nuse = r.range(2, 5);
			for (size_t u = 0; u < nuse; u++) {
				unsigned kind = (unsigned) r.below(4);
				unsigned use = (unsigned) r.below(7);
				if (getenv("C13_DEBUG")) std::cerr << "const w=" << w << " kind=" << kind << " use=" << use << std::endl;
				switch (use) {
					case 0: { UInt c = constant(w, kind == 3 ? 0 : kind); unsigned o = (unsigned) r.below(4); v = o == 0 ? UInt(v ^ c) : o == 1 ? UInt(v & c) : o == 2 ? UInt(v | c) : UInt(v + c); } break;
					case 1: { UInt c = constant(w, kind == 3 ? 0 : kind); Bit e = r.chance(1, 2) ? Bit(v == c) : Bit(v < c); IF (e) v = ~v; } break;
					case 2: { UInt c = constant(w, kind); IF (sel) v = c; } break;                                   // multiplexer input
					case 3: { UInt c = constant(w, kind == 3 ? 0 : kind); v = reg(v, c); } break;                     // register reset value
					case 4: { UInt c = constant(w, kind); pinOut(c).setName(names.get("pin")); } break;             // output driver
					case 5: { UInt c = constant(w, kind); setName(c, names.get("const")); IF (sel) v = c; } break;   // named constant
					default: { UInt c = constant(w, kind == 3 ? 0 : kind); UInt t = v; IF (sel) t = c; v = reg(t, constant(w, r.chance(1, 2) ? 1 : 2)); } break;
				}
				if (r.chance(1, 3)) setName(v, names.get("sig"));
			}
			pinOut(v).setName(names.get("pin"));
		}
	}
};

static void exportCase(const std::string &id, Rng r, NamePool *pool, const std::string &fixed, int directed = 0) {
	std::ostringstream log;
	NameSource names;
	names.pool = pool; names.fixed = fixed; names.r = &r; names.log = &log;
	names.comments = r.chance(1, 2);
	Comments::retrieve();
	std::filesystem::path dir = std::filesystem::path("/var/tmp") / ("gv_c13_" + std::to_string(getpid()));
	std::filesystem::remove_all(dir);
	std::filesystem::create_directories(dir);
	std::string failure, splitFailure;
	bool split = r.chance(1, 3);
	std::ostringstream circuitLog;
	try {
		DesignScope design;
		if (directed == 3) {
			ConstGen g(r, names);
			g.build();
		} else if (directed == 2) {
			OverrideGen g(r, names);
			g.build();
		} else if (directed == 1) {
			DirectedGen g(r, names);
			g.build();
		} else {
			DesignGen g(r, names);
			g.build();
		}
		design.postprocess();
		circuitNames(design.getCircuit(), names, circuitLog);
		{
			vhdl::VHDLExport vhdl(dir / "design.vhd", true);
			vhdl(design.getCircuit());
		}
		if (split) {
			// the same circuit once more, one file per entity / package (destination without extension, OutputMode::AUTO)
			try {
				std::filesystem::create_directories(dir / "split");
				vhdl::VHDLExport vhdl2(dir / "split", true);
				vhdl2(design.getCircuit());
			} catch (const std::exception &e) {
				splitFailure = e.what();
				for (auto &c : splitFailure) if (c == '\n' || c == '\r') c = ' ';
				if (splitFailure.size() > 300) splitFailure.resize(300);
				if (splitFailure.empty()) splitFailure = "?";
			}
		}
	} catch (const std::exception &e) {
		failure = e.what();
		for (auto &c : failure) if (c == '\n' || c == '\r') c = ' ';
		if (failure.size() > 300) failure.resize(300);
		if (failure.empty()) failure = "?";
	}
	std::cout << "case " << id << " export\n" << log.str();
	if (!failure.empty())
		std::cout << "x " << failure << '\n';
	else {
		std::cout << circuitLog.str();
		dumpTree(dir, dir / "split", "f", "v");
		if (split) {
			if (!splitFailure.empty()) std::cout << "gx " << splitFailure << '\n';
			else { std::cout << "split\n"; dumpTree(dir / "split", {}, "g", "w"); }
		}
	}
	std::cout << "end\n";
	std::filesystem::remove_all(dir);
}

int main(int argc, char **argv) {
	uint64_t seed = vh::argU64(argc, argv, 1, 1);
	uint64_t ncases = vh::argU64(argc, argv, 2, 100);
	uint64_t mode = vh::argU64(argc, argv, 3, 0);
	Rng top(vh::hashSeed(seed) + mode);
	std::cout << "# prop=C13 seed=" << seed << " mode=" << mode << "\nwords";
	for (auto w : RESERVED) std::cout << ' ' << w;
	std::cout << '\n';
	if (mode == 0) {
		for (uint64_t i = 0; i < ncases; i++) { Rng r = top.fork(); allocRandom(r, i); }
	} else if (mode == 1) {
		Rng r = top.fork();
		allocSweep(r);
	} else if (mode == 2) {
		for (uint64_t i = 0; i < ncases; i++) { Rng r = top.fork(); NamePool pool(r, (unsigned) r.range(2, 6)); exportCase(std::to_string(i), r.fork(), &pool, ""); }
	} else if (mode == 4) {
		for (uint64_t i = 0; i < ncases; i++) {
			Rng r = top.fork();
			NamePool pool(r, (unsigned) r.range(1, 3));
			if (r.chance(1, 2)) for (auto &b : pool.bases) b = randomIdent(r);     // half of the cases: no reserved words at all
			exportCase("d" + std::to_string(i), r.fork(), &pool, "", 1);
		}
	} else if (mode == 5) {
		for (uint64_t i = 0; i < ncases; i++) { Rng r = top.fork(); commentCase(r, i); }
	} else if (mode == 7) {
		for (uint64_t i = 0; i < ncases; i++) {
			Rng r = top.fork();
			NamePool pool(r, (unsigned) r.range(2, 5));
			if (r.chance(2, 3)) for (auto &b : pool.bases) b = randomIdent(r);
			exportCase("k" + std::to_string(i), r.fork(), &pool, "", 3);
		}
	} else if (mode == 6) {
		for (uint64_t i = 0; i < ncases; i++) {
			Rng r = top.fork();
			NamePool pool(r, (unsigned) r.range(2, 5));
			if (r.chance(2, 3)) for (auto &b : pool.bases) b = randomIdent(r);
			exportCase("o" + std::to_string(i), r.fork(), &pool, "", 2);
		}
	} else {
		for (size_t w = 0; w < NRES; w++)
			for (unsigned c = 0; c < 3; c++) {
				Rng r = top.fork();
				std::string word = RESERVED[w];
				word = c == 0 ? word : c == 1 ? upperS(word) : mixedS(word, r);
				exportCase("w" + std::to_string(w) + "c" + std::to_string(c), r.fork(), nullptr, word);
			}
		for (uint64_t i = 0; i < ncases; i++) { Rng r = top.fork(); NamePool pool(r, (unsigned) r.range(2, 6)); exportCase("r" + std::to_string(i), r.fork(), &pool, ""); }
	}
	return 0;
}
