// C14 harness: random condition networks built from real hlim nodes (Node_Logic AND/NOT/OR, Node_Signal,
// Node_Constant, input pins), analysed with the real gtry::hlim::Conjunction API.
// Usage: c14 <seed> <ncases> <maxNodes> [mode]   mode 0 = random, 1 = exhaustive small shapes (ncases ignored)
#include <gatery/pch.h>
#include <gatery/hlim/Circuit.h>
#include <gatery/hlim/NodePort.h>
#include <gatery/hlim/CNF.h>
#include <gatery/hlim/NodeGroup.h>
#include <gatery/hlim/coreNodes/Node_Logic.h>
#include <gatery/hlim/coreNodes/Node_Signal.h>
#include <gatery/hlim/coreNodes/Node_Constant.h>
#include <gatery/hlim/coreNodes/Node_Pin.h>
#include <gatery/hlim/coreNodes/Node_Compare.h>
#include "common.h"
#include <iostream>
#include <set>
#include <map>
#include <algorithm>

using namespace gtry;
using namespace gtry::hlim;
using vh::Rng;

enum Kind { LEAF, C0, C1, CX, NOT, AND, SIG, OR, CMP }; // CMP: a = vector index (0/1), b = 3-bit constant, atom `vec == const`
struct Desc { Kind k; int a = -1, b = -1; };

struct Net {
	Circuit circuit;
	std::vector<BaseNode*> nodes;
	std::map<BaseNode*, int> idx;
	Node_Pin *vecPin[2] = {nullptr, nullptr};
	std::set<BaseNode*> helper;   // shared 3-bit vectors compared with constants (comparison atoms)

	NodePort port(int i) { return i < 0 ? NodePort{} : NodePort{.node = nodes[i], .port = 0}; }

	void add(const Desc &d, std::ostream &o) {
		BaseNode *n = nullptr;
		switch (d.k) {
			case LEAF: { auto *p = circuit.createNode<Node_Pin>(true, false, false); p->setBool(); n = p; } break;
			case C0: n = circuit.createNode<Node_Constant>(sim::parseBit('0'), ConnectionType::BOOL); break;
			case C1: n = circuit.createNode<Node_Constant>(sim::parseBit('1'), ConnectionType::BOOL); break;
			case CX: n = circuit.createNode<Node_Constant>(sim::parseBit('x'), ConnectionType::BOOL); break;
			case NOT: { auto *l = circuit.createNode<Node_Logic>(Node_Logic::NOT); if (d.a >= 0) l->connectInput(0, port(d.a)); n = l; } break;
			case AND: { auto *l = circuit.createNode<Node_Logic>(Node_Logic::AND); if (d.a >= 0) l->connectInput(0, port(d.a)); if (d.b >= 0) l->connectInput(1, port(d.b)); n = l; } break;
			case OR: { auto *l = circuit.createNode<Node_Logic>(Node_Logic::OR); if (d.a >= 0) l->connectInput(0, port(d.a)); if (d.b >= 0) l->connectInput(1, port(d.b)); n = l; } break;
			case CMP: {
				if (!vecPin[d.a]) { vecPin[d.a] = circuit.createNode<Node_Pin>(true, false, false); vecPin[d.a]->setWidth(3); vecPin[d.a]->moveToGroup(circuit.getRootNodeGroup()); }
				sim::DefaultBitVectorState v; v.resize(3); v.setRange(sim::DefaultConfig::DEFINED, 0, 3); v.insertNonStraddling(sim::DefaultConfig::VALUE, 0, 3, (uint64_t) d.b);
				auto *k = circuit.createNode<Node_Constant>(v, ConnectionType::BITVEC); k->moveToGroup(circuit.getRootNodeGroup());
				auto *c = circuit.createNode<Node_Compare>(Node_Compare::EQ);
				bool constLeft = (d.b & 1) != 0; // either operand order
				c->connectInput(constLeft ? 1 : 0, {.node = vecPin[d.a], .port = 0}); c->connectInput(constLeft ? 0 : 1, {.node = k, .port = 0});
				n = c;
			} break;
			case SIG: { auto *s = circuit.createNode<Node_Signal>(); s->setConnectionType({.type = ConnectionType::BOOL, .width = 1}); if (d.a >= 0) s->connectInput(port(d.a)); n = s; } break;
		}
		n->moveToGroup(circuit.getRootNodeGroup());
		idx[n] = (int) nodes.size();
		nodes.push_back(n);
		if (d.k == CMP) for (size_t i = 0; i < 2; i++) helper.insert(n->getDriver(i).node); // the vector pin and the constant are not nodes of the protocol
		static const char *names[] = {"leaf", "c0", "c1", "cx", "not", "and", "sig", "or", "cmp"};
		o << "n " << nodes.size() - 1 << ' ' << names[d.k];
		auto pr = [&](int x) { if (x < 0) o << " -"; else o << ' ' << x; };
		if (d.k == NOT || d.k == SIG) pr(d.a);
		if (d.k == AND || d.k == OR || d.k == CMP) { pr(d.a); pr(d.b); }
		o << '\n';
	}

	// dump nodes created by Conjunction::build (NOT / AND / constant one), which are appended to the circuit
	void dumpNew(std::ostream &o) {
		for (auto &up : circuit.getNodes()) {
			BaseNode *n = up.get();
			if (idx.count(n) || helper.count(n)) continue;
			idx[n] = (int) nodes.size();
			nodes.push_back(n);
			auto in = [&](size_t i) -> std::string { auto d = n->getDriver(i); if (!d.node) return "-"; return std::to_string(idx.at(d.node)); };
			o << "n " << nodes.size() - 1 << ' ';
			if (auto *l = dynamic_cast<Node_Logic*>(n)) {
				if (l->getOp() == Node_Logic::NOT) o << "not " << in(0);
				else if (l->getOp() == Node_Logic::AND) o << "and " << in(0) << ' ' << in(1);
				else o << "or " << in(0) << ' ' << in(1);
			} else if (auto *c = dynamic_cast<Node_Constant*>(n)) {
				o << ((c->getValue().get(sim::DefaultConfig::DEFINED, 0)) ? (c->getValue().get(sim::DefaultConfig::VALUE, 0) ? "c1" : "c0") : "cx");
			} else o << "leaf";
			o << '\n';
		}
	}
};

static void printConj(Net &net, int r, const Conjunction &c, std::ostream &o) {
	std::vector<std::pair<int, bool>> terms;
	for (const auto &p : c.getTerms().anyOrder())
		terms.push_back({net.idx.at(p.second.driver.node), p.second.negated});
	std::sort(terms.begin(), terms.end());
	o << "parse " << r << " u=" << c.isUndefined() << " c=" << c.isContradicting() << " terms=";
	if (terms.empty()) o << '-';
	for (size_t i = 0; i < terms.size(); i++) o << (i ? "," : "") << terms[i].first << ':' << terms[i].second;
	o << '\n';
}

static void runCase1(uint64_t k, const std::vector<Desc> &descs, const std::vector<int> &roots, std::ostream &o);
static void runCase(uint64_t k, const std::vector<Desc> &descs, const std::vector<int> &roots, std::ostream &out) {
	// a logic node whose inputs are all unconnected has a zero-width output type and cannot be combined with 1-bit signals
	// (Node_Logic::updateConnectionType asserts): such networks cannot be constructed, skip them
	std::ostringstream o;
	try { runCase1(k, descs, roots, o); out << o.str(); }
	catch (const gtry::utils::InternalError &) { out << "# case " << k << " not constructible\n"; }
}
static void runCase1(uint64_t k, const std::vector<Desc> &descs, const std::vector<int> &roots, std::ostream &o) {
	o << "case " << k << '\n';
	Net net;
	for (auto &d : descs) net.add(d, o);
	std::vector<Conjunction> conj;
	for (size_t r = 0; r < roots.size(); r++) {
		o << "root " << r << ' '; if (roots[r] < 0) o << "-\n"; else o << roots[r] << '\n';
		conj.push_back(Conjunction::fromOutput(net.port(roots[r])));
		printConj(net, (int) r, conj.back(), o);
	}
	for (size_t i = 0; i < roots.size(); i++)
		for (size_t j = 0; j < roots.size(); j++) {
			o << "pair " << i << ' ' << j << " eq=" << conj[i].isEqualTo(conj[j]) << " neg=" << conj[i].isNegationOf(conj[j])
			  << " sub=" << conj[i].isSubsetOf(conj[j]) << " cbt=" << conj[i].cannotBothBeTrue(conj[j], false)
			  << " cbtc=" << conj[i].cannotBothBeTrue(conj[j], true) << '\n';
			// the comparison operators (keys of std::map<Conjunction, …> caches, e.g. determineNegativeRegisterEnables)
			o << "pairop " << i << ' ' << j << " opeq=" << (conj[i] == conj[j]) << " opcmp=" << ((conj[i] <=> conj[j]) == 0) << '\n';
		}
	// intersectTermsWith / removeTerms on copies
	if (roots.size() >= 2 && !conj[0].isUndefined() && !conj[1].isUndefined()) {
		Conjunction x = conj[0]; x.intersectTermsWith(conj[1]);
		printConj(net, 100, x, o);
		if (x.isSubsetOf(conj[0]) && !conj[0].isContradicting() && !x.isContradicting()) { Conjunction y = conj[0]; y.removeTerms(x); printConj(net, 101, y, o); }
	}
	for (size_t r = 0; r < roots.size(); r++) {
		if (conj[r].isUndefined() || conj[r].isContradicting()) continue;
		bool allowUnconnected = (r % 2) == 0;
		NodePort b = conj[r].build(*net.circuit.getRootNodeGroup(), nullptr, allowUnconnected);
		net.dumpNew(o);
		o << "built " << r << ' '; if (!b.node) o << "-\n"; else o << net.idx.at(b.node) << '\n';
	}
	o << "end\n";
}

int main(int argc, char **argv) {
	uint64_t seed = vh::argU64(argc, argv, 1, 1), ncases = vh::argU64(argc, argv, 2, 100), maxNodes = vh::argU64(argc, argv, 3, 12), mode = vh::argU64(argc, argv, 4, 0);
	std::ios::sync_with_stdio(false);
	std::cout << "# prop=C14 seed=" << seed << " cases=" << ncases << " maxNodes=" << maxNodes << " mode=" << mode << "\n";
	if (mode == 1) {
		// exhaustive: 2 leaves + up to maxNodes internal nodes, each of kind not/and/sig/c0/c1 over all earlier nodes; roots = last two nodes
		uint64_t k = 0;
		std::vector<Desc> cur = {{LEAF}, {LEAF}};
		std::function<void(size_t)> rec = [&](size_t depth) {
			if (cur.size() > 2) { std::vector<int> roots = {(int) cur.size() - 1, (int) cur.size() - 2}; runCase(k++, cur, roots, std::cout); }
			if (depth == maxNodes) return;
			int n = (int) cur.size();
			for (int a = 0; a < n; a++) { cur.push_back({NOT, a}); rec(depth + 1); cur.pop_back(); cur.push_back({SIG, a}); rec(depth + 1); cur.pop_back(); }
			for (int a = 0; a < n; a++) for (int b = a; b < n; b++) { cur.push_back({AND, a, b}); rec(depth + 1); cur.pop_back(); }
			if (depth + 1 < maxNodes) { cur.push_back({C1}); rec(depth + 1); cur.pop_back(); cur.push_back({C0}); rec(depth + 1); cur.pop_back(); }
		};
		rec(0);
		return 0;
	}
	Rng top(seed * 0x100000001b3ull + 14);
	for (uint64_t k = 0; k < ncases; k++) {
		Rng rng = top.fork();
		size_t nLeaves = 1 + rng.below(std::min<uint64_t>(5, maxNodes));
		size_t n = nLeaves + 1 + rng.below(maxNodes);
		std::vector<Desc> descs;
		unsigned pSig = (unsigned) rng.below(4);        // how many signal nodes
		unsigned pUnconn = rng.chance(1, 6) ? 1 : 0;   // unconnected inputs only in some cases
		for (size_t i = 0; i < n; i++) {
			if (i < nLeaves) {
				if (mode == 2 && rng.chance(1, 2)) descs.push_back({CMP, (int) rng.below(rng.chance(3, 4) ? 1 : 2), (int) rng.below(rng.chance(1, 2) ? 3 : 8)}); // few vectors, few constants: related atoms
				else descs.push_back({LEAF});
				continue;
			}
			auto child = [&]() -> int { if (pUnconn && rng.chance(1, 12)) return -1; // bias to recent nodes for depth
				return rng.chance(1, 2) ? (int) rng.below(i) : (int) (i - 1 - rng.below(std::min<size_t>(i, 3))); };
			unsigned c = (unsigned) rng.below(100);
			if (c < 30) descs.push_back({NOT, child()});
			else if (c < 62) descs.push_back({AND, child(), child()});
			else if (c < 62 + 9 * pSig) descs.push_back({SIG, child()});
			else if (c < 91) descs.push_back({AND, child(), child()});
			else if (c < 94) descs.push_back({OR, child(), child()});
			else if (c < 96) descs.push_back({C1});
			else if (c < 98) descs.push_back({C0});
			else if (c < 99) descs.push_back({CX});
			else if (mode == 2 && rng.chance(1, 2)) descs.push_back({CMP, (int) rng.below(2), (int) rng.below(8)});
			else descs.push_back({LEAF});
		}
		std::vector<int> roots;
		size_t nroots = 2 + rng.below(2);
		for (size_t r = 0; r < nroots; r++) roots.push_back(rng.chance(1, 40) ? -1 : (int) (n - 1 - rng.below(std::min<size_t>(n, 4))));
		runCase(k, descs, roots, std::cout);
	}
	return 0;
}
