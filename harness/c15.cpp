// C15 harness: builds the REAL gtry::scl::Fifo<UInt> for generated configurations (depth, payload width,
// requested latency option, single / dual clock with rational clock ratios), simulates it with
// sim::ReferenceSimulator under random and adversarial push/pop schedules and prints, for every rising
// clock edge event, the inputs that were applied and the interface values sampled just before the edge.
//
// Usage: c15 <seed> <ncases> <eventsPerCase> [stream|deep|gray|array|trans]      (array = scl::FifoArray, trans = scl::TransactionalFifo)
//   stream = drive scl::strm::fifo instead (see runStreamCase); deep = dual-clock FIFOs of depth 128/256/512 only;
//   gray = tie scl::grayEncode/grayDecode at widths 1..16 (see runGrayCase; <eventsPerCase> = random samples per width > 12)
//
// Protocol (one block per case):
//   case <id> k=<log2 depth> N=<depth> min=<minDepth> w=<payload bits> lat=<D|S<n>|L<n>|M<n>> dual=<0|1> fpush=<a> fpop=<b> lw=<n> lr=<n>
//   case <id> ... err=e                      (generate() threw: no trace follows)
//   t <pc> <qc> <pr> <qr> <push> <data> <afl> <pop> <ael> | <full> <pvalid> <af> <psize> | <empty> <qvalid> <ae> <qsize> <peek>
//        pc/qc : push/pop clock has a rising edge in this event     pr/qr : that clock's reset is asserted at the edge
//        values right of `|` are sampled after the inputs were applied, before the edge (what registers see)
//   end
// Vendor FIFO primitives (arch/xilinx/FifoPattern.cpp) are not exercised: no target technology is set.
#include <gatery/pch.h>
#include <gatery/frontend.h>
#include <gatery/scl/Fifo.h>
#include <gatery/scl/FifoArray.h>
#include <gatery/scl/TransactionalFifo.h>
#include <gatery/scl/stream/Stream.h>
#include <gatery/scl/stream/streamFifo.h>
#include <gatery/simulation/SimulatorCallbacks.h>
#include "common.h"
#include "simhelp.h"
#include <iostream>
#include <sstream>
#include <filesystem>

using namespace gtry;
using vh::Rng;

struct XFifo : scl::Fifo<UInt> {
	using scl::Fifo<UInt>::Fifo;
	FifoCapabilities::Choice &choice() { return dynamic_cast<scl::FifoMeta*>(m_area.metaInfo())->fifoChoice; }
	const Bit &pushValid() const { return m_pushValid; }
	const Bit &popValid() const { return m_popValid; }
	const UInt &pushSize() const { return m_pushSize; }
	const UInt &popSize() const { return m_popSize; }
};

struct ClockSpy : sim::SimulatorCallbacks {
	const hlim::Clock *pushClk = nullptr, *popClk = nullptr;
	bool pushEdge = false, popEdge = false;
	bool pushRst = true, popRst = true;
	void onClock(const hlim::Clock *clock, bool rising) override {
		if (!rising) return;
		if (clock == pushClk) pushEdge = true;
		if (clock == popClk) popEdge = true;
	}
	void onReset(const hlim::Clock *clock, bool asserted) override {
		if (clock == pushClk) pushRst = asserted;
		if (clock == popClk) popRst = asserted;
	}
};

static std::string toBits(uint64_t v, size_t w) {
	std::string s(w, '0');
	for (size_t i = 0; i < w; i++) if (i < 64 && ((v >> i) & 1)) s[w - 1 - i] = '1';
	return s;
}

static hlim::Node_Pin *pinOf(const ElementarySignal &s) {
	return dynamic_cast<hlim::Node_Pin*>(s.readPort().node->getNonSignalDriver(0).node);
}

struct LatOpt { char kind; size_t n; };

static scl::FifoLatency mkLat(const LatOpt &l) {
	switch (l.kind) {
		case 'S': return scl::FifoLatency(l.n);
		case 'L': return scl::FifoLatency::AtLeast(l.n);
		case 'M': return scl::FifoLatency::AtMost(l.n);
		default: return scl::FifoLatency::DontCare();
	}
}

// schedule modes
enum Mode { RANDOM, BURST, DRAIN, BOTH, POLITE, PUSH_HEAVY, POP_HEAVY, IDLE, NMODES };

static void runCase(uint64_t id, Rng rng, size_t nEvents, std::ostream &o, bool deep = false) {
	// ---- configuration -------------------------------------------------------------------------
	size_t k = rng.chance(1, 2) ? rng.range(1, 3) : rng.range(0, 6);
	size_t N = size_t(1) << k;
	size_t minDepth = (k == 0) ? 1 : rng.range((N >> 1) + 1, N);
	static const std::vector<size_t> widths = {1, 2, 3, 4, 7, 8, 8, 8, 13, 16, 32, 33, 64};
	size_t w = rng.pick(widths);
	bool dual = rng.chance(2, 5);
	LatOpt lat{'D', 0};
	switch (rng.below(8)) {
		case 0: case 1: lat = {'D', 0}; break;
		case 2: case 3: case 4: lat = {'S', (size_t)rng.range(1, 6)}; break;
		case 5: case 6: lat = {'L', (size_t)rng.range(0, 6)}; break;
		default: lat = {'M', (size_t)rng.range(1, 7)}; break;
	}
	if (dual && rng.chance(3, 4)) { // mostly valid dual configurations (>= 4), a few rejected ones stay in
		if (lat.kind == 'S') lat.n = rng.range(4, 7);
		if (lat.kind == 'M') lat.n = rng.range(4, 8);
	}
	uint64_t fa = 1, fb = 1;
	if (dual) {
		static const std::vector<std::pair<unsigned, unsigned>> ratios = {{1,1},{1,2},{2,1},{1,3},{3,1},{2,3},{3,2},{3,4},{4,3},{5,3},{3,5},{7,5},{5,7},{1,7},{7,1},{100,133},{133,100},{9,10},{10,9},{1,16},{16,1}};
		auto r = rng.pick(ratios); fa = r.first; fb = r.second;
	}
	if (deep) {
		// deep dual-clock FIFOs: 8..10 bit pointers through the gray-code synchronisers (scl/cdc.cpp), unrelated clock ratios;
		// the caller passes enough events for the pointers to pass 2^8 / 2^9 and to wrap
		k = 7 + id % 3; N = size_t(1) << k;
		minDepth = rng.range((N >> 1) + 1, N);
		static const std::vector<size_t> dw = {8, 8, 13, 16};
		w = rng.pick(dw);
		dual = true;
		switch (rng.below(4)) {
			case 0: lat = {'D', 0}; break;
			case 1: lat = {'S', (size_t)rng.range(4, 6)}; break;
			case 2: lat = {'L', (size_t)rng.range(0, 5)}; break;
			default: lat = {'M', (size_t)rng.range(4, 7)}; break;
		}
		static const std::vector<std::pair<unsigned, unsigned>> dr = {{100,77},{77,100},{100,133},{133,100},{7,5},{5,7},{9,10},{10,9},{3,2},{13,11},{11,13},{1,1}};
		auto r = rng.pick(dr); fa = r.first; fb = r.second;
	}
	bool varyLevels = rng.chance(1, 4);

	std::ostringstream hdr;
	// only the REQUEST is printed up front; the depth the library chose is read back from the FIFO below (k=, N=)
	hdr << "case " << id << " min=" << minDepth << " w=" << w << " lat=" << lat.kind;
	if (lat.kind != 'D') hdr << lat.n;
	hdr << " dual=" << (dual ? 1 : 0) << " fpush=" << fa << " fpop=" << fb;

	DesignScope design;
	Clock pushClock({ .absoluteFrequency = hlim::ClockRational(fa * 1'000'000, 1), .name = "pushClk" });
	std::optional<Clock> popClockStorage;
	if (dual) popClockStorage.emplace(ClockConfig{ .absoluteFrequency = hlim::ClockRational(fb * 1'000'000, 1), .name = "popClk" });
	Clock &popClock = dual ? *popClockStorage : pushClock;

	Bit push, pop; UInt pushData, afLevel, aeLevel;
	hlim::Node_Pin *oFull = nullptr, *oEmpty = nullptr, *oAf = nullptr, *oAe = nullptr, *oPushValid = nullptr, *oPopValid = nullptr;
	hlim::Node_Pin *oPeek = nullptr, *oPushSize = nullptr, *oPopSize = nullptr;
	hlim::Node_Pin *pPush = nullptr, *pPop = nullptr, *pData = nullptr, *pAfl = nullptr, *pAel = nullptr;
	size_t lw = 0, lr = 0;
	try {
		XFifo fifo{ minDepth, UInt{ BitWidth(w) }, mkLat(lat) };
		N = fifo.depth(); k = 0; while ((size_t(1) << k) < N) k++;   // what the library chose, not what the generator had in mind
		hdr << " k=" << k << " N=" << N;
		{
			ClockScope cs(pushClock);
			pushData = BitWidth(w);
			IF(push) fifo.push(pushData);
			auto ipPush = pinIn().setName("push"); pPush = ipPush.node(); push = ipPush;
			auto ipData = pinIn(BitWidth(w)).setName("push_data"); pData = ipData.node(); pushData = ipData;
			auto ipAfl = pinIn(BitWidth(k + 1)).setName("af_level"); pAfl = ipAfl.node(); afLevel = (UInt)ipAfl;
			oFull = pinOut(fifo.full()).setName("full").node();
			oAf = pinOut(fifo.almostFull(afLevel)).setName("af").node();
		}
		{
			ClockScope cs(popClock);
			UInt peek = fifo.peek();
			IF(pop) fifo.pop();
			auto ipPop = pinIn().setName("pop"); pPop = ipPop.node(); pop = ipPop;
			auto ipAel = pinIn(BitWidth(k + 1)).setName("ae_level"); pAel = ipAel.node(); aeLevel = (UInt)ipAel;
			oPeek = pinOut(peek).setName("peek").node();
			oEmpty = pinOut(fifo.empty()).setName("empty").node();
			oAe = pinOut(fifo.almostEmpty(aeLevel)).setName("ae").node();
		}
		if (dual) fifo.generate(); // generateCdc names both clocks explicitly
		else { ClockScope cs(pushClock); fifo.generate(); } // the single-clock delay chain registers use the ambient clock (Fifo.h:321-329)
		{
			ClockScope cs(pushClock);
			oPushValid = pinOut(fifo.pushValid()).setName("push_valid").node();
			oPushSize = pinOut(fifo.pushSize()).setName("push_size").node();
		}
		{
			ClockScope cs(popClock);
			oPopValid = pinOut(fifo.popValid()).setName("pop_valid").node();
			oPopSize = pinOut(fifo.popSize()).setName("pop_size").node();
		}
		lw = fifo.choice().latency_writeToEmpty;
		lr = fifo.choice().latency_readToFull;
		HCL_DESIGNCHECK(fifo.choice().singleClock == !dual);
		design.postprocess();
	} catch (const gtry::utils::DesignError &e) {
		if (getenv("C15_VERBOSE")) std::cerr << "case " << id << ": " << e.what() << "\n";
		o << hdr.str() << " err=e\nend\n";
		return;
	} catch (const gtry::utils::InternalError &) {
		o << hdr.str() << " err=i\nend\n";
		return;
	}
	o << hdr.str() << " lw=" << lw << " lr=" << lr << "\n";

	// ---- simulation ----------------------------------------------------------------------------
	ClockSpy spy;
	spy.pushClk = pushClock.getClk()->getClockPinSource();
	spy.popClk = popClock.getClk()->getClockPinSource();
	sim::ReferenceSimulator sim(false);
	sim.addCallbacks(&spy);
	sim.compileProgram(design.getCircuit());
	sim.powerOn();

	auto set = [&](hlim::Node_Pin *pin, const std::string &bits) {
		sim.simProcSetInputPin(pin, sim::convertToExtended(vh::bitsFromString(bits)));
	};
	auto get = [&](hlim::Node_Pin *pin) { return vh::bitsToString(sim.getValueOfOutput(pin->getDriver(0))); };

	// current inputs
	bool inPush = false, inPop = false;
	std::string inData = toBits(0, w);
	// The flag outputs are checked from power-on and the levels are unrestricted from power-on. (level == depth while the
	// almost-full register still holds its reset value '0' is a known finding with its own PROPFAIL kind;
	// C15_AF_LEVEL_N_AT_RESET=1 forces that level from the start.)
	uint64_t inAfl = getenv("C15_AF_LEVEL_N_AT_RESET") ? N : rng.below(N + 1), inAel = rng.below(N + 1);
	Mode mode = IDLE; size_t modeLeft = 0;
	uint64_t counter = 1;

	auto newMode = [&]() {
		mode = (Mode)rng.below(NMODES);
		switch (mode) {
			case BURST: case DRAIN: modeLeft = rng.range(N, 3 * N + 8); break;   // long enough to hit and stay at the boundary
			case BOTH: modeLeft = rng.range(2, 2 * N + 6); break;
			case IDLE: modeLeft = rng.range(1, 8); break;
			default: modeLeft = rng.range(4, 6 * N + 10);
		}
	};
	auto choosePush = [&](bool implFull) {
		switch (mode) {
			case RANDOM: inPush = rng.chance(1, 2); break;
			case BURST: case BOTH: inPush = true; break;
			case DRAIN: case IDLE: inPush = false; break;
			case POLITE: inPush = !implFull && rng.chance(2, 3); break;
			case PUSH_HEAVY: inPush = rng.chance(7, 8); break;
			case POP_HEAVY: inPush = rng.chance(1, 4); break;
			default: inPush = false;
		}
		// payload: mostly a running counter (makes loss / duplication / reordering visible), sometimes random or partly undefined
		unsigned kind = (unsigned)rng.below(16);
		if (kind == 0) { inData = toBits(rng.next(), w); }
		else if (kind == 1) { inData = toBits(counter++, w); inData[rng.below(w)] = 'x'; }
		else inData = toBits(counter++, w);
		if (varyLevels) inAfl = rng.chance(1, 8) ? rng.below(2 * N) : rng.below(N + 1);
	};
	auto choosePop = [&](bool implEmpty) {
		switch (mode) {
			case RANDOM: inPop = rng.chance(1, 2); break;
			case DRAIN: case BOTH: inPop = true; break;
			case BURST: case IDLE: inPop = false; break;
			case POLITE: inPop = !implEmpty && rng.chance(2, 3); break;
			case PUSH_HEAVY: inPop = rng.chance(1, 4); break;
			case POP_HEAVY: inPop = rng.chance(7, 8); break;
			default: inPop = false;
		}
		if (varyLevels) inAel = rng.chance(1, 8) ? rng.below(2 * N) : rng.below(N + 1);
	};

	bool released = false; // both resets released: schedules start
	for (size_t ev = 0; ev < nEvents; ev++) {
		set(pPush, inPush ? "1" : "0"); set(pData, inData); set(pAfl, toBits(inAfl, k + 1));
		set(pPop, inPop ? "1" : "0"); set(pAel, toBits(inAel, k + 1));
		sim.reevaluate();
		std::string full = get(oFull), pvalid = get(oPushValid), af = get(oAf), psize = get(oPushSize);
		std::string empty = get(oEmpty), qvalid = get(oPopValid), ae = get(oAe), qsize = get(oPopSize), peek = get(oPeek);
		bool pr = spy.pushRst, qr = spy.popRst;
		// advance to the next rising edge of either clock
		spy.pushEdge = spy.popEdge = false;
		size_t guard = 0;
		while (!spy.pushEdge && !spy.popEdge) {
			sim.advanceEvent();
			// the reset state relevant for the edge is the one before the edge event (release events are separate events)
			if (!spy.pushEdge && !spy.popEdge) { pr = spy.pushRst; qr = spy.popRst; }
			if (++guard > 1000) { o << "abort no-clock-edge\n"; break; }
		}
		bool pc = spy.pushEdge, qc = spy.popEdge;
		if (!dual) qc = pc;
		o << "t " << pc << ' ' << qc << ' ' << (pr ? 1 : 0) << ' ' << ((dual ? qr : pr) ? 1 : 0) << ' '
		  << (inPush ? 1 : 0) << ' ' << inData << ' ' << inAfl << ' ' << (inPop ? 1 : 0) << ' ' << inAel
		  << " | " << full << ' ' << pvalid << ' ' << af << ' ' << psize
		  << " | " << empty << ' ' << qvalid << ' ' << ae << ' ' << qsize << ' ' << peek << '\n';

		if (!released) {
			released = !spy.pushRst && !spy.popRst;
			if (!released) continue; // keep idling while any reset is asserted
			newMode();
			choosePush(false); choosePop(true);
			continue;
		}
		if (modeLeft == 0) newMode(); else modeLeft--;
		if (pc) choosePush(full == "1");
		if (qc) choosePop(empty == "1");
	}
	o << "end\n";
}

// ---- stream FIFO (scl/stream/streamFifo.h : strm::fifo) -------------------------------------------
// single clock; interface = ready/valid streams. latency request 0 = fall-through (bypass when empty).
//   case <id> mode=stream min=<minDepth> w=<bits> lat=<..>        | ... err=e
//   s <rst> <in_valid> <in_data> <out_ready> | <in_ready> <out_valid> <out_data>
static void runStreamCase(uint64_t id, Rng rng, size_t nEvents, std::ostream &o) {
	size_t k = rng.chance(1, 2) ? rng.range(1, 3) : rng.range(0, 5);
	size_t N = size_t(1) << k;
	size_t minDepth = (k == 0) ? 1 : rng.range((N >> 1) + 1, N);
	static const std::vector<size_t> widths = {1, 2, 4, 8, 8, 13, 16, 33};
	size_t w = rng.pick(widths);
	LatOpt lat{'D', 0};
	switch (rng.below(8)) {
		case 0: lat = {'D', 0}; break;
		case 1: case 2: case 3: lat = {'S', 0}; break;   // fall-through
		case 4: case 5: lat = {'S', (size_t)rng.range(1, 4)}; break;
		case 6: lat = {'L', (size_t)rng.range(1, 4)}; break;
		default: lat = {'M', (size_t)rng.range(1, 4)}; break;
	}
	std::ostringstream hdr;
	hdr << "case " << id << " mode=stream min=" << minDepth << " w=" << w << " lat=" << lat.kind;
	if (lat.kind != 'D') hdr << lat.n;

	DesignScope design;
	Clock clock({ .absoluteFrequency = hlim::ClockRational(1'000'000, 1), .name = "clk" });
	ClockScope cs(clock);
	hlim::Node_Pin *pInValid, *pInData, *pOutReady, *oInReady, *oOutValid, *oOutData;
	try {
		scl::RvStream<UInt> in{ UInt{ BitWidth(w) } };
		auto ipValid = pinIn().setName("in_valid"); pInValid = ipValid.node(); valid(in) = ipValid;
		auto ipData = pinIn(BitWidth(w)).setName("in_data"); pInData = ipData.node(); *in = (UInt)ipData;
		oInReady = pinOut(ready(in)).setName("in_ready").node();
		scl::RvStream<UInt> out = scl::strm::fifo(move(in), minDepth, mkLat(lat));
		oOutValid = pinOut(valid(out)).setName("out_valid").node();
		oOutData = pinOut(*out).setName("out_data").node();
		auto ipReady = pinIn().setName("out_ready"); pOutReady = ipReady.node(); ready(out) = ipReady;
		design.postprocess();
	} catch (const gtry::utils::DesignError &e) {
		if (getenv("C15_VERBOSE")) std::cerr << "case " << id << ": " << e.what() << "\n";
		o << hdr.str() << " err=e\nend\n";
		return;
	}
	o << hdr.str() << "\n";

	ClockSpy spy;
	spy.pushClk = spy.popClk = clock.getClk()->getClockPinSource();
	sim::ReferenceSimulator sim(false);
	sim.addCallbacks(&spy);
	sim.compileProgram(design.getCircuit());
	sim.powerOn();
	auto set = [&](hlim::Node_Pin *pin, const std::string &bits) { sim.simProcSetInputPin(pin, sim::convertToExtended(vh::bitsFromString(bits))); };
	auto get = [&](hlim::Node_Pin *pin) { return vh::bitsToString(sim.getValueOfOutput(pin->getDriver(0))); };

	bool inValid = false, outReady = false;
	std::string inData = toBits(0, w);
	uint64_t counter = 1;
	Mode mode = IDLE; size_t modeLeft = 0;
	bool released = false;
	for (size_t ev = 0; ev < nEvents; ev++) {
		set(pInValid, inValid ? "1" : "0"); set(pInData, inData); set(pOutReady, outReady ? "1" : "0");
		sim.reevaluate();
		std::string inReady = get(oInReady), outValid = get(oOutValid), outData = get(oOutData);
		bool rst = spy.pushRst;
		spy.pushEdge = false;
		size_t guard = 0;
		while (!spy.pushEdge) {
			sim.advanceEvent();
			if (!spy.pushEdge) rst = spy.pushRst;
			if (++guard > 1000) { o << "abort no-clock-edge\n"; break; }
		}
		o << "s " << (rst ? 1 : 0) << ' ' << (inValid ? 1 : 0) << ' ' << inData << ' ' << (outReady ? 1 : 0)
		  << " | " << inReady << ' ' << outValid << ' ' << outData << '\n';
		if (!released) { released = !spy.pushRst; if (!released) continue; }
		if (modeLeft == 0) {
			mode = (Mode)rng.below(NMODES);
			modeLeft = (mode == BURST || mode == DRAIN) ? rng.range(N, 3 * N + 8) : (mode == IDLE ? rng.range(1, 6) : rng.range(3, 5 * N + 10));
		} else modeLeft--;
		// a valid beat that was not taken must be held (ready/valid protocol); ready may change freely
		bool held = inValid && inReady != "1";
		if (!held) {
			switch (mode) {
				case RANDOM: inValid = rng.chance(1, 2); break;
				case BURST: case BOTH: inValid = true; break;
				case DRAIN: case IDLE: inValid = false; break;
				case POLITE: inValid = rng.chance(2, 3); break;
				case PUSH_HEAVY: inValid = rng.chance(7, 8); break;
				case POP_HEAVY: inValid = rng.chance(1, 4); break;
				default: inValid = false;
			}
			inData = rng.chance(1, 16) ? toBits(rng.next(), w) : toBits(counter++, w);
		}
		switch (mode) {
			case RANDOM: case POLITE: outReady = rng.chance(1, 2); break;
			case DRAIN: case BOTH: outReady = true; break;
			case BURST: case IDLE: outReady = false; break;
			case PUSH_HEAVY: outReady = rng.chance(1, 4); break;
			case POP_HEAVY: outReady = rng.chance(7, 8); break;
			default: outReady = false;
		}
	}
	o << "end\n";
}

// ---- gray code primitives (scl/cdc.cpp : grayEncode / grayDecode) ------------------------------------
// One case per width w = 1..16: exhaustive for w <= 12, boundary + random values above.
//   case <id> mode=gray w=<w>
//   g <x> <grayEncode(x)> <grayDecode(x)> <grayDecode(grayEncode(x))>          (bit strings, MSB first)
static void runGrayCase(uint64_t id, Rng rng, size_t nSamples, std::ostream &o) {
	size_t w = 1 + id % 16;
	DesignScope design;
	auto ipX = pinIn(BitWidth(w)).setName("x");
	hlim::Node_Pin *pX = ipX.node();
	UInt x = ipX;
	hlim::Node_Pin *oEnc = pinOut(scl::grayEncode(x)).setName("enc").node();
	hlim::Node_Pin *oDec = pinOut(scl::grayDecode((BVec)x)).setName("dec").node();
	hlim::Node_Pin *oRt = pinOut(scl::grayDecode(scl::grayEncode(x))).setName("rt").node();
	design.postprocess();
	o << "case " << id << " mode=gray w=" << w << "\n";
	sim::ReferenceSimulator sim(false);
	sim.compileProgram(design.getCircuit());
	sim.powerOn();
	auto evalOne = [&](uint64_t v) {
		sim.simProcSetInputPin(pX, sim::convertToExtended(vh::bitsFromString(toBits(v, w))));
		sim.reevaluate();
		auto get = [&](hlim::Node_Pin *pin) { return vh::bitsToString(sim.getValueOfOutput(pin->getDriver(0))); };
		o << "g " << toBits(v, w) << ' ' << get(oEnc) << ' ' << get(oDec) << ' ' << get(oRt) << '\n';
	};
	if (w <= 12) {
		for (uint64_t v = 0; v < (uint64_t(1) << w); v++) evalOne(v);
	} else {
		uint64_t mask = (uint64_t(1) << w) - 1;
		for (size_t j = 0; j <= w; j++) { evalOne((uint64_t(1) << j) & mask); evalOne(((uint64_t(1) << j) - 1) & mask); evalOne((~((uint64_t(1) << j) - 1)) & mask); }
		for (size_t i = 0; i < nSamples; i++) evalOne(rng.next() & mask);
	}
	o << "end\n";
}

// ---- FifoArray (scl/FifoArray.h) ---------------------------------------------------------------------
// 2^kf FIFOs of 2^k elements behind one push port + selector and one pop port + selector, single clock.
//   case <id> mode=array kf=<log2 #fifos> k=<log2 depth> w=<bits>
//   a <rst> <push> <pushSel> <data> <pop> <popSel> | <full> <empty> <size> <peek>
// Schedules: selectors differ and change every cycle, stay fixed on different FIFOs, chase the fullest / emptiest FIFO.
static void runArrayCase(uint64_t id, Rng rng, size_t nEvents, std::ostream &o) {
	size_t kf = rng.range(1, 3), k = rng.range(1, 4);
	// 8 x 16 = 128 words exceeds the default SMALL (asynchronous read) memory class: the combinational peek() then needs a
	// user-supplied retimable register (as in tests/scl/fifo_test.cpp FifoArray_poc), otherwise postprocess() fails with a
	// retiming DesignError. The harness observes peek() combinationally, so that one configuration is left out.
	if (kf == 3 && k == 4) k = rng.range(1, 3);
	size_t nF = size_t(1) << kf, N = size_t(1) << k;
	static const std::vector<size_t> widths = {4, 8, 8, 13, 16};
	size_t w = rng.pick(widths);
	DesignScope design;
	Clock clock({ .absoluteFrequency = hlim::ClockRational(1'000'000, 1), .name = "clk" });
	ClockScope cs(clock);
	hlim::Node_Pin *pPush, *pPushSel, *pData, *pPop, *pPopSel, *oFull, *oEmpty, *oSize, *oPeek;
	o << "case " << id << " mode=array kf=" << kf << " k=" << k << " w=" << w << "\n";
	{
		scl::FifoArray<UInt> fifo(nF, N, UInt{ BitWidth(w) });
		auto ipPush = pinIn().setName("push"); pPush = ipPush.node(); Bit push = ipPush;
		auto ipPushSel = pinIn(BitWidth(kf)).setName("push_sel"); pPushSel = ipPushSel.node(); UInt pushSel = ipPushSel;
		auto ipData = pinIn(BitWidth(w)).setName("push_data"); pData = ipData.node(); UInt data = ipData;
		fifo.selectPush(pushSel);
		IF(push) fifo.push(data);
		auto ipPop = pinIn().setName("pop"); pPop = ipPop.node(); Bit pop = ipPop;
		auto ipPopSel = pinIn(BitWidth(kf)).setName("pop_sel"); pPopSel = ipPopSel.node(); UInt popSel = ipPopSel;
		fifo.selectPop(popSel);
		IF(pop) fifo.pop();
		fifo.generate();
		oFull = pinOut(fifo.full()).setName("full").node();
		oEmpty = pinOut(fifo.empty()).setName("empty").node();
		oSize = pinOut(fifo.size()).setName("size").node();
		oPeek = pinOut(fifo.peek()).setName("peek").node();
		design.postprocess();
	}

	ClockSpy spy;
	spy.pushClk = spy.popClk = clock.getClk()->getClockPinSource();
	sim::ReferenceSimulator sim(false);
	sim.addCallbacks(&spy);
	sim.compileProgram(design.getCircuit());
	sim.powerOn();
	auto set = [&](hlim::Node_Pin *pin, const std::string &bits) { sim.simProcSetInputPin(pin, sim::convertToExtended(vh::bitsFromString(bits))); };
	auto get = [&](hlim::Node_Pin *pin) { return vh::bitsToString(sim.getValueOfOutput(pin->getDriver(0))); };

	std::vector<size_t> fillGuess(nF, 0); // harness-side estimate from the implementation's own flags (only steers the schedule)
	bool push = false, pop = false; size_t pushSel = 0, popSel = 0;
	std::string data = toBits(0, w);
	uint64_t counter = 1;
	enum AMode { A_RANDOM, A_FIXED_DIFFERENT, A_SAME, A_CHASE_FULL, A_CHASE_EMPTY, A_FILL_ONE_POP_OTHER, A_ROUND_ROBIN, A_NMODES };
	AMode mode = A_RANDOM; size_t modeLeft = 0, fixA = 0, fixB = 0;
	bool released = false;
	for (size_t ev = 0; ev < nEvents; ev++) {
		set(pPush, push ? "1" : "0"); set(pPushSel, toBits(pushSel, kf)); set(pData, data);
		set(pPop, pop ? "1" : "0"); set(pPopSel, toBits(popSel, kf));
		sim.reevaluate();
		std::string full = get(oFull), empty = get(oEmpty), size = get(oSize), peek = get(oPeek);
		bool rst = spy.pushRst;
		spy.pushEdge = false;
		size_t guard = 0;
		while (!spy.pushEdge) {
			sim.advanceEvent();
			if (!spy.pushEdge) rst = spy.pushRst;
			if (++guard > 1000) { o << "abort no-clock-edge\n"; break; }
		}
		o << "a " << (rst ? 1 : 0) << ' ' << (push ? 1 : 0) << ' ' << pushSel << ' ' << data << ' ' << (pop ? 1 : 0) << ' ' << popSel
		  << " | " << full << ' ' << empty << ' ' << size << ' ' << peek << '\n';
		if (!released) { released = !spy.pushRst; if (!released) continue; }
		if (pop && empty == "0" && fillGuess[popSel] > 0) fillGuess[popSel]--;
		if (push && full == "0") fillGuess[pushSel]++;
		if (modeLeft == 0) {
			mode = (AMode)rng.below(A_NMODES);
			modeLeft = rng.range(3, 4 * N + 8);
			fixA = rng.below(nF); fixB = (fixA + 1 + rng.below(nF - 1)) % nF; // fixB != fixA
		} else modeLeft--;
		auto argmax = [&]() { size_t b = 0; for (size_t i = 1; i < nF; i++) if (fillGuess[i] > fillGuess[b]) b = i; return b; };
		auto argmin = [&]() { size_t b = 0; for (size_t i = 1; i < nF; i++) if (fillGuess[i] < fillGuess[b]) b = i; return b; };
		switch (mode) {
			case A_RANDOM: push = rng.chance(2, 3); pop = rng.chance(1, 2); pushSel = rng.below(nF); popSel = rng.below(nF); break;
			case A_FIXED_DIFFERENT: push = rng.chance(3, 4); pop = rng.chance(1, 2); pushSel = fixA; popSel = fixB; break;
			case A_SAME: push = rng.chance(2, 3); pop = rng.chance(2, 3); pushSel = popSel = fixA; break;
			case A_CHASE_FULL: push = true; pop = rng.chance(1, 4); pushSel = rng.chance(3, 4) ? argmax() : rng.below(nF); popSel = rng.below(nF); break;
			case A_CHASE_EMPTY: push = rng.chance(1, 4); pop = true; pushSel = rng.below(nF); popSel = rng.chance(3, 4) ? argmin() : rng.below(nF); break;
			case A_FILL_ONE_POP_OTHER: push = true; pushSel = fixA; pop = rng.chance(1, 3); popSel = fixB; break; // fill A to capacity while the pop selector rests on B
			case A_ROUND_ROBIN: push = rng.chance(3, 4); pop = rng.chance(3, 4); pushSel = (pushSel + 1) % nF; popSel = (popSel + nF - 1) % nF; break;
			default: push = pop = false;
		}
		data = rng.chance(1, 16) ? toBits(rng.next(), w) : toBits(counter++, w);
	}
	o << "end\n";
}

// ---- TransactionalFifo (scl/TransactionalFifo.h), single clock ---------------------------------------
//   case <id> mode=trans k= N= min= w= lat= lw= lr=
//   x <rst> <push> <data> <pushCommit> <pushRollback> <cutoff> <afLevel> <pop> <popCommit> <popRollback> <aeLevel> | <full> <pvalid> <psize> <af> | <empty> <qvalid> <qsize> <ae> <peek>
// Wiring (order matters, the later call wins): IF(push) push; IF(pushCommit) commitPush(cutoff); IF(pushRollback) rollbackPush();
//                                              IF(pop) pop;   IF(popCommit) commitPop();        IF(popRollback) rollbackPop();
struct XTFifo : scl::TransactionalFifo<UInt> {
	using scl::TransactionalFifo<UInt>::TransactionalFifo;
	FifoCapabilities::Choice &choice() { return dynamic_cast<scl::FifoMeta*>(m_area.metaInfo())->fifoChoice; }
	const Bit &pushValid() const { return m_pushValid; }
	const Bit &popValid() const { return m_popValid; }
	const UInt &pushSize() const { return m_pushSize; }
	const UInt &popSize() const { return m_popSize; }
};

static void runTransCase(uint64_t id, Rng rng, size_t nEvents, std::ostream &o) {
	size_t k = rng.chance(1, 2) ? rng.range(1, 3) : rng.range(0, 5);
	size_t N = size_t(1) << k;
	size_t minDepth = (k == 0) ? 1 : rng.range((N >> 1) + 1, N);
	static const std::vector<size_t> widths = {4, 8, 8, 13, 16, 33};
	size_t w = rng.pick(widths);
	LatOpt lat{'D', 0};
	switch (rng.below(6)) {
		case 0: case 1: lat = {'D', 0}; break;
		case 2: case 3: lat = {'S', (size_t)rng.range(1, 4)}; break;
		case 4: lat = {'L', (size_t)rng.range(0, 4)}; break;
		default: lat = {'M', (size_t)rng.range(1, 5)}; break;
	}
	std::ostringstream hdr;
	hdr << "case " << id << " mode=trans min=" << minDepth << " w=" << w << " lat=" << lat.kind;
	if (lat.kind != 'D') hdr << lat.n;

	DesignScope design;
	Clock clock({ .absoluteFrequency = hlim::ClockRational(1'000'000, 1), .name = "clk" });
	ClockScope cs(clock);
	hlim::Node_Pin *pPush, *pData, *pPC, *pPR, *pCut, *pPop, *pQC, *pQR, *pAfl, *pAel;
	hlim::Node_Pin *oFull, *oPV, *oPS, *oEmpty, *oQV, *oQS, *oPeek, *oAf, *oAe;
	size_t lw = 0, lr = 0;
	try {
		XTFifo fifo{ minDepth, UInt{ BitWidth(w) }, mkLat(lat) };
		N = fifo.depth(); k = 0; while ((size_t(1) << k) < N) k++;
		hdr << " k=" << k << " N=" << N;
		auto ipPush = pinIn().setName("push"); pPush = ipPush.node(); Bit push = ipPush;
		auto ipData = pinIn(BitWidth(w)).setName("push_data"); pData = ipData.node(); UInt data = ipData;
		auto ipPC = pinIn().setName("push_commit"); pPC = ipPC.node(); Bit pushCommit = ipPC;
		auto ipPR = pinIn().setName("push_rollback"); pPR = ipPR.node(); Bit pushRollback = ipPR;
		auto ipCut = pinIn(BitWidth(k + 1)).setName("cutoff"); pCut = ipCut.node(); UInt cutoff = ipCut;
		auto ipPop = pinIn().setName("pop"); pPop = ipPop.node(); Bit pop = ipPop;
		auto ipQC = pinIn().setName("pop_commit"); pQC = ipQC.node(); Bit popCommit = ipQC;
		auto ipQR = pinIn().setName("pop_rollback"); pQR = ipQR.node(); Bit popRollback = ipQR;
		auto ipAfl = pinIn(BitWidth(k + 1)).setName("af_level"); pAfl = ipAfl.node(); UInt afLevel = ipAfl;
		auto ipAel = pinIn(BitWidth(k + 1)).setName("ae_level"); pAel = ipAel.node(); UInt aeLevel = ipAel;
		IF(push) fifo.push(data);
		IF(pushCommit) fifo.commitPush(cutoff);
		IF(pushRollback) fifo.rollbackPush();
		UInt peek = fifo.peek();
		IF(pop) fifo.pop();
		IF(popCommit) fifo.commitPop();
		IF(popRollback) fifo.rollbackPop();
		oFull = pinOut(fifo.full()).setName("full").node();
		oEmpty = pinOut(fifo.empty()).setName("empty").node();
		oPeek = pinOut(peek).setName("peek").node();
		oAf = pinOut(fifo.almostFull(afLevel)).setName("af").node();
		oAe = pinOut(fifo.almostEmpty(aeLevel)).setName("ae").node();
		fifo.generate();
		oPV = pinOut(fifo.pushValid()).setName("push_valid").node();
		oPS = pinOut(fifo.pushSize()).setName("push_size").node();
		oQV = pinOut(fifo.popValid()).setName("pop_valid").node();
		oQS = pinOut(fifo.popSize()).setName("pop_size").node();
		lw = fifo.choice().latency_writeToEmpty;
		lr = fifo.choice().latency_readToFull;
		design.postprocess();
	} catch (const gtry::utils::DesignError &e) {
		if (getenv("C15_VERBOSE")) std::cerr << "case " << id << ": " << e.what() << "\n";
		o << hdr.str() << " err=e\nend\n";
		return;
	}
	o << hdr.str() << " lw=" << lw << " lr=" << lr << "\n";

	ClockSpy spy;
	spy.pushClk = spy.popClk = clock.getClk()->getClockPinSource();
	sim::ReferenceSimulator sim(false);
	sim.addCallbacks(&spy);
	sim.compileProgram(design.getCircuit());
	sim.powerOn();
	auto set = [&](hlim::Node_Pin *pin, const std::string &bits) { sim.simProcSetInputPin(pin, sim::convertToExtended(vh::bitsFromString(bits))); };
	auto get = [&](hlim::Node_Pin *pin) { return vh::bitsToString(sim.getValueOfOutput(pin->getDriver(0))); };

	bool push = false, pc = false, pr = false, pop = false, qc = false, qr = false;
	uint64_t cutoff = 0;
	bool varyLevels = rng.chance(1, 3);
	uint64_t afl = getenv("C15_AF_LEVEL_N_AT_RESET") ? N : rng.below(N + 1), ael = rng.below(N + 1); // unrestricted from power-on, see runCase
	std::string data = toBits(0, w);
	uint64_t counter = 1;
	size_t tentative = 0; // pushes accepted since the last push commit / rollback (bounds the cutoff)
	enum TMode { T_TRANSPARENT, T_PACKETS, T_RANDOM, T_SIMULTANEOUS, T_ROLLBACK_HEAVY, T_FILL, T_DRAIN, T_NMODES };
	TMode mode = T_TRANSPARENT; size_t modeLeft = 0;
	bool released = false;
	for (size_t ev = 0; ev < nEvents; ev++) {
		set(pPush, push ? "1" : "0"); set(pData, data); set(pPC, pc ? "1" : "0"); set(pPR, pr ? "1" : "0"); set(pCut, toBits(cutoff, k + 1));
		set(pPop, pop ? "1" : "0"); set(pQC, qc ? "1" : "0"); set(pQR, qr ? "1" : "0");
		set(pAfl, toBits(afl, k + 1)); set(pAel, toBits(ael, k + 1));
		sim.reevaluate();
		std::string full = get(oFull), pv = get(oPV), ps = get(oPS), empty = get(oEmpty), qv = get(oQV), qs = get(oQS), peek = get(oPeek);
		std::string af = get(oAf), ae = get(oAe);
		bool rst = spy.pushRst;
		spy.pushEdge = false;
		size_t guard = 0;
		while (!spy.pushEdge) {
			sim.advanceEvent();
			if (!spy.pushEdge) rst = spy.pushRst;
			if (++guard > 1000) { o << "abort no-clock-edge\n"; break; }
		}
		o << "x " << (rst ? 1 : 0) << ' ' << (push ? 1 : 0) << ' ' << data << ' ' << (pc ? 1 : 0) << ' ' << (pr ? 1 : 0) << ' ' << cutoff << ' ' << afl << ' '
		  << (pop ? 1 : 0) << ' ' << (qc ? 1 : 0) << ' ' << (qr ? 1 : 0) << ' ' << ael
		  << " | " << full << ' ' << pv << ' ' << ps << ' ' << af << " | " << empty << ' ' << qv << ' ' << qs << ' ' << ae << ' ' << peek << '\n';
		if (!released) { released = !spy.pushRst; if (!released) continue; }
		// bookkeeping for the cutoff bound (statement order of generatePush)
		if (pv == "1") tentative++;
		if (pr) tentative = 0; else if (pc) tentative = 0;
		if (modeLeft == 0) { mode = (TMode)rng.below(T_NMODES); modeLeft = rng.range(4, 5 * N + 12); } else modeLeft--;
		switch (mode) {
			case T_TRANSPARENT: push = rng.chance(1, 2); pop = rng.chance(1, 2); pc = true; qc = true; pr = qr = false; break;
			case T_PACKETS: push = rng.chance(3, 4); pc = rng.chance(1, 5); pr = !pc && rng.chance(1, 10);
			                pop = rng.chance(3, 4); qc = rng.chance(1, 5); qr = !qc && rng.chance(1, 10); break;
			case T_RANDOM: push = rng.chance(1, 2); pc = rng.chance(1, 3); pr = rng.chance(1, 6); pop = rng.chance(1, 2); qc = rng.chance(1, 3); qr = rng.chance(1, 6); break;
			case T_SIMULTANEOUS: // strobes deliberately asserted together: pop with rollbackPop, push with rollbackPush, commit with rollback
				push = rng.chance(3, 4); pop = rng.chance(3, 4);
				pr = push && rng.chance(1, 3); qr = pop && rng.chance(1, 3);
				pc = rng.chance(1, 2); qc = rng.chance(1, 2); break;
			case T_ROLLBACK_HEAVY: push = true; pop = true; pc = rng.chance(1, 6); qc = rng.chance(1, 6); pr = rng.chance(1, 3); qr = rng.chance(1, 3); break;
			case T_FILL: push = true; pc = rng.chance(1, 3); pr = rng.chance(1, 12); pop = rng.chance(1, 6); qc = rng.chance(1, 2); qr = rng.chance(1, 8); break;
			case T_DRAIN: push = rng.chance(1, 6); pc = true; pr = false; pop = true; qc = rng.chance(1, 3); qr = rng.chance(1, 8); break;
			default: push = pop = pc = pr = qc = qr = false;
		}
		cutoff = (pc && tentative > 0 && rng.chance(1, 6)) ? rng.range(1, tentative) : 0;
		if (varyLevels) afl = rng.chance(1, 8) ? rng.below(2 * N) : rng.below(N + 1);
		if (varyLevels) ael = rng.chance(1, 8) ? rng.below(2 * N) : rng.below(N + 1);
		data = rng.chance(1, 16) ? toBits(rng.next(), w) : toBits(counter++, w);
	}
	o << "end\n";
}

int main(int argc, char **argv) {
	uint64_t seed = vh::argU64(argc, argv, 1, 1);
	uint64_t ncases = vh::argU64(argc, argv, 2, 10);
	uint64_t nEvents = vh::argU64(argc, argv, 3, 200);
	std::string modeArg = argc > 4 ? std::string(argv[4]) : std::string();
	bool streamMode = modeArg == "stream", deepMode = modeArg == "deep", grayMode = modeArg == "gray", arrayMode = modeArg == "array", transMode = modeArg == "trans";
	std::ios::sync_with_stdio(false);
	// gatery may drop debug visualisations (*.dot) into the cwd when a design check fails: keep them out of the tree
	{ std::error_code ec; std::filesystem::current_path(std::filesystem::temp_directory_path(), ec); }
	std::cout << "# prop=C15 seed=" << seed << " ncases=" << ncases << " events=" << nEvents << "\n";
	Rng master(seed * 0x1000193ull + 15);
	for (uint64_t c = 0; c < ncases; c++) {
		Rng r = master.fork();
		std::ostringstream os;
		try {
			if (streamMode) runStreamCase(c, r, nEvents, os);
			else if (grayMode) runGrayCase(c, r, nEvents, os);
			else if (arrayMode) runArrayCase(c, r, nEvents, os);
			else if (transMode) runTransCase(c, r, nEvents, os);
			else runCase(c, r, nEvents, os, deepMode);
		} catch (const std::exception &e) {
			std::string msg = e.what();
			for (auto &ch : msg) if (ch == '\n') ch = ' ';
			os << "abort exception " << msg.substr(0, 300) << "\nend\n";
		}
		std::cout << os.str();
	}
	return 0;
}
