// C16 harness: random chains of the REAL ready/valid stream stages of gatery's scl (source/gatery/scl/stream/utils.h,
// streamFifo.h), simulated with the ReferenceSimulator under random and adversarial valid / ready / stall schedules.
// For every cycle the handshake signals and payloads at EVERY stage boundary are logged; lean/Driver/C16.lean replays
// each stage on the Lean model (DIFF) and checks the list specification + the interface law on this log (PROPFAIL).
//
// usage: c16 <seed> <ncases> <ncycles> [mode] [onlycase] [custom chain, e.g. "0 8 dsb,red:2"]
//   mode is a bit mask; 0 (default) keeps the generator inside the preconditions of the Lean theorems:
//   bit 0 (1): stall conditions are arbitrary (default: they never rise while the stalled stream offers a beat that is not taken)
//   bit 1 (2): allow regDownstreamBlocking to feed a stage whose ready waits for valid (... -> reduceWidth): such chains can
//              get stuck for good; outside the side condition of Props.compose_live, counted as observation by the driver
//   bit 3 (8): allow the shapes of Packet.h's widthExtend/widthReduce that are known to be wrong (sop flag of widthExtend for ratio > 1,
//              byte-enable offset of both for enable groups wider than one bit or ratios that are not a power of two)
//   bit 2 (4): mostly chains in which reduceWidth is followed directly by delay(n >= 1) (finding F5, fixed in /repo 553e604)
#include <gatery/scl_pch.h>
#include <gatery/frontend.h>
#include <gatery/scl/stream/Stream.h>
#include <gatery/scl/stream/utils.h>
#include <gatery/scl/stream/Packet.h>
#include <gatery/scl/stream/streamFifo.h>
#include <gatery/simulation/ReferenceSimulator.h>
#include "common.h"
#include <iostream>
#include <sstream>

using namespace gtry;
namespace strm = gtry::scl::strm;

enum Kind { DS, DSB, RR, DEC, STALL, DLY, FIFO, EXT, RED, PEXT, PRED }; // PEXT/PRED = strm::widthExtend / strm::widthReduce of Packet.h
static const char *kindName[] = { "ds", "dsb", "rr", "dec", "stall", "dly", "fifo", "ext", "red", "pext", "pred" };
static const int NKIND = 11;

struct StageSpec {
	Kind kind;
	unsigned a = 0, b = 0; // dly: a = cycles; fifo: a = minDepth, b = latency request (0..3, 9 = DontCare); ext/red: a = ratio
	unsigned win = 0, wout = 0;
	unsigned bwin = 0, bwout = 0; // byte-enable width before / after the stage (0 = stream type has no ByteEnable)
	unsigned ewin = 0, ewout = 0; // width of the Empty / EmptyBits signal before / after the stage
};

struct CaseSpec {
	uint64_t id;
	unsigned skind;       // stream type
	unsigned w0;          // data width at the head
	unsigned txw;         // txid / empty width
	unsigned bw0 = 0;     // byte-enable width at the head
	unsigned ew0 = 0;     // Empty / EmptyBits width at the head
	std::vector<StageSpec> stages;
	unsigned ncycles;
	unsigned stallmode;
	uint64_t simSeed;
};

static unsigned nextPow2(unsigned v) { unsigned p = 1; while (p < v) p <<= 1; return p; }

// stream types under test: all have Ready and Valid; meta signals vary
using S0 = scl::RvStream<UInt>;
using S1 = scl::RvPacketStream<UInt>;
using S2 = scl::RvPacketStream<UInt, scl::TxId, scl::Error>;
using S3 = scl::RvStream<UInt, scl::Sop, scl::Empty>; // explicit Sop (ambiguous sop() if combined with Valid+Eop); strm::fifo does not accept Sop

using S4 = scl::RvStream<UInt, scl::ByteEnable>;
using S5 = scl::RvPacketStream<UInt, scl::ByteEnable, scl::TxId>;

// packet-framed flavours (sop on the first, eop on the last beat of every packet, coherent at the head)
using S6 = scl::RvPacketStream<UInt, scl::Sop, scl::TxId>;   // utils.h reduceWidth is ambiguous for Valid+Eop+Sop (sop()), strm::fifo drops Sop
using S7 = scl::RvPacketStream<UInt, scl::Empty, scl::Error>;
using S8 = scl::RvPacketStream<UInt, scl::EmptyBits>;
using S9 = scl::RvPacketStream<UInt, scl::Sop, scl::Empty, scl::ByteEnable>;

template<class S> constexpr bool hasBE = S::template has<scl::ByteEnable>();
template<class S> constexpr bool hasEmptyBits = S::template has<scl::EmptyBits>();
template<class S> constexpr bool hasEop = S::template has<scl::Eop>();
template<class S> constexpr bool hasSop = S::template has<scl::Sop>();
template<class S> constexpr bool hasTx = S::template has<scl::TxId>();
template<class S> constexpr bool hasErr = S::template has<scl::Error>();
template<class S> constexpr bool hasEmpty = S::template has<scl::Empty>();

struct Tap {
	OutputPin v, r, e, s;
	OutputPins d, m, b, x;
	Tap(const Bit &v_, const Bit &r_, const Bit &e_, const Bit &s_, const UInt &d_, const UInt &m_, const UInt &b_, const UInt &x_, const std::string &n)
		: v(pinOut(v_).setName(n + "_v")), r(pinOut(r_).setName(n + "_r")), e(pinOut(e_).setName(n + "_e")), s(pinOut(s_).setName(n + "_s")),
		  d(pinOut(d_).setName(n + "_d")), m(pinOut(m_).setName(n + "_m")), b(pinOut(b_).setName(n + "_b")), x(pinOut(x_).setName(n + "_x")) {}
};

// all meta signals other than eop/sop/byteEnable/empty packed into one word: {error, txid} (whatever the type has), lowest first
template<class S> UInt metaWord(const S &s)
{
	UInt m = ConstUInt(0, 1_b);
	bool first = true;
	auto add = [&](const UInt &x) { if (first) { m = x; first = false; } else m = cat(x, m); };
	if constexpr (hasErr<S>) { UInt e = 1_b; e[0] = error(s); add(e); }
	if constexpr (hasTx<S>) add(txid(s));
	return m;
}

template<class S> unsigned metaWidth(unsigned txw)
{
	unsigned w = 0;
	if (hasErr<S>) w += 1;
	if (hasTx<S>) w += txw;
	return w ? w : 1;
}

template<class S> std::unique_ptr<Tap> makeTap(const S &s, size_t i)
{
	Bit v = valid(s), r = ready(s), e = '0', sp = '0';
	if constexpr (hasEop<S>) e = eop(s);
	if constexpr (hasSop<S>) sp = get<scl::Sop>(s).sop;
	UInt d = *s;
	UInt m = metaWord(s);
	UInt b = ConstUInt(0, 1_b);
	if constexpr (hasBE<S>) b = (UInt)byteEnable(s);
	UInt x = ConstUInt(0, 1_b);
	if constexpr (hasEmpty<S>) x = empty(s);
	if constexpr (hasEmptyBits<S>) x = get<scl::EmptyBits>(s).emptyBits;
	return std::make_unique<Tap>(v, r, e, sp, d, m, b, x, "tap" + std::to_string(i));
}

template<class S> S applyStage(S &&s, const StageSpec &sp, size_t idx, std::vector<std::optional<Bit>> &stallPins)
{
	switch (sp.kind) {
	case DS: return strm::regDownstream(move(s));
	case DSB: return strm::regDownstreamBlocking(move(s));
	case RR: return strm::regReady(move(s));
	case DEC: return strm::regDecouple(move(s));
	case STALL: {
		Bit c = pinIn().setName("stall" + std::to_string(idx));
		stallPins[idx] = c;
		return strm::stall(move(s), c);
	}
	case DLY: return strm::delay(move(s), sp.a);
	case FIFO:
		if constexpr (!hasSop<S>)
			return strm::fifo(move(s), sp.a, sp.b == 9 ? scl::FifoLatency::DontCare() : scl::FifoLatency(sp.b));
		else
			return move(s);
	case EXT: return strm::extendWidth(move(s), BitWidth(sp.wout));
	case RED:
		if constexpr (!(hasSop<S> && hasEop<S>))
			return strm::reduceWidth(move(s), BitWidth(sp.wout));
		else
			return move(s);
	case PEXT:
		if constexpr (hasEop<S>)
			return strm::widthExtend(move(s), BitWidth(sp.wout));
		else
			return move(s);
	case PRED:
		if constexpr (hasEop<S>)
			return strm::widthReduce(move(s), BitWidth(sp.wout));
		else
			return move(s);
	}
	return move(s);
}

struct Pat { unsigned kind = 0, num = 1, den = 2, len = 0; }; // generic random on/off pattern

static Pat newPat(vh::Rng &rng, bool sink)
{
	Pat p;
	p.kind = (unsigned)rng.below(sink ? 9 : 5);
	static const unsigned nums[] = { 1, 1, 3, 7 }, dens[] = { 8, 2, 4, 8 };
	unsigned k = (unsigned)rng.below(4);
	p.num = nums[k]; p.den = dens[k];
	p.len = (unsigned)rng.range(8, 160);
	return p;
}

template<class S> void runCase(const CaseSpec &cs)
{
	DesignScope design;
	Clock clock({ .absoluteFrequency = 100'000'000 });
	ClockScope clkScp(clock);
	vh::Rng rng(cs.simSeed);

	// head of the chain: explicit input pins for every downstream signal, output pin for ready
	Bit vIn = pinIn().setName("in_valid");
	UInt dIn = pinIn(BitWidth(cs.w0)).setName("in_data");
	Bit eIn, sIn, errIn;
	UInt txIn, empIn;
	BVec beIn;
	constexpr unsigned ek = hasEmpty<S> ? 1 : (hasEmptyBits<S> ? 2 : 0);
	const bool framed = cs.skind >= 6; // packets of 1..N beats, sop on the first and eop on the last beat
	S in;
	in.data = dIn;
	valid(in) = vIn;
	if constexpr (hasEop<S>) { eIn = pinIn().setName("in_eop"); eop(in) = eIn; }
	if constexpr (hasSop<S>) { sIn = pinIn().setName("in_sop"); get<scl::Sop>(in).sop = sIn; }
	if constexpr (hasTx<S>) { txIn = pinIn(BitWidth(cs.txw)).setName("in_txid"); txid(in) = txIn; }
	if constexpr (hasErr<S>) { errIn = pinIn().setName("in_error"); error(in) = errIn; }
	if constexpr (hasEmpty<S>) { empIn = pinIn(BitWidth(cs.ew0)).setName("in_empty"); empty(in) = empIn; }
	if constexpr (hasEmptyBits<S>) { empIn = pinIn(BitWidth(cs.ew0)).setName("in_emptybits"); get<scl::EmptyBits>(in).emptyBits = empIn; }
	if constexpr (hasBE<S>) { beIn = (BVec)pinIn(BitWidth(cs.bw0)).setName("in_be"); byteEnable(in) = beIn; }

	const size_t n = cs.stages.size();
	std::vector<std::unique_ptr<Tap>> taps;
	std::vector<std::optional<Bit>> stallPins(n);
	// every stream object stays alive and is never assigned to (move-assigning a gatery signal re-drives the old one)
	std::vector<std::unique_ptr<S>> strs;
	strs.push_back(std::make_unique<S>(move(in)));
	for (size_t i = 0; i < n; i++) {
		taps.push_back(makeTap(*strs.back(), i));
		strs.push_back(std::make_unique<S>(applyStage(move(*strs.back()), cs.stages[i], i, stallPins)));
	}
	taps.push_back(makeTap(*strs.back(), n));
	S &cur = *strs.back();
	// consumer: ready is either driven directly or (adversarial patterns) a combinational function of the offered valid —
	// built as logic here because a simulation process cannot change inputs after WaitStable()
	Bit rRaw = pinIn().setName("out_ready_raw");
	UInt rSel = pinIn(2_b).setName("out_ready_sel");
	{
		Bit vo = valid(cur);
		Bit r = rRaw;
		IF(rSel == 1) r = vo & rRaw;   // ready only while valid is offered
		IF(rSel == 2) r = !vo | rRaw;  // ready drops the moment valid rises (unless rRaw)
		ready(cur) = r;
	}
	auto &circ = design.getCircuit();
	design.postprocess();

	std::cout << "case " << cs.id << " kind=" << cs.skind << " w=" << cs.w0 << " mw=" << metaWidth<S>(cs.txw) << " bw=" << cs.bw0 << " ek=" << ek << " ew=" << cs.ew0 << " frame=" << (framed && hasSop<S> ? 1 : 0) << " ncyc=" << cs.ncycles
			  << " stallmode=" << cs.stallmode << " simseed=" << cs.simSeed << "\n";
	std::cout << "stages " << n << "\n";
	for (size_t i = 0; i < n; i++) {
		const auto &sp = cs.stages[i];
		std::cout << "stage " << i << " " << kindName[sp.kind];
		switch (sp.kind) {
		case DLY: std::cout << " " << sp.a; break;
		case FIFO: std::cout << " " << nextPow2(sp.a) << " " << (sp.b == 9 ? 2u : (sp.b == 0 ? 1u : sp.b)) << " " << (sp.b == 0 ? 1 : 0) << " req=" << sp.a << "/" << sp.b; break;
		case EXT: std::cout << " " << sp.a << " " << sp.win << " " << sp.bwin; break;
		case RED: std::cout << " " << sp.a << " " << sp.wout << " " << sp.bwout; break;
		case PEXT: std::cout << " " << sp.a << " " << sp.win << " " << sp.bwin << " " << ek << " " << sp.ewin; break;
		case PRED: std::cout << " " << sp.a << " " << sp.wout << " " << sp.bwout << " " << ek; break;
		default: break;
		}
		std::cout << " win=" << sp.win << " wout=" << sp.wout << "\n";
	}

	sim::ReferenceSimulator sim(false);
	sim.compileProgram(circ);

	auto mask = [](unsigned w) -> uint64_t { return w >= 64 ? ~0ull : ((1ull << w) - 1); };

	const unsigned pktDen = (unsigned)rng.range(1, 6); // mean packet length 1..6 beats (1 = single-beat packets only)
	struct BeatV { uint64_t d = 0; bool e = false, s = false; uint64_t tx = 0, err = 0, emp = 0, be = 0; };
	auto randBeat = [&](bool &inPacket) {
		BeatV b;
		b.d = rng.next() & mask(cs.w0);
		if (rng.chance(1, 16)) b.d = rng.chance(1, 2) ? 0 : mask(cs.w0);
		b.s = !inPacket;
		b.e = rng.chance(1, pktDen);
		if (!framed && rng.chance(1, 20)) b.s = rng.chance(1, 2); // incoherent packet framing now and then: the stages must not care
		b.tx = rng.next() & mask(cs.txw);
		b.err = rng.below(2);
		b.emp = rng.next() & mask(cs.ew0);
		if (framed) {
			// empty is meaningful on the last beat only: fewer empty bytes / bits than the beat holds; 0 elsewhere
			uint64_t units = ek == 1 ? cs.w0 / 8 : cs.w0;
			b.emp = (b.e && ek) ? rng.below(units) & mask(cs.ew0) : 0;
			if (b.e && rng.chance(1, 3)) b.emp = 0;
		}
		b.be = rng.next() & mask(cs.bw0);
		if (rng.chance(1, 8)) b.be = mask(cs.bw0);
		inPacket = !b.e;
		return b;
	};
	auto driveBeat = [&](const BeatV &b) {
		simu(dIn) = b.d;
		if constexpr (hasEop<S>) simu(eIn) = b.e;
		if constexpr (hasSop<S>) simu(sIn) = b.s;
		if constexpr (hasEmptyBits<S>) simu(empIn) = b.emp;
		if constexpr (hasTx<S>) simu(txIn) = b.tx;
		if constexpr (hasErr<S>) simu(errIn) = (bool)b.err;
		if constexpr (hasEmpty<S>) simu(empIn) = b.emp;
		if constexpr (hasBE<S>) simu(beIn) = b.be;
	};

	auto rdBit = [&](const OutputPin &p, bool &def) { auto h = simu(p); def = h.defined(); return def ? h.value() : false; };
	// words are logged in every cycle with their definedness: `<hex of the defined bits>` or `<hex>/<hex mask of the undefined bits>`
	// (undefined = power-on content of payload registers, or whatever a stage wrongly leaves undriven)
	auto hexOf = [&](const OutputPins &p) -> std::string {
		auto h = simu(p);
		const size_t w = h.eval().size();
		const uint64_t def = h.defined() & mask((unsigned)w);
		const uint64_t und = ~def & mask((unsigned)w);
		std::string r = vh::hex64(h.value() & def);
		if (und) r += "/" + vh::hex64(und);
		return r;
	};

	sim.addSimulationProcess([&]() -> SimProcess {
		bool pending = false, inPacket = false;
		BeatV beat;
		Pat src = newPat(rng, false), snk = newPat(rng, true);
		std::vector<Pat> stl(n);
		for (auto &p : stl) p = newPat(rng, false);
		unsigned srcLeft = src.len, snkLeft = snk.len;
		std::vector<unsigned> stlLeft(n);
		for (size_t i = 0; i < n; i++) stlLeft[i] = stl[i].len;
		std::vector<bool> stallNow(n, false), stallMustStayLow(n, false);
		bool prevVout = false, prevRout = false;
		unsigned quiet = 0, snkCount = 0, noTransfer = 0;
		const unsigned maxCycles = cs.ncycles + 4000;
		// stay idle (valid = 0, ready = 0, not stalled) until the design is out of reset; these cycles are not logged
		for (unsigned k = 0;; k++) {
			simu(vIn) = false;
			{ bool dummy = false; driveBeat(randBeat(dummy)); }
			for (size_t i = 0; i < n; i++) if (stallPins[i]) simu(*stallPins[i]) = false;
			// consumer ready during this phase: the payload registers of the chain take over defined (arbitrary) values from the
			// head pins, so that stages whose handshake looks at the payload of an invalid beat (widthExtend: eop(source)) do not
			// start from simulator-undefined control signals
			simu(rRaw) = true;
			simu(rSel) = (uint64_t)0;
			auto rst = sim.getValueOfReset(clock.getClk());
			bool active = !rst[sim::DefaultConfig::DEFINED] || rst[sim::DefaultConfig::VALUE] == (clock.getClk()->getRegAttribs().resetActive == hlim::RegisterAttributes::Active::HIGH);
			if (k >= 2 && !active) break;
			if (k > 1000) { std::cerr << "c16: reset never released\n"; exit(3); }
			co_await OnClk(clock);
		}
		for (unsigned t = 0; t < maxCycles; t++) {
			const bool drain = t >= cs.ncycles;
			const bool flush = t < 4 * n + 2; // logged like every other cycle: nothing offered, consumer ready (see above)
			auto decide = [&](Pat &p, unsigned &left, bool sink) -> bool {
				if (left-- == 0) { p = newPat(rng, sink); left = p.len; }
				switch (p.kind) {
				case 0: return true;
				case 1: return rng.chance(p.num, p.den);
				case 2: return (t / (p.den)) % 2 == 0; // square wave
				case 3: return rng.chance(1, 2);
				case 4: return t % p.den == 0;         // sparse, periodic
				default: return rng.chance(p.num, p.den);
				}
			};
			// producer: law-abiding; offers a new beat according to the source pattern
			if (!pending && !drain && !flush && decide(src, srcLeft, false)) { beat = randBeat(inPacket); pending = true; }
			simu(vIn) = pending;
			if (pending) driveBeat(beat);
			else { bool dummy = false; driveBeat(randBeat(dummy)); } // garbage while not valid
			// stall conditions
			for (size_t i = 0; i < n; i++) if (stallPins[i]) {
				bool c = (drain || flush) ? false : !decide(stl[i], stlLeft[i], false);
				if (!(cs.stallmode & 1) && stallMustStayLow[i]) c = false;
				stallNow[i] = c;
				simu(*stallPins[i]) = c;
			}
			// consumer
			bool rraw = (drain || flush) ? true : decide(snk, snkLeft, true);
			unsigned rsel = 0;
			if (!drain && !flush && snk.kind >= 5) {
				switch (snk.kind) {
				case 5: rsel = 1; rraw = rng.chance(snk.num, snk.den); break;       // ready only once valid is seen
				case 6: rsel = 2; rraw = rng.chance(1, 8); break;                   // ready drops the moment valid rises
				case 7: rsel = 1; rraw = prevVout && !prevRout; break;              // ready one cycle after valid, then a pause
				case 8: rsel = 1; rraw = (++snkCount % (snk.den + 1) == 0); break;  // every k-th cycle
				}
			}
			simu(rRaw) = rraw;
			simu(rSel) = (uint64_t)rsel;
			co_await WaitStable();
			// log
			std::ostringstream line;
			line << "c ";
			for (size_t i = 0; i < n; i++) line << (stallNow[i] ? '1' : '0');
			if (n == 0) line << '-';
			bool any = false, b0r = false, anyTransfer = false;
			std::vector<bool> bv(n + 1), br(n + 1);
			for (size_t i = 0; i <= n; i++) {
				bool dv, dr, de, ds;
				bool v = rdBit(taps[i]->v, dv), r = rdBit(taps[i]->r, dr), e = rdBit(taps[i]->e, de), s = rdBit(taps[i]->s, ds);
				bv[i] = v; br[i] = r;
				line << ' ' << (dv ? (v ? '1' : '0') : 'u') << (dr ? (r ? '1' : '0') : 'u') << ',';
				line << hexOf(taps[i]->d) << ',' << (de ? (e ? '1' : '0') : 'u') << (ds ? (s ? '1' : '0') : 'u') << ',' << hexOf(taps[i]->m) << ','
					 << (hasBE<S> ? hexOf(taps[i]->b) : std::string("0")) << ',' << (ek ? hexOf(taps[i]->x) : std::string("0"));
				any = any || v || !dv;
				anyTransfer = anyTransfer || (v && r);
				if (i == 0) b0r = r;
			}
			std::cout << line.str() << "\n";
			// bookkeeping for the next cycle
			if (pending && b0r) pending = false;
			for (size_t i = 0; i < n; i++) if (stallPins[i])
				stallMustStayLow[i] = bv[i] && !stallNow[i] && !br[i + 1];
			prevVout = bv[n]; prevRout = br[n];
			if (drain) {
				quiet = any ? 0 : quiet + 1;
				noTransfer = anyTransfer ? 0 : noTransfer + 1;
				if (quiet >= 8 || noTransfer >= 64) break; // drained, or permanently stuck with ready high and nothing stalled
			}
			co_await OnClk(clock);
		}
		sim.abort();
	});
	sim.powerOn();
	sim.advance(hlim::ClockRational(cs.ncycles + 6100, 100'000'000));
	std::cout << "end\n";
}

// does a chain violate the compatibility side condition of the liveness theorem / hit the reduceWidth|delay aliasing?
static bool blockingFeedsWeak(const std::vector<StageSpec> &st)
{
	for (size_t i = 0; i < st.size(); i++) {
		if (st[i].kind != DSB) continue;
		for (size_t j = i + 1; j < st.size(); j++) {
			Kind k = st[j].kind;
			if ((k == RED || k == PRED) && st[j].a > 1) return true;
			bool passes = k == STALL || k == EXT || k == RED || k == PEXT || k == PRED || (k == DLY && st[j].a == 0) || k == DSB;
			if (!passes) break;
		}
	}
	return false;
}
// regDownstreamBlocking -> … -> widthReduce (ratio > 1), or regDownstreamBlocking -> … widthExtend … -> a stage whose ready
// waits for valid: simulator pessimism, not a defect of the hardware. widthExtend derives ready(source) from
// eop(source) of whatever the (never loaded) blocking register holds at power-on, which the simulator treats as undefined
// for good — nothing to compare; such chains are not generated
static bool blockingFeedsWeakThroughPext(const std::vector<StageSpec> &st)
{
	for (size_t i = 0; i < st.size(); i++) {
		if (st[i].kind != DSB) continue;
		bool pext = false;
		for (size_t j = i + 1; j < st.size(); j++) {
			Kind k = st[j].kind;
			// widthReduce: ready(source) = ready(out) & (isLast | eop(source) & …) reads the payload of the blocking register, which is
			// never loaded while that ready is undefined: the simulator keeps the register's valid undefined for good
			if (k == PRED && st[j].a > 1) return true;
			if (k == RED && st[j].a > 1) { if (pext) return true; break; }
			if (k == PEXT) pext = true;
			bool passes = k == STALL || k == EXT || k == RED || k == PEXT || k == PRED || (k == DLY && st[j].a == 0) || k == DSB;
			if (!passes) break;
		}
	}
	return false;
}
static bool reduceThenDelay(const std::vector<StageSpec> &st)
{
	for (size_t i = 0; i + 1 < st.size(); i++)
		if (st[i].kind == RED && st[i + 1].kind == DLY && st[i + 1].a >= 1) return true;
	return false;
}

// static facts about the stream types S0..S9
static bool kHasBE(unsigned k) { return k == 4 || k == 5 || k == 9; }
static bool kHasEop(unsigned k) { return k == 1 || k == 2 || k >= 5; }
static bool kHasSop(unsigned k) { return k == 3 || k == 6 || k == 9; }
static unsigned kEmpty(unsigned k) { return (k == 3 || k == 7 || k == 9) ? 1 : (k == 8 ? 2 : 0); } // 1 = Empty (bytes), 2 = EmptyBits
static bool kFramed(unsigned k) { return k >= 6; }

static unsigned log2c(uint64_t v) { unsigned r = 0; while ((1ull << r) < v) r++; return r; }   // utils::Log2C
static unsigned bitLen(uint64_t v) { return log2c(v + 1); }                                     // BitWidth::last
static unsigned bitCount(uint64_t n) { return n <= 1 ? 0 : log2c(n); }                          // BitWidth::count

// fills in the widths along the chain; false if some stage cannot be built / is outside what the check covers
static bool finishWidths(CaseSpec &cs, bool allowKnownDefects)
{
	const unsigned k = cs.skind, ek = kEmpty(k);
	unsigned w = cs.w0, bw = cs.bw0, ew = cs.ew0;
	for (auto &sp : cs.stages) {
		sp.win = sp.wout = w; sp.bwin = sp.bwout = bw; sp.ewin = sp.ewout = ew;
		switch (sp.kind) {
		case FIFO: if (kHasSop(k)) return false; break;            // strm::fifo drops Sop (removeFlowControl) and does not compile for it
		case EXT:
			if (kFramed(k)) return false;                           // utils.h extendWidth/reduceWidth are the non-packet versions
			if (sp.a == 0 || w * sp.a > 60 || bw * sp.a > 60) return false;
			sp.wout = w * sp.a; sp.bwout = bw * sp.a; break;
		case RED:
			if (kFramed(k) || (kHasSop(k) && kHasEop(k))) return false;
			// byte-enable groups of the narrow side at most 8 bits: reduceWidth slices the enables with a dynamic offset of
			// (counter width + group width) bits (utils.h:601), whose elaboration cost is exponential in that width
			if (sp.a == 0 || w % sp.a || bw % sp.a || bw / sp.a > 8) return false;
			sp.wout = w / sp.a; sp.bwout = bw / sp.a; break;
		case PEXT: {
			if (!kHasEop(k) || sp.a == 0 || w * sp.a > 60 || bw * sp.a > 60) return false;
			if (ek == 1 && w % 8) return false;
			if (sp.a == 1 && (bw || ek)) return false; // ratio 1 does not elaborate with ByteEnable/Empty/EmptyBits (zero-width counter); matchWidth never asks for it
			if (!allowKnownDefects) {
				// Packet.h:566-569: the sop flag of widthExtend is set and cleared in every cycle, valid/transferred or not
				if (kHasSop(k) && sp.a > 1) return false;
				// Packet.h:552-559: the byte-enable slice offset `beat.value() * width` is truncated to the counter's width
				if (bw && sp.a > 1 && (bw != 1 || (sp.a & (sp.a - 1)))) return false;
			}
			sp.wout = w * sp.a; sp.bwout = bw * sp.a;
			if (ek) { uint64_t unit = ek == 1 ? w / 8 : w; sp.ewout = bitLen(unit * (sp.a - 1) + ((1ull << ew) - 1)); if (sp.ewout > 20) return false; }
			break; }
		case PRED: {
			if (!kHasEop(k) || sp.a == 0 || w % sp.a || bw % sp.a) return false;
			sp.wout = w / sp.a; sp.bwout = bw / sp.a;
			if (sp.a == 1 && (bw || ek)) return false;
			// Packet.h:683-690: same truncated byte-enable offset in widthReduce
			if (!allowKnownDefects && bw && sp.a > 1 && (sp.bwout != 1 || (sp.a & (sp.a - 1)))) return false;
			if (ek == 1 && (w % 8 || sp.wout % 8)) return false;
			// Packet.h:726/751 `bytesLeft - zext(empty)`: the incoming empty field must not be wider than last(bytesIn) (elaboration error otherwise)
			if (ek && ew > bitLen(ek == 1 ? w / 8 : w)) return false;
			if (ek) { uint64_t unit = ek == 1 ? sp.wout / 8 : sp.wout; sp.ewout = bitCount(unit); if (sp.ewout == 0) return false;
				// the producer's empty must fit the input beat: guaranteed at the head, kept by the stages
			}
			break; }
		default: break;
		}
		w = sp.wout; bw = sp.bwout; ew = sp.ewout;
	}
	// widthExtend derives ready(source)/valid(out) from eop(source) even while the source offers nothing; behind a FIFO that is
	// the FIFO's peek register, undefined whenever the read slot was never written: the ReferenceSimulator then drives the
	// handshake undefined. Nothing to compare — no FIFO upstream of a widthExtend.
	bool fifoSeen = false;
	for (auto &sp : cs.stages) { if (sp.kind == FIFO) fifoSeen = true; if (sp.kind == PEXT && fifoSeen) return false; }
	return true;
}

static CaseSpec genCase1(vh::Rng &rng, uint64_t id, unsigned ncycles, unsigned stallmode)
{
	for (;;) {
		CaseSpec cs;
		cs.id = id;
		cs.skind = rng.chance(2, 5) ? 6 + (unsigned)rng.below(4) : (unsigned)rng.below(6); // packet-framed kinds are rejected more often below
		cs.txw = (unsigned)rng.range(1, 4);
		cs.ncycles = ncycles;
		cs.stallmode = stallmode;
		const unsigned k = cs.skind, ek = kEmpty(k);
		if (k == 9) {
			unsigned u = (unsigned)rng.range(1, 6); cs.w0 = 8 * u; cs.bw0 = u;       // one enable per byte
		} else if (kHasBE(k)) {
			// ByteEnable streams: `units` enable groups of `g` payload bits and `h` enable bits each
			static const unsigned us[] = { 1, 2, 3, 4, 6, 8, 12, 16, 24 }, gs[] = { 1, 2, 4, 8, 16, 32 };
			for (;;) {
				unsigned u = us[rng.below(9)], g = gs[rng.below(6)], h = rng.chance(1, 4) ? 2 : 1;
				if (u * g > 60 || u * h > 60) continue;
				cs.w0 = u * g; cs.bw0 = u * h;
				break;
			}
		} else if (k == 7) {
			cs.w0 = 8 * (unsigned)rng.range(1, 6);
		} else {
			static const unsigned ws[] = { 1, 2, 3, 4, 5, 6, 7, 8, 9, 12, 16, 24 };
			cs.w0 = ws[rng.below(sizeof ws / sizeof ws[0])];
		}
		if (k == 3) cs.ew0 = cs.txw;
		else if (ek == 1) cs.ew0 = std::max(1u, log2c(cs.w0 / 8));
		else if (ek == 2) cs.ew0 = std::max(1u, log2c(cs.w0));
		unsigned n = (unsigned)rng.range(1, 6);
		unsigned w = cs.w0;
		for (unsigned i = 0; i < n; i++) {
			StageSpec sp;
			sp.kind = (Kind)rng.below(NKIND);
			if (kHasBE(k) && !kFramed(k) && rng.chance(1, 3)) sp.kind = rng.chance(1, 2) ? EXT : RED; // byte-enable paths of the width changers
			if (kFramed(k) && rng.chance(1, 3)) sp.kind = rng.chance(1, 2) ? PEXT : PRED;               // the packet width changers
			if (sp.kind == DLY) sp.a = (unsigned)rng.below(4);
			if (sp.kind == FIFO) {
				sp.a = (unsigned)rng.range(2, 9);
				static const unsigned lats[] = { 0, 1, 2, 3, 9 };
				sp.b = lats[rng.below(5)];
			}
			if (sp.kind == EXT || sp.kind == PEXT) {
				static const unsigned rs[] = { 1, 2, 2, 3, 3, 4, 4, 8 };
				sp.a = rs[rng.below(8)];
				w *= sp.a;
			}
			if (sp.kind == RED || sp.kind == PRED) {
				std::vector<unsigned> divs;
				for (unsigned r : { 1u, 2u, 3u, 4u, 6u, 8u }) if (w % r == 0) divs.push_back(r);
				sp.a = rng.pick(divs);
				if (sp.a == 1 && rng.chance(3, 4) && divs.size() > 1) sp.a = divs[1 + rng.below(divs.size() - 1)];
				w /= sp.a;
			}
			cs.stages.push_back(sp);
		}
		if (!finishWidths(cs, (stallmode & 8) != 0)) continue;
		cs.simSeed = rng.next();
		return cs;
	}
}

static CaseSpec genCase(vh::Rng &rng, uint64_t id, unsigned ncycles, unsigned mode)
{
	for (;;) {
		CaseSpec cs = genCase1(rng, id, ncycles, mode);
		bool a = blockingFeedsWeak(cs.stages), b = reduceThenDelay(cs.stages);
		if (blockingFeedsWeakThroughPext(cs.stages)) continue;
		if (a && !(mode & 2)) continue;
		// the dedicated streams should actually contain what they are for
		if ((mode & 2) && !a && rng.chance(3, 4)) continue;
		if ((mode & 4) && !b && rng.chance(3, 4)) continue;
		if (mode & 1) { bool hasStall = false; for (auto &x : cs.stages) hasStall |= x.kind == STALL; if (!hasStall && rng.chance(7, 8)) continue; }
		return cs;
	}
}

int main(int argc, char **argv)
{
	uint64_t seed = vh::argU64(argc, argv, 1, 1);
	uint64_t ncases = vh::argU64(argc, argv, 2, 10);
	unsigned ncycles = (unsigned)vh::argU64(argc, argv, 3, 300);
	unsigned stallmode = (unsigned)vh::argU64(argc, argv, 4, 0);
	uint64_t only = vh::argU64(argc, argv, 5, ~0ull);
	// custom chain: stream kind, head width[/byte-enable width], stages (name[:a[:b]]), e.g. "0 8 dsb,red:2" or "4 24/3 red:3,ds"
	std::string custom;
	for (int i = 6; i < argc; i++) custom += std::string(i > 6 ? " " : "") + argv[i];
	std::cout << "# prop=C16 seed=" << seed << " ncases=" << ncases << " ncycles=" << ncycles << " stallmode=" << stallmode << "\n";
	// the case generator is seeded with a *hash* of the seed: splitmix64 advances its state by a constant, so states derived
	// linearly from consecutive seeds would give the same case sequence shifted by one
	vh::Rng seeder(seed ^ 0xC16C16C16C16ull);
	seeder.next();
	vh::Rng rng(seeder.next());
	for (uint64_t id = 0; id < ncases; id++) {
		vh::Rng crng = rng.fork();
		CaseSpec cs = genCase(crng, id, ncycles, stallmode);
		if (only != ~0ull && id != only) continue;
		if (!custom.empty()) {
			std::istringstream is(custom);
			std::string st;
			std::string wspec;
			is >> cs.skind >> wspec >> st;
			cs.w0 = (unsigned)std::stoul(wspec);
			cs.bw0 = wspec.find('/') != std::string::npos ? (unsigned)std::stoul(wspec.substr(wspec.find('/') + 1)) : (kHasBE(cs.skind) ? cs.w0 / 8 : 0);
			cs.ew0 = cs.skind == 3 ? cs.txw : (kEmpty(cs.skind) == 1 ? std::max(1u, log2c(cs.w0 / 8)) : (kEmpty(cs.skind) == 2 ? std::max(1u, log2c(cs.w0)) : 0));
			cs.stages.clear();
			std::istringstream ss(st);
			for (std::string tok; std::getline(ss, tok, ',');) {
				StageSpec sp;
				std::vector<std::string> f;
				std::istringstream ts(tok);
				for (std::string x; std::getline(ts, x, ':');) f.push_back(x);
				int k = -1;
				for (int j = 0; j < NKIND; j++) if (f[0] == kindName[j]) k = j;
				if (k < 0) { std::cerr << "c16: unknown stage " << f[0] << "\n"; return 2; }
				sp.kind = (Kind)k;
				if (f.size() > 1) sp.a = (unsigned)std::stoul(f[1]);
				if (f.size() > 2) sp.b = (unsigned)std::stoul(f[2]);
				cs.stages.push_back(sp);
			}
			if (!finishWidths(cs, true)) { std::cerr << "c16: this chain cannot be built for stream kind " << cs.skind << "\n"; return 2; }
		}
		try {
			switch (cs.skind) {
			case 0: runCase<S0>(cs); break;
			case 1: runCase<S1>(cs); break;
			case 2: runCase<S2>(cs); break;
			case 3: runCase<S3>(cs); break;
			case 4: runCase<S4>(cs); break;
			case 5: runCase<S5>(cs); break;
			case 6: runCase<S6>(cs); break;
			case 7: runCase<S7>(cs); break;
			case 8: runCase<S8>(cs); break;
			default: runCase<S9>(cs); break;
			}
		} catch (const std::exception &e) {
			std::cout << "case " << id << " exception\n" << "err " << e.what() << "\nend\n";
			std::cerr << "c16: exception in case " << id << ": " << e.what() << " kind=" << cs.skind << " w=" << cs.w0 << "/" << cs.bw0 << " chain=";
			for (auto &x : cs.stages) std::cerr << kindName[x.kind] << ":" << x.a << ":" << x.b << ",";
			std::cerr << "\n";
			// keep going: the `err` block makes the driver report a DIFF for this case
		}
	}
	return 0;
}
