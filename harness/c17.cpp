// C17 harness: builds the REAL scl primitives at generated widths / parameters, simulates them with
// ReferenceSimulator (exhaustively when the circuit has <= 12 input bits, structured-random above) and prints
// inputs and outputs as bit strings (MSB first, 'x' = undefined, '-' = zero width).
//
// usage: c17 <seed> <ncases> <maxw> [only-prim]
//
//   case <id> <prim> <params...>
//   v <in>... > <out>...            combinational vector
//   s <in>... > <out>...            one clock cycle of a sequential primitive (inputs applied, outputs sampled, clock advanced)
//                                   counters: s <inc> <dec> <load> <reset> <loadValue> <end> > <value> <isLast> <isFirst> <becomesFirst>
//   counter cases carry the API usage pattern: <mask> = methods ever called on the instance (1 inc, 2 dec, 4 reset, 8 load; 0 = none =
//   free-running), <resetLast> = reset() is placed after load(v) in the program
//   err <design|internal|other>     the generator threw while building the circuit
//   end
#include <gatery/pch.h>
#include "common.h"
#include "simhelp.h"
#include <gatery/scl/math.h>
#include <gatery/scl/Adder.h>
#include <gatery/scl/Counter.h>
#include <gatery/scl/crc.h>
#include <gatery/scl/cdc.h>
#include <gatery/scl/utils/BitCount.h>
#include <gatery/scl/utils/OneHot.h>
#include <gatery/scl/utils/Thermometric.h>
#include <gatery/utils/BitManipulation.h>
#include <iostream>
#include <functional>
#include <memory>

using namespace gtry;

static std::ostream &o = std::cout;
static size_t g_vectors = 64;  // random vectors per circuit when not exhaustive

// ---------------------------------------------------------------- value generators (bit strings, MSB first)
static std::string genBits(vh::Rng &rng, size_t w) {
	std::string s(w, '0');
	if (w == 0) return s;
	auto rnd = [&](std::string &t, unsigned num, unsigned den) { for (auto &c : t) c = rng.chance(num, den) ? '1' : '0'; };
	switch (rng.below(12)) {
		case 0: break;                                            // 0
		case 1: s[w - 1] = '1'; break;                            // 1
		case 2: s.assign(w, '1'); break;                          // all ones
		case 3: s[0] = '1'; break;                                // 2^(w-1)
		case 4: s[rng.below(w)] = '1'; break;                     // 2^k
		case 5: { size_t k = rng.below(w + 1); for (size_t i = 0; i < k; i++) s[w - 1 - i] = '1'; break; } // 2^k - 1
		case 6: rnd(s, 1, 8); break;                              // sparse
		case 7: rnd(s, 7, 8); break;                              // dense
		case 8: { rnd(s, 1, 2); size_t k = rng.below(w + 1); for (size_t i = 0; i < k; i++) s[i] = '0'; break; }          // leading zeros, then random
		case 9: { rnd(s, 1, 2); size_t k = rng.below(w + 1); for (size_t i = 0; i < k; i++) s[w - 1 - i] = '0'; break; }  // random, then trailing zeros
		case 10: { s.assign(w, '1'); s[rng.below(w)] = '0'; break; } // all ones but one
		default: rnd(s, 1, 2); break;
	}
	return s;
}
static std::string binOf(uint64_t v, size_t w) {
	std::string s(w, '0');
	for (size_t i = 0; i < w && i < 64; i++) if ((v >> i) & 1) s[w - 1 - i] = '1';
	return s;
}
static std::string show(const std::string &s) { return s.empty() ? "-" : s; }
static uint64_t binToU64(const std::string &s) { uint64_t v = 0; for (char c : s) v = (v << 1) | (c == '1'); return v; }

// ---------------------------------------------------------------- circuit context
struct Ctx {
	std::vector<std::pair<hlim::Node_Pin *, size_t>> ins;
	std::vector<hlim::Node_Pin *> outs;
	UInt in(size_t w) { auto p = pinIn(BitWidth(w)); p.setName("i" + std::to_string(ins.size())); ins.push_back({p.node(), w}); return p; }
	Bit inBit() { auto p = pinIn(); p.setName("i" + std::to_string(ins.size())); ins.push_back({p.node(), 1}); return p; }
	template<class S> void out(const S &s) { auto p = pinOut(s); p.setName("o" + std::to_string(outs.size())); outs.push_back(p.node()); }
};

static const char *errClass(const std::exception &e) {
	if (dynamic_cast<const utils::DesignError *>(&e)) return "design";
	if (dynamic_cast<const utils::InternalError *>(&e)) return "internal";
	return "other";
}

// builds the circuit with `build`, then drives vectors. `fixed`: optional list of explicit vectors run first.
static void runComb(vh::Rng &rng, const std::function<void(Ctx &)> &build,
					const std::vector<std::vector<std::string>> &fixed = {}, bool noRandom = false) {
	try {
		DesignScope design;
		Ctx c;
		build(c);
		vh::Sim s(design.getCircuit());
		size_t total = 0;
		for (auto &i : c.ins) total += i.second;
		auto apply = [&](const std::vector<std::string> &v) {
			o << 'v';
			for (size_t k = 0; k < c.ins.size(); k++) {
				if (c.ins[k].second) s.set(c.ins[k].first, v[k]);
				o << ' ' << show(v[k]);
			}
			s.eval();
			o << " >";
			for (auto *p : c.outs) o << ' ' << s.getPin(p);
			o << '\n';
		};
		for (auto &v : fixed) apply(v);
		if (noRandom) return;
		if (total <= 12) {
			for (uint64_t x = 0; x < (1ull << total); x++) {
				std::vector<std::string> v; uint64_t y = x;
				for (auto &i : c.ins) { v.push_back(binOf(y & ((1ull << i.second) - 1), i.second)); y >>= i.second; }
				apply(v);
			}
		} else {
			for (size_t n = 0; n < g_vectors; n++) {
				std::vector<std::string> v;
				for (auto &i : c.ins) v.push_back(genBits(rng, i.second));
				apply(v);
			}
		}
	} catch (const std::exception &e) {
		o << "err " << errClass(e) << '\n';
	}
}

// ---------------------------------------------------------------- sequential: counters
// `mask`: which of inc() (1) / dec() (2) / reset() (4) / load(v) (8) are ever called on the instance — each under its own input pin.
// Methods outside the mask are never called at all (this matters: inc()/dec() clear the auto-increment default when they are *called*,
// whatever their condition), their pins are held at 0.
static void runCounter(vh::Rng &rng, size_t cycles, uint64_t loadLim, size_t endW,
					   const std::function<std::unique_ptr<scl::Counter>(UInt &endSig)> &mk, unsigned mask, bool resetLast, bool upDown, size_t udW, size_t udReset,
					   const std::string &endVal) {
	try {
		DesignScope design;
		Clock clk({ .absoluteFrequency = 100'000'000 });
		ClockScope cs(clk);
		auto pinc = pinIn().setName("inc"); Bit inc = pinc;
		auto pdec = pinIn().setName("dec"); Bit dec = pdec;
		auto pld = pinIn().setName("ld"); Bit ld = pld;
		auto prs = pinIn().setName("rs"); Bit rs = prs;
		hlim::Node_Pin *plv = nullptr, *pend = nullptr;
		std::vector<hlim::Node_Pin *> outs;
		std::unique_ptr<scl::Counter> ctr;
		size_t valueW = 0;
		if (upDown) {
			mask = 1 | 2 | 8;
			UInt value = scl::counterUpDown(inc, dec, ld, BitWidth(udW), udReset);
			valueW = value.width().bits();
			outs.push_back(pinOut(value).setName("value").node());
		} else {
			UInt endSig;
			if (endW) { auto pe = pinIn(BitWidth(endW)).setName("end"); pend = pe.node(); endSig = pe; }
			ctr = mk(endSig);
			valueW = ctr->value().width().bits();
			if (mask & 1) { IF(inc) ctr->inc(); }
			if (mask & 2) { IF(dec) ctr->dec(); }
			UInt lv;
			if (mask & 8) { auto pl = pinIn(BitWidth(valueW)).setName("lv"); plv = pl.node(); lv = pl; }
			if (resetLast) {
				if (mask & 8) { IF(ld) ctr->load(lv); }
				if (mask & 4) { IF(rs) ctr->reset(); }
			} else {
				if (mask & 4) { IF(rs) ctr->reset(); }
				if (mask & 8) { IF(ld) ctr->load(lv); }
			}
			outs.push_back(pinOut(ctr->value()).setName("value").node());
			outs.push_back(pinOut(ctr->isLast()).setName("last").node());
			outs.push_back(pinOut(ctr->isFirst()).setName("first").node());
			outs.push_back(pinOut(ctr->becomesFirst()).setName("bf").node());
		}
		o << "width " << valueW << '\n';
		vh::Sim s(design.getCircuit());
		hlim::ClockRational T(1, 100'000'000);
		// leave the reset phase: inputs idle during the first cycle
		s.set(pinc.node(), "0"); s.set(pdec.node(), "0"); s.set(pld.node(), "0"); s.set(prs.node(), "0");
		if (plv && valueW) s.set(plv, std::string(valueW, '0'));
		if (pend) s.set(pend, endVal);
		s.eval();
		s.sim.advance(hlim::ClockRational(1, 400'000'000));
		s.sim.advance(T);
		unsigned mode = 0, left = 0;
		for (size_t t = 0; t < cycles; t++) {
			if (left == 0) { mode = (unsigned) rng.below(8); left = 1 + (unsigned) rng.below(mode < 2 ? (1u << std::min<size_t>(valueW, 5)) + 3 : 6); }
			left--;
			bool i = false, d = false, l = false, r = false;
			switch (mode) {
				case 0: i = true; break;                                  // run of increments (hits the wrap)
				case 1: d = true; break;                                  // run of decrements
				case 2: i = rng.chance(1, 2); d = rng.chance(1, 2); break; // mixed, incl. both
				case 3: i = d = true; break;                              // both
				case 4: l = rng.chance(1, 3); i = rng.chance(1, 2); d = rng.chance(1, 3); break;
				case 5: r = rng.chance(1, 3); l = rng.chance(1, 4); i = rng.chance(1, 2); d = rng.chance(1, 2); break; // several calls in one cycle
				case 6: i = d = l = r = false; break;                     // idle (a counter that is never asked to move must hold / free-run)
				default: i = rng.chance(1, 4); d = rng.chance(1, 4); l = rng.chance(1, 8); r = rng.chance(1, 8); break;
			}
			if (!(mask & 1)) i = false;
			if (!(mask & 2)) d = false;
			if (!(mask & 8)) l = false;
			if (!(mask & 4) || upDown) r = false;
			std::string lv = "";
			if (plv && valueW) {
				// load values: mostly legal (<= end-1 is not enforced by the hardware; the driver's spec only needs a value)
				lv = (loadLim && !rng.chance(1, 10)) ? binOf(rng.below(loadLim), valueW) : genBits(rng, valueW);
			}
			s.set(pinc.node(), i ? "1" : "0"); s.set(pdec.node(), d ? "1" : "0"); s.set(pld.node(), l ? "1" : "0"); s.set(prs.node(), r ? "1" : "0");
			if (plv && valueW) s.set(plv, lv);
			s.eval();
			o << "s " << i << ' ' << d << ' ' << l << ' ' << r << ' ' << show(lv) << ' ' << show(endVal) << " >";
			for (auto *p : outs) o << ' ' << s.getPin(p);
			o << '\n';
			s.sim.advance(T);
		}
	} catch (const std::exception &e) {
		o << "err " << errClass(e) << '\n';
	}
}

// ---------------------------------------------------------------- width generator
static size_t genWidth(vh::Rng &rng, size_t round, size_t lo, size_t hi) {
	if (hi < lo) hi = lo;
	if (round < hi - lo + 1) return lo + round;           // systematic sweep first
	switch (rng.below(4)) {
		case 0: { size_t p = 1ull << rng.below(8); size_t w = p + rng.below(3) - 1; return std::min(std::max(w, lo), hi); } // 2^k-1, 2^k, 2^k+1
		default: return rng.range(lo, hi);
	}
}

static const char *PRIMS[] = {
	"bitcount", "decoder", "encoder", "encdec", "pe", "petree1", "petree2", "petree3", "clz", "therm", "thermw", "thermback", "thermrt",
	"grayenc", "graydec", "grayrt", "minu", "maxu", "mins", "maxs", "bpt", "divu", "divs", "csa", "csadd", "addc",
	"ctr_end", "ctr_w", "ctr_uend", "ctr_api_e", "ctr_api_p", "ctr_api_w", "ctr_api_u", "updown", "adder", "crc", "crcwk", "crcgen", "petreereg", "divpipe", "graysync", "graysync_r", "bad",
};
static const size_t NPRIMS = sizeof(PRIMS) / sizeof(PRIMS[0]);

int main(int argc, char **argv) {
	uint64_t seed = vh::argU64(argc, argv, 1, 1);
	size_t ncases = (size_t) vh::argU64(argc, argv, 2, 100);
	size_t maxw = (size_t) vh::argU64(argc, argv, 3, 20);
	std::string only = argc > 4 ? argv[4] : "";
	vh::Rng master(vh::hashSeed(seed) + 17);
	g_vectors = maxw > 40 ? 48 : 64;
	o << "# prop=C17 seed=" << seed << " ncases=" << ncases << " maxw=" << maxw << '\n';
	std::vector<size_t> rounds(NPRIMS, 0);
	for (size_t id = 0; id < ncases; id++) {
		vh::Rng rng = master.fork();
		size_t pi = id % NPRIMS;
		if (!only.empty()) { for (size_t k = 0; k < NPRIMS; k++) if (only == PRIMS[k]) pi = k; }
		std::string prim = PRIMS[pi];
		size_t round = rounds[pi]++;
		size_t bpsBase = 0;
		if (prim.size() == 7 && prim.rfind("petree", 0) == 0) { bpsBase = prim[6] - '0'; prim = "petree"; }
		// API usage pattern of a Counter instance: the ctr_api_* slots sweep all 16 subsets of {inc, dec, reset, load} systematically
		// (round % 16) for each constructor / kind of limit; the ctr_end/ctr_w/ctr_uend slots keep inc+dec+load and a random rest.
		unsigned ctrMask = 1 | 2 | 8 | (rng.chance(1, 2) ? 4 : 0);
		bool ctrApi = false; char apiKind = 0;
		if (prim.rfind("ctr_api_", 0) == 0) {
			ctrApi = true; apiKind = prim[8];
			ctrMask = (unsigned) (round % 16);
			prim = apiKind == 'w' ? "ctr_w" : apiKind == 'u' ? "ctr_uend" : "ctr_end";
		}
		bool resetLast = rng.chance(1, 2);
		bool graySyncReset = false;
		if (prim == "graysync_r") { graySyncReset = true; prim = "graysync"; }
		size_t small = std::min<size_t>(maxw, 10);  // primitives whose output has 2^w bits
		o << "case " << id << ' ' << prim;
		if (prim == "bitcount") {
			size_t n = genWidth(rng, round, 0, maxw); o << ' ' << n << '\n';
			runComb(rng, [&](Ctx &c) { UInt a = c.in(n); c.out(scl::bitcount(a)); });
		} else if (prim == "decoder") {
			size_t w = genWidth(rng, round, 0, small); o << ' ' << w << '\n';
			runComb(rng, [&](Ctx &c) { UInt a = c.in(w); scl::OneHot r = scl::decoder(a); c.out((UInt &) r); });
		} else if (prim == "encoder") {
			size_t n = genWidth(rng, round, 2, maxw); o << ' ' << n << '\n';
			// one-hot vectors first (the defined use), then arbitrary ones (the OR of the indices)
			std::vector<std::vector<std::string>> oh;
			for (size_t i = 0; i < n && i < 300; i++) { std::string s(n, '0'); s[n - 1 - i] = '1'; oh.push_back({s}); }
			runComb(rng, [&](Ctx &c) { UInt a = c.in(n); c.out(scl::encoder(scl::OneHot(a))); }, oh);
		} else if (prim == "encdec") {
			size_t w = genWidth(rng, round, 1, small); o << ' ' << w << '\n';
			runComb(rng, [&](Ctx &c) { UInt a = c.in(w); c.out(scl::encoder(scl::decoder(a))); });
		} else if (prim == "pe") {
			size_t n = genWidth(rng, round, 0, maxw); o << ' ' << n << '\n';
			runComb(rng, [&](Ctx &c) { UInt a = c.in(n); auto r = scl::priorityEncoder(a); c.out(*r); c.out(valid(r)); });
		} else if (prim == "petree") {
			size_t n = genWidth(rng, round, 0, maxw); size_t bps = bpsBase + (rng.chance(1, 8) ? rng.below(3) : 0);
			size_t stepBits = 1ull << bps;
			o << ' ' << n << ' ' << bps << ' ' << utils::nextPow2((n + stepBits - 1) / stepBits) << '\n';
			runComb(rng, [&](Ctx &c) { UInt a = c.in(n); auto r = scl::priorityEncoderTree(a, false, bps); c.out(*r); c.out(valid(r)); });
		} else if (prim == "petreereg") {
			// registerStep = true: one register per tree level; a stream of inputs, one per clock cycle (single bits in the short last
			// chunk are the shape that exposed the unequal latencies fixed in b9353d8)
			size_t n = genWidth(rng, round, 1, maxw); size_t bps = 1 + (round % 3);
			size_t stepBits = 1ull << bps;
			o << ' ' << n << ' ' << bps << ' ' << utils::nextPow2((n + stepBits - 1) / stepBits) << '\n';
			try {
				DesignScope design;
				Clock clk({ .absoluteFrequency = 100'000'000 });
				ClockScope cs(clk);
				auto pa = pinIn(BitWidth(n)).setName("a"); UInt a = pa;
				auto r = scl::priorityEncoderTree(a, true, bps);
				auto ov = pinOut(*r).setName("r"); auto ovv = pinOut(valid(r)).setName("v");
				vh::Sim s(design.getCircuit());
				hlim::ClockRational T(1, 100'000'000);
				s.set(pa.node(), std::string(n, '0')); s.eval();
				s.sim.advance(hlim::ClockRational(1, 400'000'000)); s.sim.advance(T);
				for (size_t t = 0; t < 48; t++) {
					std::string v(n, '0');
					switch (rng.below(6)) {
						case 0: break;
						case 1: v[0] = '1'; break;                        // only the top bit (last, possibly short, chunk)
						case 2: v[n - 1] = '1'; break;                    // only bit 0
						case 3: v[rng.below(n)] = '1'; break;
						default: v = genBits(rng, n); break;
					}
					s.set(pa.node(), v); s.eval();
					o << "s " << v << " > " << s.getPin(ov.node()) << ' ' << s.getPin(ovv.node()) << '\n';
					s.sim.advance(T);
				}
			} catch (const std::exception &e) { o << "err " << errClass(e) << '\n'; }
		} else if (prim == "graysync") {
			// scl::synchronizeGrayCode (cdc.cpp:72-82), both overloads: [input register @inClock] -> outStages registers @outClock, all holding
			// gray code; with the reset overload every register resets to grayEncode(reset).  Two free-running clocks with periods pA, pB ns
			// (edges at k*pA, k*pB: equal periods and ratios give coincident edges).  One line per clock-edge instant, from power-on:
			//   p > <out>                      output right after power-on (both domains in reset)
			//   e <A|B|AB> <in> > <out>        <in> was applied before the edge(s), <out> sampled after them
			bool withReset = graySyncReset;
			size_t w = 1 + (round % 8);
			if (round >= 16) w = 1 + rng.below(std::min<size_t>(maxw, 24));
			size_t outStages = 2 + rng.below(3); bool inStage = !rng.chance(1, 3);
			static const unsigned periods[][2] = { {4, 4}, {4, 6}, {6, 4}, {3, 7}, {7, 3}, {2, 8}, {8, 2}, {5, 5}, {4, 10}, {9, 6} };
			auto &pp = periods[rng.below(10)];
			unsigned pA = pp[0], pB = pp[1];
			uint64_t resetValue = 0;
			if (withReset) resetValue = (w <= 4 && round < 16) ? (round * 5 + 2) % (1ull << w) : (rng.next() & ((w >= 64 ? ~0ull : (1ull << w) - 1)));
			if (withReset && rng.chance(1, 6)) resetValue = (w >= 64 ? ~0ull : (1ull << w) - 1);
			o << ' ' << w << ' ' << withReset << ' ' << resetValue << ' ' << outStages << ' ' << inStage << ' ' << pA << ' ' << pB << '\n';
			try {
				DesignScope design;
				Clock clkA({ .absoluteFrequency = hlim::ClockRational(1'000'000'000, pA), .name = "clkA" });
				Clock clkB({ .absoluteFrequency = hlim::ClockRational(1'000'000'000, pB), .name = "clkB" });
				hlim::Node_Pin *pin = nullptr, *pout = nullptr;
				UInt in;
				{ ClockScope scope(clkA); auto p = pinIn(BitWidth(w)).setName("in"); pin = p.node(); in = p; }
				scl::SynchronizeParams params; params.outStages = outStages; params.inStage = inStage;
				UInt out = withReset ? scl::synchronizeGrayCode(in, ConstUInt(resetValue, BitWidth(w)), clkA, clkB, params)
									 : scl::synchronizeGrayCode(in, clkA, clkB, params);
				{ ClockScope scope(clkB); auto p = pinOut(out).setName("out"); pout = p.node(); }
				design.postprocess();
				vh::Sim s(design.getCircuit());
				uint64_t cur = binToU64(std::string(w, '0'));
				auto val = [&]() { return binOf(cur, w); };
				s.set(pin, val()); s.eval();
				o << "p > " << s.getPin(pout) << '\n';
				// time in quarter nanoseconds
				uint64_t now = 0;
				auto advTo = [&](uint64_t t4) { if (t4 > now) { s.sim.advance(hlim::ClockRational(t4 - now, 4'000'000'000ull)); now = t4; } };
				unsigned mode = 0, left = 0;
				uint64_t mask = w >= 64 ? ~0ull : (1ull << w) - 1;
				for (uint64_t t = 1; t <= 60ull * std::max(pA, pB) && t <= 400; t++) {
					bool a = t % pA == 0, b = t % pB == 0;
					if (!a && !b) continue;
					// new input for the interval that ends at this edge: counter-like (+1/-1: gray-safe), arbitrary jumps, or held
					if (left == 0) { mode = (unsigned) rng.below(5); left = 2 + (unsigned) rng.below(12); }
					left--;
					switch (mode) {
						case 0: if (a) cur = (cur + 1) & mask; break;          // counts with the input clock
						case 1: if (a) cur = (cur - 1) & mask; break;
						case 2: cur = rng.next() & mask; break;               // arbitrary steps, also between the edges of the input clock
						case 3: break;                                        // held: the output must settle on it
						default: if (rng.chance(1, 3)) cur = (cur + 1) & mask; break;
					}
					advTo(4 * t - 1);
					s.set(pin, val()); s.eval();
					advTo(4 * t + 1);
					o << "e " << (a ? "A" : "") << (b ? "B" : "") << ' ' << val() << " > " << s.getPin(pout) << '\n';
				}
			} catch (const std::exception &e) { o << "err " << errClass(e) << '\n'; }
		} else if (prim == "divpipe") {
			// stepsPerPipelineReg > 0: pipestage() hints + a PipeBalanceGroup at the inputs, resolved by retiming in postprocess()
			size_t nw = genWidth(rng, round, 1, std::min<size_t>(maxw, 48)), dw = rng.chance(1, 2) ? nw : 1 + rng.below(std::min<size_t>(maxw, 48));
			size_t steps = 1 + rng.below(std::min<size_t>(nw, 6));
			bool sgn = rng.chance(1, 3) && nw >= 2;
			o << ' ' << nw << ' ' << dw << ' ' << steps << ' ' << sgn << '\n';
			try {
				DesignScope design;
				Clock clk({ .absoluteFrequency = 100'000'000 });
				ClockScope cs(clk);
				auto pn = pinIn(BitWidth(nw)).setName("n"); UInt n = pn;
				auto pd = pinIn(BitWidth(dw)).setName("d"); UInt d = pd;
				PipeBalanceGroup group;
				n = group(n); d = group(d);
				hlim::Node_Pin *oq;
				if (sgn) oq = pinOut(scl::longDivision((SInt) n, d, steps)).setName("q").node();
				else oq = pinOut(scl::longDivision(n, d, steps)).setName("q").node();
				design.postprocess();
				o << "stages " << group.getNumPipeBalanceGroupStages() << '\n';
				vh::Sim s(design.getCircuit());
				hlim::ClockRational T(1, 100'000'000);
				s.set(pn.node(), std::string(nw, '0')); s.set(pd.node(), std::string(dw, '0')); s.eval();
				s.sim.advance(hlim::ClockRational(1, 400'000'000)); s.sim.advance(T);
				for (size_t t = 0; t < 40 + nw / steps; t++) {
					std::string a = genBits(rng, nw), b = genBits(rng, dw);
					s.set(pn.node(), a); s.set(pd.node(), b); s.eval();
					o << "s " << a << ' ' << b << " > " << s.getPin(oq) << '\n';
					s.sim.advance(T);
				}
			} catch (const std::exception &e) { o << "err " << errClass(e) << '\n'; }
		} else if (prim == "clz") {
			size_t n = genWidth(rng, round, 0, maxw); o << ' ' << n << '\n';
			runComb(rng, [&](Ctx &c) { UInt a = c.in(n); c.out(scl::countLeadingZeros((BVec) a)); });
		} else if (prim == "therm") {
			size_t w = genWidth(rng, round, 0, small); o << ' ' << w << '\n';
			runComb(rng, [&](Ctx &c) { UInt a = c.in(w); c.out(scl::uintToThermometric(a)); });
		} else if (prim == "thermw") {
			size_t w = genWidth(rng, round, 1, small); size_t full = (1ull << w) - 1;
			size_t outW = rng.chance(1, 10) ? full + 1 + rng.below(3) : rng.below(full + 1);
			bool byMax = rng.chance(1, 2);
			o << ' ' << w << ' ' << outW << '\n';
			runComb(rng, [&](Ctx &c) { UInt a = c.in(w); c.out(byMax ? scl::uintToThermometric(a, outW) : scl::uintToThermometric(a, BitWidth(outW))); });
		} else if (prim == "thermback") {
			size_t n = genWidth(rng, round, 0, maxw); o << ' ' << n << '\n';
			std::vector<std::vector<std::string>> th;
			for (size_t k = 0; k <= n && k < 300; k++) { std::string s(n, '0'); for (size_t i = 0; i < k; i++) s[n - 1 - i] = '1'; th.push_back({s}); }
			runComb(rng, [&](Ctx &c) { UInt a = c.in(n); c.out(scl::thermometricToUInt((BVec) a)); }, th);
		} else if (prim == "thermrt") {
			size_t w = genWidth(rng, round, 0, small); o << ' ' << w << '\n';
			runComb(rng, [&](Ctx &c) { UInt a = c.in(w); c.out(scl::thermometricToUInt(scl::uintToThermometric(a))); });
		} else if (prim == "grayenc") {
			size_t w = genWidth(rng, round, 1, maxw); o << ' ' << w << '\n';
			runComb(rng, [&](Ctx &c) { UInt a = c.in(w); c.out(scl::grayEncode(a)); });
		} else if (prim == "graydec") {
			size_t w = genWidth(rng, round, 1, maxw); o << ' ' << w << '\n';
			runComb(rng, [&](Ctx &c) { UInt a = c.in(w); c.out(scl::grayDecode((BVec) a)); });
		} else if (prim == "grayrt") {
			size_t w = genWidth(rng, round, 1, maxw); o << ' ' << w << '\n';
			runComb(rng, [&](Ctx &c) { UInt a = c.in(w); c.out(scl::grayDecode(scl::grayEncode(a))); });
		} else if (prim == "minu" || prim == "maxu") {
			size_t w = genWidth(rng, round, 0, maxw); o << ' ' << w << '\n';
			bool mn = prim == "minu";
			runComb(rng, [&](Ctx &c) { UInt a = c.in(w), b = c.in(w); c.out(mn ? scl::min(a, b) : scl::max(a, b)); });
		} else if (prim == "mins" || prim == "maxs") {
			size_t w = genWidth(rng, round, 1, maxw); o << ' ' << w << '\n';
			bool mn = prim == "mins";
			runComb(rng, [&](Ctx &c) { SInt a = (SInt) c.in(w), b = (SInt) c.in(w); c.out(mn ? scl::min(a, b) : scl::max(a, b)); });
		} else if (prim == "bpt") {
			// widths >= 32 are part of "every operand width" (the generator threw for them before 7605865: keep exercising them)
			size_t w = (round % 8 == 7) ? 32 + rng.below(std::max<size_t>(maxw, 40) - 31) : genWidth(rng, round - round / 8, 0, std::min<size_t>(maxw, 31));
			o << ' ' << w << '\n';
			runComb(rng, [&](Ctx &c) { UInt a = c.in(w); c.out(scl::biggestPowerOfTwo(a)); });
		} else if (prim == "divu" || prim == "divs") {
			size_t nw = genWidth(rng, round / 2, 1, maxw), dw = (round % 2) ? nw : genWidth(rng, round + 3 * (round / 2), 1, maxw);
			o << ' ' << nw << ' ' << dw << '\n';
			bool sgn = prim == "divs";
			runComb(rng, [&](Ctx &c) {
				UInt n = c.in(nw), d = c.in(dw);
				if (sgn) c.out(scl::longDivision((SInt) n, d, 0)); else c.out(scl::longDivision(n, d, 0));
			});
		} else if (prim == "csa") {
			size_t w = genWidth(rng, round, 0, maxw); o << ' ' << w << '\n';
			runComb(rng, [&](Ctx &c) { UInt a = c.in(w), b = c.in(w), d = c.in(w); auto [s, cy] = scl::addCarrySave(a, b, d); c.out(s); c.out(cy); });
		} else if (prim == "csadd") {
			size_t w = genWidth(rng, round / 2, 1, maxw); size_t k = 1 + rng.below(7);
			if (w * k > 12 && w * k <= 16) k = std::max<size_t>(1, 12 / w);
			o << ' ' << w << ' ' << k << '\n';
			runComb(rng, [&](Ctx &c) {
				scl::CarrySafeAdder adder;
				for (size_t i = 0; i < k; i++) { if (i % 3 == 2) adder = adder + c.in(w); else adder += c.in(w); }   // += and the copying operator+
				c.out(adder.intermediateSum());
				if (k >= 2) c.out(adder.intermediateCarry());
				c.out(adder.sum());
			});
		} else if (prim == "addc") {
			size_t w = genWidth(rng, round, 1, maxw); o << ' ' << w << '\n';
			runComb(rng, [&](Ctx &c) { UInt a = c.in(w), b = c.in(w); Bit ci = c.inBit(); auto [s, co] = scl::add(a, b, ci); c.out(s); c.out(co); });
		} else if (prim == "ctr_end") {
			size_t lim = std::min<size_t>(maxw, 24);
			size_t end_;
			if (ctrApi && apiKind == 'p') end_ = 1ull << (1 + rng.below(std::min<size_t>(lim, 6)));                       // a power of two: no overflow logic
			else if (ctrApi) { do end_ = 3 + rng.below(60); while ((end_ & (end_ - 1)) == 0); }                            // not a power of two
			else if (round < 40) end_ = round + 1;
			else { size_t p = 1ull << rng.below(lim); end_ = rng.chance(1, 2) ? std::max<size_t>(1, p + rng.below(3) - 1) : 1 + rng.below(p + 1); }
			size_t reset = rng.chance(1, 3) ? 0 : rng.below(end_);
			o << ' ' << end_ << ' ' << reset << ' ' << ctrMask << ' ' << resetLast << '\n';
			runCounter(rng, std::min<size_t>(4 * end_ + 40, 300), end_, 0, [&](UInt &) { return std::make_unique<scl::Counter>(end_, reset); }, ctrMask, resetLast, false, 0, 0, "");
		} else if (prim == "ctr_w") {
			size_t w = ctrApi ? 1 + rng.below(std::min<size_t>(maxw, 12)) : genWidth(rng, round, 0, std::min<size_t>(maxw, 60));
			size_t reset = (rng.chance(1, 3) || w == 0) ? 0 : rng.below(1ull << std::min<size_t>(w, 62));
			o << ' ' << w << ' ' << reset << ' ' << ctrMask << ' ' << resetLast << '\n';
			runCounter(rng, std::min<size_t>(4 * (1ull << std::min<size_t>(w, 6)) + 40, 300), w < 63 ? (1ull << w) : 0, 0, [&](UInt &) { return std::make_unique<scl::Counter>(BitWidth(w), reset); }, ctrMask, resetLast, false, 0, 0, "");
		} else if (prim == "ctr_uend") {
			size_t w = ctrApi ? 1 + rng.below(std::min<size_t>(maxw, 12)) : genWidth(rng, round, 1, std::min<size_t>(maxw, 60));
			// end as a run-time signal: small values so that the wrap is reached; 0 means 2^w
			uint64_t maxEnd = (w >= 6) ? 64 : (1ull << w) - 1;
			uint64_t endv = rng.chance(1, 8) ? 0 : 1 + rng.below(maxEnd);
			uint64_t lim = endv ? endv : (1ull << std::min<size_t>(w, 6));
			size_t reset = rng.chance(1, 3) ? 0 : rng.below(lim);
			o << ' ' << w << ' ' << reset << ' ' << ctrMask << ' ' << resetLast << '\n';
			runCounter(rng, std::min<size_t>(4 * lim + 40, 300), endv, w, [&](UInt &e) { return std::make_unique<scl::Counter>(e, reset); }, ctrMask, resetLast, false, 0, 0, binOf(endv, w));
		} else if (prim == "updown") {
			size_t w = genWidth(rng, round, 1, std::min<size_t>(maxw, 60));
			size_t reset = rng.chance(1, 2) ? 0 : rng.below(1ull << std::min<size_t>(w, 62));
			o << ' ' << w << ' ' << reset << '\n';
			runCounter(rng, std::min<size_t>(4 * (1ull << std::min<size_t>(w, 6)) + 40, 300), 0, 0, nullptr, 0, false, true, w, reset, "");
		} else if (prim == "adder") {
			// Adder<UInt>: the first add() assigns, later ones accumulate (m_count) — 1..6 operands
			size_t w = genWidth(rng, round, 1, maxw); size_t k = 1 + rng.below(6);
			if (w * k > 12 && w * k <= 16) k = std::max<size_t>(1, 12 / w);
			o << ' ' << w << ' ' << k << '\n';
			runComb(rng, [&](Ctx &c) {
				scl::Adder<UInt> adder;
				for (size_t i = 0; i < k; i++) { if (i % 2) adder += c.in(w); else adder.add(c.in(w)); }
				c.out(adder.sum());
			});
		} else if (prim == "crc") {
			size_t rw = genWidth(rng, round / 3, 1, maxw);
			size_t dw = (round % 3 == 0) ? rw : genWidth(rng, round + 7 * (round / 3), 0, maxw);
			size_t pw = rng.chance(1, 6) ? 1 + rng.below(std::max(rw, dw) + 2) : rw;
			o << ' ' << rw << ' ' << dw << ' ' << pw << '\n';
			runComb(rng, [&](Ctx &c) { UInt r = c.in(rw), d = c.in(dw), p = c.in(pw); c.out(scl::crc(r, d, p)); });
		} else if (prim == "crcwk") {
			// well-known parameter sets: the constants of CrcParams::init are printed (as outputs of constant signals) together with the checksum
			size_t which = round % 7; size_t dw = 8; size_t k = 1 + (round / 7) % 4;
			if (round < 7) k = 9;
			o << ' ' << which << ' ' << dw << ' ' << k << '\n';
			std::vector<std::vector<std::string>> fixed;
			if (round < 7) { std::vector<std::string> v; for (char ch : std::string("123456789")) v.push_back(binOf((uint8_t) ch, 8)); fixed.push_back(v); }
			runComb(rng, [&](Ctx &c) {
				scl::CrcState st{ .params = scl::CrcParams::init((scl::CrcWellKnownParams) which) };
				st.init();
				for (size_t i = 0; i < k; i++) st.update(c.in(dw));
				c.out(st.params.polynomial); c.out(st.params.initialRemainder); c.out(st.params.reverseData); c.out(st.params.reverseCrc); c.out(st.params.xorOut);
				c.out(st.checksum());
			}, fixed, false);
		} else if (prim == "crcgen") {
			size_t w = genWidth(rng, round, 1, maxw); size_t dw = rng.chance(1, 2) ? 8 : genWidth(rng, round * 5 + 1, 1, maxw); size_t k = rng.below(4);   // 0 = checksum() right after init()
			o << ' ' << w << ' ' << dw << ' ' << k << '\n';
			runComb(rng, [&](Ctx &c) {
				scl::CrcState st;
				st.params.polynomial = c.in(w); st.params.initialRemainder = c.in(w);
				st.params.reverseData = c.inBit(); st.params.reverseCrc = c.inBit(); st.params.xorOut = c.in(w);
				st.init();
				for (size_t i = 0; i < k; i++) st.update(c.in(dw));
				c.out(st.checksum());
			});
		} else if (prim == "bad") {
			// malformed parameters: the generator must reject exactly what the model rejects
			unsigned kind = (unsigned) (round % 6);
			size_t a = 1 + rng.below(8), b = a + 1 + rng.below(4);
			if (rng.chance(1, 2)) std::swap(a, b);
			o << ' ' << kind << ' ' << a << ' ' << b << '\n';
			runComb(rng, [&](Ctx &c) {
				switch (kind) {
					case 0: { UInt x = c.in(a), y = c.in(b); c.out(scl::min(x, y)); break; }
					case 1: { UInt x = c.in(a), y = c.in(b); c.out(scl::max(x, y)); break; }
					case 2: { UInt x = c.in(a % 2); c.out(scl::encoder(scl::OneHot(x))); break; }
					case 3: { UInt x = c.in(0); c.out(scl::grayDecode((BVec) x)); break; }
					case 4: { UInt r = c.in(a), d = c.in(a), p = c.in(a + b); c.out(scl::crc(r, d, p)); break; }
					default: { UInt x = c.in(a); c.out(scl::uintToThermometric(x, BitWidth((1ull << a) + b))); break; }
				}
			}, {}, true);
		}
		o << "end\n";
	}
	return 0;
}
