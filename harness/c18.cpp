// C18 harness: applies generated operation sequences to the real gtry::sim::BitVectorState<Config>
// and prints every operation with the implementation's result and the raw words of the touched state.
// Usage: c18 <seed> <ncases> <opsPerCase>   (opsPerCase 0: literal mode; 'sig': integers through simulation signal handles)
#include <gatery/pch.h>
#include <gatery/simulation/BitVectorState.h>
#include "common.h"
#include "simhelp.h"
#include <gatery/simulation/SigHandle.h>
#include <iostream>

using namespace gtry;
using namespace gtry::sim;
using vh::Rng;

static const std::vector<size_t> offMods = {0, 1, 7, 8, 31, 32, 56, 63};
static const std::vector<size_t> sizes = {0, 1, 7, 8, 63, 64, 65, 127, 128, 129};

template<class C>
struct Runner {
	static constexpr size_t NP = C::NUM_PLANES;
	using S = BitVectorState<C>;
	S regs[4];
	Rng &rng;
	std::ostream &o;
	Runner(Rng &r, std::ostream &os) : rng(r), o(os) {}

	void dump(int r) {
		o << "= " << r << ' ' << regs[r].size();
		for (size_t p = 0; p < NP; p++) {
			o << ' ';
			if (regs[r].getNumBlocks() == 0) o << '-';
			for (size_t i = 0; i < regs[r].getNumBlocks(); i++) {
				if (i) o << ',';
				o << vh::hex64(regs[r].data((typename C::Plane)p)[i]);
			}
		}
		o << '\n';
	}

	size_t genSize(size_t maxv) {
		size_t s = rng.chance(2, 3) ? rng.pick(sizes) : rng.below(301);
		return std::min(s, maxv);
	}
	// offset such that offset+size <= total, biased to interesting offsets mod 64
	size_t genOffset(size_t total, size_t size) {
		if (total <= size) return 0;
		size_t room = total - size;
		if (rng.chance(2, 3)) {
			size_t off = rng.below(5) * 64 + rng.pick(offMods);
			if (off <= room) return off;
		}
		return rng.below(room + 1);
	}
	uint64_t genWord() {
		switch (rng.below(5)) { case 0: return 0; case 1: return ~0ull; case 2: return 1ull << rng.below(64); default: return rng.next(); }
	}
	typename C::Plane genPlane() { return (typename C::Plane) rng.below(NP); }

	void randomize(int r) {
		for (size_t p = 0; p < NP; p++)
			for (size_t i = 0; i < regs[r].getNumBlocks(); i++)
				regs[r].data((typename C::Plane)p)[i] = genWord();
		// resize() keeps the invariant "bits past size() are zero"; re-establish it like the library does
		regs[r].resize(regs[r].size());
	}

	void step() {
		int r = (int)rng.below(4), r2 = (int)rng.below(4);
		S &s = regs[r];
		auto p = genPlane();
		unsigned op = (unsigned) rng.below(100);
		try {
			if (op < 8) { // resize, sometimes followed by randomisation of the content through data()
				size_t n = genSize(330);
				s.resize(n);
				o << "resize " << r << ' ' << n << '\n'; dump(r);
				if (rng.chance(3, 4)) { randomize(r); o << "load " << r << '\n'; dump(r); }
			} else if (s.size() == 0) {
				size_t n = 1 + genSize(329);
				s.resize(n); o << "resize " << r << ' ' << n << '\n'; dump(r);
				randomize(r); o << "load " << r << '\n'; dump(r);
			} else if (op < 14) {
				size_t i = genOffset(s.size(), 1); unsigned k = (unsigned) rng.below(4);
				bool b = rng.chance(1, 2);
				switch (k) {
					case 0: s.set(p, i); o << "set " << r << ' ' << p << ' ' << i << '\n'; break;
					case 1: s.clear(p, i); o << "clear " << r << ' ' << p << ' ' << i << '\n'; break;
					case 2: s.toggle(p, i); o << "toggle " << r << ' ' << p << ' ' << i << '\n'; break;
					default: s.set(p, i, b); o << "assign " << r << ' ' << p << ' ' << i << ' ' << b << '\n'; break;
				}
				dump(r);
			} else if (op < 17) {
				size_t i = genOffset(s.size(), 1);
				o << "get " << r << ' ' << p << ' ' << i << '\n' << "-> " << s.get(p, i) << '\n';
			} else if (op < 29) {
				size_t n = genSize(s.size()); size_t off = genOffset(s.size(), n); bool b = rng.chance(1, 2);
				s.setRange(p, off, n, b);
				o << "setRange " << r << ' ' << p << ' ' << off << ' ' << n << ' ' << b << '\n'; dump(r);
			} else if (op < 43) {
				if (r2 == r) r2 = (r + 1) % 4;
				S &src = regs[r2];
				size_t n = genSize(std::min(s.size(), src.size()));
				size_t doff = genOffset(s.size(), n), soff = genOffset(src.size(), n);
				if (rng.chance(1, 3)) { doff &= ~size_t(7); soff &= ~size_t(7); } // make the byte path likely
				s.copyRange(doff, src, soff, n);
				o << "copyRange " << r << ' ' << doff << ' ' << r2 << ' ' << soff << ' ' << n << '\n'; dump(r);
			} else if (op < 51) {
				S &src = regs[r2];
				size_t n = genSize(std::min(s.size(), src.size()));
				size_t doff = genOffset(s.size(), n), soff = genOffset(src.size(), n);
				if (rng.chance(1, 2) && r != r2) { // make equality likely: copy first
					s.copyRange(doff, src, soff, n);
					o << "copyRange " << r << ' ' << doff << ' ' << r2 << ' ' << soff << ' ' << n << '\n'; dump(r);
					if (n && rng.chance(1, 2)) { size_t i = doff + rng.below(n); auto pl = genPlane(); s.toggle(pl, i); o << "toggle " << r << ' ' << pl << ' ' << i << '\n'; dump(r); }
				}
				bool res = s.compareRange(doff, src, soff, n);
				o << "cmpRange " << r << ' ' << doff << ' ' << r2 << ' ' << soff << ' ' << n << '\n' << "-> " << res << '\n';
			} else if (op < 59) {
				bool bad = rng.chance(1, 20);
				size_t n = bad ? 65 + rng.below(10) : std::min<size_t>(rng.chance(1, 2) ? rng.below(65) : rng.pick(sizes), std::min<size_t>(64, s.size()));
				size_t off = genOffset(s.size(), std::min(n, s.size()));
				if (off / 64 >= s.getNumBlocks()) off = s.size() - 1; // extract() reads word offset/64 even for size 0: stay inside the vector
				o << "extract " << r << ' ' << p << ' ' << off << ' ' << n << '\n';
				uint64_t v = s.extract(p, off, n);
				o << "-> " << vh::hex64(v) << '\n';
			} else if (op < 65) {
				size_t n = std::min<size_t>(rng.below(65), s.size());
				size_t off = genOffset(s.size(), n);
				o << "extractNS " << r << ' ' << p << ' ' << off << ' ' << n << '\n';
				uint64_t v = s.extractNonStraddling(p, off, n);
				o << "-> " << vh::hex64(v) << '\n';
			} else if (op < 75) {
				bool bad = rng.chance(1, 20);
				size_t n = bad ? 65 + rng.below(10) : std::min<size_t>(rng.chance(1, 2) ? rng.below(65) : rng.pick(sizes), std::min<size_t>(64, s.size()));
				size_t off = genOffset(s.size(), std::min(n, s.size()));
				uint64_t v = genWord();
				o << "insert " << r << ' ' << p << ' ' << off << ' ' << n << ' ' << vh::hex64(v) << '\n';
				s.insert(p, off, n, v);
				dump(r);
			} else if (op < 80) {
				size_t n = std::min<size_t>(rng.below(65), s.size());
				size_t off = genOffset(s.size(), n);
				uint64_t v = genWord();
				o << "insertNS " << r << ' ' << p << ' ' << off << ' ' << n << ' ' << vh::hex64(v) << '\n';
				s.insertNonStraddling(p, off, n, v);
				dump(r);
			} else if (op < 84) {
				if (r2 == r) r2 = (r + 1) % 4;
				S &src = regs[r2];
				size_t n = genSize(src.size()); size_t start = genOffset(src.size(), n);
				if (rng.chance(1, 2)) { start &= ~size_t(7); n &= ~size_t(7); }
				o << "extractS " << r << ' ' << r2 << ' ' << start << ' ' << n << '\n';
				s = src.extract(start, n);
				dump(r);
			} else if (op < 88) {
				if (r2 == r) r2 = (r + 1) % 4;
				S &src = regs[r2];
				bool bad = rng.chance(1, 15);
				size_t off = bad ? s.size() : genOffset(s.size(), std::min(src.size(), s.size()));
				size_t n = rng.chance(1, 2) ? 0 : rng.below(src.size() + 1);
				o << "insertS " << r << ' ' << r2 << ' ' << off << ' ' << n << '\n';
				if (src.size() + off > s.size() && !(src.size() + off <= s.size())) { /* assert fires before any access */ }
				s.insert(src, off, n);
				dump(r);
			} else if (op < 90) {
				if (r2 == r) r2 = (r + 1) % 4;
				if (s.size() + regs[r2].size() > 400) { s.resize(7); o << "resize " << r << " 7\n"; dump(r); }
				o << "append " << r << ' ' << r2 << '\n';
				s.append(regs[r2]);
				dump(r);
			} else if (op < 93) {
				if (rng.chance(1, 2) && r != r2) { regs[r2] = s; o << "assignS " << r2 << ' ' << r << '\n'; dump(r2);
					if (s.size() && rng.chance(1, 2)) { size_t i = rng.below(s.size()); regs[r2].toggle(p, i); o << "toggle " << r2 << ' ' << p << ' ' << i << '\n'; dump(r2); } }
				o << "eq " << r << ' ' << r2 << '\n' << "-> " << (s == regs[r2]) << '\n';
			} else if (op < 97) {
				size_t start = rng.below(s.size() + 1);
				size_t n = rng.chance(1, 3) ? ~0ull : genSize(s.size() - start);
				if (rng.chance(1, 2)) { // make the positive answer likely
					size_t nn = std::min(n, s.size() - start); bool b = rng.chance(1, 2);
					s.setRange(p, start, nn, b); o << "setRange " << r << ' ' << p << ' ' << start << ' ' << nn << ' ' << b << '\n'; dump(r);
				}
				unsigned k = (unsigned) rng.below(4);
				std::string ns = (n == ~0ull) ? "max" : std::to_string(n);
				switch (k) {
					case 0: o << "allOne " << r << ' ' << p << ' ' << start << ' ' << ns << '\n' << "-> " << allOne(s, p, start, n) << '\n'; break;
					case 1: o << "allZero " << r << ' ' << p << ' ' << start << ' ' << ns << '\n' << "-> " << allZero(s, p, start, n) << '\n'; break;
					case 2: o << "allOne " << r << ' ' << (int)C::DEFINED << ' ' << start << ' ' << ns << '\n' << "-> " << allDefined(s, start, n) << '\n'; break;
					default: o << "anyOne " << r << ' ' << (int)C::DEFINED << ' ' << start << ' ' << ns << '\n' << "-> " << anyDefined(s, start, n) << '\n'; break;
				}
			} else if (op < 98) {
				bool aligned = rng.chance(4, 5);
				size_t n = genSize(s.size()); size_t off = genOffset(s.size(), n);
				if (n > 64) { if (aligned) off = off / 64 * 64; if (off + n > s.size()) n = s.size() - off; }
				o << "bigx " << r << ' ' << off << ' ' << n << '\n';
				BigInt v = extractBigInt(s, off, n);
				o << "-> " << v.str() << '\n';
			} else {
				bool aligned = rng.chance(4, 5);
				size_t n = genSize(s.size()); size_t off = genOffset(s.size(), n);
				if (n > 64) { if (aligned) off = off / 64 * 64; if (off + n > s.size()) n = s.size() - off; }
				// value: |v| < 2^n (also negative), small, zero, or boundary
				BigInt v = 0;
				switch (rng.below(5)) {
					case 0: v = 0; break;
					case 1: v = rng.below(100); break;
					case 2: v = 1; v <<= (n ? n - 1 : 0); break;
					default: for (size_t i = 0; i < (n + 63) / 64; i++) { v <<= 64; v |= rng.next(); } if (n) v &= (BigInt(1) << n) - 1; else v = 0; break;
				}
				if (rng.chance(1, 3)) v = -v;
				o << "bigi " << r << ' ' << off << ' ' << n << ' ' << v.str() << '\n';
				insertBigInt(s, off, n, v);
				dump(r);
			}
		} catch (const gtry::utils::InternalError &) {
			o << "-> e\n"; dump(r);
		} catch (const gtry::utils::DesignError &) {
			o << "-> e\n"; dump(r);
		}
	}
};

// literal stream: parseBitVector on generated literals (mostly valid; some malformed / too narrow), then formatting of the result
static void literalCase(uint64_t k, Rng &rng, std::ostream &o) {
	static const char *hexd = "0123456789abcdefABCDEFxX", *octd = "01234567xX", *bind = "01xX", *decd = "0123456789";
	std::string lit;
	unsigned kind = (unsigned) rng.below(20);
	size_t nd = rng.chance(1, 8) ? 0 : (rng.chance(1, 6) ? 20 + rng.below(30) : 1 + rng.below(12));
	std::string digits; size_t bps = 1;
	char letter = 'b';
	if (kind < 6) { letter = 'x'; bps = 4; for (size_t i = 0; i < nd; i++) digits.push_back(hexd[rng.chance(1, 6) ? 22 + rng.below(2) : rng.below(22)]); }
	else if (kind < 10) { letter = 'o'; bps = 3; for (size_t i = 0; i < nd; i++) digits.push_back(octd[rng.chance(1, 6) ? 8 + rng.below(2) : rng.below(8)]); }
	else if (kind < 14) { letter = 'b'; bps = 1; for (size_t i = 0; i < nd; i++) digits.push_back(bind[rng.chance(1, 6) ? 2 + rng.below(2) : rng.below(2)]); }
	else if (kind < 17) { letter = 'd'; bps = 0; size_t n = rng.chance(1, 5) ? 19 + rng.below(3) : rng.below(12); for (size_t i = 0; i < n; i++) digits.push_back(decd[rng.below(10)]); if (rng.chance(1, 10)) digits = "18446744073709551615"; }
	else if (kind < 19) { letter = 's'; bps = 8; size_t n = rng.below(12); for (size_t i = 0; i < n; i++) digits.push_back((char) (33 + rng.below(90))); }
	else { letter = "qzg#"[rng.below(4)]; digits = "01"; }
	if (rng.chance(1, 12)) digits.push_back("gh!8"[rng.below(4)]); // trailing garbage (valid for some kinds)
	size_t natural = bps ? digits.size() * bps : 64;
	switch (rng.below(5)) { case 0: break; case 1: lit = std::to_string(natural); break; case 2: lit = std::to_string(natural + 1 + rng.below(70)); break;
		case 3: lit = natural ? std::to_string(rng.below(natural)) : "0"; break; default: lit = std::to_string(rng.below(130)); break; }
	lit.push_back(letter); lit += digits;
	o << "case " << k << " L\n" << "lit " << lit << '\n';
	try {
		DefaultBitVectorState v = parseBitVector(lit);
		o << "-> ok\n= 0 " << v.size();
		for (size_t p = 0; p < 2; p++) { o << ' '; if (v.getNumBlocks() == 0) o << '-'; for (size_t i = 0; i < v.getNumBlocks(); i++) { if (i) o << ','; o << vh::hex64(v.data((DefaultConfig::Plane) p)[i]); } }
		o << '\n';
		std::ostringstream b, h; b << v; h << std::hex << v;
		o << "bin " << (b.str().empty() ? "-" : b.str()) << '\n' << "hex " << (h.str().empty() ? "-" : h.str()) << '\n';
		for (int t = 0; t < 3; t++) { // formatRange on sub-ranges (the bit behind the range exists in most cases) in bases 2, 8, 16
			static const unsigned bases[] = {2, 8, 16};
			unsigned base = bases[rng.below(3)];
			size_t sz = rng.below(v.size() + 1); size_t off = rng.below(v.size() - sz + 1);
			std::ostringstream f; formatRange(f, v, base, off, sz);
			o << "fr " << base << ' ' << off << ' ' << sz << ' ' << (f.str().empty() ? "-" : f.str()) << '\n';
		}
		for (int t = 0; t < 2; t++) {
			unsigned base = rng.chance(1, 2) ? 16 : 2; bool drop = rng.chance(1, 2);
			std::ostringstream f; formatState(f, v, base, drop);
			o << "fs " << base << ' ' << (drop ? 1 : 0) << ' ' << (f.str().empty() ? "-" : f.str()) << '\n';
		}
	} catch (const gtry::utils::DesignError &) { o << "-> e:design\n"; }
	  catch (const gtry::utils::InternalError &) { o << "-> e:internal\n"; }
	o << "end\n";
}

// Integers through the simulation signal handles (SigHandle.cpp): operator=(uint64_t / int64_t / BigInt) into pins of many widths and the
// conversions back (value(), operator int64_t, operator BigInt). One design per case, a simulation process assigns and reads.
static void sigCase(uint64_t k, Rng &rng, std::ostream &o) {
	static const std::vector<size_t> widths = {1, 2, 7, 8, 31, 32, 33, 62, 63, 64, 65, 66, 100, 127, 128, 129, 200};
	size_t w = rng.chance(3, 4) ? rng.pick(widths) : 1 + rng.below(260);
	o << "case " << k << " S\n";
	try {
		DesignScope design;
		Clock clock({ .absoluteFrequency = 10'000 });
		ClockScope clockScope(clock);
		SInt a = BitWidth(w);
		pinIn(a, "a");
		SInt pass = a;
		pinOut(pass, "pass");
		UInt au = BitWidth(w); // unsigned imports go through a UInt pin (an SInt handle takes a uint64_t as int64_t)
		pinIn(au, "au");
		UInt passu = au;
		pinOut(passu, "passu");
		sim::ReferenceSimulator simulator(false);
		simulator.compileProgram(design.getCircuit());
		std::ostringstream lines;
		Rng r = rng.fork();
		simulator.addSimulationProcess([&]()->SimProcess {
			for (int n = 0; n < 10; n++) {
				unsigned kind = (unsigned) r.below(3);
				std::int64_t v;
				switch (r.below(8)) { case 0: v = 0; break; case 1: v = -1; break; case 2: v = INT64_MIN; break; case 3: v = INT64_MAX; break;
					case 4: v = (std::int64_t) (r.next() >> r.below(64)); break; case 5: v = -(std::int64_t) (r.next() >> (1 + r.below(63))); break;
					default: v = (std::int64_t) r.next(); break; }
				std::string vtxt;
				if (kind == 0) { simu(au) = (std::uint64_t) v; vtxt = std::to_string((std::uint64_t) v); }
				else if (kind == 1) { simu(a) = v; vtxt = std::to_string(v); }
				else {
					// a big integer of up to w+8 bits, either sign
					sim::BigInt b = 0;
					size_t nb = r.below(w + 9);
					for (size_t i = 0; i < nb; i += 32) { b <<= 32; b |= (std::uint32_t) r.next(); }
					if (nb) b &= (sim::BigInt(1) << nb) - 1;
					if (r.chance(1, 2)) b = -b;
					simu(a) = b; vtxt = b.str();
				}
				co_await WaitFor({1, 100'000});
				if (kind == 0) {
					auto st = simu(passu).eval();
					lines << "sg u " << w << ' ' << vtxt << " -> " << vh::bitsToString(st);
					if (w <= 64) lines << " u=" << simu(passu).value();
					lines << " b=" << ((sim::BigInt) simu(passu)).str() << '\n';
				} else {
					auto st = simu(pass).eval();
					lines << "sg " << "uib"[kind] << ' ' << w << ' ' << vtxt << " -> " << vh::bitsToString(st);
					if (w <= 64) lines << " i=" << (std::int64_t) simu(pass);
					lines << " b=" << ((sim::BigInt) simu(pass)).str() << '\n';
				}
			}
			simulator.abort();
		});
		simulator.powerOn();
		simulator.advance({1, 100});
		o << lines.str();
	} catch (const std::exception &e) {
		std::string m = e.what(); for (auto &c : m) if (c == '\n') c = ' ';
		o << "sgerr " << m.substr(0, 160) << '\n';
	}
	o << "end\n";
}

// Byte arrays and the bit-vector state (BitVectorState.cpp): createDefaultBitVectorState(span) and operator==(state, span).
static void bytesCase(uint64_t k, Rng &rng, std::ostream &o) {
	o << "case " << k << " B\n";
	size_t nb = rng.chance(1, 10) ? 0 : (rng.chance(1, 3) ? 8 * (1 + rng.below(3)) : 1 + rng.below(26));
	std::vector<std::byte> bytes(nb);
	for (auto &b : bytes) b = (std::byte) (rng.chance(1, 6) ? 0 : rng.chance(1, 6) ? 255 : rng.below(256));
	auto hex = [](const std::vector<std::byte> &v) { std::string r; static const char *d = "0123456789abcdef"; for (auto b : v) { r.push_back(d[(unsigned) b >> 4]); r.push_back(d[(unsigned) b & 15]); } if (r.empty()) r = "-"; return r; };
	try {
		DefaultBitVectorState st = createDefaultBitVectorState(std::span<const std::byte>(bytes));
		o << "by c " << hex(bytes) << " -> " << vh::bitsToString(st) << '\n';
		for (int t = 0; t < 6; t++) {
			DefaultBitVectorState s2 = st;
			std::vector<std::byte> cmp = bytes; cmp.reserve(nb + 16); // spare capacity: the implementation reads the last partial word as a whole word
			if (nb && rng.chance(1, 2)) { size_t i = rng.chance(1, 2) ? s2.size() - 1 - rng.below(std::min<size_t>(s2.size(), 9)) : rng.below(s2.size()); s2.set(DefaultConfig::DEFINED, i, false); }
			if (nb && rng.chance(1, 3)) { size_t i = rng.chance(1, 2) ? s2.size() - 1 - rng.below(std::min<size_t>(s2.size(), 9)) : rng.below(s2.size()); cmp[i / 8] ^= (std::byte) (1u << (i % 8)); }
			bool r = (s2 == std::span<const std::byte>(cmp.data(), cmp.size()));
			o << "by e " << vh::bitsToString(s2) << ' ' << hex(cmp) << " -> " << r << '\n';
		}
		// asData(state, dst, filler): export to bytes, undefined bits taken from the (cyclically repeated) filler bytes
		for (int t = 0; t < 3; t++) {
			DefaultBitVectorState s2 = st;
			for (size_t i = 0; i < s2.size(); i++) if (rng.chance(1, 5)) s2.set(DefaultConfig::DEFINED, i, false);
			if (rng.chance(1, 4)) s2.clearRange(DefaultConfig::DEFINED, 0, s2.size());
			std::vector<std::byte> filler(rng.below(4));
			for (auto &b : filler) b = (std::byte) (rng.chance(1, 4) ? 255 : rng.chance(1, 4) ? 0 : rng.below(256));
			std::vector<std::byte> dst(nb, (std::byte) 0x5a);
			asData(s2, std::span<std::byte>(dst), std::span<const std::byte>(filler));
			o << "by a " << vh::bitsToString(s2) << ' ' << hex(filler) << " -> " << hex(dst) << '\n';
		}
	} catch (const std::exception &e) { o << "byerr " << e.what() << '\n'; }
	o << "end\n";
}

int main(int argc, char **argv) {
	uint64_t seed = vh::argU64(argc, argv, 1, 1), ncases = vh::argU64(argc, argv, 2, 100), nops = vh::argU64(argc, argv, 3, 50);
	std::ios::sync_with_stdio(false);
	if (argc > 3 && std::string(argv[3]) == "bytes") { // byte-array import / comparison mode
		Rng top(seed * 0x100000001b3ull + 81818);
		std::cout << "# prop=C18 bytes seed=" << seed << " cases=" << ncases << "\n";
		for (uint64_t k = 0; k < ncases; k++) { Rng rng = top.fork(); bytesCase(k, rng, std::cout); }
		return 0;
	}
	if (argc > 3 && std::string(argv[3]) == "sig") { // signal-handle import/export mode
		Rng top(seed * 0x100000001b3ull + 51818);
		std::cout << "# prop=C18 sighandle seed=" << seed << " cases=" << ncases << "\n";
		for (uint64_t k = 0; k < ncases; k++) { Rng rng = top.fork(); sigCase(k, rng, std::cout); }
		return 0;
	}
	if (nops == 0) { // literal mode
		Rng top(seed * 0x100000001b3ull + 1818);
		std::cout << "# prop=C18 literals seed=" << seed << " cases=" << ncases << "\n";
		for (uint64_t k = 0; k < ncases; k++) { Rng rng = top.fork(); literalCase(k, rng, std::cout); }
		return 0;
	}
	Rng top(seed * 0x100000001b3ull + 18);
	std::cout << "# prop=C18 seed=" << seed << " cases=" << ncases << " ops=" << nops << "\n";
	for (uint64_t k = 0; k < ncases; k++) {
		Rng rng = top.fork();
		bool ext = rng.chance(1, 3);
		std::cout << "case " << k << ' ' << (ext ? 'E' : 'D') << ' ' << rng.s << '\n';
		if (ext) { Runner<ExtendedConfig> r(rng, std::cout); for (uint64_t i = 0; i < nops; i++) r.step(); }
		else { Runner<DefaultConfig> r(rng, std::cout); for (uint64_t i = 0; i < nops; i++) r.step(); }
		std::cout << "end\n";
	}
	return 0;
}
