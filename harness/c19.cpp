// C19 harness: generated sets of simulation-process scripts (waits, reads, writes, forks) on generated clock configurations and
// small register networks, run on the real gtry::sim::ReferenceSimulator
//   (1) as coroutine processes (addSimulationProcess)  -> the log that is printed and replayed on the Lean model,
//   (2) as fibers (addSimulationFiber + SimulationFiber::awaitCoroutine) -> must give the identical log,
//   (3) both repeated <reps> times with scheduler perturbation (yield / short sleeps in the fiber threads) -> identical logs.
// Usage: c19 <seed> <ncases> <nsteps> [mode] [reps]
//   mode 0: BEFORE-phase clock waits restricted to clocks of one clock pin (order among equal-priority hardware events is otherwise
//           decided by the heap layout of std::priority_queue, which the model does not reproduce)
//   mode 1: BEFORE-phase waits on any clock (cases are flagged `nodiff`: only the property is evaluated on the log)
#include <gatery/pch.h>
#include <gatery/frontend.h>
#include <gatery/simulation/ReferenceSimulator.h>
#include <gatery/simulation/simProc/WaitClock.h>
#include <gatery/simulation/simProc/WaitFor.h>
#include <gatery/simulation/simProc/WaitChange.h>
#include <gatery/simulation/simProc/WaitStable.h>
#include <gatery/simulation/simProc/SimulationFiber.h>
#include <gatery/hlim/Circuit.h>
#include <gatery/hlim/Clock.h>
#include <gatery/hlim/Subnet.h>
#include <gatery/hlim/coreNodes/Node_Register.h>
#include <gatery/hlim/coreNodes/Node_Constant.h>
#include <gatery/hlim/coreNodes/Node_Pin.h>
#include <gatery/hlim/postprocessing/ClockPinAllocation.h>
#include "common.h"
#include "simhelp.h"
#include <iostream>
#include <sstream>
#include <thread>
#include <chrono>

using namespace gtry;
using vh::Rng;
using CR = hlim::ClockRational;

static std::string rat(const CR &r) { return std::to_string(r.numerator()) + "/" + std::to_string(r.denominator()); }

struct SigRef { bool isPin; size_t idx; };

struct Ins {
	enum Kind { WAITFOR, WAITCLK, WAITCHANGE, WAITSTABLE, READ, WRITE, FORK, JOIN } kind;
	CR d{0};
	size_t clock = 0;                 // index into clocks
	sim::WaitClock::TimingPhase phase = sim::WaitClock::AFTER;
	std::vector<SigRef> sigs;
	size_t pin = 0; std::string value;
	size_t script = 0;               // FORK: script to start; JOIN: index into the handles returned by fork so far
};

struct World {
	std::vector<Clock> clocks;
	std::vector<hlim::Node_Pin*> pinNodes;
	std::vector<hlim::Node_Register*> regNodes;
	std::vector<std::vector<Ins>> scripts;
	size_t nstart = 0;
};

// one run of one variant
struct Run : sim::SimulatorCallbacks {
	World &w;
	std::ostringstream log;          // declared before `sim`: must outlive the simulator's destructor
	sim::ReferenceSimulator sim;
	int nextPid = 0;
	std::vector<sim::SimulationFunction<void>::Handle> forkHandles; // what fork returned, in call order (JOIN k waits for the k-th)
	bool perturb = false;
	Rng prng;
	explicit Run(World &world, uint64_t pseed) : w(world), sim(false), prng(pseed) {}

	void onClock(const hlim::Clock *c, bool rising) override { log << "L clk " << c->getId() << ' ' << rising << ' ' << rat(sim.getCurrentSimulationTime()) << '\n'; }
	void onReset(const hlim::Clock *c, bool high) override { log << "L rst " << c->getId() << ' ' << high << ' ' << rat(sim.getCurrentSimulationTime()) << '\n'; }
	void onCommitState() override {
		log << "L commit " << rat(sim.getCurrentSimulationTime());
		for (auto *r : w.regNodes) log << ' ' << vh::bitsToString(sim.getValueOfOutput({.node = r, .port = 0}));
		log << '\n';
	}
	hlim::NodePort port(const SigRef &s) { return s.isPin ? hlim::NodePort{.node = w.pinNodes[s.idx], .port = 0} : hlim::NodePort{.node = w.regNodes[s.idx], .port = 0}; }

	void maybePerturb() {
		if (!perturb) return;
		switch (prng.below(4)) {
			case 0: std::this_thread::yield(); break;
			case 1: std::this_thread::sleep_for(std::chrono::microseconds(prng.below(50))); break;
			default: break;
		}
	}

	// the non-waiting instructions (executed on the simulator thread, inside a coroutine)
	void exec(int pid, const Ins &ins) {
		switch (ins.kind) {
			case Ins::READ:
				log << "L proc " << pid << ' ' << rat(sim.getCurrentSimulationTime()) << ' ' << (int) sim.getCurrentPhase() << ' ' << sim.getCurrentMicroTick();
				for (auto &s : ins.sigs) log << ' ' << vh::bitsToString(sim.getValueOfOutput(port(s)));
				log << '\n';
			break;
			case Ins::WRITE:
				sim.simProcSetInputPin(w.pinNodes[ins.pin], sim::convertToExtended(vh::bitsFromString(ins.value)));
			break;
			case Ins::FORK: {
				size_t child = ins.script;
				// the slot is taken before the child runs its first segment (the model appends the handle before it runs the child)
				size_t slot = forkHandles.size(); forkHandles.emplace_back();
				forkHandles[slot] = sim::forkFunc<void>(std::function<sim::SimulationFunction<void>()>([this, child]() { return runScript(child); }));
			} break;
			default: break;
		}
	}

	sim::SimulationFunction<void> runScript(size_t scriptIdx) {
		int pid = nextPid++;
		log << "L start " << pid << ' ' << scriptIdx << '\n';
		for (const Ins &ins : w.scripts[scriptIdx]) {
			switch (ins.kind) {
				case Ins::WAITFOR: co_await sim::WaitFor(ins.d); break;
				case Ins::WAITCLK: co_await sim::WaitClock(w.clocks[ins.clock].getClk(), ins.phase); break;
				case Ins::WAITCHANGE: {
					sim::SensitivityList l;
					for (auto &s : ins.sigs) l.add(port(s));
					co_await sim::WaitChange(l);
				} break;
				case Ins::WAITSTABLE: co_await sim::WaitStable(); break;
				case Ins::JOIN: if (ins.script < forkHandles.size() && forkHandles[ins.script]) co_await sim::SimulationFunction<void>::Join(forkHandles[ins.script]); break;
				default: exec(pid, ins); break;
			}
		}
	}

	// fiber body: every instruction is one awaitCoroutine call
	void fiberBody(size_t scriptIdx) {
		int pid = nextPid++;
		log << "L start " << pid << ' ' << scriptIdx << '\n';
		for (const Ins &ins : w.scripts[scriptIdx]) {
			maybePerturb();
			const Ins *pi = &ins;
			sim::SimulationFiber::awaitCoroutine<int>([this, pid, pi]() -> sim::SimulationFunction<int> {
				const Ins &ins = *pi;
				switch (ins.kind) {
					case Ins::WAITFOR: co_await sim::WaitFor(ins.d); break;
					case Ins::WAITCLK: co_await sim::WaitClock(w.clocks[ins.clock].getClk(), ins.phase); break;
					case Ins::WAITCHANGE: {
						sim::SensitivityList l;
						for (auto &s : ins.sigs) l.add(port(s));
						co_await sim::WaitChange(l);
					} break;
					case Ins::WAITSTABLE: co_await sim::WaitStable(); break;
					case Ins::JOIN: if (ins.script < forkHandles.size() && forkHandles[ins.script]) co_await sim::SimulationFunction<void>::Join(forkHandles[ins.script]); break;
					default: exec(pid, ins); break;
				}
				co_return 0;
			});
			maybePerturb();
		}
	}

	std::string run(hlim::Circuit &circuit, bool fibers, const std::vector<std::string> &ops) {
		sim.addCallbacks(this);
		sim::CompileOptions opt; opt.ignoreSimulationProcesses = true;
		sim.compileProgram(circuit, {}, opt);
		for (size_t i = 0; i < w.nstart; i++) {
			if (fibers) sim.addSimulationFiber([this, i]() { fiberBody(i); });
			else sim.addSimulationProcess([this, i]() { return runScript(i); });
		}
		log << "begin\n";
		sim.powerOn();
		for (auto &op : ops) {
			log << "op " << op << '\n';
			if (op == "adv") sim.advanceEvent();
			else { // "advance n/d"
				auto p = op.find(' '); auto q = op.find('/');
				CR d{strtoull(op.c_str() + p + 1, nullptr, 10), strtoull(op.c_str() + q + 1, nullptr, 10)};
				sim.advance(d);
			}
		}
		log << "end\n";
		return log.str();
	}
};

static const std::vector<std::pair<uint64_t,uint64_t>> smallFreqs = {{1,1},{2,1},{3,2},{1,2},{5,3},{3,1},{4,3},{2,3}};
static const std::vector<std::pair<uint64_t,uint64_t>> mults = {{1,1},{2,1},{1,2},{3,2}};

static std::string randBits(Rng &rng, size_t w, bool allowX) {
	std::string s;
	for (size_t i = 0; i < w; i++) {
		if (allowX && rng.chance(1, 4)) s.push_back('x');
		else s.push_back(rng.chance(1, 2) ? '1' : '0');
	}
	return s;
}

static std::string sigList(const std::vector<SigRef> &v) {
	if (v.empty()) return "-";
	std::string s;
	for (size_t i = 0; i < v.size(); i++) { if (i) s += ','; s += (v[i].isPin ? "p" : "q") + std::to_string(v[i].idx); }
	return s;
}

static void runCase(uint64_t caseId, Rng rng, size_t nsteps, unsigned mode, unsigned reps, std::ostream &o) {
	DesignScope design;
	World w;
	size_t W = rng.range(1, 5);
	o << "case " << caseId << (mode == 1 ? " nodiff" : "") << "\nwidth " << W << '\n';
	const char *trigNames = "RFB";
	auto pickTrig = [&]() { return (hlim::Clock::TriggerEvent) rng.below(3); };
	auto pickRst = [&]() { return (hlim::RegisterAttributes::ResetType) rng.below(3); };
	auto pickAct = [&]() { return rng.chance(1, 2) ? hlim::RegisterAttributes::Active::HIGH : hlim::RegisterAttributes::Active::LOW; };
	size_t nroots = rng.range(1, 2);
	std::vector<std::pair<hlim::Clock*, ClockConfig>> clockCfgs; // what every clock was asked to be (derived: unset = inherited from the parent)
	for (size_t i = 0; i < nroots; i++) {
		auto f = rng.pick(smallFreqs);
		ClockConfig cfg;
		cfg.absoluteFrequency = CR{f.first, f.second};
		cfg.name = "clk" + std::to_string(i);
		cfg.resetName = "rst" + std::to_string(i);
		cfg.triggerEvent = pickTrig();
		cfg.resetType = pickRst();
		cfg.resetActive = pickAct();
		w.clocks.emplace_back(cfg);
		clockCfgs.push_back({w.clocks.back().getClk(), cfg});
	}
	size_t nder = rng.below(3);
	for (size_t i = 0; i < nder; i++) {
		size_t parent = rng.below(w.clocks.size());
		ClockConfig cfg;
		auto m = rng.pick(mults);
		if (rng.chance(1, 2)) m = {1, 1};
		cfg.frequencyMultiplier = CR{m.first, m.second};
		if (rng.chance(1, 4)) cfg.name = "dclk" + std::to_string(i);
		if (rng.chance(1, 3)) cfg.triggerEvent = pickTrig();
		if (rng.chance(1, 4)) { cfg.resetType = pickRst(); if (*cfg.resetType == hlim::RegisterAttributes::ResetType::NONE) cfg.initializeRegs = true; }
		w.clocks.push_back(w.clocks[parent].deriveClock(cfg));
		clockCfgs.push_back({w.clocks.back().getClk(), cfg});
	}
	// a clock that drives nothing: WaitClock on it takes the "not part of the simulation" path
	size_t freeClock = ~0ull;
	if (rng.chance(1, 2)) {
		auto f = rng.pick(smallFreqs);
		ClockConfig cfg; cfg.absoluteFrequency = CR{f.first, f.second}; cfg.name = "freeclk"; cfg.resetName = "freerst";
		w.clocks.emplace_back(cfg);
		clockCfgs.push_back({w.clocks.back().getClk(), cfg});
		freeClock = w.clocks.size() - 1;
	}

	size_t npins = rng.range(1, 3), nregs = rng.range(1, 4);
	std::vector<UInt> pins, q;
	std::vector<std::string> regLines;
	std::vector<size_t> regClock;
	{
		ClockScope cs(w.clocks[0]);
		for (size_t i = 0; i < npins; i++) {
			pins.push_back(pinIn(BitWidth(W)).setName("p" + std::to_string(i)));
			w.pinNodes.push_back(dynamic_cast<hlim::Node_Pin*>(pins.back().node()->getNonSignalDriver(0).node));
		}
		q.reserve(nregs);
		for (size_t i = 0; i < nregs; i++) q.emplace_back(BitWidth(W));
		for (size_t i = 0; i < nregs; i++) {
			size_t ci = rng.below(w.clocks.size());
			if (ci == freeClock) ci = 0;
			regClock.push_back(ci);
			std::pair<UInt, std::string> d;
			switch (rng.below(4)) {
				case 0: { size_t k = rng.below(npins); d = {pins[k], "p" + std::to_string(k)}; } break;
				case 1: { size_t k = rng.below(npins); d = {UInt(q[i] + pins[k]), "add q" + std::to_string(i) + " p" + std::to_string(k)}; } break;
				case 2: { size_t j = rng.below(nregs); d = {q[j], "q" + std::to_string(j)}; } break;
				default: { size_t j = rng.below(nregs), k = rng.below(npins); d = {UInt(q[j] ^ pins[k]), "xor q" + std::to_string(j) + " p" + std::to_string(k)}; } break;
			}
			auto *reg = DesignScope::createNode<hlim::Node_Register>();
			reg->setName("r" + std::to_string(i));
			reg->setClock(w.clocks[ci].getClk());
			reg->connectInput(hlim::Node_Register::DATA, d.first.readPort());
			std::string rstTxt = "-", enTxt = "-";
			if (rng.chance(2, 3)) {
				rstTxt = randBits(rng, W, false);
				auto *c = DesignScope::createNode<hlim::Node_Constant>(vh::bitsFromString(rstTxt), hlim::ConnectionType::BITVEC);
				reg->connectInput(hlim::Node_Register::RESET_VALUE, {.node = c, .port = 0});
			}
			if (rng.chance(1, 3)) {
				size_t k = rng.below(npins);
				Bit e = pins[k][0];
				enTxt = "bit p" + std::to_string(k);
				reg->connectInput(hlim::Node_Register::ENABLE, e.readPort());
			}
			q[i] = UInt(SignalReadPort(reg));
			w.regNodes.push_back(reg);
			std::ostringstream l;
			l << "reg " << i << " clk=" << w.clocks[ci].getClk()->getId() << " w=" << W << " rst=" << rstTxt << " d=" << d.second << " ; en=" << enTxt;
			regLines.push_back(l.str());
		}
		for (size_t i = 0; i < nregs; i++) pinOut(q[i]).setName("o" + std::to_string(i));
	}

	auto &circuit = design.getCircuit();
	for (auto &cp : circuit.getClocks()) {
		hlim::Clock *c = cp.get();
		auto *dc = dynamic_cast<hlim::DerivedClock*>(c);
		auto &ra = c->getRegAttribs();
		o << "clock " << c->getId() << " parent=" << (c->getParentClock() ? std::to_string(c->getParentClock()->getId()) : std::string("-"))
		  << " fm=" << rat(dc ? dc->getFrequencyMuliplier() : c->absoluteFrequency())
		  << " name=" << c->getName() << " rname=" << c->getResetName()
		  << " trig=" << trigNames[(int) c->getTriggerEvent()] << " psync=" << c->getPhaseSynchronousWithParent()
		  << " rst=" << "SAN"[(int) ra.resetType] << " act=" << (ra.resetActive == hlim::RegisterAttributes::Active::HIGH ? 'H' : 'L')
		  << " nodes=" << !c->getClockedNodes().empty() << '\n';
	}
	for (auto &[c, cfg] : clockCfgs) {
		o << "ccfg " << c->getId() << " mul=" << (cfg.frequencyMultiplier ? rat(*cfg.frequencyMultiplier) : cfg.absoluteFrequency ? rat(*cfg.absoluteFrequency) : std::string("~"))
		  << " name=" << (cfg.name ? *cfg.name : std::string("~")) << " rname=" << (cfg.resetName ? *cfg.resetName : std::string("~"))
		  << " trig=" << (cfg.triggerEvent ? std::string(1, trigNames[(int) *cfg.triggerEvent]) : std::string("~"))
		  << " psync=" << (cfg.phaseSynchronousWithParent ? std::string(*cfg.phaseSynchronousWithParent ? "1" : "0") : std::string("~"))
		  << " rst=" << (cfg.resetType ? std::string(1, "SAN"[(int) *cfg.resetType]) : std::string("~"))
		  << " act=" << (cfg.resetActive ? std::string(*cfg.resetActive == hlim::RegisterAttributes::Active::HIGH ? "H" : "L") : std::string("~")) << '\n';
	}
	for (size_t i = 0; i < npins; i++) o << "pin " << i << ' ' << W << '\n';
	for (auto &l : regLines) o << l << '\n';

	// ---------------- scripts ----------------
	// clocks a process may wait on in the BEFORE phase: in mode 0 only clocks that end up on one clock pin
	// (a WaitClock on a clock that is not part of the simulation creates its resume event immediately, a clock of the simulation only
	// when its pin's trigger event is handled: BEFORE waits on both kinds are not ordered by suspension either)
	utils::StableSet<hlim::NodePort> noOutputs;
	auto subnet = hlim::Subnet::allForSimulation(circuit, noOutputs);
	auto alloc = hlim::extractClockPins(circuit, subnet);
	auto relevant = [&](size_t ci) { return alloc.clock2ClockPinIdx.contains(w.clocks[ci].getClk()); };
	hlim::Clock *beforePin = nullptr;
	for (size_t tries = 0; tries < 16 && !beforePin; tries++) { size_t ci = rng.below(w.clocks.size()); if (relevant(ci)) beforePin = w.clocks[ci].getClk()->getClockPinSource(); }
	size_t nstart = rng.range(1, 4), nfork = rng.below(3);
	// join pattern (1 case in 4): the first started script forks a process at once and every started script joins it, so that several
	// processes wait for the same one and become runnable together when it ends
	bool joinCase = rng.chance(1, 4);
	if (joinCase) { nfork = std::max<size_t>(nfork, 1); nstart = std::max<size_t>(nstart, 2); }
	w.nstart = nstart;
	w.scripts.resize(nstart + nfork);
	auto genSigs = [&](size_t maxn) {
		std::vector<SigRef> v;
		size_t n = rng.range(1, maxn);
		for (size_t i = 0; i < n; i++) {
			if (rng.chance(1, 2)) v.push_back({true, rng.below(npins)});
			else v.push_back({false, rng.below(nregs)});
		}
		return v;
	};
	auto allSigs = [&]() {
		std::vector<SigRef> v;
		for (size_t i = 0; i < nregs; i++) v.push_back({false, i});
		for (size_t i = 0; i < npins; i++) v.push_back({true, i});
		return v;
	};
	for (size_t si = 0; si < w.scripts.size(); si++) {
		auto &sc = w.scripts[si];
		size_t len = rng.range(2, 7);
		bool readOnly = false; // after WaitStable no writes (and no forks, the child could write) until the next wait
		// mode 0: a process that runs in the BEFORE phase of clock pin A must not start waiting for a clock of another pin in the same
		// resume context (directly or through a forked child): whether that pin's trigger event of the same instant has already been
		// handled is decided by the heap layout of std::priority_queue
		bool inBefore = false;
		auto read = [&](std::vector<SigRef> s) { Ins r; r.kind = Ins::READ; r.sigs = std::move(s); sc.push_back(r); };
		if (joinCase && si < nstart) {
			if (si == 0) { Ins f; f.kind = Ins::FORK; f.script = nstart; read({}); sc.push_back(f); }
			else if (rng.chance(1, 3)) { Ins wt; wt.kind = Ins::WAITFOR; wt.d = CR{1, 16} / w.clocks[0].absoluteFrequency(); read({}); sc.push_back(wt); read(allSigs()); }
			Ins j; j.kind = Ins::JOIN; j.script = 0;
			read({}); sc.push_back(j); read(allSigs()); readOnly = true; inBefore = true;
		}
		for (size_t k = 0; k < len; k++) {
			unsigned c = (unsigned) rng.below(100);
			Ins ins;
			if (c < 22) {
				ins.kind = Ins::WAITFOR;
				if (rng.chance(1, 5)) ins.d = CR{0, 1};
				else ins.d = CR{rng.range(1, 6), 4} / w.clocks[rng.below(w.clocks.size())].absoluteFrequency();
				read({}); sc.push_back(ins); read(allSigs()); readOnly = false; inBefore = false;
			} else if (c < 52) {
				ins.kind = Ins::WAITCLK;
				ins.clock = rng.below(w.clocks.size());
				ins.phase = (sim::WaitClock::TimingPhase) rng.below(3);
				bool samePin = relevant(ins.clock) && w.clocks[ins.clock].getClk()->getClockPinSource() == beforePin;
				if (mode == 0 && inBefore && !samePin) {
					for (size_t j = 0; j < w.clocks.size(); j++) if (relevant(j) && w.clocks[j].getClk()->getClockPinSource() == beforePin) { ins.clock = j; samePin = true; }
				}
				if (mode == 0 && ins.phase == sim::WaitClock::BEFORE && !samePin)
					ins.phase = rng.chance(1, 2) ? sim::WaitClock::DURING : sim::WaitClock::AFTER;
				read({}); sc.push_back(ins); read(allSigs()); readOnly = false;
				inBefore = ins.phase == sim::WaitClock::BEFORE;
			} else if (c < 62) {
				ins.kind = Ins::WAITCHANGE;
				ins.sigs = genSigs(2);
				read(ins.sigs); sc.push_back(ins); read(ins.sigs); readOnly = false; inBefore = false;
			} else if (c < 68) {
				ins.kind = Ins::WAITSTABLE;
				read({}); sc.push_back(ins); read(allSigs()); readOnly = true; inBefore = false;
			} else if (c < 78) {
				read(genSigs(3));
			} else if (c < 84 && si < nstart && nfork > 0 && !readOnly) {
				// join the k-th forked process (several started scripts tend to wait for the same one; no-op when fewer forks happened or it has finished);
				// the joiner resumes in whatever context the joined process ends: no writes or forks until the next wait, BEFORE-phase rules apply
				ins.kind = Ins::JOIN; ins.script = rng.below(2);
				read({}); sc.push_back(ins); read(allSigs()); readOnly = true; inBefore = true;
			} else if (c < 94) {
				if (readOnly) { read(genSigs(2)); continue; }
				ins.kind = Ins::WRITE; ins.pin = rng.below(npins); ins.value = randBits(rng, W, rng.chance(1, 5));
				sc.push_back(ins);
			} else {
				if (readOnly || nfork == 0 || si >= nstart || (mode == 0 && inBefore)) { read(genSigs(2)); continue; } // only started scripts fork: no recursion
				ins.kind = Ins::FORK; ins.script = nstart + rng.below(nfork);
				read({}); // the parent's earlier writes are observed before the child (which starts immediately) can write
				sc.push_back(ins);
			}
		}
		read({}); // so that every write is followed by an observation in the same resume context
	}
	const char *ph = "BDA";
	for (size_t si = 0; si < w.scripts.size(); si++) {
		o << "script " << si;
		for (auto &ins : w.scripts[si]) {
			o << " ; ";
			switch (ins.kind) {
				case Ins::WAITFOR: o << "wf " << rat(ins.d); break;
				case Ins::WAITCLK: o << "wc " << w.clocks[ins.clock].getClk()->getId() << ' ' << ph[(int) ins.phase]; break;
				case Ins::WAITCHANGE: o << "wch " << sigList(ins.sigs); break;
				case Ins::WAITSTABLE: o << "ws"; break;
				case Ins::READ: o << "rd " << sigList(ins.sigs); break;
				case Ins::WRITE: o << "wr " << ins.pin << ' ' << ins.value; break;
				case Ins::FORK: o << "fk " << ins.script; break;
				case Ins::JOIN: o << "jn " << ins.script; break;
			}
		}
		o << '\n';
	}
	o << "nstart " << nstart << '\n';

	// ---------------- ops ----------------
	std::vector<std::string> ops;
	for (size_t step = 0; step < nsteps; step++) {
		if (rng.chance(1, 8)) {
			CR d = CR{rng.range(1, 9), 4} / w.clocks[rng.below(w.clocks.size())].absoluteFrequency();
			ops.push_back("advance " + rat(d));
		} else ops.push_back("adv");
	}

	// ---------------- runs ----------------
	std::string ref;
	{ Run r(w, 0); ref = r.run(circuit, false, ops); }
	o << ref.substr(0, ref.size() - 4); // without the trailing "end\n"
	auto firstDiff = [&](const std::string &a, const std::string &b) {
		std::istringstream x(a), y(b); std::string la, lb; size_t n = 0;
		while (true) {
			bool ha = (bool) std::getline(x, la), hb = (bool) std::getline(y, lb);
			if (!ha && !hb) return std::string("none");
			if (!ha || !hb || la != lb) return "line " + std::to_string(n) + " [" + (ha ? la : "<eof>") + "] vs [" + (hb ? lb : "<eof>") + "]";
			n++;
		}
	};
	// With a JOIN several processes become ready inside one SimulationCoroutineHandler::run(); a fiber executes every instruction as its
	// own awaitCoroutine() (start(..., false) = back of the ready queue), so the instructions of fibers that are ready together interleave
	// where coroutine processes run one after the other: the fiber log is then compared with the first fiber run (reproducibility under
	// any OS schedule, which is what the property states), not with the coroutine log.
	bool hasJoin = false;
	for (auto &sc : w.scripts) for (auto &ins : sc) hasJoin |= ins.kind == Ins::JOIN;
	std::string fiberRef;
	{
		Run r(w, 0); fiberRef = r.run(circuit, true, ops);
		if (hasJoin) o << "X fiber-join-case " << (fiberRef == ref ? "same" : "interleaved") << '\n';
		else if (fiberRef != ref) o << "X fiber-differs " << firstDiff(ref, fiberRef) << '\n'; else o << "X fiber-same\n";
	}
	const std::string &fiberExpect = hasJoin ? fiberRef : ref;
	for (unsigned k = 0; k < reps; k++) {
		{ Run r(w, rng.next()); std::string l = r.run(circuit, false, ops); if (l != ref) o << "X repeat-differs coroutine " << firstDiff(ref, l) << '\n'; }
		{ Run r(w, rng.next()); r.perturb = true; std::string l = r.run(circuit, true, ops); if (l != fiberExpect) o << "X repeat-differs fiber " << firstDiff(fiberExpect, l) << '\n'; }
	}
	o << "X reps " << reps << '\n';
	o << "end\n";
}

int main(int argc, char **argv) {
	uint64_t seed = vh::argU64(argc, argv, 1, 1), ncases = vh::argU64(argc, argv, 2, 10), nsteps = vh::argU64(argc, argv, 3, 30);
	unsigned mode = (unsigned) vh::argU64(argc, argv, 4, 0), reps = (unsigned) vh::argU64(argc, argv, 5, 2);
	std::ios::sync_with_stdio(false);
	std::cout << "# prop=C19 seed=" << seed << " ncases=" << ncases << " nsteps=" << nsteps << " mode=" << mode << " reps=" << reps << "\n";
	Rng master(Rng(seed * 0x100000001B3ull + 0xC19).next()); // hashed: consecutive seeds give unrelated streams
	for (uint64_t c = 0; c < ncases; c++) {
		Rng r = master.fork();
		std::ostringstream buf;
		try {
			runCase(c, r, nsteps, mode, reps, buf);
			std::cout << buf.str();
		} catch (const std::exception &e) {
			std::string partial = buf.str();
			std::cout << partial;
			if (partial.find("case ") == std::string::npos) std::cout << "case " << c << "\n";
			std::string msg = e.what(); for (auto &ch : msg) if (ch == '\n') ch = ' ';
			std::cout << "exception " << msg.substr(0, 200) << "\nend\n";
		}
	}
	return 0;
}
