// C20 harness: real simulations of small generated designs recorded by a real sim::VCDSink and a real
// vhdl::FileBasedTestbenchRecorder (files in a scratch directory under /var/tmp, deleted afterwards), observed by
// independent SimulatorCallbacks samplers; the recorded test vectors are replayed into a fresh ReferenceSimulator.
// Usage: c20 <seed> <ncases> <ncycles> [mode] [onlyCase]
//   mode bit0: allow sub-picosecond WaitFor delays; bit1: allow WaitStable + reads right after power-on (same phase as the power-on SETs);
//        bit3: many recorded variables (100..500 identifier codes: extra pins, named signals, taps, a memory of 64..256 words);
//        bit2: allow WaitFor(0) directly after WaitStable (re-enters the time step) and runs that end exactly on a clock edge
// Protocol per case (names are single tokens, bit strings MSB first):
//   case <id> / sel <selection> / sig <i> <width> <bvec> <hidden> <name> <path gid:name,...|-> <mem id:name|->
//   clk <i> <clockid> <name> <0|1|x> / rstsig <i> <clockid> <name> <0|1|x>
//   E T <num> <den> | E C <num> <den> <raw...> | E K <idx> <0|1> | E R <idx> <0|1>     (raw: 0 1 = defined, x X = undefined with value plane 0 / 1)
//   V <line of the .vcd file>
//   X P | X N <phase> <num> <den> | X M | X S <during> <name> <bits> | X R <during> <name> <0|1> | X C <name> <isBool> <bits> | X F <num> <den>
//   W <line of the .testvectors file>
//   Q <k> <ok|FAIL> <kind> <name> <expected> <got> <time ps>        replay outcome of the k-th CHECK / RST
//   end
#include <gatery/pch.h>
#include <gatery/frontend.h>
#include <gatery/simulation/ReferenceSimulator.h>
#include <gatery/simulation/waveformFormats/VCDSink.h>
#include <gatery/export/vhdl/VHDLExport.h>
#include <gatery/export/vhdl/BaseTestbenchRecorder.h>
#include <gatery/export/vhdl/AST.h>
#include <gatery/export/vhdl/Entity.h>
#include <gatery/hlim/Circuit.h>
#include <gatery/hlim/Clock.h>
#include <gatery/hlim/NodeGroup.h>
#include <gatery/hlim/coreNodes/Node_Pin.h>
#include <gatery/hlim/supportNodes/Node_Memory.h>
#include <gatery/hlim/coreNodes/Node_Signal.h>
#include <gatery/hlim/coreNodes/Node_Register.h>
#include <gatery/hlim/supportNodes/Node_SignalTap.h>
#include "common.h"
#include "simhelp.h"
#include <iostream>
#include <sstream>
#include <fstream>
#include <filesystem>
#include <unistd.h>

using namespace gtry;
using vh::Rng;
using CR = hlim::ClockRational;

static std::string tok(const std::string &s) { if (s.empty()) return "-"; std::string r = s; for (auto &c : r) if (c == ' ' || c == '\n' || c == '\t') c = '_'; return r; }

// raw four-symbol string, MSB first
static std::string rawBits(const sim::DefaultBitVectorState &s) {
	std::string r;
	for (size_t i = s.size(); i-- > 0;) {
		bool d = s.get(sim::DefaultConfig::DEFINED, i), v = s.get(sim::DefaultConfig::VALUE, i);
		r.push_back(d ? (v ? '1' : '0') : (v ? 'X' : 'x'));
	}
	if (r.empty()) r = "-";
	return r;
}

// What a run is expected to record. Everything in here is derived from the design the harness built (the circuit after
// post-processing, the names and widths it chose), from the add* calls it made and from hlim::Clock queries — never from the
// VCDSink / WaveformRecorder / test-bench recorder, which are the things under test.
struct ExpSig {
	hlim::NodePort driver;                 // signal: what to ask the simulator for
	hlim::Node_Memory *mem = nullptr;      // memory word: memory, word index, word width
	size_t word = 0;
	hlim::BaseNode *relevant = nullptr;    // the pin / signal / tap the variable stands for
	std::string name; size_t width = 0; bool hidden = false, isBVec = false;
	const hlim::NodeGroup *group = nullptr;
};

struct Expect {
	std::vector<ExpSig> sigs;
	std::vector<hlim::Clock*> clocks, resets; // clock / reset lines (pin sources), in the order of first use by clock id
	std::vector<const hlim::Clock*> portResets; // reset lines that are ports of the exported design: some register with a reset value uses them
	std::map<const hlim::BaseNode*, std::string> pinName;      // every pin the harness created: node -> the name it gave
	std::map<hlim::NodePort, std::string, utils::StableCompare<hlim::NodePort>> outName; // driver of an output pin -> (first) pin name
	std::vector<std::pair<std::string, std::string>> aliases;   // further output pins on the same driver: (name, first name)

	void addSignal(hlim::NodePort driver, hlim::BaseNode *relevant, bool hidden) {
		for (auto &e : sigs) if (e.mem == nullptr && e.driver == driver && e.relevant == relevant) { e.hidden = e.hidden && hidden; return; }
		ExpSig e; e.driver = driver; e.relevant = relevant; e.hidden = hidden;
		if (relevant->hasGivenName()) e.name = relevant->getName();
		else e.name = (relevant->getName().empty() ? std::string("unnamed") : relevant->getName()) + "_id_" + std::to_string(relevant->getId());
		e.width = hlim::getOutputWidth(driver); e.isBVec = hlim::outputIsBVec(driver); e.group = relevant->getGroup();
		sigs.push_back(e);
	}
	// the documented meaning of the selection functions
	void allPins(hlim::Circuit &c) {           // every pin of non-zero width: what drives an output pin, what an input pin drives
		for (auto &n : c.getNodes()) if (auto *pin = dynamic_cast<hlim::Node_Pin*>(n.get())) {
			if (pin->getConnectionType().width == 0) continue;
			if (pin->isOutputPin() && !pin->isInputPin()) { if (pin->getDriver(0).node != nullptr) addSignal(pin->getDriver(0), pin, false); }
			if (pin->isInputPin()) addSignal({.node = pin, .port = 0}, pin, false);
		}
	}
	void allOutPins(hlim::Circuit &c) {
		for (auto &n : c.getNodes()) if (auto *pin = dynamic_cast<hlim::Node_Pin*>(n.get()))
			if (pin->isOutputPin() && pin->getDriver(0).node != nullptr) addSignal(pin->getDriver(0), pin, false);
	}
	void allNamedSignals(hlim::Circuit &c) {
		for (auto &n : c.getNodes()) if (auto *sg = dynamic_cast<hlim::Node_Signal*>(n.get())) if (sg->hasGivenName()) addSignal({.node = sg, .port = 0}, sg, false);
	}
	void allSignals(hlim::Circuit &c) {
		for (auto &n : c.getNodes()) if (auto *sg = dynamic_cast<hlim::Node_Signal*>(n.get())) addSignal({.node = sg, .port = 0}, sg, !sg->hasGivenName());
	}
	void allTaps(hlim::Circuit &c) {
		for (auto &n : c.getNodes()) if (auto *tp = dynamic_cast<hlim::Node_SignalTap*>(n.get()))
			if (tp->getLevel() == hlim::Node_SignalTap::LVL_WATCH) addSignal(tp->getDriver(0), tp, false);
	}
	void allMemories(hlim::Circuit &c) {       // word k of a memory under the name addr_<k>, k = 0 .. depth-1
		for (auto &n : c.getNodes()) if (auto *m = dynamic_cast<hlim::Node_Memory*>(n.get())) {
			if (m->getPorts().empty()) continue;
			bool have = false; for (auto &e : sigs) have |= e.mem == m;
			if (have) continue;
			for (size_t k = 0; k < m->getMaxDepth(); k++) {
				ExpSig e; e.mem = m; e.word = k; e.width = m->getMinPortWidth(); e.group = m->getGroup();
				char b[32]; snprintf(b, sizeof b, "addr_%04d", (int) k); e.name = b;
				sigs.push_back(e);
			}
		}
	}
	void resetPortsOf(hlim::Circuit &c) {
		for (auto &n : c.getNodes()) if (auto *reg = dynamic_cast<hlim::Node_Register*>(n.get())) {
			if (reg->getClocks()[0] == nullptr || reg->getDriver((unsigned) hlim::Node_Register::Input::RESET_VALUE).node == nullptr) continue;
			if (auto *rp = reg->getClocks()[0]->getResetPinSource()) if (std::find(portResets.begin(), portResets.end(), rp) == portResets.end()) portResets.push_back(rp);
		}
	}
	// clock and reset lines: the pin sources of all clocks that drive something (or have a derived clock that does), by clock id
	void clocksOf(std::vector<hlim::Clock*> mine) {
		std::vector<hlim::Clock*> all;
		for (auto *c : mine) for (hlim::Clock *p = c; p != nullptr; p = p->getParentClock()) if (std::find(all.begin(), all.end(), p) == all.end()) all.push_back(p);
		std::sort(all.begin(), all.end(), [](hlim::Clock *a, hlim::Clock *b) { return a->getId() < b->getId(); });
		std::function<bool(hlim::Clock*)> relevant = [&](hlim::Clock *c) {
			if (!c->getClockedNodes().empty()) return true;
			for (auto *d : c->getDerivedClocks()) if (relevant(d)) return true;
			return false;
		};
		for (auto *c : all) if (relevant(c)) {
			auto *cp = c->getClockPinSource();
			if (std::find(clocks.begin(), clocks.end(), cp) == clocks.end()) clocks.push_back(cp);
			if (auto *rp = c->getResetPinSource()) if (std::find(resets.begin(), resets.end(), rp) == resets.end()) resets.push_back(rp);
		}
	}
};

struct Sampler : sim::SimulatorCallbacks {
	sim::ReferenceSimulator &sim; Expect &exp; std::ostream &o; bool on = false;
	Sampler(sim::ReferenceSimulator &s, Expect &e, std::ostream &os) : sim(s), exp(e), o(os) {}
	sim::DefaultBitVectorState value(const ExpSig &e) {
		if (e.mem == nullptr) return sim.getValueOfOutput(e.driver);
		return sim.getValueOfInternalState(e.mem, (size_t) hlim::Node_Memory::Internal::data, e.word * e.width, e.width);
	}
	static char c3(const std::array<bool, sim::DefaultConfig::NUM_PLANES> &v) { return !v[sim::DefaultConfig::DEFINED] ? 'x' : (v[sim::DefaultConfig::VALUE] ? '1' : '0'); }
	void onAfterPowerOn() override {
		on = true;
		for (size_t i = 0; i < exp.sigs.size(); i++) {
			const auto &e = exp.sigs[i];
			std::string path;
			std::vector<const hlim::NodeGroup*> tr;
			for (const hlim::NodeGroup *g = e.group; g != nullptr; g = g->getParent()) tr.push_back(g);
			for (auto it = tr.rbegin(); it != tr.rend(); ++it) { if (!path.empty()) path += ","; path += std::to_string((*it)->getId()) + ":" + tok((*it)->getInstanceName()); }
			std::string mem = "-";
			if (e.mem != nullptr) mem = std::to_string(e.mem->getId()) + ":" + tok(e.mem->getName());
			o << "sig " << i << ' ' << e.width << ' ' << e.isBVec << ' ' << e.hidden << ' ' << tok(e.name) << ' ' << (path.empty() ? "-" : path) << ' ' << mem << '\n';
		}
		for (size_t i = 0; i < exp.clocks.size(); i++)
			o << "clk " << i << ' ' << exp.clocks[i]->getId() << ' ' << tok(exp.clocks[i]->getName()) << ' ' << c3(sim.getValueOfClock(exp.clocks[i])) << '\n';
		for (size_t i = 0; i < exp.resets.size(); i++)
			o << "rstsig " << i << ' ' << exp.resets[i]->getId() << ' ' << tok(exp.resets[i]->getResetName()) << ' ' << c3(sim.getValueOfReset(exp.resets[i])) << '\n';
		for (auto &a : exp.aliases) o << "alias " << tok(a.first) << ' ' << tok(a.second) << '\n';
	}
	std::vector<CR> ticks;
	void onNewTick(const CR &t) override { if (on) { ticks.push_back(t); o << "E T " << t.numerator() << ' ' << t.denominator() << '\n'; } }
	void onCommitState() override {
		if (!on) return;
		auto t = sim.getCurrentSimulationTime();
		o << "E C " << t.numerator() << ' ' << t.denominator();
		for (auto &e : exp.sigs) o << ' ' << rawBits(value(e));
		o << '\n';
	}
	size_t idx(const std::vector<hlim::Clock*> &v, const hlim::Clock *c) { for (size_t i = 0; i < v.size(); i++) if (v[i] == c) return i; return 999999; }
	void onClock(const hlim::Clock *c, bool rising) override { if (on) o << "E K " << idx(exp.clocks, c) << ' ' << rising << '\n'; }
	void onReset(const hlim::Clock *c, bool v) override { if (on) o << "E R " << idx(exp.resets, c) << ' ' << v << '\n'; }
};

struct TvObserver : sim::SimulatorCallbacks {
	sim::ReferenceSimulator &sim; Expect &exp; std::ostream &o;
	TvObserver(sim::ReferenceSimulator &s, Expect &e, std::ostream &os) : sim(s), exp(e), o(os) {}
	void onPowerOn() override { o << "X P\n"; }
	void onNewPhase(size_t phase) override { auto t = sim.getCurrentSimulationTime(); o << "X N " << phase << ' ' << t.numerator() << ' ' << t.denominator() << '\n'; }
	void onAfterMicroTick(size_t) override { o << "X M\n"; }
	void onReset(const hlim::Clock *c, bool v) override {
		// every reset line that is a port of the exported design has to be driven by the test bench
		if (std::find(exp.portResets.begin(), exp.portResets.end(), c) == exp.portResets.end()) return;
		o << "X R " << (sim.getCurrentPhase() == sim::WaitClock::DURING) << ' ' << tok(c->getResetName()) << ' ' << v << '\n';
	}
	void onSimProcOutputOverridden(const hlim::NodePort &output, const sim::ExtendedBitVectorState &state) override {
		auto it = exp.pinName.find(output.node);
		std::string b;
		for (size_t i = state.size(); i-- > 0;)
			b.push_back(state.get(sim::ExtendedConfig::HIGH_IMPEDANCE, i) ? 'z' : !state.get(sim::ExtendedConfig::DEFINED, i) ? 'x' : (state.get(sim::ExtendedConfig::VALUE, i) ? '1' : '0'));
		o << "X S " << (sim.getCurrentPhase() == sim::WaitClock::DURING) << ' ' << (it == exp.pinName.end() ? std::string("?not-a-harness-pin") : tok(it->second)) << ' ' << (b.empty() ? "-" : b) << '\n';
	}
	void onSimProcOutputRead(const hlim::NodePort &output, const sim::DefaultBitVectorState &state) override {
		auto it = exp.outName.find(output);
		o << "X C " << (it == exp.outName.end() ? std::string("?not-an-output-driver") : tok(it->second)) << ' ' << hlim::getOutputConnectionType(output).isBool() << ' ' << vh::bitsToString(state) << '\n';
	}
};

// ------------------------------------------------------------------------------------------------------------------

struct Step {
	int wait = 0;                 // 0 AfterClk 1 OnClk 2 BeforeClk 3 WaitFor 4 WaitFor(0)
	CR waitFor{0, 1};
	std::vector<std::pair<size_t, std::string>> sets; // input index, bits
	bool stable = false;
	std::vector<size_t> reads;    // output index
};

struct Island {
	Clock clock;
	std::vector<hlim::NodePort> inPorts;   // {pin, 0}
	std::vector<size_t> inWidths;
	std::vector<hlim::NodePort> outDrivers;
};

static std::string randBits(Rng &rng, size_t w) {
	std::string s;
	unsigned mode = (unsigned) rng.below(8);
	for (size_t i = 0; i < w; i++) {
		if (mode == 0 || (mode == 1 && rng.chance(1, 4)) || (mode == 2 && i * 2 < w)) s.push_back('x');
		else if (mode == 3) s.push_back('0');
		else if (mode == 4) s.push_back('1');
		else s.push_back(rng.chance(1, 2) ? '1' : '0');
	}
	return s;
}

static UInt fit(const UInt &x, size_t w) {
	if (x.width().bits() == w) return x;
	if (x.width().bits() > w) return x.lower(BitWidth(w));
	return zext(x, BitWidth(w));
}

static const std::vector<size_t> widthClasses = {1, 1, 2, 3, 4, 5, 7, 8, 8, 12, 16, 31, 32, 33, 63, 64, 65, 70, 100, 128, 130};
static const std::vector<std::pair<uint64_t, uint64_t>> freqs = {{100000000, 1}, {125000000, 1}, {48000000, 1}, {1000000000, 1}, {10000, 1}, {250000000, 3}, {7000000, 1}, {200000000, 1}};

static void replay(hlim::Circuit &circuit, const std::vector<std::string> &lines, const std::map<std::string, hlim::Node_Pin*> &inByName,
				   const std::map<std::string, hlim::NodePort> &outByName, const std::map<std::string, const hlim::Clock*> &rstByName,
				   const std::vector<CR> &ticks, std::ostream &o)
{
	sim::ReferenceSimulator sim(false);
	sim.compileProgram(circuit);
	sim.powerOn();
	uint64_t nowPs = 0; size_t k = 0, ti = 0; bool dirty = false; CR cur{0, 1};
	for (size_t i = 0; i + 1 < lines.size();) {
		const std::string &kw = lines[i];
		if (kw == "ADV") {
			uint64_t n = strtoull(lines[i + 1].c_str(), nullptr, 10);
			if (dirty) { sim.reevaluate(); dirty = false; }
			// The VHDL test bench and the clock processes wake up at the same simulation time when a group is scheduled exactly on a
			// clock edge (that is how activity of the BEFORE phase is written): its CHECKs see the state before the edge and its SETs are
			// captured by the edge. The replay therefore executes exactly the time steps of the recorded run that lie strictly before
			// the written time, re-using their exact rational times (ReferenceSimulator compares times by cross multiplication in 64 bit;
			// picosecond-granular advance() calls would overflow it after a few microseconds).
			nowPs += n;
			while (ti < ticks.size() && (unsigned __int128) ticks[ti].numerator() * 1'000'000'000'000ull < (unsigned __int128) nowPs * ticks[ti].denominator()) {
				sim.advance(ticks[ti] - cur); cur = ticks[ti]; ti++;
			}
			i += 2;
			if (getenv("C20_DEBUG")) { // state of all outputs after every ADV
				o << "D " << nowPs;
				for (auto &p : outByName) o << ' ' << p.first << '=' << vh::bitsToString(sim.getValueOfOutput(p.second));
				for (auto &p : inByName) o << ' ' << p.first << '=' << rawBits(sim.getValueOfOutput({.node = p.second, .port = 0}));
				for (auto &n : circuit.getNodes())
					if (auto *m = dynamic_cast<hlim::Node_Memory*>(n.get()))
						o << " mem=" << rawBits(sim.getValueOfInternalState(m, (size_t) hlim::Node_Memory::Internal::data, 0, m->getSize()));
					else if (auto *sg = dynamic_cast<hlim::Node_Signal*>(n.get()); sg && sg->hasGivenName())
						o << ' ' << sg->getName() << '=' << rawBits(sim.getValueOfOutput({.node = sg, .port = 0}));
				o << '\n';
			}
		} else if (kw == "SET" && i + 2 < lines.size()) {
			auto it = inByName.find(lines[i + 1]);
			if (it == inByName.end()) o << "Q " << k++ << " FAIL set " << tok(lines[i + 1]) << " unknown-pin - " << nowPs << '\n';
			else {
				const std::string &v = lines[i + 2];
				sim::ExtendedBitVectorState st;
				st.resize(v.size());
				for (size_t j = 0; j < v.size(); j++) {
					char ch = v[v.size() - 1 - j];
					st.set(sim::ExtendedConfig::DEFINED, j, ch == '0' || ch == '1');
					st.set(sim::ExtendedConfig::VALUE, j, ch == '1');
					st.set(sim::ExtendedConfig::HIGH_IMPEDANCE, j, ch == 'Z');
				}
				sim.simProcSetInputPin(it->second, st); dirty = true;
			}
			i += 3;
		} else if (kw == "CHECK" && i + 2 < lines.size()) {
			auto it = outByName.find(lines[i + 1]);
			std::string got = "?"; bool ok = false;
			if (it != outByName.end()) {
				got = vh::bitsToString(sim.getValueOfOutput(it->second));
				const std::string &e = lines[i + 2];
				ok = e.size() == got.size();
				for (size_t j = 0; ok && j < e.size(); j++) if (e[j] != '-' && e[j] != got[j]) ok = false; // std_match
			}
			o << "Q " << k++ << (ok ? " ok" : " FAIL") << " check " << tok(lines[i + 1]) << ' ' << lines[i + 2] << ' ' << got << ' ' << nowPs << '\n';
			i += 3;
		} else if (kw == "RST" && i + 2 < lines.size()) {
			auto it = rstByName.find(lines[i + 1]);
			std::string got = "?"; bool ok = false;
			if (it != rstByName.end()) {
				if (dirty) { sim.reevaluate(); dirty = false; }
				auto v = sim.getValueOfReset(it->second);
				got = !v[sim::DefaultConfig::DEFINED] ? "x" : (v[sim::DefaultConfig::VALUE] ? "1" : "0");
				ok = got == lines[i + 2];
			}
			o << "Q " << k++ << (ok ? " ok" : " FAIL") << " rst " << tok(lines[i + 1]) << ' ' << lines[i + 2] << ' ' << got << ' ' << nowPs << '\n';
			i += 3;
		} else { o << "Q " << k++ << " FAIL grammar " << tok(kw) << " - - " << nowPs << '\n'; i += 1; }
	}
}

static void runCase(uint64_t caseId, Rng rng, size_t ncycles, unsigned mode, const std::filesystem::path &scratch, std::ostream &o)
{
	std::filesystem::remove_all(scratch);
	std::filesystem::create_directories(scratch);
	o << "case " << caseId << '\n';
	std::vector<std::string> vcdLines, tvLines;
	{
		DesignScope design;
		Expect exp;                                                    // construction record / expectation (outlives the simulator)
		std::vector<std::pair<std::string, hlim::Node_Pin*>> outPins;  // output pins in creation order
		struct MemRec { std::string name; size_t depth, width; };
		std::vector<MemRec> memRecs;
		size_t nclk = rng.chance(1, 4) ? 2 : 1;
		std::vector<Island> islands;
		size_t nameCtr = 0;
		bool many = (mode & 8) != 0;   // many recorded variables: identifier codes well beyond the 94 one-character ones
		bool useMem = many || rng.chance(1, 3);
		std::vector<std::string> outNames, inNames;
		for (size_t k = 0; k < nclk; k++) {
			auto f = rng.pick(freqs);
			if (k == 1 && rng.chance(1, 2)) f = freqs[0];
			ClockConfig cfg;
			cfg.absoluteFrequency = CR{f.first, f.second};
			cfg.name = "clk" + std::to_string(k);
			cfg.resetName = "rst" + std::to_string(k);
			switch (rng.below(5)) {
				case 0: cfg.resetType = hlim::RegisterAttributes::ResetType::NONE; break;
				case 1: cfg.resetActive = hlim::RegisterAttributes::Active::LOW; break;
				case 2: cfg.resetType = hlim::RegisterAttributes::ResetType::ASYNCHRONOUS; break;
				case 3: cfg.triggerEvent = hlim::Clock::TriggerEvent::FALLING; break;
				default: break;
			}
			// a second clock may be derived from the first one (own reset, same or another frequency)
			bool derived = k == 1 && rng.chance(1, 3);
			if (derived) {
				ClockConfig dcfg;
				static const std::vector<std::pair<uint64_t, uint64_t>> mults = {{1, 1}, {2, 1}, {1, 2}, {1, 1}};
				auto m = rng.pick(mults);
				dcfg.frequencyMultiplier = CR{m.first, m.second};
				dcfg.name = cfg.name; dcfg.resetName = cfg.resetName;
				dcfg.resetType = cfg.resetType; dcfg.resetActive = cfg.resetActive; dcfg.triggerEvent = cfg.triggerEvent;
				islands.push_back(Island{islands[0].clock.deriveClock(dcfg), {}, {}, {}});
			} else
				islands.push_back(Island{Clock(cfg), {}, {}, {}});
			{
				// reset durations: whole cycles, or a time that is not a clock edge (released between two edges), or both
				hlim::Clock *hc = islands.back().clock.getClk();
				CR period = CR{1, 1} / hc->absoluteFrequency();
				switch (rng.below(6)) {
					case 0: hc->setMinResetCycles(rng.range(1, 5)); break;
					case 1: hc->setMinResetTime(period * CR{rng.range(1, 39), 8}); break;
					case 2: hc->setMinResetTime(period * CR{2 * rng.range(0, 9) + 1, 10}); hc->setMinResetCycles(rng.range(0, 3)); break;
					case 3: hc->setMinResetTime(period * CR{rng.range(1, 30), 7}); break;
					default: break;
				}
			}
			Island &isl = islands.back();
			ClockScope cs(isl.clock);
			std::vector<UInt> vecs; std::vector<Bit> bits;
			size_t nin = rng.range(1, 3);
			for (size_t j = 0; j < nin; j++) {
				std::string nm = "i" + std::to_string(k) + "x" + std::to_string(j);
				if (rng.chance(1, 3)) { InputPin p = pinIn(); p.setName(nm); bits.push_back(p); isl.inPorts.push_back({.node = p.node(), .port = 0}); isl.inWidths.push_back(1); exp.pinName[p.node()] = nm; }
				else { size_t w = rng.pick(widthClasses); InputPins p = pinIn(BitWidth(w)); p.setName(nm); vecs.push_back(p); isl.inPorts.push_back({.node = p.node(), .port = 0}); isl.inWidths.push_back(w); exp.pinName[p.node()] = nm; }
				inNames.push_back(nm);
			}
			if (vecs.empty()) { UInt c = BitWidth(rng.range(2, 6)); c = reg(c + 1, 0); vecs.push_back(c); }
			if (bits.empty()) bits.push_back(vecs[0][0]);
			size_t nops = rng.range(2, 7);
			std::vector<std::unique_ptr<Area>> areas;
			for (size_t n = 0; n < nops; n++) {
				// optionally build this node inside a (possibly nested) area
				std::vector<GroupScope> scopes;
				size_t depth = rng.below(3);
				for (size_t d = 0; d < depth; d++) {
					areas.push_back(std::make_unique<Area>("blk" + std::to_string(nameCtr++), false));
					scopes.push_back(areas.back()->enter());
				}
				auto pv = [&]() -> UInt { return vecs[rng.below(vecs.size())]; };
				auto pb = [&]() -> Bit { return bits[rng.below(bits.size())]; };
				std::string nm = "s" + std::to_string(nameCtr++);
				bool named = rng.chance(2, 3);
				switch (rng.below(9)) {
					case 0: { UInt c = BitWidth(rng.pick(widthClasses)); c = reg(c + 1, 0); if (named) c.setName(nm); vecs.push_back(c); } break;
					case 1: { UInt r = reg(pv()); if (named) r.setName(nm); vecs.push_back(r); } break;
					case 2: { UInt a = pv(); UInt r = reg(a, 0); if (named) r.setName(nm); vecs.push_back(r); } break;
					case 3: { UInt a = pv(); UInt b = fit(pv(), a.width().bits()); UInt r = a ^ b; if (named) r.setName(nm); vecs.push_back(r); } break;
					case 4: { UInt a = pv(); UInt b = fit(pv(), a.width().bits()); UInt r = a + b; if (named) r.setName(nm); vecs.push_back(r); } break;
					case 5: { UInt a = pv(); UInt b = fit(pv(), a.width().bits()); UInt m = a; IF (pb()) m = b; if (named) m.setName(nm); vecs.push_back(m); } break;
					case 6: { UInt x = pv(); UInt acc = x.width(); IF (pb()) acc = acc + x; acc = rng.chance(1, 2) ? reg(acc, 0) : reg(acc); if (named) acc.setName(nm); vecs.push_back(acc); } break;
					case 7: { UInt a = pv(); UInt b = pv(); if (a.width().bits() + b.width().bits() <= 200) { UInt r = cat(a, b); if (named) r.setName(nm); vecs.push_back(r); } } break;
					default: { UInt a = pv(); Bit r = rng.chance(1, 2) ? Bit(a[0] ^ pb()) : Bit(a.msb() & pb()); if (named) r.setName(nm); bits.push_back(r); } break;
				}
				if (rng.chance(1, 5)) { UInt t = vecs.back(); t.setName("t" + std::to_string(nameCtr++)); tap(t); }
			}
			if (many && k == 0) {
				// lots of pins, named signals and taps
				size_t extraIn = rng.range(10, 60), extraSig = rng.range(30, 150);
				Bit acc = bits[0];
				for (size_t j = 0; j < extraIn; j++) {
					std::string nm = "i" + std::to_string(k) + "y" + std::to_string(j);
					if (rng.chance(1, 2)) { InputPin p = pinIn(); p.setName(nm); acc = acc ^ Bit(p); isl.inPorts.push_back({.node = p.node(), .port = 0}); isl.inWidths.push_back(1); exp.pinName[p.node()] = nm; }
					else { size_t w = rng.range(1, 5); InputPins p = pinIn(BitWidth(w)); p.setName(nm); UInt v = p; acc = acc ^ v[0]; vecs.push_back(v); isl.inPorts.push_back({.node = p.node(), .port = 0}); isl.inWidths.push_back(w); exp.pinName[p.node()] = nm; }
					inNames.push_back(nm);
				}
				bits.push_back(acc);
				for (size_t j = 0; j < extraSig; j++) {
					UInt a = vecs[rng.below(vecs.size())];
					UInt r = rng.chance(1, 2) ? UInt(~a) : UInt(a ^ fit(vecs[rng.below(vecs.size())], a.width().bits()));
					r.setName("n" + std::to_string(nameCtr++));
					tap(r);
					if (rng.chance(1, 4)) vecs.push_back(r);
				}
			}
			if (useMem && k == 0) {
				size_t dw = rng.range(1, 9), depthWords = rng.chance(1, 2) ? 4 : 8;
				if (many) { depthWords = rng.pick(std::vector<size_t>{64, 128, 256}); dw = rng.range(1, 4); }
				Memory<UInt> mem(depthWords, UInt(BitWidth(dw)));
				mem.noConflicts();
				memRecs.push_back({"mem" + std::to_string(nameCtr++), depthWords, dw});
				mem.setName(memRecs.back().name);
				UInt addr = fit(vecs[rng.below(vecs.size())], depthWords == 4 ? 2 : depthWords == 8 ? 3 : depthWords == 64 ? 6 : depthWords == 128 ? 7 : 8);
				UInt data = fit(vecs[rng.below(vecs.size())], dw);
				IF (bits[rng.below(bits.size())]) mem[addr] = data;
				UInt rd = mem[addr];
				rd.setName("rd" + std::to_string(nameCtr++));
				vecs.push_back(rd);
			}
			size_t nout = rng.range(1, 3);
			for (size_t j = 0; j < nout; j++) {
				std::string nm = "o" + std::to_string(k) + "x" + std::to_string(j);
				hlim::Node_Pin *pin;
				if (rng.chance(1, 4)) { Bit b = bits[bits.size() - 1 - rng.below(std::min<size_t>(bits.size(), 3))]; auto p = pinOut(b); p.setName(nm); pin = p.node(); }
				else { UInt v = vecs[vecs.size() - 1 - rng.below(std::min<size_t>(vecs.size(), 4))]; auto p = pinOut(v); p.setName(nm); pin = p.node(); }
				isl.outDrivers.push_back({.node = pin, .port = ~0ull}); // resolved after postprocessing
				exp.pinName[pin] = nm; outPins.push_back({nm, pin});
				outNames.push_back(nm);
			}
		}
		design.postprocess();
		for (auto &isl : islands)
			for (auto &d : isl.outDrivers) d = static_cast<hlim::Node_Pin*>(d.node)->getDriver(0);
		for (auto &p : outPins) { // several output pins may end up on one driver: a read of it is a read of any of them
			auto drv = p.second->getDriver(0);
			auto it = exp.outName.find(drv);
			if (it == exp.outName.end()) exp.outName[drv] = p.first; else exp.aliases.push_back({p.first, it->second});
		}
		{
			std::vector<hlim::Clock*> mine;
			for (auto &isl : islands) mine.push_back(isl.clock.getClk());
			exp.clocksOf(mine);
			exp.resetPortsOf(design.getCircuit());
		}

		std::unique_ptr<sim::VCDSink> sinkPtr; std::unique_ptr<Sampler> samplerPtr; std::unique_ptr<TvObserver> tvoPtr;
		std::unique_ptr<vhdl::VHDLExport> vhdlPtr; // all outlive the simulator that holds pointers to them
		sim::ReferenceSimulator sim(false);
		// ---- stimulus programs
		bool tinyWaits = (mode & 1) && rng.chance(1, 3);
		bool powerOnReads = (mode & 2) && rng.chance(1, 2);
		bool zeroAfterStable = (mode & 4) != 0;
		for (auto &isl : islands) {
			size_t nproc = rng.range(1, 2);
			for (size_t p = 0; p < nproc; p++) {
				auto prog = std::make_shared<std::vector<Step>>();
				Rng r = rng.fork();
				size_t nsteps = ncycles;
				CR period = CR{1, 1} / isl.clock.getClk()->absoluteFrequency();
				for (size_t s = 0; s < nsteps; s++) {
					Step st;
					unsigned wk = (unsigned) r.below(10);
					st.wait = wk < 4 ? 0 : wk < 7 ? 1 : wk < 8 ? 2 : wk < 9 ? 3 : 4;
					if (st.wait == 3) {
						static const std::vector<std::pair<uint64_t, uint64_t>> fr = {{1, 4}, {1, 3}, {1, 2}, {3, 7}, {5, 4}};
						auto q = r.pick(fr);
						st.waitFor = period * CR{q.first, q.second};
						if (tinyWaits && r.chance(1, 4)) st.waitFor = CR{r.range(1, 9), 3'000'000'000'000ull * r.range(1, 4)};
					}
					for (size_t j = 0; j < isl.inPorts.size(); j++)
						if (j % nproc == p && r.chance(s == 0 ? 3 : 1, s == 0 ? 4 : 3))
							st.sets.push_back({j, r.chance(1, 25) ? std::string(isl.inWidths[j], 'z') : randBits(r, isl.inWidths[j])}); // z: stopDriving()
					st.stable = r.chance(1, 2);
					if (s == 0 && !powerOnReads) { st.stable = false; }
					else if (r.chance(2, 3))
						for (size_t j = 0; j < isl.outDrivers.size(); j++) if (r.chance(1, 2)) st.reads.push_back(j);
					if (!st.stable && s > 0 && !st.sets.empty() && !st.reads.empty() && r.chance(1, 2)) st.reads.clear();
					// a zero delay after WaitStable re-enters the current time step (second flush with an empty interval)
					if (st.stable && st.wait == 4 && !zeroAfterStable) st.wait = 0;
					prog->push_back(std::move(st));
				}
				const hlim::Clock *clk = isl.clock.getClk();
				auto inPorts = isl.inPorts; auto outDrivers = isl.outDrivers;
				sim.addSimulationProcess([prog, clk, inPorts, outDrivers]() -> SimProcess {
					for (const Step &st : *prog) {
						for (auto &s : st.sets) { sim::SigHandle h(inPorts[s.first]); if (s.second[0] == 'z') h.stopDriving(); else h = vh::bitsFromString(s.second); }
						if (st.stable) co_await WaitStable();
						for (auto j : st.reads) { sim::SigHandle h(outDrivers[j]); (void) h.eval(); }
						switch (st.wait) {
							case 0: co_await sim::WaitClock(clk, sim::WaitClock::AFTER); break;
							case 1: co_await sim::WaitClock(clk, sim::WaitClock::DURING); break;
							case 2: co_await sim::WaitClock(clk, sim::WaitClock::BEFORE); break;
							case 3: co_await WaitFor(st.waitFor); break;
							default: co_await WaitFor(CR{0, 1}); break;
						}
					}
				});
			}
		}
		// ---- recorders
		std::string sel;
		{
			sinkPtr = std::make_unique<sim::VCDSink>(design.getCircuit(), sim, (scratch / "wave.vcd").string().c_str());
			sim::VCDSink &sink = *sinkPtr;
			unsigned m = (unsigned) rng.range(1, 63);
			if (rng.chance(1, 3)) m = 1 | 4 | 8;
			if (useMem && rng.chance(2, 3)) m |= 32;
			if (many) m = 1 | 4 | 8 | 32 | (rng.chance(1, 4) ? 2 : 0);
			// every selection is made on the real sink and, with its documented meaning, on the expectation
			if (m & 1) { sink.addAllPins(); exp.allPins(design.getCircuit()); sel += "pins,"; }
			if (m & 2) { sink.addAllOutPins(); exp.allOutPins(design.getCircuit()); sel += "outpins,"; }
			if (m & 4) { sink.addAllNamedSignals(); exp.allNamedSignals(design.getCircuit()); sel += "named,"; }
			if (m & 8) { sink.addAllTaps(); exp.allTaps(design.getCircuit()); sel += "taps,"; }
			if ((m & 16) && rng.chance(1, 2)) { sink.addAllSignals(); exp.allSignals(design.getCircuit()); sel += "all,"; }
			if (m & 32) { sink.addAllMemories(); exp.allMemories(design.getCircuit()); sel += "mem,"; }
			o << "sel " << (sel.empty() ? "-" : sel) << '\n';
			// the construction record must be part of the expectation: every pin the harness made, every memory with its shape
			if (m & 1)
				for (auto &p : exp.pinName) {
					auto *pin = static_cast<const hlim::Node_Pin*>(p.first);
					bool found = false;
					for (auto &e : exp.sigs) found |= e.relevant == pin && e.name == p.second && e.width == pin->getConnectionType().width;
					if (!found && pin->getConnectionType().width != 0 && (pin->isInputPin() || pin->getDriver(0).node != nullptr))
						throw std::runtime_error("harness: constructed pin " + p.second + " is not in the expected variable set");
				}
			if (m & 32)
				for (auto &e : exp.sigs) if (e.mem != nullptr && e.word == 0) {
					bool found = false;
					for (auto &r : memRecs) found |= r.name == e.mem->getName() && r.depth == e.mem->getMaxDepth() && r.width == e.width;
					if (!found) throw std::runtime_error("harness: memory " + e.mem->getName() + " does not have the shape it was constructed with");
				}
			samplerPtr = std::make_unique<Sampler>(sim, exp, o);
			sim.addCallbacks(samplerPtr.get());
			vhdlPtr = std::make_unique<vhdl::VHDLExport>(scratch / "design.vhd");
			vhdl::VHDLExport &vhdl = *vhdlPtr;
			vhdl.addTestbenchRecorder(sim, "testbench", false);
			vhdl(design.getCircuit());
			tvoPtr = std::make_unique<TvObserver>(sim, exp, o);
			sim.addCallbacks(tvoPtr.get());

			sim.compileProgram(design.getCircuit());
			sim.powerOn();
			// stop between two edges: ending exactly on a time step makes the final flush an empty interval (see bit2)
			CR runTime = CR{ncycles, 1} / islands[0].clock.getClk()->absoluteFrequency();
			for (auto &isl : islands) { // bound the number of time steps when the clocks are far apart
				CR alt = CR{4 * ncycles, 1} / isl.clock.getClk()->absoluteFrequency();
				if (alt < runTime) runTime = alt;
			}
			if (!(zeroAfterStable && rng.chance(1, 2))) runTime += CR{1, 8} / islands[0].clock.getClk()->absoluteFrequency();
			sim.advance(runTime);
			if (rng.chance(1, 2)) sim.commitState();
			{ auto t = sim.getCurrentSimulationTime(); o << "X F " << t.numerator() << ' ' << t.denominator() << '\n'; }

			// name tables for the replay: the harness's own pins and reset lines
			std::map<std::string, hlim::Node_Pin*> inByName; std::map<std::string, hlim::NodePort> outByName; std::map<std::string, const hlim::Clock*> rstByName;
			for (auto &p : exp.pinName) {
				auto *pin = const_cast<hlim::Node_Pin*>(static_cast<const hlim::Node_Pin*>(p.first));
				if (pin->isInputPin()) inByName[p.second] = pin; else outByName[p.second] = pin->getDriver(0);
			}
			for (auto *c : exp.portResets) rstByName[c->getResetName()] = c;
			vhdl.clearTestbenchRecorder(); // final flush
			sinkPtr.reset(); // closes the .vcd file (no callbacks fire any more: the replay uses its own simulator)
			{
				std::ifstream f(scratch / "testbench.testvectors"); std::string l;
				while (std::getline(f, l)) tvLines.push_back(l);
			}
			for (auto &l : tvLines) o << "W " << l << '\n';
			replay(design.getCircuit(), tvLines, inByName, outByName, rstByName, samplerPtr->ticks, o);
		}
		{
			std::ifstream f(scratch / "wave.vcd"); std::string l;
			while (std::getline(f, l)) o << "V " << l << '\n';
		}
	}
	o << "end\n";
	std::filesystem::remove_all(scratch);
}

int main(int argc, char **argv) {
	uint64_t seed = vh::argU64(argc, argv, 1, 1), ncases = vh::argU64(argc, argv, 2, 10), ncycles = vh::argU64(argc, argv, 3, 50);
	unsigned mode = (unsigned) vh::argU64(argc, argv, 4, 0);
	uint64_t only = vh::argU64(argc, argv, 5, ~0ull); // run just this case of the stream (replaying a single failing case)
	std::filesystem::path scratch = std::filesystem::path("/var/tmp") / ("verif_c20_" + std::to_string(getpid()) + "_" + std::to_string(seed));
	std::cout << "# prop=C20 seed=" << seed << " ncases=" << ncases << " ncycles=" << ncycles << " mode=" << mode << "\n";
	Rng master(vh::hashSeed(seed) + 20);
	for (uint64_t c = 0; c < ncases; c++) {
		Rng rng = master.fork();
		if (only != ~0ull && c != only) continue;
		std::ostringstream os;
		try {
			runCase(c, rng, ncycles, mode, scratch, os);
		} catch (const std::exception &e) {
			// a generated design the frontend / exporter rejects is not a test case
			std::filesystem::remove_all(scratch);
			std::string what = e.what(); for (auto &ch : what) if (ch == '\n') ch = ' ';
			std::cout << "skip " << c << ' ' << what.substr(0, 300) << "\n";
			continue;
		}
		std::cout << os.str();
	}
	std::filesystem::remove_all(scratch);
	return 0;
}
