// Shared helpers for the verification harnesses (no gatery dependency in this file).
#pragma once
#include <cstdint>
#include <cstdio>
#include <cstdlib>
#include <string>
#include <vector>
#include <sstream>

namespace vh {

struct Rng {
	uint64_t s;
	explicit Rng(uint64_t seed) : s(seed) {}
	uint64_t next() {
		s += 0x9E3779B97F4A7C15ull;
		uint64_t z = s;
		z = (z ^ (z >> 30)) * 0xBF58476D1CE4E5B9ull;
		z = (z ^ (z >> 27)) * 0x94D049BB133111EBull;
		return z ^ (z >> 31);
	}
	// uniform in [0,n)
	uint64_t below(uint64_t n) { return n ? next() % n : 0; }
	uint64_t range(uint64_t lo, uint64_t hi) { return lo + below(hi - lo + 1); } // inclusive
	bool chance(unsigned num, unsigned den) { return below(den) < num; }
	template<class T> const T& pick(const std::vector<T> &v) { return v[below(v.size())]; }
	Rng fork() { return Rng(next()); }
};

inline std::string hex64(uint64_t v) { char b[32]; snprintf(b, sizeof b, "%llx", (unsigned long long)v); return b; }

// A check's seed is hashed before it seeds a generator: splitmix64 advances its state by a constant, so generator states derived
// linearly from consecutive seeds (seed * stride + k) would replay the same case sequence shifted by one.
inline uint64_t hashSeed(uint64_t seed) { Rng r(seed ^ 0x5EEDC0DE5EEDC0DEull); r.next(); return r.next(); }

inline uint64_t argU64(int argc, char **argv, int i, uint64_t dflt) { return (i < argc) ? strtoull(argv[i], nullptr, 0) : dflt; }

}
