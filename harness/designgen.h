// Random design generator shared by the design-level harnesses (C01, C11, C10, C02, C09 …).
// A design is a *recipe* (pure data, printable, replayable, shrinkable) that is turned into real frontend calls by build().
#pragma once
#include <gatery/frontend.h>
#include "common.h"
#include "simhelp.h"
#include <variant>
#include <optional>
#include <sstream>

namespace vh {

struct Step {
	// result type: width 0 = Bit, otherwise UInt of that width. kind-specific args in a,b,c,k / str / list
	std::string kind;
	size_t width = 0;
	int a = -1, b = -1, c = -1;
	size_t k = 0, k2 = 0;
	std::string str;
	std::vector<int> list;
};

struct Recipe {
	std::vector<Step> steps;
	std::vector<int> outputs;
	bool hasReset = true;

	std::string toString() const {
		std::ostringstream o;
		for (size_t i = 0; i < steps.size(); i++) {
			const Step &s = steps[i];
			o << "step " << i << ' ' << s.kind << " w=" << s.width << " a=" << s.a << " b=" << s.b << " c=" << s.c << " k=" << s.k << " k2=" << s.k2
			  << " s=" << (s.str.empty() ? "-" : s.str) << " l=";
			if (s.list.empty()) o << '-';
			for (size_t j = 0; j < s.list.size(); j++) o << (j ? "," : "") << s.list[j];
			o << '\n';
		}
		o << "outs";
		for (int x : outputs) o << ' ' << x;
		o << '\n';
		return o.str();
	}
};

struct GenOpts {
	size_t nInputs = 4;
	size_t nSteps = 20;
	size_t maxWidth = 6;
	bool regs = true;
	bool wide = false;        // some 60..70 bit values
	bool conds = true;
	bool undefinedConsts = false;
	unsigned patternBias = 8;  // percent of steps that are optimisation-pattern seeds
	bool fullyDefined = false; // every register has a reset value, no division, no undefined constants
};

class RecipeGen {
	Rng &rng;
	GenOpts o;
	Recipe r;
	std::vector<int> bits, vecs; // indices of steps by type

	int add(Step s) { r.steps.push_back(s); int i = (int) r.steps.size() - 1; (s.width == 0 ? bits : vecs).push_back(i); return i; }
	size_t w(int i) const { return r.steps[i].width; }
	int pickBit() { return bits[bits.size() - 1 - std::min<size_t>(rng.below(bits.size()), rng.below(bits.size()))]; }
	int pickVec() { return vecs[vecs.size() - 1 - std::min<size_t>(rng.below(vecs.size()), rng.below(vecs.size()))]; }
	std::optional<int> pickVecOfWidth(size_t width) {
		std::vector<int> c; for (int v : vecs) if (w(v) == width) c.push_back(v);
		if (c.empty()) return {};
		return c[rng.below(c.size())];
	}
	size_t genWidth() { if (o.wide && rng.chance(1, 8)) return rng.chance(1, 3) ? 100 + rng.below(60) : 60 + rng.below(11); return 1 + rng.below(o.maxWidth); }
	std::string constStr(size_t width) {
		std::string s;
		if (width > 64 && rng.chance(1, 2)) { // word-structured constant (MSB first): every 64-bit word all zeros, all ones or random
			size_t top = width % 64 ? width % 64 : 64;
			for (size_t done = 0; done < width; ) {
				size_t n = done == 0 ? top : 64; unsigned wm = (unsigned) rng.below(3);
				for (size_t i = 0; i < n; i++) s.push_back(wm == 0 ? '0' : wm == 1 ? '1' : (rng.chance(1, 2) ? '1' : '0'));
				done += n;
			}
			return s;
		}
		unsigned mode = (unsigned) rng.below(4);
		for (size_t i = 0; i < width; i++) {
			char c = mode == 0 ? '0' : mode == 1 ? '1' : (rng.chance(1, 2) ? '1' : '0');
			if (o.undefinedConsts && rng.chance(1, 16)) c = 'x';
			s.push_back(c);
		}
		return s;
	}
	int vecOfWidth(size_t width) { // existing or adapted
		if (auto v = pickVecOfWidth(width)) if (rng.chance(3, 4)) return *v;
		int src = pickVec();
		if (w(src) == width) return src;
		if (w(src) > width) { Step s{.kind = "slice", .width = width, .a = src}; s.k = rng.below(w(src) - width + 1); return add(s); }
		Step s{.kind = rng.chance(1, 4) ? "sext" : (rng.chance(1, 4) ? "oext" : "zext"), .width = width, .a = src}; return add(s);
	}
	// a random boolean condition, sometimes built from related terms (for the condition-analysis driven passes)
	int genCond() {
		unsigned c = (unsigned) rng.below(10);
		if (c < 4) return pickBit();
		if (c < 6) { Step s{.kind = "not", .width = 0, .a = pickBit()}; return add(s); }
		if (c < 8) { Step s{.kind = "band", .width = 0, .a = pickBit(), .b = pickBit()}; return add(s); }
		{ int v = pickVec(); Step cst{.kind = "const", .width = w(v), .str = constStr(w(v))}; int ci = add(cst);
		  Step s{.kind = rng.chance(3, 4) ? "eq" : "ne", .width = 0, .a = v, .b = ci}; return add(s); }
	}
	// x = base; IF/ELSE tree of assignments; returns the step index of the resulting variable
	void genCondTree(std::vector<int> &enc, size_t width, unsigned depth) {
		// encoding (prefix): -1 cond value [then-subtree...] -2 [else-subtree...] -3   ; value assignments: -4 value
		size_t n = 1 + rng.below(2);
		for (size_t i = 0; i < n; i++) {
			if (depth < 2 && rng.chance(2, 5)) {
				enc.push_back(-1); enc.push_back(genCond());
				genCondTree(enc, width, depth + 1);
				if (rng.chance(1, 2)) { enc.push_back(-2); genCondTree(enc, width, depth + 1); }
				enc.push_back(-3);
			} else if (width >= 2 && rng.chance(1, 4)) { // static slice write: target(off, sw) = value
				size_t sw = 1 + rng.below(width - 1); size_t off = rng.below(width - sw + 1);
				enc.push_back(-6); enc.push_back((int) off); enc.push_back((int) sw); enc.push_back(vecOfWidth(sw));
			} else if (width >= 2 && rng.chance(1, 5)) { // dynamic bit write: target[idx] = bit (index wide enough to be in range or not)
				size_t iw = 1; while ((size_t(1) << iw) < width) iw++;
				if (rng.chance(1, 4) && iw > 1) iw--;
				enc.push_back(-7); enc.push_back(vecOfWidth(iw)); enc.push_back(pickBit());
			} else { enc.push_back(-4); enc.push_back(width ? vecOfWidth(width) : pickBit()); }
		}
	}

	int notOf(int b) { Step s{.kind = "not", .width = 0, .a = b}; return add(s); }
	int andOf(int a, int b) { Step s{.kind = "band", .width = 0, .a = a, .b = b}; return add(s); }
	int nameOf(int a) { Step s{.kind = "name", .width = w(a), .a = a, .str = "sig_" + std::to_string(r.steps.size())}; return add(s); }
	int valueOf(size_t width) { return width ? vecOfWidth(width) : pickBit(); }

	// Pattern seed: a family of related conditions over shared atoms (equal / negated / subset / De-Morgan twins, some routed through
	// named signals) used by sequential IFs on one target: exercises mergeMuxes, cullMuxConditionNegations and the condition analysis.
	void patternCondFamily() {
		std::vector<int> atoms; size_t na = 2 + rng.below(2);
		for (size_t i = 0; i < na; i++) atoms.push_back(pickBit());
		int e = pickBit();
		auto lit = [&](size_t i, bool neg) { return neg ? notOf(atoms[i]) : atoms[i]; };
		std::vector<int> fam;
		// t1 = conjunction of (possibly negated) atoms
		std::vector<bool> pol; for (size_t i = 0; i < na; i++) pol.push_back(rng.chance(1, 4));
		int t1 = lit(0, pol[0]); for (size_t i = 1; i < na; i++) t1 = andOf(t1, lit(i, pol[i]));
		int n1 = rng.chance(2, 3) ? nameOf(t1) : t1;
		int nt1 = notOf(n1);
		fam.push_back(n1); fam.push_back(nt1);
		fam.push_back(andOf(e, nt1));                                   // e & !(a&b)
		{ int dm = lit(0, !pol[0]); for (size_t i = 1; i < na; i++) dm = andOf(dm, lit(i, !pol[i])); fam.push_back(andOf(e, dm)); } // e & !a & !b
		{ int t1b = lit(na - 1, pol[na - 1]); for (size_t i = na - 1; i-- > 0;) t1b = andOf(t1b, lit(i, pol[i])); fam.push_back(rng.chance(1, 2) ? nameOf(t1b) : t1b); } // structural duplicate
		fam.push_back(notOf(fam[2]));
		fam.push_back(andOf(e, n1));
		bool isBit = rng.chance(1, 3); size_t cw = isBit ? 0 : w(pickVec());
		Step s{.kind = "cond", .width = cw, .a = valueOf(cw)};
		size_t nst = 2 + rng.below(3);
		for (size_t i = 0; i < nst; i++) {
			s.list.push_back(-1); s.list.push_back(fam[rng.below(fam.size())]);
			s.list.push_back(-4); s.list.push_back(valueOf(cw));
			if (rng.chance(1, 3)) { s.list.push_back(-2); s.list.push_back(-4); s.list.push_back(valueOf(cw)); }
			s.list.push_back(-3);
		}
		add(s);
	}

	// Pattern seed: chain of comparisons of one selector with constants (removeIrrelevantComparisons / mergeBinaryMuxChain / removeIrrelevantMuxes)
	void patternCompareChain() {
		size_t sw = 1 + rng.below(3); int sel = vecOfWidth(sw);
		bool isBit = rng.chance(1, 4); size_t cw = isBit ? 0 : w(pickVec());
		Step s{.kind = "cond", .width = cw, .a = valueOf(cw)};
		size_t n = 2 + rng.below(std::min<size_t>(5, (size_t(1) << sw)));
		bool elseChain = rng.chance(1, 2);
		bool ordering = rng.chance(1, 4);
		static const char *orderOps[] = {"lt", "gt", "le", "ge"};
		if (ordering && sw < 2) sw = 2, sel = vecOfWidth(sw);
		if (ordering) n = std::max<size_t>(n, 3);
		std::vector<int> conds;
		for (size_t i = 0; i < n; i++) {
			std::string bits; size_t v = rng.chance(3, 4) ? i % (size_t(1) << sw) : rng.below(size_t(1) << sw);
			for (size_t b = sw; b-- > 0;) bits.push_back(((v >> b) & 1) ? '1' : '0');
			Step c{.kind = "const", .width = sw, .str = bits}; int ci = add(c);
			// mostly ==; sometimes != ; in 1 chain of 4 ordering comparisons (a range decoder: IF (sel < 3) … IF (sel < 2) … — must NOT be merged like ==)
			const char *kind = ordering ? orderOps[rng.below(4)] : (rng.chance(7, 8) ? "eq" : "ne");
			Step q{.kind = kind, .width = 0, .a = sel, .b = ci}; conds.push_back(add(q));
		}
		size_t open = 0;
		for (size_t i = 0; i < n; i++) {
			s.list.push_back(-1); s.list.push_back(conds[i]); s.list.push_back(-4); s.list.push_back(valueOf(cw));
			if (elseChain && i + 1 < n) { s.list.push_back(-2); open++; } else s.list.push_back(-3);
		}
		for (size_t i = 0; i < open; i++) s.list.push_back(-3);
		int chainVar = add(s);
		// sometimes the chain variable is consumed by further muxes on the same selector that take it at their "true" input
		// (y = other; IF (sel == k) y = t) or as their default (mergeBinaryMuxChain must only continue through the default input)
		if (rng.chance(1, 2)) {
			size_t extra = 1 + rng.below(2); int cur = chainVar;
			for (size_t e = 0; e < extra; e++) {
				size_t v = rng.below(size_t(1) << sw); std::string bits; for (size_t b = sw; b-- > 0;) bits.push_back(((v >> b) & 1) ? '1' : '0');
				Step c{.kind = "const", .width = sw, .str = bits}; int ci = add(c);
				Step q{.kind = "eq", .width = 0, .a = sel, .b = ci}; int qi = add(q);
				bool viaTrue = rng.chance(2, 3);
				Step y{.kind = "cond", .width = cw, .a = viaTrue ? valueOf(cw) : cur};
				y.list = {-1, qi, -4, viaTrue ? cur : valueOf(cw), -3};
				cur = add(y);
			}
		}
	}

	// Pattern seed: a value wider than one or two machine words combined with a word-structured constant (no-op detection, constant
	// folding and the BigInt paths look at such operands word by word), observable through a slice
	void patternWideMask() {
		int v = pickVec();
		size_t W = 65 + rng.below(rng.chance(1, 2) ? 64 : 140);
		if (w(v) < W) { Step e{.kind = rng.chance(1, 2) ? "zext" : (rng.chance(1, 2) ? "sext" : "oext"), .width = W, .a = v}; v = add(e); } else W = w(v);
		Step k{.kind = "const", .width = W, .str = constStr(W)}; int ki = add(k);
		static const char *ops[] = {"and", "or", "xor", "and", "or", "add", "sub"};
		Step s{.kind = ops[rng.below(7)], .width = W, .a = v, .b = ki}; if (rng.chance(1, 2)) std::swap(s.a, s.b);
		int si = add(s);
		// make it observable: a slice that straddles a word border, or the low / high word
		size_t nw = 1 + rng.below(std::min<size_t>(W, 40)); size_t off = rng.chance(1, 2) ? (rng.chance(1, 2) ? 64 - std::min<size_t>(nw, 64) / 2 : 0) : rng.below(W - nw + 1);
		if (off + nw > W) off = W - nw;
		Step sl{.kind = "slice", .width = nw, .a = si}; sl.k = off; add(sl);
	}

	// Pattern seed: a conditionally assigned bit that is afterwards used (only) as a condition of IF / ELSE IF chains
	// (removeIrrelevantMuxes must not confuse the selector input of a later mux with a masking data input)
	void patternCondVar() {
		Step v{.kind = "cond", .width = 0, .a = pickBit()};
		v.list = {-1, genCond(), -4, rng.chance(1, 2) ? genCond() : pickBit(), -3};
		int vi = add(v);
		int other = rng.chance(1, 2) ? vi : genCond();
		bool isBit = rng.chance(1, 3); size_t cw = isBit ? 0 : w(pickVec());
		Step s{.kind = "cond", .width = cw, .a = valueOf(cw)};
		bool guarded = rng.chance(1, 2);
		if (guarded) { s.list.push_back(-1); s.list.push_back(genCond()); }
		// IF (v) t = a; ELSE { IF (other) t = b; [ELSE t = c;] }
		s.list.insert(s.list.end(), {-1, vi, -4, valueOf(cw), -2, -1, other, -4, valueOf(cw)});
		if (rng.chance(1, 2)) s.list.insert(s.list.end(), {-2, -4, valueOf(cw)});
		s.list.push_back(-3); s.list.push_back(-3);
		if (guarded) s.list.push_back(-3);
		add(s);
	}

public:
	RecipeGen(Rng &rng, GenOpts o) : rng(rng), o(o) {}

	Recipe generate() {
		r.hasReset = o.fullyDefined || rng.chance(3, 4);
		if (o.fullyDefined) o.undefinedConsts = false;
		for (size_t i = 0; i < o.nInputs; i++) {
			Step s{.kind = "in", .width = (i == 0) ? 0 : (i == 1 ? genWidth() : (rng.chance(1, 3) ? 0 : genWidth()))};
			add(s);
		}
		if (vecs.empty()) add(Step{.kind = "in", .width = genWidth()});
		for (size_t n = 0; n < o.nSteps; n++) {
			if (o.conds && rng.chance(o.patternBias, 100)) { unsigned pk = (unsigned) rng.below(5); if (pk < 2) patternCondFamily(); else if (pk == 2) patternCompareChain(); else if (pk == 3) patternCondVar(); else patternWideMask(); continue; }
			unsigned c = (unsigned) rng.below(100);
			if (c < 14) { // arithmetic / bitwise on equal widths
				int a = pickVec(); int b = vecOfWidth(w(a));
				if (w(a) > 64 && rng.chance(1, 2)) { Step k{.kind = "const", .width = w(a), .str = constStr(w(a))}; b = add(k); if (rng.chance(1, 2)) std::swap(a, b); } // wide operand with a (word-structured) constant
				static const char *ops[] = {"add", "sub", "mul", "and", "or", "xor", "div", "rem"};
				Step s{.kind = ops[rng.below((!o.fullyDefined && rng.chance(1, 6)) ? 8 : 6)], .width = w(a), .a = a, .b = b}; add(s);
			} else if (c < 18) { Step s{.kind = "vnot", .width = w(vecs.back()), .a = pickVec()}; s.width = w(s.a); add(s);
			} else if (c < 26) { // bit logic, incl. comparisons of bits with each other and with constants on either side
				static const char *ops[] = {"band", "bor", "bxor", "beq", "bne"};
				Step s{.kind = ops[rng.below(5)], .width = 0, .a = pickBit(), .b = pickBit()};
				if (s.kind[1] != 'a' && s.kind[1] != 'o' && s.kind[1] != 'x' && rng.chance(1, 2)) { // beq / bne: one operand constant
					Step k{.kind = "bconst", .width = 0, .str = rng.chance(1, 2) ? "1" : "0"}; int ki = add(k);
					if (rng.chance(1, 2)) s.a = ki; else s.b = ki;
				}
				add(s);
			} else if (c < 30) { Step s{.kind = "not", .width = 0, .a = pickBit()}; add(s);
			} else if (c < 38) { // compare
				int a = pickVec(); int b = vecOfWidth(w(a));
				static const char *ops[] = {"eq", "ne", "lt", "gt", "le", "ge"};
				Step s{.kind = ops[rng.below(6)], .width = 0, .a = a, .b = b}; add(s);
			} else if (c < 46) { // binary mux on bits or vectors
				if (rng.chance(1, 3)) { Step s{.kind = "mux", .width = 0, .a = genCond()}; s.list = {pickBit(), pickBit()}; add(s); }
				else { int a = pickVec(); Step s{.kind = "mux", .width = w(a), .a = genCond()}; s.list = {a, vecOfWidth(w(a))}; add(s); }
			} else if (c < 50) { // n-ary mux with vector selector
				size_t sw = 1 + rng.below(2); int sel = vecOfWidth(sw); int a = pickVec();
				Step s{.kind = "mux", .width = w(a), .a = sel}; size_t n = (size_t(1) << sw) - (rng.chance(1, 4) ? 1 : 0);
				for (size_t i = 0; i < n; i++) s.list.push_back(i == 0 ? a : vecOfWidth(w(a))); add(s);
			} else if (c < 56) { int a = pickVec(); size_t nw = 1 + rng.below(w(a)); Step s{.kind = "slice", .width = nw, .a = a}; s.k = rng.below(w(a) - nw + 1); add(s);
			} else if (c < 58) { int a = pickVec(); Step s{.kind = "bitsel", .width = 0, .a = a}; s.k = rng.below(w(a)); add(s);
			} else if (c < 59) { int a = pickVec(); size_t iw = 1; while ((size_t(1) << iw) < w(a)) iw++; if (rng.chance(1, 4) && iw > 1) iw--;
				Step s{.kind = "dynbit", .width = 0, .a = a, .b = vecOfWidth(iw)}; add(s);
			} else if (c < 63) { int a = pickVec(), b = pickVec(); if (w(a) + w(b) <= 80) { Step s{.kind = "cat", .width = w(a) + w(b), .a = a, .b = b}; add(s); }
			} else if (c < 66) { int a = pickVec(); Step s{.kind = rng.chance(1, 2) ? "zext" : (rng.chance(1, 2) ? "sext" : "oext"), .width = w(a) + 1 + rng.below(3), .a = a}; add(s);
			} else if (c < 71) { int a = pickVec(); static const char *ops[] = {"shl", "shr", "rotl", "rotr"}; Step s{.kind = ops[rng.below(4)], .width = w(a), .a = a}; s.k = rng.below(w(a) + 1); if (s.kind[0] == 'r' && s.k >= w(a)) s.k = w(a) - 1; if (s.k > w(a)) s.k = w(a); add(s);
			} else if (c < 73) { size_t cw = genWidth(); Step s{.kind = "const", .width = cw, .str = constStr(cw)}; add(s);
			} else if (c < 74) { Step s{.kind = "bconst", .width = 0, .str = rng.chance(1, 2) ? "1" : "0"}; add(s);
			} else if (c < 84 && o.conds) { // conditional assignment tree
				bool isBit = rng.chance(1, 3); size_t cw = isBit ? 0 : w(pickVec());
				Step s{.kind = "cond", .width = cw, .a = cw ? vecOfWidth(cw) : pickBit()};
				genCondTree(s.list, cw, 0); add(s);
			} else if (c < 92 && o.regs) { // plain register, optional reset value and enable
				bool isBit = rng.chance(1, 3); int a = isBit ? pickBit() : pickVec();
				std::string fedConst;
				if (rng.chance(1, 5)) { // register fed by a constant ("started" flags): propagateConstants may remove it only if the reset value agrees
					if (isBit) { Step k{.kind = "bconst", .width = 0, .str = rng.chance(1, 2) ? "1" : "0"}; a = add(k); }
					else {
						size_t cw = w(a); if (o.wide && rng.chance(1, 3)) cw = 65 + rng.below(80); // also registers wider than one machine word
						Step k{.kind = "const", .width = cw, .str = constStr(cw)}; fedConst = k.str; a = add(k);
					}
				}
				Step s{.kind = "reg", .width = w(a), .a = a}; if (o.fullyDefined || rng.chance(2, 3)) s.str = constStr(std::max<size_t>(1, w(a)));
				if (!fedConst.empty() && !s.str.empty() && fedConst.find('x') == std::string::npos) {
					// reset value vs constant data: equal (the register may go), or different in exactly one bit — anywhere, or (wide registers) above
					// the first machine word — so that the agreement test is exercised at every bit position (the string is MSB first)
					unsigned rel = (unsigned) rng.below(3);
					if (rel == 0) s.str = fedConst;
					else if (rel == 1) { s.str = fedConst; size_t W = fedConst.size(); size_t bit = (W > 64 && rng.chance(2, 3)) ? 64 + rng.below(W - 64) : rng.below(W); char &c = s.str[W - 1 - bit]; c = (c == '1') ? '0' : '1'; }
				}
				if (rng.chance(1, 3)) s.b = genCond(); add(s);
			} else if (c < 96 && o.regs) { // counter / accumulator with feedback: r = reg(r op x, rst), optionally under a condition
				int x = pickVec(); Step s{.kind = "acc", .width = w(x), .a = x, .str = constStr(w(x))}; s.k = rng.below(3); if (rng.chance(1, 2)) s.b = genCond(); if (rng.chance(1, 3)) s.c = genCond(); s.k2 = rng.below(2); add(s);
			} else { // named pass-through (used by condition analysis through signals)
				bool isBit = rng.chance(1, 2); int a = isBit ? pickBit() : pickVec(); Step s{.kind = "name", .width = w(a), .a = a, .str = "sig_" + std::to_string(r.steps.size())}; add(s);
			}
		}
		// outputs: the last few values plus random ones
		size_t nOut = 1 + rng.below(4);
		for (size_t i = 0; i < nOut; i++) r.outputs.push_back((int) r.steps.size() - 1 - (int) rng.below(std::min<size_t>(r.steps.size(), 6)));
		r.outputs.push_back(rng.chance(1, 2) ? pickBit() : pickVec());
		std::sort(r.outputs.begin(), r.outputs.end()); r.outputs.erase(std::unique(r.outputs.begin(), r.outputs.end()), r.outputs.end());
		return r;
	}
};

// ------------------------------------------------------------------------------------------------------------------

struct Decoration {            // C11: names / areas / comments / attributes / extra signal copies; empty = undecorated twin
	uint64_t seed = 0;
	bool names = false, areas = false, comments = false, copies = false, attribs = false, taps = false;
	bool chains = false;          // occasionally a very long run (150..450) of consecutive named pass-through signals
	bool any() const { return names || areas || comments || copies || attribs || taps || chains; }
};

struct Built {
	std::vector<gtry::hlim::Node_Pin*> inPins;  std::vector<size_t> inWidths;   // width 0 = Bit
	std::vector<gtry::hlim::Node_Pin*> outPins; std::vector<size_t> outWidths;
	std::optional<gtry::Clock> clock;
};

using Val = std::variant<std::monostate, gtry::Bit, gtry::UInt>;

// UInt literal of exactly the given bits (MSB first, may contain x)
inline gtry::UInt constU(const std::string &bits) { std::string lit = std::to_string(bits.size()) + "b" + bits; gtry::UInt v = lit.c_str(); return v; }

inline void applyCondTree(const std::vector<int> &enc, size_t &pos, std::vector<Val> &vals, Val &target) {
	using namespace gtry;
	while (pos < enc.size()) {
		int t = enc[pos];
		if (t == -4) {
			int v = enc[pos + 1]; pos += 2;
			if (std::holds_alternative<Bit>(target)) std::get<Bit>(target) = std::get<Bit>(vals[v]); else std::get<UInt>(target) = std::get<UInt>(vals[v]);
		} else if (t == -6) {
			size_t off = (size_t) enc[pos + 1], sw = (size_t) enc[pos + 2]; int v = enc[pos + 3]; pos += 4;
			std::get<UInt>(target)(off, BitWidth(sw)) = std::get<UInt>(vals[v]);
		} else if (t == -7) {
			int idx = enc[pos + 1], b = enc[pos + 2]; pos += 3;
			std::get<UInt>(target)[std::get<UInt>(vals[idx])] = std::get<Bit>(vals[b]);
		} else if (t == -1) {
			int c = enc[pos + 1]; pos += 2;
			{
				ConditionalScope scope(std::get<Bit>(vals[c]));   // what `IF (c)` expands to
				applyCondTree(enc, pos, vals, target);
			}
			if (pos < enc.size() && enc[pos] == -2) {
				pos++;
				ConditionalScope scope(ConditionalScope::ElseCase{}); // what `ELSE` expands to
				applyCondTree(enc, pos, vals, target);
			}
			pos++; // -3
		} else return; // -2 or -3: end of this subtree
	}
}

// Turns a recipe into real frontend calls. A DesignScope (and nothing else) must be alive. Throws what gatery throws.
inline Built build(const Recipe &r, const Decoration &deco = {}) {
	using namespace gtry;
	Built res;
	Rng drng(deco.seed * 77 + 5);
	res.clock.emplace(ClockConfig{.absoluteFrequency = 100'000'000, .name = "clk",
		.resetType = r.hasReset ? ClockConfig::ResetType::SYNCHRONOUS : ClockConfig::ResetType::NONE, .memoryResetType = ClockConfig::ResetType::NONE, .initializeRegs = true});
	ClockScope clkScope(*res.clock);
	std::vector<Val> vals(r.steps.size());
	std::vector<std::unique_ptr<Area>> areaStack;
	auto bit = [&](int i) -> Bit& { return std::get<Bit>(vals[i]); };
	auto vec = [&](int i) -> UInt& { return std::get<UInt>(vals[i]); };
	for (size_t i = 0; i < r.steps.size(); i++) {
		const Step &s = r.steps[i];
		if (deco.areas && drng.chance(1, 6)) { if (!areaStack.empty() && drng.chance(1, 2)) areaStack.pop_back(); else if (areaStack.size() < 3) areaStack.push_back(std::make_unique<Area>("area" + std::to_string(i), true)); }
		const std::string &k = s.kind;
		if (k == "in") {
			if (s.width == 0) { Bit b = pinIn().setName("in" + std::to_string(i)); res.inPins.push_back(dynamic_cast<hlim::Node_Pin*>(b.node()->getNonSignalDriver(0).node)); vals[i] = b; }
			else { UInt v = pinIn(BitWidth(s.width)).setName("in" + std::to_string(i)); res.inPins.push_back(dynamic_cast<hlim::Node_Pin*>(v.node()->getNonSignalDriver(0).node)); vals[i] = v; }
			res.inWidths.push_back(s.width);
		}
		else if (k == "const") { vals[i] = constU(s.str); }
		else if (k == "bconst") { vals[i] = Bit(s.str == "1" ? '1' : '0'); }
		else if (k == "add") vals[i] = UInt(vec(s.a) + vec(s.b));
		else if (k == "sub") vals[i] = UInt(vec(s.a) - vec(s.b));
		else if (k == "mul") vals[i] = UInt(vec(s.a) * vec(s.b));
		else if (k == "div") vals[i] = UInt(vec(s.a) / vec(s.b));
		else if (k == "rem") vals[i] = UInt(vec(s.a) % vec(s.b));
		else if (k == "and") vals[i] = UInt(vec(s.a) & vec(s.b));
		else if (k == "or") vals[i] = UInt(vec(s.a) | vec(s.b));
		else if (k == "xor") vals[i] = UInt(vec(s.a) ^ vec(s.b));
		else if (k == "vnot") vals[i] = UInt(~vec(s.a));
		else if (k == "band") vals[i] = Bit(bit(s.a) & bit(s.b));
		else if (k == "bor") vals[i] = Bit(bit(s.a) | bit(s.b));
		else if (k == "bxor") vals[i] = Bit(bit(s.a) ^ bit(s.b));
		else if (k == "not") vals[i] = Bit(!bit(s.a));
		else if (k == "beq") vals[i] = Bit(bit(s.a) == bit(s.b));
		else if (k == "bne") vals[i] = Bit(bit(s.a) != bit(s.b));
		else if (k == "eq") vals[i] = Bit(vec(s.a) == vec(s.b));
		else if (k == "ne") vals[i] = Bit(vec(s.a) != vec(s.b));
		else if (k == "lt") vals[i] = Bit(vec(s.a) < vec(s.b));
		else if (k == "gt") vals[i] = Bit(vec(s.a) > vec(s.b));
		else if (k == "le") vals[i] = Bit(vec(s.a) <= vec(s.b));
		else if (k == "ge") vals[i] = Bit(vec(s.a) >= vec(s.b));
		else if (k == "mux") {
			bool selBit = r.steps[s.a].width == 0;
			if (s.width == 0) { std::vector<Bit> ins; for (int x : s.list) ins.push_back(bit(x)); vals[i] = selBit ? Bit(mux(bit(s.a), ins)) : Bit(mux(vec(s.a), ins)); }
			else { std::vector<UInt> ins; for (int x : s.list) ins.push_back(vec(x)); vals[i] = selBit ? UInt(mux(bit(s.a), ins)) : UInt(mux(vec(s.a), ins)); }
		}
		else if (k == "slice") vals[i] = UInt(vec(s.a)(s.k, BitWidth(s.width)));
		else if (k == "bitsel") vals[i] = Bit(vec(s.a)[s.k]);
		else if (k == "dynbit") vals[i] = Bit(vec(s.a)[vec(s.b)]);
		else if (k == "cat") vals[i] = UInt(cat(vec(s.a), vec(s.b)));
		else if (k == "zext") vals[i] = UInt(zext(vec(s.a), BitWidth(s.width)));
		else if (k == "sext") vals[i] = UInt(sext(vec(s.a), BitWidth(s.width)));
		else if (k == "oext") vals[i] = UInt(oext(vec(s.a), BitWidth(s.width)));
		else if (k == "shl") vals[i] = UInt(vec(s.a) << s.k);
		else if (k == "shr") vals[i] = UInt(vec(s.a) >> s.k);
		else if (k == "rotl") vals[i] = UInt(rotl(vec(s.a), s.k));
		else if (k == "rotr") vals[i] = UInt(rotr(vec(s.a), s.k));
		else if (k == "cond") {
			if (s.width == 0) vals[i] = Bit(bit(s.a)); else vals[i] = UInt(vec(s.a));
			size_t pos = 0; applyCondTree(s.list, pos, vals, vals[i]);
		}
		else if (k == "reg") {
			// decorations may also sit on the reset value path (attribute carriers, named copies)
			auto decoRst = [&](auto &rv) {
				if (deco.attribs && drng.chance(1, 2)) { SignalAttributes a; a.maxFanout = 4 + drng.below(8); rv = attribute(rv, a); }
				if (deco.names && drng.chance(1, 3)) rv.setName("rst" + std::to_string(i));
				if (deco.copies && drng.chance(1, 3)) { auto copy = rv; copy.setName("rstcopy" + std::to_string(i)); rv = copy; }
			};
			auto doReg = [&]() {
				if (s.width == 0) { if (s.str.empty()) vals[i] = Bit(reg(bit(s.a))); else { Bit rv = Bit(s.str[0] == '1' ? '1' : '0'); if (deco.any()) decoRst(rv); vals[i] = Bit(reg(bit(s.a), rv)); } }
				else { if (s.str.empty()) vals[i] = UInt(reg(vec(s.a))); else { UInt rv = constU(s.str); if (deco.any()) decoRst(rv); vals[i] = UInt(reg(vec(s.a), rv)); } }
			};
			if (s.b >= 0) { EnableScope en(bit(s.b)); doReg(); } else doReg();
		}
		else if (k == "acc") {
			UInt acc = BitWidth(s.width); UInt rv = constU(s.str);
			if (deco.attribs && drng.chance(1, 2)) { SignalAttributes a; a.maxFanout = 4 + drng.below(8); rv = attribute(rv, a); }
			UInt next = acc;
			if (s.k2 == 1 && s.b >= 0) { // the register is held on the condition-TRUE side of its feedback mux: next = new; IF (cond) next = acc;
				if (s.k == 0) next = acc + vec(s.a); else if (s.k == 1) next = acc ^ vec(s.a); else next = vec(s.a);
				ConditionalScope sc(bit(s.b));
				next = acc;
			} else {
				std::optional<ConditionalScope> sc; if (s.b >= 0) sc.emplace(bit(s.b));
				if (s.k == 0) next = acc + vec(s.a); else if (s.k == 1) next = acc ^ vec(s.a); else next = vec(s.a);
			}
			{
				std::optional<EnableScope> en; if (s.c >= 0) en.emplace(bit(s.c)); // a clock enable of its own (foldRegisterMuxEnableLoops has to AND it)
				acc = reg(next, rv);
			}
			vals[i] = acc;
		}
		else if (k == "name") { if (s.width == 0) { Bit b = bit(s.a); b.setName(s.str); vals[i] = b; } else { UInt v = vec(s.a); v.setName(s.str); vals[i] = v; } }
		else throw std::runtime_error("designgen: unknown step kind " + k);

		// decorations (must never change behaviour: property C11)
		if (deco.any() && !std::holds_alternative<std::monostate>(vals[i]) && k != "in") {
			auto decorate = [&](auto &sig) {
				if (deco.names && drng.chance(1, 3)) sig.setName("n" + std::to_string(i) + "_" + std::to_string(drng.below(1000)));
				if (deco.copies && drng.chance(1, 4)) { auto copy = sig; copy.setName("copy" + std::to_string(i)); sig = copy; }
				if (deco.comments && drng.chance(1, 4)) sig.node()->setComment("comment " + std::to_string(i));
				if (deco.attribs && drng.chance(1, 6)) { SignalAttributes a; a.maxFanout = 4 + drng.below(8); sig = attribute(sig, a); } // the attributed signal is the returned one
				if (deco.taps && drng.chance(1, 8)) tap(sig);
				if (deco.chains && drng.chance(1, 12)) { size_t n = 150 + drng.below(300); for (size_t c = 0; c < n; c++) { auto copy = sig; copy.setName("chain" + std::to_string(i) + "_" + std::to_string(c)); sig = copy; } }
			};
			if (std::holds_alternative<Bit>(vals[i])) decorate(std::get<Bit>(vals[i])); else decorate(std::get<UInt>(vals[i]));
		}
	}
	while (!areaStack.empty()) areaStack.pop_back(); // leave the area scopes innermost first
	for (size_t j = 0; j < r.outputs.size(); j++) {
		int x = r.outputs[j];
		if (r.steps[x].width == 0) { auto p = pinOut(std::get<Bit>(vals[x])).setName("out" + std::to_string(j)); res.outPins.push_back(p.node()); }
		else { auto p = pinOut(std::get<UInt>(vals[x])).setName("out" + std::to_string(j)); res.outPins.push_back(p.node()); }
		res.outWidths.push_back(r.steps[x].width);
	}
	return res;
}

// ------------------------------------------------------------------------------------------------------------------
// stimulus and clocked simulation

struct Stimulus { std::vector<std::vector<std::string>> cycles; }; // [cycle][input] = bits (MSB first)

inline Stimulus genStimulus(Rng &rng, const std::vector<size_t> &inWidths, size_t ncycles, bool withUndefined) {
	Stimulus st;
	for (size_t c = 0; c < ncycles; c++) {
		std::vector<std::string> row;
		unsigned mode = (unsigned) rng.below(8);
		for (size_t w : inWidths) {
			size_t n = std::max<size_t>(1, w); std::string s;
			for (size_t i = 0; i < n; i++) {
				char ch = mode == 0 ? '0' : mode == 1 ? '1' : (rng.chance(1, 2) ? '1' : '0');
				if (withUndefined && rng.chance(1, 10)) ch = 'x';
				s.push_back(ch);
			}
			row.push_back(s);
		}
		st.cycles.push_back(row);
	}
	return st;
}

// runs the stimulus on the circuit as it is now; returns per cycle the concatenated output pin values (sampled before the clock edge)
// if allDefined != nullptr it is cleared when any node output holds an undefined bit at any sample point
inline std::vector<std::vector<std::string>> simulate(gtry::hlim::Circuit &circuit, const Built &b, const Stimulus &st, bool *allDefined = nullptr) {
	using namespace gtry;
	sim::ReferenceSimulator sim(false);
	sim.compileProgram(circuit);
	sim.powerOn();
	hlim::ClockRational period = hlim::ClockRational(1, 1) / b.clock->absoluteFrequency();
	std::vector<std::vector<std::string>> trace;
	sim.advance(period / hlim::ClockRational(4, 1)); // sample and drive at (k + 1/4) periods: every rising edge (at k periods, k >= 1) lies strictly between two samples
	for (auto &row : st.cycles) {
		for (size_t i = 0; i < b.inPins.size(); i++)
			sim.simProcSetInputPin(b.inPins[i], sim::convertToExtended(bitsFromString(row[i])));
		sim.reevaluate();
		std::vector<std::string> outs;
		for (auto *p : b.outPins) {
			auto drv = p->getDriver(0);
			outs.push_back(drv.node ? bitsToString(sim.getValueOfOutput(drv)) : std::string("u"));
		}
		trace.push_back(outs);
		if (allDefined && *allDefined) {
			for (auto &n : circuit.getNodes())
				for (size_t p = 0; p < n->getNumOutputPorts() && *allDefined; p++) {
					if (sim.outputOptimizedAway({.node = n.get(), .port = p})) continue;
					if (auto *pin = dynamic_cast<hlim::Node_Pin*>(n.get()); pin && !pin->isInputPin()) continue; // an output pin reads back nothing
					auto ct = n->getOutputConnectionType(p);
					if (ct.type != hlim::ConnectionType::BOOL && ct.type != hlim::ConnectionType::BITVEC) continue;
					if (!sim::allDefined(sim.getValueOfOutput({.node = n.get(), .port = p}))) { *allDefined = false; if (getenv("VH_DEBUG")) std::cerr << "undef: " << n->getTypeName() << " " << n->getName() << " port " << p << " cycle " << trace.size() << "\n"; }
				}
		}
		sim.advance(period);
	}
	return trace;
}

}
