// Netlist dump of the modelled core nodes in the text form parsed by lean/Driver/NodesCommon.lean (`parseNode`).
// Copy of the dumper of harness/c03.cpp (kept in sync by hand; the format is documented there).
#pragma once
#include <gatery/frontend.h>
#include <gatery/hlim/coreNodes/Node_Logic.h>
#include <gatery/hlim/coreNodes/Node_Arithmetic.h>
#include <gatery/hlim/coreNodes/Node_Compare.h>
#include <gatery/hlim/coreNodes/Node_Shift.h>
#include <gatery/hlim/coreNodes/Node_Rewire.h>
#include <gatery/hlim/coreNodes/Node_Multiplexer.h>
#include <gatery/hlim/coreNodes/Node_PriorityConditional.h>
#include <gatery/hlim/coreNodes/Node_Constant.h>
#include <gatery/hlim/coreNodes/Node_Register.h>
#include <gatery/hlim/coreNodes/Node_Signal.h>
#include <gatery/hlim/coreNodes/Node_Pin.h>
#include "simhelp.h"
#include <map>
#include <sstream>

namespace vh {
using namespace gtry;

struct Net {
	std::vector<hlim::BaseNode*> order;
	std::map<hlim::BaseNode*, int> index;

	std::vector<hlim::Node_Register*> regs;
	void visit(hlim::BaseNode *n) {
		if (!n || index.count(n)) return;
		index[n] = -1; // in progress (combinational loops do not occur in these designs)
		// a register output is a source of the combinational order; its input cones are visited afterwards (visitRegInputs)
		if (auto *r = dynamic_cast<hlim::Node_Register*>(n)) regs.push_back(r);
		else for (size_t i = 0; i < n->getNumInputPorts(); i++) visit(n->getDriver(i).node);
		index[n] = (int)order.size();
		order.push_back(n);
	}
	void visitRegInputs() {
		for (size_t k = 0; k < regs.size(); k++) // regs may grow while visiting
			for (size_t i = 0; i < regs[k]->getNumInputPorts(); i++) visit(regs[k]->getDriver(i).node);
	}

	static const char *logicName(hlim::Node_Logic::Op op) {
		switch (op) { case hlim::Node_Logic::AND: return "AND"; case hlim::Node_Logic::NAND: return "NAND"; case hlim::Node_Logic::OR: return "OR"; case hlim::Node_Logic::NOR: return "NOR";
			case hlim::Node_Logic::XOR: return "XOR"; case hlim::Node_Logic::EQ: return "EQ"; default: return "NOT"; }
	}
	static const char *arithName(hlim::Node_Arithmetic::Op op) {
		switch (op) { case hlim::Node_Arithmetic::ADD: return "ADD"; case hlim::Node_Arithmetic::SUB: return "SUB"; case hlim::Node_Arithmetic::MUL: return "MUL"; case hlim::Node_Arithmetic::DIV: return "DIV"; default: return "REM"; }
	}
	static const char *cmpName(hlim::Node_Compare::Op op) {
		switch (op) { case hlim::Node_Compare::EQ: return "EQ"; case hlim::Node_Compare::NEQ: return "NEQ"; case hlim::Node_Compare::LT: return "LT"; case hlim::Node_Compare::GT: return "GT"; case hlim::Node_Compare::LEQ: return "LEQ"; default: return "GEQ"; }
	}

	// returns false if a node kind outside the modelled set occurs
	bool dump(std::ostream &o, const std::map<hlim::Node_Pin*, int> &pinIdx) {
		bool ok = true;
		o << "net " << order.size() << '\n';
		for (size_t i = 0; i < order.size(); i++) {
			auto *n = order[i];
			size_t w = n->getNumOutputPorts() ? n->getOutputConnectionType(0).width : 0;
			bool isBool = n->getNumOutputPorts() && n->getOutputConnectionType(0).isBool();
			o << "n " << i << ' ';
			std::ostringstream kind;
			if (auto *pin = dynamic_cast<hlim::Node_Pin*>(n)) {
				auto it = pinIdx.find(pin);
				kind << "in " << (it == pinIdx.end() ? -1 : it->second);
			} else if (dynamic_cast<hlim::Node_Signal*>(n)) kind << "sig";
			else if (auto *l = dynamic_cast<hlim::Node_Logic*>(n)) kind << "logic " << logicName(l->getOp());
			else if (auto *a = dynamic_cast<hlim::Node_Arithmetic*>(n)) kind << "arith " << arithName(a->getOp());
			else if (auto *c = dynamic_cast<hlim::Node_Compare*>(n)) {
				auto d = c->getDriver(0);
				bool opBool = d.node && hlim::getOutputConnectionType(d).isBool();
				kind << "cmp " << cmpName(c->getOp()) << ' ' << (opBool ? 'b' : 'v');
			}
			else if (auto *s = dynamic_cast<hlim::Node_Shift*>(n)) {
				kind << "shift " << (s->getDirection() == hlim::Node_Shift::dir::left ? 'L' : 'R') << ' ';
				switch (s->getFillMode()) { case hlim::Node_Shift::fill::zero: kind << 'Z'; break; case hlim::Node_Shift::fill::one: kind << 'O'; break; case hlim::Node_Shift::fill::last: kind << 'S'; break; default: kind << 'R'; }
			}
			else if (auto *r = dynamic_cast<hlim::Node_Rewire*>(n)) {
				kind << "rew ";
				const auto &ranges = r->getOp().ranges;
				if (ranges.empty()) kind << '-';
				for (size_t k = 0; k < ranges.size(); k++) {
					if (k) kind << ',';
					const auto &rg = ranges[k];
					switch (rg.source) {
						case hlim::Node_Rewire::OutputRange::INPUT: kind << "i:" << rg.inputIdx << ':' << rg.inputOffset << ':' << rg.subwidth; break;
						case hlim::Node_Rewire::OutputRange::CONST_ZERO: kind << "z:" << rg.subwidth; break;
						case hlim::Node_Rewire::OutputRange::CONST_ONE: kind << "o:" << rg.subwidth; break;
						default: kind << "u:" << rg.subwidth; break;
					}
				}
			}
			else if (dynamic_cast<hlim::Node_Multiplexer*>(n)) kind << "mux";
			else if (dynamic_cast<hlim::Node_PriorityConditional*>(n)) kind << "prio";
			else if (auto *c = dynamic_cast<hlim::Node_Constant*>(n)) kind << "const " << vh::bitsToString(c->getValue());
			else if (dynamic_cast<hlim::Node_Register*>(n)) kind << "reg";
			else { kind << "other " << n->getTypeName(); ok = false; }
			o << w << ' ' << (isBool ? 'b' : 'v') << ' ';
			if (n->getNumInputPorts() == 0) o << '-';
			for (size_t k = 0; k < n->getNumInputPorts(); k++) {
				if (k) o << ',';
				auto d = n->getDriver(k);
				if (!d.node) o << '-'; else { o << index[d.node]; if (d.port != 0) ok = false; }
			}
			o << ' ' << kind.str() << '\n';
		}
		return ok;
	}
};


}
