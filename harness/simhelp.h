// Helpers to drive gatery's ReferenceSimulator from a harness without coroutines.
#pragma once
#include <gatery/frontend.h>
#include <gatery/simulation/ReferenceSimulator.h>
#include <gatery/simulation/BitVectorState.h>
#include <gatery/hlim/Circuit.h>
#include <gatery/hlim/coreNodes/Node_Pin.h>
#include <string>
#include <memory>

namespace vh {

// "01x" string, MSB first
inline std::string bitsToString(const gtry::sim::DefaultBitVectorState &s) {
	std::string r;
	for (size_t i = s.size(); i-- > 0;)
		r.push_back(!s.get(gtry::sim::DefaultConfig::DEFINED, i) ? 'x' : (s.get(gtry::sim::DefaultConfig::VALUE, i) ? '1' : '0'));
	if (r.empty()) r = "-"; // zero width
	return r;
}

// from "01x" string, MSB first ("-" = zero width)
inline gtry::sim::DefaultBitVectorState bitsFromString(const std::string &str) {
	gtry::sim::DefaultBitVectorState s;
	if (str == "-") return s;
	s.resize(str.size());
	for (size_t i = 0; i < str.size(); i++) {
		char c = str[str.size() - 1 - i];
		s.set(gtry::sim::DefaultConfig::DEFINED, i, c != 'x');
		s.set(gtry::sim::DefaultConfig::VALUE, i, c == '1');
	}
	return s;
}

struct Sim {
	gtry::sim::ReferenceSimulator sim;
	explicit Sim(gtry::hlim::Circuit &c) : sim(false) { sim.compileProgram(c); sim.powerOn(); }
	void set(gtry::hlim::Node_Pin *pin, const std::string &bits) {
		sim.simProcSetInputPin(pin, gtry::sim::convertToExtended(bitsFromString(bits)));
	}
	void eval() { sim.reevaluate(); }
	std::string get(const gtry::hlim::NodePort &np) { return bitsToString(sim.getValueOfOutput(np)); }
	// value driven into an output pin
	std::string getPin(gtry::hlim::Node_Pin *pin) { return get(pin->getDriver(0)); }
};

}
