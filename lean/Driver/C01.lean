import GateryModel.C01.Spec
import GateryModel.Nodes.Seq
import GateryModel.C01.RewireOpt
import Driver.NodesCommon
/-!
Driver for C01: checks the relation `F` between the reference trace and (a) the trace after every post-processing pass
that changed the printed trace, (b) the final trace. PROPFAIL = `F` fails (concrete design + stimulus + cycle + pass).
-/
open Gatery.C01 Gatery.Nodes

structure Case where
  id : String := ""
  adef : Bool := false
  ref : Trace := []
  fin : Trace := []
  bts : List (Nat × Trace) := []       -- traces at boundaries that differ textually from ref
  passes : List (Nat × String × String) := []
  ppfail : Bool := false
  hasFin : Bool := false
  netTag : String := ""                                  -- netlist being read / last read
  nets : List (String × Array (NetNode × String)) := []  -- tag ↦ nodes (with kind name)
  curNet : Array (NetNode × String) := #[]
  prevVals : List (String × Nat × Array (Option BV4)) := []   -- tag ↦ (cycle, values seen by consumers at that cycle)
  resets : List (String × Nat × Bool) := []                 -- (tag, cycle) ↦ reset asserted at the sample point
  auto : List (String × Nat × Array (Option BV4)) := []     -- tag ↦ (cycle, values of the autonomous Lean run `seqRun` at that cycle)
  -- `Node_Rewire::optimize` stream: kinds / drivers / ranges before, drivers / ranges after, driver values
  isRw : Bool := false
  rwKinds : List CK := []
  rwDrv : List (Option Nat) := []
  rwRanges : List Range := []
  rwODrv : List (Option Nat) := []
  rwORanges : List Range := []
  rwVals : List (Nat × BV4) := []

structure Stats where
  cases : Nat := 0
  ops : Nat := 0                  -- traces compared with F
  diffs : Nat := 0
  propfails : Nat := 0
  adefCases : Nat := 0
  ppfail : Nat := 0
  boundaries : Nat := 0
  nosim : Nat := 0
  changedBoundaries : Nat := 0     -- boundaries whose trace differs textually from the reference (x -> defined etc.)
  cycles : Nat := 0
  regCases : Nat := 0
  nets : Nat := 0
  netSkips : Nat := 0
  nodeEvals : Nat := 0           -- node values recomputed with the Lean node semantics and compared with the simulator
  netCycles : Nat := 0
  regEvals : Nat := 0            -- register transitions recomputed with `regEdge` and compared with the simulator
  regSkips : Nat := 0            -- transitions not checked because the reset changed between the two sample points
  regResetEvals : Nat := 0       -- … of which taken in reset
  regEnableEvals : Nat := 0      -- … of which with a connected enable
  autoEvals : Nat := 0           -- node values of the autonomous clocked Lean run (register state carried by the model) compared with the simulator
  autoCycles : Nat := 0          -- cycles of autonomous runs
  autoRestarts : Nat := 0        -- autonomous runs (re)started from the simulator's register values (first cycle, reset changing)
  kindHist : List (String × Nat) := []
  hist : List (String × Nat) := []
  rwCases : Nat := 0             -- Node_Rewire::optimize cases replayed on the model and evaluated before/after
  rwChanged : Nat := 0           -- … in which the operation or the wiring changed
  rwHist : List (String × Nat) := []

def bump (h : List (String × Nat)) (k : String) : List (String × Nat) :=
  match h with
  | [] => [(k, 1)]
  | (a, n) :: t => if a == k then (a, n+1) :: t else (a, n) :: bump t k

def parseRow (toks : List String) : List Value := toks.map String.toList

def setAt (l : List (Nat × Trace)) (i : Nat) (row : List Value) : List (Nat × Trace) :=
  match l with
  | [] => [(i, [row])]
  | (j, t) :: rest => if i == j then (j, t ++ [row]) :: rest else (j, t) :: setAt rest i row

def showRow (r : List Value) : String := " ".intercalate (r.map String.ofList)

def finish (c : Case) (st : Stats) : IO Stats := do
  let mut st := st
  if c.id == "" then return st
  if c.isRw then return st
  if c.ppfail then return { st with ppfail := st.ppfail + 1 }
  for (i, tr) in c.bts do
    st := { st with ops := st.ops + 1 }
    if !F c.ref tr c.adef then
      let pass := match c.passes.find? (·.1 == i) with | some (_, n, _) => n | none => "?"
      let t := (firstBad c.ref tr c.adef).getD 0
      IO.println s!"PROPFAIL case={c.id} what=pass-boundary boundary={i} pass={pass} cycle={t} adef={c.adef} ref=[{showRow (c.ref.getD t [])}] got=[{showRow (tr.getD t [])}]"
      st := { st with propfails := st.propfails + 1 }
  if c.hasFin then
    st := { st with ops := st.ops + 1 }
    if !F c.ref c.fin c.adef then
      let t := (firstBad c.ref c.fin c.adef).getD 0
      -- name the first pass after which the trace was no longer the reference trace
      let firstChanged := match c.passes.find? (fun p => p.2.2 == "diff") with | some (i, n, _) => s!"{i}:{n}" | none => "-"
      IO.println s!"PROPFAIL case={c.id} what=final cycle={t} adef={c.adef} first_changed_boundary={firstChanged} ref=[{showRow (c.ref.getD t [])}] got=[{showRow (c.fin.getD t [])}]"
      st := { st with propfails := st.propfails + 1 }
  else
    IO.println s!"DIFF case={c.id} what=no-final-trace"
    st := { st with diffs := st.diffs + 1 }
  return st


/-- re-evaluate every node of a dumped netlist with `Gatery.Nodes.evalNode` on the implementation's values of its inputs
    (pins and register outputs are taken from the implementation); returns the indices where the implementation differs -/
def recheck (nodes : Array (NetNode × String)) (impl : Array (Option BV4)) : List (Nat × String × String) × Nat × Array (Option BV4) := Id.run do
  let mut bad : List (Nat × String × String) := []
  let mut evals := 0
  -- values seen by consumers: the implementation's value where it has one; signal nodes own no simulator state
  -- (`?`): they forward the value of their driver
  let mut vals : Array (Option BV4) := Array.replicate nodes.size none
  for i in [0:nodes.size] do
    let (n, name) := nodes[i]!
    let ins : Ins := n.ins.map fun o => match o with | none => none | some j => (vals.getD j none)
    let model : Option BV4 := match n.kind with
      | .signal => ins.getD 0 none
      | .node k _ => some (evalNode k n.w ins)
      | .input _ => impl.getD i none
      | .tristate _ => impl.getD i none   -- not produced by the C01 harness
    match impl.getD i none with
    | none => vals := vals.set! i (if name == "sig" then model else none)
    | some v =>
      vals := vals.set! i (some v)
      if name != "in" && name != "reg" then
        evals := evals + 1
        match model with
        | some m => if m != v then bad := (i, BV4.toString m, BV4.toString v) :: bad
        | none => if name != "sig" then bad := (i, "none", BV4.toString v) :: bad
  return (bad.reverse, evals, vals)

/-- re-evaluate every register transition between two consecutive sample points with `Gatery.Nodes.regEdge`:
    the register value at this sample point must be the model's clock edge applied to the data / reset value / enable
    values and the register value of the previous sample point -/
def recheckRegs (nodes : Array (NetNode × String)) (prev : Array (Option BV4)) (impl : Array (Option BV4)) (inReset : Bool) :
    List (Nat × String × String) × Nat × Nat := Id.run do
  let mut bad : List (Nat × String × String) := []
  let mut evals := 0
  let mut withEn := 0
  for i in [0:nodes.size] do
    let (n, name) := nodes[i]!
    if name != "reg" then continue
    match prev.getD i none, impl.getD i none with
    | some old, some now =>
      let port := fun (k : Nat) => look prev.toList ((n.ins.getD k none))
      evals := evals + 1
      if (n.ins.getD 2 none).isSome then withEn := withEn + 1
      let m := regEdge n.w (port 0) (port 1) (port 2) inReset old
      if m != now then bad := (i, BV4.toString m, BV4.toString now) :: bad
    | _, _ => pure ()
  return (bad.reverse, evals, withEn)

/-- one cycle of the autonomous clocked run (`Gatery.Nodes.seqRun`, incrementally): pins from the stimulus, register outputs from the
    model's own state (`regs`, none = take the simulator's value: start of a run), every other node by `evalNode` on MODEL values;
    returns the model values and the nodes where the simulator differs -/
def autoCycle (nodes : Array (NetNode × String)) (impl : Array (Option BV4)) (regs : Option (Array (Option BV4))) :
    Array (Option BV4) × List (Nat × String × String) × Nat := Id.run do
  let mut vals : Array (Option BV4) := Array.replicate nodes.size none
  let mut bad : List (Nat × String × String) := []
  let mut evals := 0
  for i in [0:nodes.size] do
    let (n, name) := nodes[i]!
    let ins : Ins := n.ins.map fun o => match o with | none => none | some j => (vals.getD j none)
    let model : Option BV4 := match n.kind with
      | .signal => ins.getD 0 none
      | .node k _ => (match impl.getD i none with | none => none | some _ => some (evalNode k n.w ins))   -- a node without simulator state (optimised away) has none
      | .input _ => if name == "reg" then (match regs with | some r => r.getD i none | none => impl.getD i none) else impl.getD i none
      | .tristate _ => impl.getD i none   -- not produced by the C01 harness
    vals := vals.set! i model
    match impl.getD i none, model with
    | some v, some m =>
      if name != "in" then
        evals := evals + 1
        if m != v then bad := (i, BV4.toString m, BV4.toString v) :: bad
    | _, _ => pure ()
  return (vals, bad.reverse, evals)

/-- the model's register values after the clock edge following a cycle with model values `prev` -/
def autoNextRegs (nodes : Array (NetNode × String)) (prev : Array (Option BV4)) (inReset : Bool) : Array (Option BV4) := Id.run do
  let mut regs : Array (Option BV4) := Array.replicate nodes.size none
  for i in [0:nodes.size] do
    let (n, name) := nodes[i]!
    if name != "reg" then continue
    match prev.getD i none with
    | some old =>
      let port := fun (k : Nat) => look prev.toList ((n.ins.getD k none))
      regs := regs.set! i (some (regEdge n.w (port 0) (port 1) (port 2) inReset old))
    | none => pure ()
  return regs

partial def loop (h : IO.FS.Stream) (c : Case) (st : Stats) : IO Stats := do
  let line ← h.getLine
  if line.isEmpty then finish c st
  else
  let toks := (line.trimAscii.toString.splitOn " ").filter (· ≠ "")
  match toks with
  | "case" :: k :: _ =>
    let st ← finish c st
    loop h { id := k } { st with cases := st.cases + 1 }
  | ["adef", v] => loop h { c with adef := v == "1" } { st with adefCases := st.adefCases + (if v == "1" then 1 else 0) }
  | "step" :: _ :: kind :: _ => loop h c { st with hist := bump st.hist kind }
  | "ref" :: _ :: row => loop h { c with ref := c.ref ++ [parseRow row] } { st with cycles := st.cycles + 1 }
  | "fin" :: _ :: row => loop h { c with fin := c.fin ++ [parseRow row], hasFin := true } st
  | "bt" :: i :: _ :: row => loop h { c with bts := setAt c.bts i.toNat! (parseRow row) } st
  | "bd" :: i :: name :: status :: _ =>
    let st := { st with boundaries := st.boundaries + 1,
                        nosim := st.nosim + (if status == "nosim" then 1 else 0),
                        changedBoundaries := st.changedBoundaries + (if status == "diff" then 1 else 0) }
    loop h { c with passes := c.passes ++ [(i.toNat!, name, status)] } st
  | "ppfail" :: _ => loop h { c with ppfail := true } st
  | ["netbegin", tag] => loop h { c with netTag := tag, curNet := #[] } st
  | "netskip" :: _ => loop h c { st with netSkips := st.netSkips + 1 }
  | "n" :: rest =>
    match Drv.parseNode rest with
    | some (n, _, name) => loop h { c with curNet := c.curNet.push (n, name) } { st with kindHist := bump st.kindHist name }
    | none =>
      IO.println s!"DIFF case={c.id} what=unparsed-net-node line=[{line.trimAscii}]"
      loop h c { st with diffs := st.diffs + 1 }
  | ["netend", tag] => loop h { c with nets := (tag, c.curNet) :: c.nets } { st with nets := st.nets + 1 }
  | "nv" :: tag :: cyc :: vals =>
    match c.nets.find? (·.1 == tag) with
    | none => loop h c st
    | some (_, nodes) =>
      let impl : Array (Option BV4) := (vals.map fun s => if s == "?" then none else some (BV4.ofString s)).toArray
      let (bad, evals, vals) := recheck nodes impl
      let mut st := { st with nodeEvals := st.nodeEvals + evals, netCycles := st.netCycles + 1 }
      match bad with
      | [] => pure ()
      | (i, m, v) :: _ =>
        let kind := (nodes[i]?.map (·.2)).getD "?"
        IO.println s!"DIFF case={c.id} what=backbone net={tag} cycle={cyc} node={i} kind={kind} model={m} impl={v} (and {bad.length - 1} more)"
        st := { st with diffs := st.diffs + 1 }
      -- register transitions from the previous sample point
      let cycN := cyc.toNat!
      let rst := fun (k : Nat) => (c.resets.find? fun (t, n, _) => t == tag && n == k).map (·.2.2)
      match c.prevVals.find? (·.1 == tag) with
      | some (_, pc, pv) =>
        if pc + 1 == cycN then
          match rst pc, rst cycN with
          | some r0, some r1 =>
            if r0 == r1 then
              let (rbad, revals, withEn) := recheckRegs nodes pv impl r0
              st := { st with regEvals := st.regEvals + revals, regEnableEvals := st.regEnableEvals + withEn,
                              regResetEvals := st.regResetEvals + (if r0 then revals else 0) }
              match rbad with
              | [] => pure ()
              | (i, m, v) :: _ =>
                IO.println s!"DIFF case={c.id} what=register-transition net={tag} cycle={cyc} node={i} inreset={r0} model={m} impl={v} (and {rbad.length - 1} more)"
                st := { st with diffs := st.diffs + 1 }
            else st := { st with regSkips := st.regSkips + 1 }
          | _, _ => pure ()
      | none => pure ()
      let c := { c with prevVals := (tag, cycN, vals) :: c.prevVals.filter (·.1 != tag) }
      -- autonomous clocked run: the register state is carried by the model from cycle to cycle
      let regsNow : Option (Array (Option BV4)) :=
        match c.auto.find? (·.1 == tag) with
        | some (_, pc, pv) =>
          if pc + 1 == cycN then
            match rst pc, rst cycN with
            | some r0, some r1 => if r0 == r1 then some (autoNextRegs nodes pv r0) else none
            | _, _ => none
          else none
        | none => none
      let (avals, abad, aevals) := autoCycle nodes impl regsNow
      st := { st with autoEvals := st.autoEvals + aevals, autoCycles := st.autoCycles + 1,
                      autoRestarts := st.autoRestarts + (if regsNow.isNone then 1 else 0) }
      match abad with
      | [] => pure ()
      | (i, m, v) :: _ =>
        let kind := (nodes[i]?.map (·.2)).getD "?"
        IO.println s!"DIFF case={c.id} what=seqrun net={tag} cycle={cyc} node={i} kind={kind} model={m} impl={v} (and {abad.length - 1} more)"
        st := { st with diffs := st.diffs + 1 }
      -- after a difference the run is restarted from the simulator's values so that one cause is reported once
      let c := { c with auto := if abad.isEmpty then (tag, cycN, avals) :: c.auto.filter (·.1 != tag) else c.auto.filter (·.1 != tag) }
      loop h c st
  | "cs" :: selS :: w :: ndata :: rest =>
    -- Circuit::removeConstSelectMuxes on one multiplexer: model decision (DIFF) and the meaning of the implementation's decision (PROPFAIL)
    let w := w.toNat!; let nd := ndata.toNat!
    let dataVals : List (Option BV4) := (rest.take nd).map fun v => some (BV4.ofString v)
    let res := (rest.drop (nd + 1)).headD "?"
    let mut st := { st with rwCases := st.rwCases + 1, ops := st.ops + 1 }
    let model : String := if selS == "pin" then "stay" else
      match constSelectBypass (BV4.ofString selS) nd with | some k => toString k | none => "stay"
    st := { st with rwHist := bump st.rwHist (if res == "stay" then "constselect_stays" else "constselect_bypassed") }
    if model != res then
      IO.println s!"DIFF case={c.id} what=removeConstSelectMuxes sel={selS} ndata={nd} model={model} impl={res}"
      st := { st with diffs := st.diffs + 1 }
    if res != "stay" && selS != "pin" then
      let k := res.toNat?.getD 1000
      let muxVal := evalMux w (some (BV4.ofString selS) :: dataVals)
      let byp := copyIn w (dataVals.getD k none)
      if muxVal != byp then
        IO.println s!"PROPFAIL case={c.id} what=removeConstSelectMuxes pass=removeConstSelectMuxes sel={selS} bypassed_to={res} mux_value={BV4.toString muxVal} input_value={BV4.toString byp}"
        st := { st with propfails := st.propfails + 1 }
    if res != "stay" && selS == "pin" then
      IO.println s!"PROPFAIL case={c.id} what=removeConstSelectMuxes pass=removeConstSelectMuxes a mux with a non-constant selector was bypassed to input {res}"
      st := { st with propfails := st.propfails + 1 }
    loop h { c with isRw := true } st
  | ["rwk", s] =>
    let ks : List CK := if s == "." then [] else (s.splitOn ",").map fun t => if t == "z" then CK.zero else if t == "o" then CK.one else CK.other
    loop h { c with isRw := true, rwKinds := ks } st
  | ["rwd", s] => loop h { c with rwDrv := if s == "." then [] else (s.splitOn ",").map fun t => if t == "-" then none else some t.toNat! } st
  | ["rwr", s] => loop h { c with rwRanges := if s == "-" then [] else (s.splitOn ",").map Drv.parseRange } st
  | ["rwod", s] => loop h { c with rwODrv := if s == "." then [] else (s.splitOn ",").map fun t => if t == "-" then none else some (t.toNat?.getD 1000000) } st
  | ["rwor", s] => loop h { c with rwORanges := if s == "-" then [] else (s.splitOn ",").map Drv.parseRange } st
  | ["rwn", impl, nin, w0, same] =>
    let m := rewireIsNoOp nin.toNat! (if w0 == "-" then none else some w0.toNat!) (same == "1") c.rwRanges
    let mut st := st
    if m then st := { st with rwHist := bump st.rwHist "isNoOp_true" }
    if m != (impl == "1") then
      IO.println s!"DIFF case={c.id} what=rewire-isNoOp model={m} impl={impl}"
      st := { st with diffs := st.diffs + 1 }
    -- the property on the implementation's answer: a node declared a no-op must compute the value at its input 0
    if impl == "1" then
      let val : Option Nat → Option BV4 := fun o => match o with
        | none => none
        | some i => (c.rwVals.find? (·.1 == i)).map (·.2)
      let ins := c.rwDrv.map val
      let v := evalRewire c.rwRanges ins
      if some v != ins.getD 0 none then
        IO.println s!"PROPFAIL case={c.id} what=rewire-isNoOp pass=removeNoOps node_value={BV4.toString v} input0={((ins.getD 0 none).map BV4.toString).getD "none"}"
        st := { st with propfails := st.propfails + 1 }
    loop h c st
  | ["rwv", id, v] => loop h { c with rwVals := (id.toNat!, BV4.ofString v) :: c.rwVals } st
  | ["rwe"] =>
    let (mr, md) := rewireOptimize c.rwKinds c.rwDrv c.rwRanges
    let val : Option Nat → Option BV4 := fun o => match o with
      | none => none
      | some i => (c.rwVals.find? (·.1 == i)).map (·.2)
    let showR := fun (rs : List Range) => ",".intercalate (rs.map fun r => match r.src with
      | .input i o => s!"i:{i}:{o}:{r.subwidth}" | .zero => s!"z:{r.subwidth}" | .one => s!"o:{r.subwidth}" | .undef => s!"u:{r.subwidth}")
    let showD := fun (ds : List (Option Nat)) => ",".intercalate (ds.map fun d => match d with | none => "-" | some i => toString i)
    let mut st := { st with rwCases := st.rwCases + 1, ops := st.ops + 1 }
    if c.rwORanges != c.rwRanges || c.rwODrv != c.rwDrv then st := { st with rwChanged := st.rwChanged + 1 }
    if c.rwORanges.length < (c.rwRanges.filter (·.subwidth != 0)).length then st := { st with rwHist := bump st.rwHist "ranges_merged" }
    if c.rwRanges.any (·.subwidth == 0) then st := { st with rwHist := bump st.rwHist "zero_width_dropped" }
    if (c.rwRanges.filter fun r => match r.src with | .input _ _ => true | _ => false).length >
       (c.rwORanges.filter fun r => match r.src with | .input _ _ => true | _ => false).length then st := { st with rwHist := bump st.rwHist "constants_folded_or_merged" }
    if c.rwODrv.length < c.rwDrv.length then st := { st with rwHist := bump st.rwHist "inputs_removed_or_shared" }
    if mr != c.rwORanges || md != c.rwODrv then
      IO.println s!"DIFF case={c.id} what=rewire-optimize model=[{showR mr} | {showD md}] impl=[{showR c.rwORanges} | {showD c.rwODrv}]"
      st := { st with diffs := st.diffs + 1 }
    let before := evalRewire c.rwRanges (c.rwDrv.map val)
    let after := evalRewire c.rwORanges (c.rwODrv.map val)
    if before != after then
      IO.println s!"PROPFAIL case={c.id} what=rewire-optimize pass=Node_Rewire.optimize before={BV4.toString before} after={BV4.toString after} op=[{showR c.rwRanges}] optimized=[{showR c.rwORanges}]"
      st := { st with propfails := st.propfails + 1 }
    loop h c st
  | ["nr", tag, cyc, r] => loop h { c with resets := (tag, cyc.toNat!, r == "1") :: c.resets } st
  | ["end"] =>
    let st ← finish c st
    loop h {} st
  | _ => loop h c st

def main : IO Unit := do
  let st ← loop (← IO.getStdin) {} {}
  let hist := ",".intercalate (st.hist.map fun (k, n) => s!"\"{k}\":{n}")
  let rwhist := ",".intercalate (st.rwHist.map fun (k, n) => s!"\"{k}\":{n}")
  IO.println s!"SUMMARY \{\"cases\":{st.cases},\"ops\":{st.ops},\"diffs\":{st.diffs},\"propfails\":{st.propfails},\"fully_defined_reference_runs\":{st.adefCases},\"postprocess_threw\":{st.ppfail},\"pass_boundaries\":{st.boundaries},\"boundaries_not_simulatable\":{st.nosim},\"boundaries_with_changed_trace\":{st.changedBoundaries},\"cycles\":{st.cycles},\"netlists_rechecked\":{st.nets},\"netlists_skipped\":{st.netSkips},\"node_values_rechecked_with_lean_semantics\":{st.nodeEvals},\"register_transitions_rechecked_with_lean_semantics\":{st.regEvals},\"register_transitions_in_reset\":{st.regResetEvals},\"register_transitions_with_enable\":{st.regEnableEvals},\"register_transitions_skipped_reset_changing\":{st.regSkips},\"seqrun_node_values_compared\":{st.autoEvals},\"seqrun_cycles\":{st.autoCycles},\"seqrun_restarts_from_simulator_state\":{st.autoRestarts},\"rewire_optimize_cases\":{st.rwCases},\"rewire_optimize_changed\":{st.rwChanged},\"rewire_optimize_hist\":\{{rwhist}},\"hist\":\{{hist}}}"
