import GateryModel.C02.Vhdl.Kernel
/-!
Driver for C02.  Per case the harness sends the recipe, the text of the REAL exported `.vhd` files, of `testbench.vhd` and the
recorded `testbench.testvectors`.  The driver parses the files (`Vhdl/Parse.lean`), elaborates and interprets them
(`Vhdl/Sem.lean`, `Vhdl/Kernel.lean`) under the recorded SET/RST/ADV stream and evaluates every CHECK.

* `DIFF`     — the export is outside the modelled subset (file not parsed / not elaborated): the model does not cover it.
* `PROPFAIL` — the property fails: a CHECK does not hold at its time, the interpretation stops with a VHDL error
               (type / length / index error, oscillation), or the text contains a construct that is illegal VHDL.

The VHDL semantics used here is this project's model of IEEE 1076 / numeric_std, not a second simulator.
-/
open Gatery.C02.Vhdl
open Std

structure CaseData where
  id : String := ""
  header : String := ""
  recipe : Array String := #[]
  files : Array (String × String) := #[]
  tb : String := ""
  vectors : Array String := #[]
  skipped : Bool := false

structure Stats where
  cases : Nat := 0
  skipped : Nat := 0
  diffs : Nat := 0
  propfails : Nat := 0
  ops : Nat := 0                 -- CHECK lines evaluated
  definedBits : Nat := 0
  sets : Nat := 0
  edges : Nat := 0
  deltas : Nat := 0
  procRuns : Nat := 0
  files : Nat := 0
  entities : Nat := 0
  instances : Nat := 0
  combProcs : Nat := 0
  clockedProcs : Nat := 0
  hist : HashMap String Nat := {}

def Stats.bump (s : Stats) (k : String) (n : Nat := 1) : Stats := { s with hist := s.hist.insert k (s.hist.getD k 0 + n) }

/-! construct histograms over the parsed AST -/

def binName : BinOp → String
  | .and => "and" | .or => "or" | .xor => "xor" | .nand => "nand" | .nor => "nor" | .xnor => "xnor"
  | .eq => "eq" | .ne => "ne" | .lt => "lt" | .gt => "gt" | .le => "le" | .ge => "ge"
  | .add => "add" | .sub => "sub" | .mul => "mul" | .cat => "cat"

partial def exprKinds (e : Expr) (acc : List String) : List String :=
  match e with
  | .name _ => acc
  | .index _ i => exprKinds i ("x:index" :: acc)
  | .slice _ _ _ => "x:slice" :: acc
  | .chr _ => "x:chr" :: acc
  | .str _ => "x:str" :: acc
  | .boolLit _ => "x:boollit" :: acc
  | .int _ => acc
  | .others _ => "x:others" :: acc
  | .agg0 e => exprKinds e ("x:agg0" :: acc)
  | .not e => exprKinds e ("x:not" :: acc)
  | .bin o a b => exprKinds a (exprKinds b (("x:" ++ binName o) :: acc))
  | .call1 f a => exprKinds a ((match f with | .toUnsigned => "x:UNSIGNED()" | .toSlv => "x:SLV()" | .toInteger => "x:to_integer" | .bool2sl => "x:bool2stdlogic" | .sl2bool => "x:stdlogic2bool") :: acc)
  | .call2 f a b => exprKinds a (exprKinds b ((match f with | .resize => "x:resize" | .shiftLeft => "x:shift_left" | .shiftRight => "x:shift_right") :: acc))
  | .edge r _ => (if r then "x:rising_edge" else "x:falling_edge") :: acc
  | .event _ => "x:event" :: acc
  | .paren e => exprKinds e acc

mutual
  partial def stmtKinds (s : Stmt) (acc : List String) : List String :=
    match s with
    | .sigAssign (.name _) e => exprKinds e ("s:sig<=" :: acc)
    | .sigAssign (.index _ i) e => exprKinds i (exprKinds e ("s:mem<=" :: acc))
    | .varAssign _ e => exprKinds e ("s:var:=" :: acc)
    | .ite c t e => exprKinds c (stmtsKinds t (stmtsKinds e ("s:if" :: acc)))
    | .case sel a => exprKinds sel (altsKinds a ("s:case" :: acc))
    | .assert c => exprKinds c ("s:assert" :: acc)
  partial def stmtsKinds (s : Stmts) (acc : List String) : List String :=
    match s with
    | .nil => acc
    | .cons s r => stmtKinds s (stmtsKinds r acc)
  partial def altsKinds (a : Alts) (acc : List String) : List String :=
    match a with
    | .nil => acc
    | .cons c b r => stmtsKinds b (altsKinds r ((if c.isSome then "s:when" else "s:when_others") :: acc))
end

partial def concStats (st : Stats) (cs : List Conc) : Stats := Id.run do
  let mut st := st
  for c in cs do
    match c with
    | .process _ sens decls body =>
      st := if sens.isNone then { st with combProcs := st.combProcs + 1 } else { st with clockedProcs := st.clockedProcs + 1 }
      if let some l := sens then if l.length == 2 then st := st.bump "p:async_reset_process"
      for k in stmtsKinds body [] do st := st.bump k
      for d in decls do
        st := st.bump (match d.kind with | .variable => "d:variable" | .constant => "d:constant" | .signal => "d:signal")
    | .inst _ _ m =>
      st := { st with instances := st.instances + 1 }
      for a in m do
        if a.formalConv.isSome then st := st.bump "m:formal_conversion"
        match a.actual with
        | none => st := st.bump "m:open"
        | some (.name _) => pure ()
        | some (.call1 _ _) => st := st.bump "m:actual_conversion"
        | some _ => st := st.bump "m:actual_expression"
    | .assign _ _ c _ => st := st.bump (if c.isSome then "c:conditional_assign" else "c:assign")
    | .block _ _ body => st := concStats (st.bump "c:block") body
  return st

def jsonStr (s : String) : String :=
  "\"" ++ String.join (s.toList.map fun c => if c == '"' then "\\\"" else if c == '\\' then "\\\\" else if c.toNat < 32 then " " else c.toString) ++ "\""

def short (s : String) (n : Nat := 300) : String := if s.length > n then (s.take n).toString ++ "…" else s

def maxWidthOf (ents : List Entity) : Nat :=
  ents.foldl (fun m e => e.ports.foldl (fun m p => max m (tyWidth p.ty)) (e.decls.foldl (fun m d => max m (tyWidth d.ty)) m)) 0

def runCase (c : CaseData) (st : Stats) : IO Stats := do
  let mut st := { st with cases := st.cases + 1 }
  let hd := c.header
  for kv in hd.splitOn " " do
    if kv.startsWith "reset=" || kv.startsWith "trig=" || kv.startsWith "mode=" || kv.startsWith "style=" || kv.startsWith "areas=" || kv.startsWith "extra=" || kv.startsWith "undef=" || kv.startsWith "pon=" || kv.startsWith "tri=" then
      st := st.bump ("opt:" ++ kv)
  let diff := fun (st : Stats) (what msg : String) => do
    IO.println s!"DIFF case={c.id} what={what} {hd} :: {short msg}"
    pure { st with diffs := st.diffs + 1 }
  let pfail := fun (st : Stats) (what msg : String) => do
    IO.println s!"PROPFAIL case={c.id} what={what} {hd} :: {short msg}"
    pure { st with propfails := st.propfails + 1 }
  -- 1. parse
  let mut units : List RawUnits := []
  for (fname, text) in c.files do
    st := { st with files := st.files + 1 }
    match parseFileUnits text with
    | .ok u => units := units ++ [u]
    | .error e =>
      if (e.splitOn "illegal VHDL").length > 1 then return ← pfail st "illegal_vhdl" s!"file={fname} {e}"
      else return ← diff st "unparsed" s!"file={fname} {e}"
  -- helper package as modelled?
  for u in units do
    for (n, body) in u.packages do
      if n == "body gateryhelperpackage" && !body.startsWith helperPackageBodyText then
        return ← diff st "helper_package" s!"GateryHelperPackage body differs from the modelled text: {short body 200}"
  let design ← match assemble units with
    | .ok d => pure d
    | .error e => return ← diff st "assemble" e
  let hdr ← match parseTbHeader c.tb with
    | .ok h => pure h
    | .error e => return ← diff st "testbench" e
  let items ← match parseVectors c.vectors.toList with
    | .ok i => pure i
    | .error e => return ← diff st "vectors" e
  -- 2. elaborate
  let (flat, top) ← match elaborate design "top" hdr.sigInit with
    | .ok r => pure r
    | .error e => return ← pfail st "elaboration_error" e
  st := { st with entities := st.entities + design.entities.length }
  for e in design.entities do st := concStats st e.body
  st := st.bump "max_width" 0
  st := { st with hist := st.hist.insert "max_width" (max (st.hist.getD "max_width" 0) (maxWidthOf design.entities)) }
  let tbDriven := (top.ports.filter (·.dir != .output)).map (·.name)
  let k := mkKernel flat tbDriven
  for (cn, _) in hdr.clocks do
    if !(top.ports.any (·.name == cn)) then return ← diff st "testbench" s!"clock '{cn}' of the testbench is not a port of top"
  -- 3. replay
  match replay k top hdr items with
  | .error e => return ← pfail st "vhdl_runtime_error" e
  | .ok r =>
    st := { st with ops := st.ops + r.checks, definedBits := st.definedBits + r.definedBitsChecked, sets := st.sets + r.sets, edges := st.edges + r.edges,
                    deltas := st.deltas + r.deltas, procRuns := st.procRuns + r.procRuns }
    if r.checks == 0 then st := st.bump "cases_without_checks"
    match r.fails with
    | [] => return st
    | f :: _ =>
      if (← IO.getEnv "C02_DEBUG").isSome then
        for (n, v) in (r.dump.toArray.qsort (fun a b => a.1 < b.1)).toList do IO.eprintln s!"  {n} = {v}"
      let what := if r.fails.all (fun x => r.firstSetLine == 0 || x.line < r.firstSetLine) then "check_precedes_first_set"
        else if r.fails.any (·.hard) then "check_mismatch_value"
        else if r.fails.any (fun x => x.got.contains 'U') then "check_mismatch_uninitialised"
        else "check_mismatch_metavalue"
      let f := if what == "check_mismatch_value" then (r.fails.find? (·.hard)).getD f else f
      return ← pfail st what s!"vector_line={f.line} signal={f.sig} expected={f.expected} got={f.got} time_fs={f.timeFs} failing_checks={r.fails.length} of {r.checks}"

def stripPayload (l : String) : String := if l.startsWith "| " then (l.drop 2).toString else if l == "|" then "" else l

partial def loop (h : IO.FS.Stream) (st : Stats) (cur : Option CaseData) : IO Stats := do
  let line ← h.getLine
  if line.isEmpty then return st
  let l := (if line.endsWith "\n" then (line.dropEnd 1).toString else line)
  if l.startsWith "case " then
    let id := (l.splitOn " ")[1]!
    loop h st (some { id, header := ((l.splitOn " ").drop 2 |> " ".intercalate) })
  else if l.startsWith "skip " then
    loop h ({ st with skipped := st.skipped + 1 }.bump ("skip:" ++ ((l.splitOn " ").getD 2 "?"))) none
  else if l.startsWith "file " || l.startsWith "tb " || l.startsWith "vectors " then
    let parts := l.splitOn " "
    let n := (parts.getLast!).toNat!
    let mut lines : Array String := #[]
    for _ in [0:n] do
      let pl ← h.getLine
      lines := lines.push (stripPayload (if pl.endsWith "\n" then (pl.dropEnd 1).toString else pl))
    match cur with
    | some c =>
      if l.startsWith "file " then loop h st (some { c with files := c.files.push (parts[1]!, "\n".intercalate lines.toList) })
      else if l.startsWith "tb " then loop h st (some { c with tb := "\n".intercalate lines.toList })
      else loop h st (some { c with vectors := lines })
    | none => loop h st none
  else if l.startsWith "end" then
    match cur with
    | some c => let st ← runCase c st; loop h st none
    | none => loop h st none
  else
    match cur with
    | some c => loop h st (some { c with recipe := c.recipe.push l })
    | none => loop h st none

def main : IO Unit := do
  let stdin ← IO.getStdin
  let st ← loop stdin {} none
  let hist := (st.hist.toList.toArray.qsort (fun a b => a.1 < b.1)).toList
  let histJson := ",".intercalate (hist.map fun (k, v) => s!"{jsonStr k}:{v}")
  IO.println ("SUMMARY {" ++ s!"\"cases\":{st.cases},\"skipped\":{st.skipped},\"diffs\":{st.diffs},\"propfails\":{st.propfails},\"ops\":{st.ops}," ++
    s!"\"defined_bits_checked\":{st.definedBits},\"sets\":{st.sets},\"clock_toggles\":{st.edges},\"delta_cycles\":{st.deltas},\"process_runs\":{st.procRuns}," ++
    s!"\"files\":{st.files},\"entities\":{st.entities},\"instances\":{st.instances},\"comb_processes\":{st.combProcs},\"clocked_processes\":{st.clockedProcs}," ++
    "\"constructs\":{" ++ histJson ++ "}}")
