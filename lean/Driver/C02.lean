import GateryModel.C02.Vhdl.Kernel
import GateryModel.C02.ExportNet
/-!
Driver for C02.  Per case the harness sends the recipe, the text of the REAL exported `.vhd` files, of `testbench.vhd` and the
recorded `testbench.testvectors`.  The driver parses the files (`Vhdl/Parse.lean`), elaborates and interprets them
(`Vhdl/Sem.lean`, `Vhdl/Kernel.lean`) under the recorded SET/RST/ADV stream and evaluates every CHECK.

* `DIFF`     — the export is outside the modelled subset (file not parsed / not elaborated): the model does not cover it.
* `PROPFAIL` — the property fails: a CHECK does not hold at its time, the interpretation stops with a VHDL error
               (type / length / index error, oscillation), or the text contains a construct that is illegal VHDL.

The VHDL semantics used here is this project's model of IEEE 1076 / numeric_std, not a second simulator.
-/
open Gatery.C02.Vhdl
open Gatery.C02
open Std

/-! canonical text of expressions / statements (used to compare the parsed file with the model output) -/

def binText : BinOp → String
  | .and => "and" | .or => "or" | .xor => "xor" | .nand => "nand" | .nor => "nor" | .xnor => "xnor"
  | .eq => "=" | .ne => "/=" | .lt => "<" | .gt => ">" | .le => "<=" | .ge => ">="
  | .add => "+" | .sub => "-" | .mul => "*" | .cat => "&"

partial def exprText : Expr → String
  | .name n => n.toLower
  | .index n i => s!"{n.toLower}({exprText i})"
  | .slice n h l => s!"{n.toLower}({h} downto {l})"
  | .chr c => s!"'{c.toChar}'"
  | .str b => "\"" ++ bitsToString b ++ "\""
  | .boolLit b => if b then "true" else "false"
  | .int n => toString n
  | .others c => s!"(others => '{c.toChar}')"
  | .agg0 e => s!"(0 => {exprText e})"
  | .not e => s!"not {exprText e}"
  | .bin o a b => s!"{exprText a} {binText o} {exprText b}"
  | .call1 f a => (match f with | .toUnsigned => "unsigned" | .toSlv => "std_logic_vector" | .toInteger => "to_integer" | .bool2sl => "bool2stdlogic" | .sl2bool => "stdlogic2bool") ++ s!"({exprText a})"
  | .call2 f a b => (match f with | .resize => "resize" | .shiftLeft => "shift_left" | .shiftRight => "shift_right") ++ s!"({exprText a}, {exprText b})"
  | .edge r c => (if r then "rising_edge(" else "falling_edge(") ++ c.toLower ++ ")"
  | .event n => n.toLower ++ "'event"
  | .paren e => s!"({exprText e})"

mutual
  partial def stmtText : Stmt → String
    | .sigAssign (.name n) e => s!"{n.toLower} <= {exprText e};"
    | .sigAssign (.index n i) e => s!"{n.toLower}({exprText i}) <= {exprText e};"
    | .varAssign n e => s!"{n.toLower} := {exprText e};"
    | .ite c t e => s!"if {exprText c} then {stmtsText t} else {stmtsText e} end if;"
    | .case s a => s!"case {exprText s} is {altsText a} end case;"
    | .assert c => s!"assert {exprText c};"
  partial def stmtsText : Stmts → String
    | .nil => ""
    | .cons s r => stmtText s ++ " " ++ stmtsText r
  partial def altsText : Alts → String
    | .nil => ""
    | .cons c b r => (match c with | some bits => "when \"" ++ bitsToString bits ++ "\"" | none => "when others") ++ " => " ++ stmtsText b ++ altsText r
end

structure CaseData where
  id : String := ""
  header : String := ""
  recipe : Array String := #[]
  files : Array (String × String) := #[]
  tb : String := ""
  vectors : Array String := #[]
  xlines : Array String := #[]
  iolines : Array String := #[]      -- `stim` / `obs` lines: what the harness itself applied and observed
  skipped : Bool := false

structure Stats where
  cases : Nat := 0
  skipped : Nat := 0
  diffs : Nat := 0
  propfails : Nat := 0
  ops : Nat := 0                 -- CHECK lines evaluated
  definedBits : Nat := 0
  sets : Nat := 0
  edges : Nat := 0
  deltas : Nat := 0
  procRuns : Nat := 0
  files : Nat := 0
  entities : Nat := 0
  instances : Nat := 0
  combProcs : Nat := 0
  clockedProcs : Nat := 0
  hist : HashMap String Nat := {}

def Stats.bump (s : Stats) (k : String) (n : Nat := 1) : Stats := { s with hist := s.hist.insert k (s.hist.getD k 0 + n) }

/-! construct histograms over the parsed AST -/

def binName : BinOp → String
  | .and => "and" | .or => "or" | .xor => "xor" | .nand => "nand" | .nor => "nor" | .xnor => "xnor"
  | .eq => "eq" | .ne => "ne" | .lt => "lt" | .gt => "gt" | .le => "le" | .ge => "ge"
  | .add => "add" | .sub => "sub" | .mul => "mul" | .cat => "cat"

partial def exprKinds (e : Expr) (acc : List String) : List String :=
  match e with
  | .name _ => acc
  | .index _ i => exprKinds i ("x:index" :: acc)
  | .slice _ _ _ => "x:slice" :: acc
  | .chr _ => "x:chr" :: acc
  | .str _ => "x:str" :: acc
  | .boolLit _ => "x:boollit" :: acc
  | .int _ => acc
  | .others _ => "x:others" :: acc
  | .agg0 e => exprKinds e ("x:agg0" :: acc)
  | .not e => exprKinds e ("x:not" :: acc)
  | .bin o a b => exprKinds a (exprKinds b (("x:" ++ binName o) :: acc))
  | .call1 f a => exprKinds a ((match f with | .toUnsigned => "x:UNSIGNED()" | .toSlv => "x:SLV()" | .toInteger => "x:to_integer" | .bool2sl => "x:bool2stdlogic" | .sl2bool => "x:stdlogic2bool") :: acc)
  | .call2 f a b => exprKinds a (exprKinds b ((match f with | .resize => "x:resize" | .shiftLeft => "x:shift_left" | .shiftRight => "x:shift_right") :: acc))
  | .edge r _ => (if r then "x:rising_edge" else "x:falling_edge") :: acc
  | .event _ => "x:event" :: acc
  | .paren e => exprKinds e acc

mutual
  partial def stmtKinds (s : Stmt) (acc : List String) : List String :=
    match s with
    | .sigAssign (.name _) e => exprKinds e ("s:sig<=" :: acc)
    | .sigAssign (.index _ i) e => exprKinds i (exprKinds e ("s:mem<=" :: acc))
    | .varAssign _ e => exprKinds e ("s:var:=" :: acc)
    | .ite c t e => exprKinds c (stmtsKinds t (stmtsKinds e ("s:if" :: acc)))
    | .case sel a => exprKinds sel (altsKinds a ("s:case" :: acc))
    | .assert c => exprKinds c ("s:assert" :: acc)
  partial def stmtsKinds (s : Stmts) (acc : List String) : List String :=
    match s with
    | .nil => acc
    | .cons s r => stmtKinds s (stmtsKinds r acc)
  partial def altsKinds (a : Alts) (acc : List String) : List String :=
    match a with
    | .nil => acc
    | .cons c b r => stmtsKinds b (altsKinds r ((if c.isSome then "s:when" else "s:when_others") :: acc))
end

partial def concStats (st : Stats) (cs : List Conc) : Stats := Id.run do
  let mut st := st
  for c in cs do
    match c with
    | .process _ sens decls body =>
      st := if sens.isNone then { st with combProcs := st.combProcs + 1 } else { st with clockedProcs := st.clockedProcs + 1 }
      if let some l := sens then if l.length == 2 then st := st.bump "p:async_reset_process"
      for k in stmtsKinds body [] do st := st.bump k
      for d in decls do
        st := st.bump (match d.kind with | .variable => "d:variable" | .constant => "d:constant" | .signal => "d:signal")
    | .inst _ _ m =>
      st := { st with instances := st.instances + 1 }
      for a in m do
        if a.formalConv.isSome then st := st.bump "m:formal_conversion"
        match a.actual with
        | none => st := st.bump "m:open"
        | some (.name _) => pure ()
        | some (.call1 _ _) => st := st.bump "m:actual_conversion"
        | some _ => st := st.bump "m:actual_expression"
    | .assign _ _ c _ => st := st.bump (if c.isSome then "c:conditional_assign" else "c:assign")
    | .block _ _ body => st := concStats (st.bump "c:block") body
  return st

def jsonStr (s : String) : String :=
  "\"" ++ String.join (s.toList.map fun c => if c == '"' then "\\\"" else if c == '\\' then "\\\\" else if c.toNat < 32 then " " else c.toString) ++ "\""

def short (s : String) (n : Nat := 300) : String := if s.length > n then (s.take n).toString ++ "…" else s

def maxWidthOf (ents : List Entity) : Nat :=
  ents.foldl (fun m e => e.ports.foldl (fun m p => max m (tyWidth p.ty)) (e.decls.foldl (fun m d => max m (tyWidth d.ty)) m)) 0

/-! the exporter's view of the processes (harness `dumpExporterView`) -/

def parseNP (s : String) : Option NP :=
  if s == "-" then none else
  match s.splitOn ":" with
  | [a, b] => match a.toNat?, b.toNat? with | some x, some y => some (x, y) | _, _ => none
  | _ => none

def ctxOf (s : String) : Ctx := match s with | "SL" => .sl | "SLV" => .slv | "UNS" => .uns | _ => .bool

def bitsOfText (s : String) : Bits :=
  if s == "-" then [] else s.toList.reverse.map fun c => match c with | '0' => SL.O | '1' => SL.I | _ => SL.X

def kvOf (toks : List String) (key : String) : Option String :=
  (toks.find? (·.startsWith (key ++ "="))).map fun t => (t.drop (key.length + 1)).toString

def parseRanges (s : String) : List (Nat × RangeSrc) :=
  if s == "-" then [] else (s.splitOn ";").filterMap fun r =>
    match r.splitOn "," with
    | [w, "I", i, o] => some (w.toNat!, .input i.toNat! o.toNat!)
    | [w, "Z"] => some (w.toNat!, .zero)
    | [w, "O"] => some (w.toNat!, .one)
    | [w, "X"] => some (w.toNat!, .undef)
    | _ => none

def parseXProcs (lines : Array String) : List XProc := Id.run do
  let mut out : List XProc := []
  let mut cur : Option XProc := none
  for l in lines do
    let toks := l.splitOn " "
    match toks with
    | ["xproc", e, n, k] => cur := some { entity := e.toLower, name := n.toLower, isReg := k == "reg" }
    | ["xdecl", np, name, ty, cls] =>
      if let some p := cur then if let some x := parseNP np then cur := some { p with decls := p.decls ++ [(x, { name, ty := ctxOf ty, cls })] }
    | ["xpin", id, name, ty] =>
      if let some p := cur then cur := some { p with pins := p.pins ++ [(id.toNat!, name, ctxOf ty)] }
    | "xnode" :: id :: kind :: rest =>
      if let some p := cur then
        let outs := match kvOf rest "out" with
          | some "-" | none => []
          | some s => (s.splitOn ",").map fun o => (o.front, (o.drop 1).toString.toNat!)
        let ins := match kvOf rest "in" with
          | some "-" | none => []
          | some s => (s.splitOn ",").map parseNP
        let n : XNode := { id := id.toNat!, kind, outs, ins, op := (kvOf rest "op").getD "",
                           ranges := parseRanges ((kvOf rest "ranges").getD "-"), constVal := bitsOfText ((kvOf rest "val").getD "-"),
                           pinDir := (kvOf rest "dir").getD "" }
        cur := some { p with nodes := p.nodes.insert n.id n }
    | "xorder" :: ids => if let some p := cur then cur := some { p with order := ids.filterMap String.toNat? }
    | "xregclk" :: id :: rest =>
      if let some p := cur then
        let trig : Trigger := match kvOf rest "trig" with | some "F" => .falling | some "B" => .both | _ => .rising
        let kind : ResetKind := match kvOf rest "rtype" with | some "sync" => .sync | some "async" => .async | _ => .none
        cur := some { p with regClks := p.regClks ++ [(id.toNat!, trig, kind, (kvOf rest "high") == some "1", (kvOf rest "hasrv") == some "1")] }
    | ["xresetval", r, c] => if let some p := cur then cur := some { p with resetVals := p.resetVals ++ [(r.toNat!, c.toNat!)] }
    | "xregcfg" :: rest =>
      if let some p := cur then
        let kind : ResetKind := match kvOf rest "kind" with | some "sync" => .sync | some "async" => .async | _ => .none
        let trig : Trigger := match kvOf rest "trig" with | some "F" => .falling | some "B" => .both | _ => .rising
        cur := some { p with regCfg := some { clock := (kvOf rest "clock").getD "", reset := (kvOf rest "reset").getD "", kind,
                                              resetHigh := (kvOf rest "high") == some "1", trigger := trig } }
    | ["xend"] => if let some p := cur then out := out ++ [p]; cur := none
    | _ => pure ()
  return out

partial def findProcess (cs : List Conc) (label : String) : Option (Option (List String) × Stmts) :=
  match cs with
  | [] => none
  | .process l sens _ body :: r => if l == label then some (sens, body) else findProcess r label
  | .block _ _ body :: r => match findProcess body label with | some x => some x | none => findProcess r label
  | _ :: r => findProcess r label

/-- compare every dumped process with the model; returns (stats, first mismatch) -/
def compareExporterModel (design : DesignFile) (xs : List XProc) (st : Stats) : Stats × Option String := Id.run do
  let mut st := st
  let mut firstBad : Option String := none
  for p in xs do
    let parsed := (design.entities.find? (·.name == p.entity)).bind fun e => findProcess e.body p.name
    match parsed with
    | none => st := st.bump "k:process_not_found_in_file"
    | some (sens, body) =>
      if p.isReg then
        match regProcessFromDump p with
        | .error e => st := st.bump ("k:reg_unmodelled:" ++ (e.take 40).toString)
        | .ok (cfg, model) =>
          match regConfigsAgree p with
          | .error e =>
            st := st.bump "k:reg_config_differs"
            if firstBad.isNone then firstBad := some s!"{p.entity}.{p.name}: {e}"
          | .ok () => st := st.bump "k:reg_config_from_clock_equal"
          let sensOk := sens == some ((regProcessSens cfg).map String.toLower)
          if stmtsText model == stmtsText body && sensOk then st := st.bump "k:reg_process_equal"
          else
            st := st.bump "k:reg_process_differs"
            if firstBad.isNone then firstBad := some s!"{p.entity}.{p.name}: emitted [{stmtsText body}] model [{stmtsText model}] sensitivity {sens}"
      else
        match combProcessBody p with
        | .error e => st := st.bump ("k:comb_unmodelled:" ++ (e.take 60).toString)
        | .ok model =>
          let emitted := body.toList
          if emitted.length != model.length then
            st := st.bump "k:comb_process_differs"
            if firstBad.isNone then firstBad := some s!"{p.entity}.{p.name}: {emitted.length} statements emitted, model has {model.length}"
          else
            let mut ok := true
            for (a, b) in emitted.zip model do
              if stmtText a == stmtText b then st := st.bump "k:statements_equal"
              else
                ok := false
                st := st.bump "k:statements_differ"
                if firstBad.isNone then firstBad := some s!"{p.entity}.{p.name}: emitted [{stmtText a}] model [{stmtText b}]"
            st := st.bump (if ok then "k:comb_process_equal" else "k:comb_process_differs")
  return (st, firstBad)

/-! what the harness applied / observed versus what the recorder wrote -/

def fsOfRational (s : String) : Nat :=
  match s.splitOn "/" with
  | [a, b] => match a.toNat?, b.toNat? with
    | some x, some y => if y == 0 then 0 else x * 1000000000000000 / y
    | _, _ => 0
  | _ => 0

def headerKV (hd key : String) : Option String :=
  ((hd.splitOn " ").find? (·.startsWith (key ++ "="))).map fun t => (t.drop (key.length + 1)).toString

/-- half period in fs of the requested frequency `a/b` Hz (truncated like `hlim::formatTime`) -/
def requestedHalfFs (hd : String) : Option Nat :=
  match (headerKV hd "freq").map (·.splitOn "/") with
  | some [a, b] => match a.toNat?, b.toNat? with
    | some x, some y => if x == 0 then none else some (y * 1000000000000000 / (2 * x))
    | _, _ => none
  | _ => none

def absDiff (a b : Nat) : Nat := if a ≥ b then a - b else b - a

/-- CHECK / SET items of the vector file with the time (fs) at which the test bench executes them; SETs grouped per instant -/
def fileEvents (items : List (Nat × VecItem)) : List (Nat × Nat × String × String) × List (Nat × Nat × List (String × String)) := Id.run do
  let mut now := 0
  let mut checks : Array (Nat × Nat × String × String) := #[]          -- line, time, signal, value
  let mut groups : Array (Nat × Nat × List (String × String)) := #[]   -- line, time, sets
  let mut cur : List (String × String) := []
  let mut curLine := 0
  for (ln, it) in items do
    match it with
    | .adv ps =>
      if !cur.isEmpty then groups := groups.push (curLine, now, cur)
      cur := []
      now := now + ps * 1000
    | .set s v => if cur.isEmpty then curLine := ln
                  cur := cur ++ [(s.toLower, v.trimAscii.toString)]
    | .check s v => checks := checks.push (ln, now, s.toLower, v.trimAscii.toString)
    | .rst _ _ => pure ()
  if !cur.isEmpty then groups := groups.push (curLine, now, cur)
  return (checks.toList, groups.toList)

def sortPairs (l : List (String × String)) : List (String × String) := (l.toArray.qsort (fun a b => a.1 < b.1)).toList

/-- the recorded stream must say exactly what the harness applied and observed: every observation with a defined bit is one CHECK
(same pin, '-' exactly at the undefined bits, within half a clock period of the read), every changed stimulus value is one SET
(undefined bits as 'X', released pins as 'Z').  Returns a description of the first difference. -/
def compareRecordedStream (hd : String) (io : Array String) (items : List (Nat × VecItem)) : Option String := Id.run do
  let some half := requestedHalfFs hd | return some "case header without freq="
  let window := half + 2000
  let (checks, groups) := fileEvents items
  -- observations
  let mut expChecks : Array (Nat × List String × String) := #[]     -- time, names, pattern
  let mut stim : Array (Nat × Nat × String × String) := #[]         -- cycle, time, pin, value
  for l in io do
    match l.splitOn " " with
    | ["obs", _, t, names, v] =>
      if v.any (fun c => c == '0' || c == '1') then
        expChecks := expChecks.push (fsOfRational t, (names.splitOn "|").map String.toLower, String.ofList (v.toList.map fun c => if c == 'x' then '-' else c))
    | ["stim", cy, t, pin, v] => stim := stim.push (cy.toNat!, fsOfRational t, pin.toLower, v)
    | _ => pure ()
  if expChecks.size != checks.length then
    return some s!"the reference run observed {expChecks.size} values with defined bits, the vector file has {checks.length} CHECKs"
  for ((t, names, pat), (ln, tw, sig, v)) in expChecks.toList.zip checks do
    if !names.contains sig then return some s!"vector line {ln}: CHECK of '{sig}', the harness read {names} there"
    if pat != v then return some s!"vector line {ln}: CHECK {sig} {v}, but the reference simulator returned {pat} ('-' = undefined)"
    if absDiff t tw > window then return some s!"vector line {ln}: CHECK {sig} is executed at {tw} fs, the value was read at {t} fs (more than half a clock period apart)"
  -- stimuli: a SET is recorded when the applied value differs from the previous one (undefined and released bits are alike for the simulator state)
  let mut last : HashMap String String := {}
  let mut expGroups : Array (Nat × List (String × String)) := #[]
  let mut curCycle := 0
  let mut curTime := 0
  let mut cur : List (String × String) := []
  let mut first := true
  for (cy, t, pin, v) in stim do
    if !first && cy != curCycle then
      if !cur.isEmpty then expGroups := expGroups.push (curTime, cur)
      cur := []
    first := false
    curCycle := cy; curTime := t
    let cmp := String.ofList (v.toList.map fun c => if c == 'z' then 'x' else c)
    let prev := last.getD pin (String.ofList (List.replicate v.length 'x'))
    if cmp != prev then
      cur := (cur.filter (·.1 != pin)) ++ [(pin, String.ofList (v.toList.map fun c => if c == 'x' then 'X' else if c == 'z' then 'Z' else c))]
    last := last.insert pin cmp
  if !cur.isEmpty then expGroups := expGroups.push (curTime, cur)
  if expGroups.size != groups.length then
    return some s!"the harness applied {expGroups.size} batches of changed stimuli, the vector file has {groups.length} batches of SETs"
  for ((t, sets), (ln, tw, fsets)) in expGroups.toList.zip groups do
    if sortPairs sets != sortPairs fsets then return some s!"vector line {ln}: recorded SETs {sortPairs fsets}, applied stimuli {sortPairs sets}"
    if absDiff t tw > window then return some s!"vector line {ln}: SETs executed at {tw} fs, applied at {t} fs (more than half a clock period apart)"
  return none

/-- the generated test bench must have the requested clock: half period = b/(2a) for a/b Hz, initial level high iff the root clock
triggers on the rising edge (`ReferenceSimulator::powerOn`), reset initially at its active level and absent without a reset -/
def compareTestbenchHeader (hd : String) (hdr : TbHeader) : Option String := Id.run do
  let some half := requestedHalfFs hd | return some "case header without freq="
  for (cn, h) in hdr.clocks do
    if h != half then return some s!"clock '{cn}': the test bench waits {h} fs per half period, the requested frequency {(headerKV hd "freq").getD "?"} Hz needs {half} fs"
    match hdr.sigInit.lookup cn, headerKV hd "trig" with
    | some (.sl b), some trig =>
      let expected := if trig == "0" then SL.I else SL.O
      if b != expected then return some s!"clock '{cn}' starts at '{b.toChar}', trigger kind {trig} needs '{expected.toChar}'"
    | _, _ => return some s!"clock '{cn}' has no initial value in the test bench"
  match headerKV hd "reset" with
  | some r =>
    let kind := (r.take 1).toString
    let high := r.endsWith "H"
    match hdr.sigInit.lookup "reset" with
    | some (.sl b) =>
      if kind == "0" then return some "the test bench has a reset signal although no reset was requested"
      if b != (if high then SL.I else SL.O) then return some s!"reset starts at '{b.toChar}' but the requested polarity is {r}"
    | _ => pure ()
  | none => pure ()
  return none

def runCase (c : CaseData) (st : Stats) : IO Stats := do
  let mut st := { st with cases := st.cases + 1 }
  let hd := c.header
  for kv in hd.splitOn " " do
    if kv.startsWith "reset=" || kv.startsWith "trig=" || kv.startsWith "mode=" || kv.startsWith "style=" || kv.startsWith "areas=" || kv.startsWith "extra=" || kv.startsWith "undef=" || kv.startsWith "rundef=" || kv.startsWith "pon=" || kv.startsWith "freq=" || kv.startsWith "ebe=" || kv.startsWith "tri=" then
      st := st.bump ("opt:" ++ kv)
  let diff := fun (st : Stats) (what msg : String) => do
    IO.println s!"DIFF case={c.id} what={what} {hd} :: {short msg}"
    pure { st with diffs := st.diffs + 1 }
  let pfail := fun (st : Stats) (what msg : String) => do
    IO.println s!"PROPFAIL case={c.id} what={what} {hd} :: {short msg}"
    pure { st with propfails := st.propfails + 1 }
  -- 1. parse
  let mut units : List RawUnits := []
  for (fname, text) in c.files do
    st := { st with files := st.files + 1 }
    match parseFileUnits text with
    | .ok u => units := units ++ [u]
    | .error e =>
      if (e.splitOn "illegal VHDL").length > 1 then return ← pfail st "illegal_vhdl" s!"file={fname} {e}"
      else return ← diff st "unparsed" s!"file={fname} {e}"
  -- helper package as modelled?
  for u in units do
    for (n, body) in u.packages do
      if n == "body gateryhelperpackage" && !body.startsWith helperPackageBodyText then
        return ← diff st "helper_package" s!"GateryHelperPackage body differs from the modelled text: {short body 200}"
  let design ← match assemble units with
    | .ok d => pure d
    | .error e => return ← diff st "assemble" e
  let hdr ← match parseTbHeader c.tb with
    | .ok h => pure h
    | .error e => return ← diff st "testbench" e
  let items ← match parseVectors c.vectors.toList with
    | .ok i => pure i
    | .error e => return ← diff st "vectors" e
  -- 1a. the recorded stream and the test-bench header against what the harness requested, applied and observed itself
  match compareTestbenchHeader hd hdr with
  | some msg => return ← pfail st "testbench_header" msg
  | none => st := st.bump "k:testbench_header_as_requested"
  match compareRecordedStream hd c.iolines items with
  | some msg => return ← pfail st "recorded_stream" msg
  | none => st := st.bump "k:recorded_stream_equals_harness_io"
  -- 1b. exporter model vs. emitted text (statement by statement, in emitted order)
  let (st', bad) := compareExporterModel design (parseXProcs c.xlines) st
  st := st'
  if let some msg := bad then st ← diff st "exporter_model" msg
  -- 2. elaborate
  let (flat, top) ← match elaborate design "top" hdr.sigInit with
    | .ok r => pure r
    | .error e => return ← pfail st "elaboration_error" e
  st := { st with entities := st.entities + design.entities.length }
  for e in design.entities do st := concStats st e.body
  st := st.bump "max_width" 0
  st := { st with hist := st.hist.insert "max_width" (max (st.hist.getD "max_width" 0) (maxWidthOf design.entities)) }
  let tbDriven := (top.ports.filter (·.dir != .output)).map (·.name)
  let k := mkKernel flat tbDriven
  for (cn, _) in hdr.clocks do
    if !(top.ports.any (·.name == cn)) then return ← diff st "testbench" s!"clock '{cn}' of the testbench is not a port of top"
  -- 3. replay
  match replay k top hdr items with
  | .error e =>
    -- static errors that the interpreter meets on first evaluation: an operator whose operand types cannot be determined
    -- (`("00" & x) = "010"` with x : std_logic has several interpretations -> not legal VHDL)
    if (e.splitOn "type cannot be determined").length > 1 || (e.splitOn "type is not determined").length > 1 then
      return ← pfail st "illegal_vhdl" s!"illegal VHDL: ambiguous operand types: {e}"
    else return ← pfail st "vhdl_runtime_error" e
  | .ok r =>
    st := { st with ops := st.ops + r.checks, definedBits := st.definedBits + r.definedBitsChecked, sets := st.sets + r.sets, edges := st.edges + r.edges,
                    deltas := st.deltas + r.deltas, procRuns := st.procRuns + r.procRuns }
    if r.checks == 0 then st := st.bump "cases_without_checks"
    match r.fails with
    | [] => return st
    | f :: _ =>
      if (← IO.getEnv "C02_DEBUG").isSome then
        for (n, v) in (r.dump.toArray.qsort (fun a b => a.1 < b.1)).toList do IO.eprintln s!"  {n} = {v}"
      -- pins x_rrd* carry the read data of a memory read at a defined address (harness extra 64): with defined stimuli such a read returns
      -- the stored word exactly, so a mismatch there cannot be the X-pessimism of CASE / numeric_std even when the reference run holds
      -- undefined values (the partly defined power-on content)
      let exactFail := if (hd.splitOn "undef=0").length > 1 then r.fails.find? (fun x => x.sig.startsWith "x_rrd") else none
      let what := if exactFail.isSome then "check_mismatch_memory_read"
        else if r.fails.all (fun x => r.firstSetLine == 0 || x.line < r.firstSetLine) then "check_precedes_first_set"
        else if r.fails.any (·.hard) then
          -- defined on both sides and different: "through_metavalue" only if at EVERY such CHECK every differing element of the checked pin
          -- is tainted (decided by a metavalue, `Kernel.taintExpr`); a single untainted difference keeps the plain class
          (if (r.fails.filter (·.hard)).all (·.hardTainted) then "check_mismatch_value_through_metavalue" else "check_mismatch_value")
        else if r.fails.any (fun x => x.got.contains 'U') then "check_mismatch_uninitialised"
        else "check_mismatch_metavalue"
      let f := if what == "check_mismatch_value" then (r.fails.find? (fun x => x.hard && !x.hardTainted)).getD f
               else if what == "check_mismatch_value_through_metavalue" then (r.fails.find? (·.hard)).getD f else exactFail.getD f
      return ← pfail st what s!"vector_line={f.line} signal={f.sig} time_fs={f.timeFs} failing_checks={r.fails.length} of {r.checks} vhdl_has_metavalue={if r.metaPresent then 1 else 0} expected={f.expected} got={f.got}"

def stripPayload (l : String) : String := if l.startsWith "| " then (l.drop 2).toString else if l == "|" then "" else l

partial def loop (h : IO.FS.Stream) (st : Stats) (cur : Option CaseData) : IO Stats := do
  let line ← h.getLine
  if line.isEmpty then return st
  let l := (if line.endsWith "\n" then (line.dropEnd 1).toString else line)
  if l.startsWith "case " then
    let id := (l.splitOn " ")[1]!
    loop h st (some { id, header := ((l.splitOn " ").drop 2 |> " ".intercalate) })
  else if l.startsWith "skip " then
    loop h ({ st with skipped := st.skipped + 1 }.bump ("skip:" ++ ((l.splitOn " ").getD 2 "?"))) none
  else if l.startsWith "file " || l.startsWith "tb " || l.startsWith "vectors " then
    let parts := l.splitOn " "
    let n := (parts.getLast!).toNat!
    let mut lines : Array String := #[]
    for _ in [0:n] do
      let pl ← h.getLine
      lines := lines.push (stripPayload (if pl.endsWith "\n" then (pl.dropEnd 1).toString else pl))
    match cur with
    | some c =>
      if l.startsWith "file " then loop h st (some { c with files := c.files.push (parts[1]!, "\n".intercalate lines.toList) })
      else if l.startsWith "tb " then loop h st (some { c with tb := "\n".intercalate lines.toList })
      else loop h st (some { c with vectors := lines })
    | none => loop h st none
  else if l.startsWith "end" then
    match cur with
    | some c => let st ← runCase c st; loop h st none
    | none => loop h st none
  else
    match cur with
    | some c => if l.startsWith "obs " || l.startsWith "stim " then loop h st (some { c with iolines := c.iolines.push l })
                else if l.startsWith "x" && !l.startsWith "xdesc" then loop h st (some { c with xlines := c.xlines.push l })
                else loop h st (some { c with recipe := c.recipe.push l })
    | none => loop h st none

def main : IO Unit := do
  let stdin ← IO.getStdin
  let st ← loop stdin {} none
  let hist := (st.hist.toList.toArray.qsort (fun a b => a.1 < b.1)).toList
  let histJson := ",".intercalate (hist.map fun (k, v) => s!"{jsonStr k}:{v}")
  IO.println ("SUMMARY {" ++ s!"\"cases\":{st.cases},\"skipped\":{st.skipped},\"diffs\":{st.diffs},\"propfails\":{st.propfails},\"ops\":{st.ops}," ++
    s!"\"defined_bits_checked\":{st.definedBits},\"sets\":{st.sets},\"clock_toggles\":{st.edges},\"delta_cycles\":{st.deltas},\"process_runs\":{st.procRuns}," ++
    s!"\"files\":{st.files},\"entities\":{st.entities},\"instances\":{st.instances},\"comb_processes\":{st.combProcs},\"clocked_processes\":{st.clockedProcs}," ++
    "\"constructs\":{" ++ histJson ++ "}}")
