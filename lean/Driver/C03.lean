import Driver.NodesMain
/-! Driver for C03: operators = their mathematical definition (see `Driver/NodesCommon.lean`). -/
def main : IO Unit := Drv.run false
