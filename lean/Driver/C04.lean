import GateryModel.Sched.Expr
import GateryModel.Sched.Clock
import GateryModel.C04.Spec
import GateryModel.C04.Tie
/-!
Driver for C04: reads the protocol of `harness/c04.cpp` on stdin.

* `DIFF`     — the Lean model (`Sched/Clock.lean` clock tree + pin allocation, `Sched/Sim.lean` event loop + registers) disagrees
               with what the implementation answered/logged (correspondence broken);
* `PROPFAIL` — the implementation's own log violates the property statement (`C04/Spec.lean`): a register output changing at an
               instant that is neither an activating edge of its clock nor an asynchronous reset event, a register not showing
               `specInstant` of the pre-instant values, a clock edge at a time ≠ j/(2f), an activation at a time ≠ k/f (k/(2f)).
-/
open Gatery.Sched Gatery.C04

def bump (h : List (String × Nat)) (k : String) (n : Nat := 1) : List (String × Nat) :=
  match h with
  | [] => [(k, n)]
  | (a, m) :: t => if a == k then (a, m+n) :: t else (a, m) :: bump t k n

def parseRat (s : String) : Rat :=
  match s.splitOn "/" with
  | [n, d] => (n.toNat! : Rat) / (d.toNat! : Rat)
  | [n] => (n.toNat! : Rat)
  | _ => 0

def showRat (r : Rat) : String := s!"{r.num}/{r.den}"

/-- "01x" MSB first; "-" = none -/
def parseBits (s : String) : Val :=
  let cs := s.toList
  let v := cs.foldl (fun a c => 2*a + (if c == '1' then 1 else 0)) 0
  let d := cs.foldl (fun a c => 2*a + (if c == 'x' then 0 else 1)) 0
  ⟨cs.length, v, d⟩

def showBits (a : Val) : String :=
  if a.w == 0 then "-" else
  String.ofList ((List.range a.w).reverse.map fun i =>
    if !(a.d.testBit i) then 'x' else if a.v.testBit i then '1' else '0')

/-- key=value lookup in a token list -/
def kv (toks : List String) (k : String) : String :=
  match toks.find? (fun t => t.startsWith (k ++ "=")) with
  | some t => (t.drop (k.length + 1)).toString
  | none => ""

def parseTrig (s : String) : Trigger := if s == "R" then .rising else if s == "F" then .falling else .both
def parseRst (s : String) : ResetType := if s == "S" then .sync else if s == "A" then .async else .none

/-- prefix expression parser -/
partial def parseExpr : List String → Option (Expr × List String)
  | [] => none
  | t :: rest =>
    let un (f : Expr → Expr) := do let (a, r) ← parseExpr rest; pure (f a, r)
    let bin (f : Expr → Expr → Expr) := do let (a, r) ← parseExpr rest; let (b, r) ← parseExpr r; pure (f a b, r)
    if t == "not" then un .not else if t == "bit" then un .bit
    else if t == "xor" then bin .xor else if t == "and" then bin .and else if t == "or" then bin .or else if t == "add" then bin .add
    else if t.startsWith "q" then some (.q (t.drop 1).toString.toNat!, rest)
    else if t.startsWith "p" then some (.p (t.drop 1).toString.toNat!, rest)
    else if t.startsWith "c" then some (.c (parseBits (t.drop 1).toString), rest)
    else none

def parseExprOpt (toks : List String) : Option Expr :=
  match toks with
  | ["-"] => none
  | _ => (parseExpr toks).map (·.1)

/-- observations (implementation log lines and model log entries, both normalised to source-clock ids) -/
inductive Obs
  | clk (c : Nat) (rising : Bool) (t : Rat)
  | rst (c : Nat) (high : Bool) (t : Rat)
  | commit (t : Rat) (outs : List Val)
  deriving DecidableEq, Repr

def Obs.time : Obs → Rat | .clk _ _ t => t | .rst _ _ t => t | .commit t _ => t
def Obs.rank : Obs → Nat | .clk .. => 0 | .rst .. => 1 | .commit .. => 2
def Obs.id : Obs → Nat | .clk c _ _ => c | .rst c _ _ => c | .commit .. => 0
def Obs.le (a b : Obs) : Bool :=
  a.time < b.time || (a.time == b.time && (a.rank < b.rank || (a.rank == b.rank && a.id ≤ b.id)))
def Obs.show : Obs → String
  | .clk c r t => s!"clk {c} {if r then 1 else 0} {showRat t}"
  | .rst c r t => s!"rst {c} {if r then 1 else 0} {showRat t}"
  | .commit t outs => s!"commit {showRat t} " ++ " ".intercalate (outs.map showBits)

def parseObs (toks : List String) : Option Obs :=
  match toks with
  | "L" :: "clk" :: c :: f :: t :: _ => some (.clk c.toNat! (f == "1") (parseRat t))
  | "L" :: "rst" :: c :: f :: t :: _ => some (.rst c.toNat! (f == "1") (parseRat t))
  | "L" :: "commit" :: t :: vals => some (.commit (parseRat t) (vals.map parseBits))
  | _ => none

/-- the events of one instant are unordered among equal (time, kind): the heap order of `std::priority_queue` among equivalent
    events is not part of the model -/
def canon (l : List Obs) : List Obs := l.mergeSort Obs.le

structure RegInfo where
  clk : Nat
  decl : RegDecl
  d : Option Expr
  en : Option Expr

/-- one case being assembled / replayed -/
structure Case where
  id : String := ""
  clocks : Array ClockDecl := #[]
  cinfo : List (Nat × Rat × Nat × Option Nat) := []
  ccfg : List (Nat × ClockCfg × Option Rat) := []      -- what `deriveClock` was asked for, per derived clock (configuration, multiplier)
  allocLine : List String := []
  rpins : List (Nat × Nat × Rat) := []
  npins : Nat := 0
  pinW : List Nat := []
  regs : Array RegInfo := #[]
  exc : Bool := false
  -- replay
  started : Bool := false
  prog : Prog := ⟨[], [], [], ⟨[], fun _ _ _ => none, fun _ _ _ => none⟩⟩
  alloc : ClockTree.Alloc := {}
  sim : Sim Unit := { ext := () }
  pendingOp : Option ApiOp := none
  chunk : List Obs := []          -- implementation observations since the last op (newest first)
  -- spec state (from the implementation's log only)
  prevOuts : List Val := []
  pinsCur : List Val := []
  pinsSeen : List Val := []
  levels : List (Nat × Bool) := []       -- reset level by reset-source clock
  edgeCnt : List (Nat × Nat) := []       -- edges seen by clock-pin source clock
  actCnt : List (Nat × Nat) := []        -- activations seen by clock
  instClk : List (Nat × Bool) := []      -- edges of the current instant
  instRst : List (Nat × Bool) := []
  reportedAct : List Nat := []           -- clocks whose activation-time failure was already reported

structure St where
  cur : Case := {}
  cases : Nat := 0
  diffs : Nat := 0
  propfails : Nat := 0
  events : Nat := 0
  regchecks : Nat := 0
  hist : List (String × Nat) := []
  out : List String := []     -- messages of the current case (flushed at `end`)
  printedKeys : List String := []
  printed : List (String × Nat) := []

def fuel : Nat := 100000

def lookupD (l : List (Nat × α)) (k : Nat) (d : α) : α := (l.lookup k).getD d
def setKV (l : List (Nat × α)) (k : Nat) (v : α) : List (Nat × α) := (k, v) :: l.filter (·.1 != k)

def trigName : Trigger → String | .rising => "R" | .falling => "F" | .both => "B"
def rstName : ResetType → String | .sync => "S" | .async => "A" | .none => "N"

def St.diff (s : St) (msg : String) : St :=
  { s with diffs := s.diffs + 1, out := s!"DIFF case={s.cur.id} {msg}" :: s.out }
/-- every failure is counted; at most one message per (case, kind) and 20 per kind overall are printed -/
def St.propfail (s : St) (msg : String) : St :=
  let kind := ((msg.splitOn " ").headD "")
  let key := s!"{s.cur.id}/{kind}"
  let n := (s.printed.lookup kind).getD 0
  let s := { s with propfails := s.propfails + 1 }
  if s.printedKeys.contains key || n ≥ 20 then s
  else { s with out := s!"PROPFAIL case={s.cur.id} {msg}" :: s.out, printedKeys := key :: s.printedKeys,
                printed := (kind, n+1) :: s.printed.filter (·.1 != kind) }

def tree (c : Case) : ClockTree := c.clocks.toList

/-- compare clock-tree answers and build the program -/
def startCase (s : St) : St := Id.run do
  let c := s.cur
  let cs := tree c
  let mut s := s
  for (i, f, ps, rs) in c.cinfo do
    if cs.absFreq i != f then s := s.diff s!"absFreq clock={i} model={showRat (cs.absFreq i)} impl={showRat f}"
    if cs.clockPinSource i != ps then s := s.diff s!"clockPinSource clock={i} model={cs.clockPinSource i} impl={ps}"
    if cs.resetPinSource i != rs then s := s.diff s!"resetPinSource clock={i} model={repr (cs.resetPinSource i)} impl={repr rs}"
  -- every clock: the reported attributes must be what the configuration asked for (roots) / `deriveDecl` of the parent's (derived)
  for (i, cfg, mul) in c.ccfg do
    let d := cs.get i
    let e := cs.expectedDecl i cfg mul
    for attr in ClockTree.declMismatch e d do
      s := s.propfail s!"kind=derived-clock-attribute attr={attr} clock={i} parent={repr d.parent} expected=[f={showRat e.freqOrMul} trig={trigName e.trig} rst={rstName e.rstType} actHigh={e.activeHigh} name={e.name} rname={e.resetName} psync={e.phaseSync}] reported=[f={showRat d.freqOrMul} trig={trigName d.trig} rst={rstName d.rstType} actHigh={d.activeHigh} name={d.name} rname={d.resetName} psync={d.phaseSync}]"
  let a := cs.alloc
  let showL (l : List Nat) := String.join (l.map fun x => s!"{x},")
  let showP (l : List (Nat × Nat)) := String.join (l.map fun (x, y) => s!"{x}:{y},")
  let mine := [s!"cpins={showL a.clockPins}", s!"rpins={showL a.resetPins}", s!"c2p={showP a.clock2pin}", s!"c2r={showP a.clock2rst}"]
  if mine != c.allocLine then s := s.diff s!"alloc model={mine} impl={c.allocLine}"
  for (i, cyc, t) in c.rpins do
    let src := a.resetPins.getD i 0
    if cs.minResetCycles src != cyc then s := s.diff s!"minResetCycles rpin={i} model={cs.minResetCycles src} impl={cyc}"
    if cs.minResetTime src != t then s := s.diff s!"minResetTime rpin={i} model={showRat (cs.minResetTime src)} impl={showRat t}"
  let net : ExprNet :=
    { regs := c.regs.toList.map fun r => { r.decl with dom := cs.domIndex r.clk },
      data := c.regs.toList.map (·.d), en := c.regs.toList.map (·.en) }
  let prog := cs.toProg net.toNet
  let pins0 := c.pinW.map Val.undef
  -- the theorems of Properties/C04.lean are stated for well-formed programs: check the premise on every generated case
  if !wfb prog then
    -- e.g. a clock frequency of 0 (an implementation answer that contradicts the requested configuration, reported above): the event loop
    -- of the model would not advance time; the case is reported and not simulated
    return (s.diff "generated program violates WF (premise of the C04 theorems); case not simulated")
  let sim := powerOn prog ProcSem.none fuel pins0 ()
  let mut h := s.hist
  for cl in c.clocks do
    if cl.hasNodes then
      h := bump h s!"clock:{trigName cl.trig}{rstName cl.rstType}{if cl.activeHigh then "H" else "L"}{if cl.parent.isSome then "d" else "r"}"
  h := bump h s!"pins:{a.clockPins.length}"
  h := bump h s!"rstpins:{a.resetPins.length}"
  h := bump h s!"regs:{c.regs.size}"
  -- derived clocks sharing the pin of another clock with a different trigger
  for i in cs.relevant do
    let src := cs.clockPinSource i
    if src != i && (cs.get i).hasNodes then
      h := bump h (if edgeAligned ((cs.get src).trig == .rising) (cs.get i).trig then "sharedpin:aligned" else "sharedpin:antialigned")
  return { s with cur := { c with started := true, prog := prog, alloc := a, sim := sim, pinsCur := pins0, pinsSeen := pins0,
                                   prevOuts := [] }, hist := h }

/-- model log entries (newest first) added since `n0`, as observations -/
def modelObs (c : Case) (n0 : Nat) : List Obs :=
  let added := (c.sim.log.take (c.sim.log.length - n0)).reverse
  added.filterMap fun
    | .clock p r t => some (.clk (c.alloc.clockPins.getD p 0) r t)
    | .reset p r t => some (.rst (c.alloc.resetPins.getD p 0) r t)
    | .commit t outs => some (.commit t outs)
    | .proc .. => none

/-- the property evaluated on the implementation's observations of one instant (ending with a commit) -/
def specCheckInstant (s : St) (t : Rat) (outs : List Val) : St := Id.run do
  let c := s.cur
  let cs := tree c
  let mut s := s
  let mut edgeCnt := c.edgeCnt
  let mut actCnt := c.actCnt
  -- (c) clock edges at exactly j/(2f), alternating; activations at exactly k/f (k/(2f))
  for (src, rising) in c.instClk.reverse do
    let j := lookupD edgeCnt src 0 + 1
    edgeCnt := setKV edgeCnt src j
    let f := cs.absFreq src
    s := { s with events := s.events + 1 }
    if t != specEdgeTime f j then
      s := s.propfail s!"kind=edge-time clock={src} edge={j} time={showRat t} expected={showRat (specEdgeTime f j)}"
    for ci in cs.relevant do
      let cl := cs.get ci
      if cs.clockPinSource ci == src && cl.trig.activates rising then
        let k := lookupD actCnt ci 0 + 1
        actCnt := setKV actCnt ci k
        let fc := cs.absFreq ci
        if cl.hasNodes && t != specActivationTime cl.trig fc k && !(s.cur.reportedAct.contains ci) then
          s := { s with cur := { s.cur with reportedAct := ci :: s.cur.reportedAct } }
          let al := if edgeAligned ((cs.get src).trig == .rising) cl.trig then "aligned" else "antialigned"
          s := s.propfail s!"kind=activation-time sharing={if src == ci then "own" else "shared"}-pin:{al} clock={ci} trig={trigName cl.trig} f={showRat fc} k={k} time={showRat t} expected={showRat (specActivationTime cl.trig fc k)}"
  -- (a)/(b) every register shows specInstant of the pre-instant values
  if c.prevOuts.length == outs.length then
    let regs := c.regs.toList
    for (ri, i) in regs.zipIdx do
      let cl := cs.get ri.clk
      let src := cs.clockPinSource ri.clk
      let rsrc := cs.resetPinSource ri.clk
      let dom : DomainDecl := { pin := 0, rstPin := rsrc, trig := cl.trig, rstType := cl.rstType, activeHigh := cl.activeHigh }
      let activated := c.instClk.any fun (p, rising) => p == src && cl.trig.activates rising
      let levelPre := match rsrc with | some r => lookupD c.levels r false | none => false
      let rstEvents := match rsrc with | some r => (c.instRst.reverse.filter (·.1 == r)).map (·.2) | none => []
      let q := c.prevOuts.getD i default
      let d := ri.d.map (·.eval c.prevOuts c.pinsSeen)
      let en := ri.en.map fun e => (e.eval c.prevOuts c.pinsSeen).toTri
      let expected := specInstant ri.decl dom activated levelPre rstEvents d en q
      let got := outs.getD i default
      s := { s with regchecks := s.regchecks + 1 }
      if got != expected then
        let asyncEvt := cl.rstType == .async && !rstEvents.isEmpty
        let kind := if !activated && !asyncEvt then "changed-at-non-edge" else "wrong-sample"
        s := s.propfail s!"kind={kind} reg={i} clock={ri.clk} time={showRat t} activated={activated} inReset={specInReset ri.decl dom levelPre} before={showBits q} got={showBits got} expected={showBits expected}"
      else if activated then
        s := { s with hist := bump s.hist (if specInReset ri.decl dom levelPre then "edge:inreset" else
                  match en.getD .one with | .one => "edge:load" | .zero => "edge:hold" | .x => "edge:undef-enable") }
      else if got != q then s := { s with hist := bump s.hist "asyncreset:applied" }
  -- commit the new levels
  let mut levels := c.levels
  for (r, lvl) in c.instRst.reverse do levels := setKV levels r lvl
  return { s with cur := { s.cur with prevOuts := outs, pinsSeen := s.cur.pinsCur, levels := levels, edgeCnt := edgeCnt, actCnt := actCnt,
                                        instClk := [], instRst := [] } }

/-- an op (or `end`) closes the chunk of implementation observations that followed the previous op: compare with the model -/
def closeChunk (s : St) : St := Id.run do
  let c := s.cur
  if !c.started then return s
  let impl := c.chunk.reverse
  -- model side
  let n0 := c.sim.log.length
  let c' := match c.pendingOp with
    | some op => { c with sim := applyOp c.prog ProcSem.none fuel c.sim op }
    | none => c     -- power-on: already executed in startCase; its log is everything so far
  let mobs := match c.pendingOp with
    | some _ => modelObs c' n0
    | none => modelObs c' 0
  let mut s := { s with cur := { c' with chunk := [], pendingOp := none } }
  if canon mobs != canon impl then
    let firstBad := ((canon mobs).zip (canon impl)).find? fun (a, b) => a != b
    let detail := match firstBad with
      | some (a, b) => s!"model=[{a.show}] impl=[{b.show}]"
      | none => s!"lengths model={mobs.length} impl={impl.length}"
    s := s.diff s!"log-after-op {detail}"
  if let some e := c'.sim.err then s := s.diff s!"model-error {e}"
  return s

def handleObs (s : St) (o : Obs) : St :=
  let s := { s with cur := { s.cur with chunk := o :: s.cur.chunk } }
  match o with
  | .clk c r _ => { s with cur := { s.cur with instClk := (c, r) :: s.cur.instClk } }
  | .rst c r _ => { s with cur := { s.cur with instRst := (c, r) :: s.cur.instRst } }
  | .commit t outs => specCheckInstant s t outs

def handleLine (s : St) (line : String) : St :=
  let toks := (line.trimAscii.toString.splitOn " ").filter (· != "")
  match toks with
  | "case" :: id :: _ => { s with cur := { id := id }, cases := s.cases + 1, out := [] }
  | "width" :: _ => s
  | "clock" :: i :: rest =>
    let p := kv rest "parent"
    let cd : ClockDecl :=
      { parent := if p == "-" then none else some p.toNat!, freqOrMul := parseRat (kv rest "fm"), name := kv rest "name",
        resetName := kv rest "rname", trig := parseTrig (kv rest "trig"), phaseSync := kv rest "psync" == "1",
        rstType := parseRst (kv rest "rst"), activeHigh := kv rest "act" == "H", hasNodes := kv rest "nodes" == "1" }
    if i.toNat! != s.cur.clocks.size then s.diff s!"clock ids not dense at {i}"
    else { s with cur := { s.cur with clocks := s.cur.clocks.push cd } }
  | "ccfg" :: i :: rest =>
    let opt := fun (k : String) => let v := kv rest k; if v == "~" then none else some v
    let cfg : ClockCfg :=
      { name := opt "name", resetName := opt "rname", trig := (opt "trig").map parseTrig, phaseSync := (opt "psync").map (· == "1"),
        rstType := (opt "rst").map parseRst, activeHigh := (opt "act").map (· == "H") }
    { s with cur := { s.cur with ccfg := s.cur.ccfg ++ [(i.toNat!, cfg, (opt "mul").map parseRat)] } }
  | "cinfo" :: i :: rest =>
    let r := kv rest "rstsrc"
    { s with cur := { s.cur with cinfo := s.cur.cinfo ++ [(i.toNat!, parseRat (kv rest "freq"), (kv rest "pinsrc").toNat!, if r == "-" then none else some r.toNat!)] } }
  | "alloc" :: rest => { s with cur := { s.cur with allocLine := rest } }
  | "rpin" :: i :: rest =>
    { s with cur := { s.cur with rpins := s.cur.rpins ++ [(i.toNat!, (kv rest "mincycles").toNat!, parseRat (kv rest "mintime"))] } }
  | "pin" :: _ :: w :: _ => { s with cur := { s.cur with npins := s.cur.npins + 1, pinW := s.cur.pinW ++ [w.toNat!] } }
  | "reg" :: _ :: rest =>
    let exprToks := rest.dropWhile (fun t => !t.startsWith "d=")
    let dToks := match exprToks with
      | t :: r => ((t.drop 2).toString :: r).takeWhile (· != ";")
      | [] => []
    let enToks := match (rest.dropWhile (· != ";")).drop 1 with
      | t :: r => (t.drop 3).toString :: r
      | [] => ["-"]
    let rs := kv rest "rst"
    let ri : RegInfo :=
      { clk := (kv rest "clk").toNat!,
        decl := { dom := 0, width := (kv rest "w").toNat!, rst := if rs == "-" then none else some (parseBits rs) },
        d := parseExprOpt dToks, en := parseExprOpt enToks }
    { s with cur := { s.cur with regs := s.cur.regs.push ri } }
  | ["begin"] => startCase s
  | "exception" :: _ => { s with cur := { s.cur with exc := true }, hist := bump s.hist "rejected-by-library" }
  | "L" :: _ =>
    match parseObs toks with
    | some o => handleObs s o
    | none => s.diff s!"unparsable log line {line}"
  | "op" :: rest =>
    let s := closeChunk s
    let op : Option ApiOp := match rest with
      | ["set", i, v] => some (.setPin i.toNat! (parseBits v))
      | ["reeval"] => some .reevaluate
      | ["adv"] => some .advanceEvent
      | ["advance", d] => some (.advance (parseRat d))
      | _ => none
    let s := { s with hist := bump s.hist ("op:" ++ rest.headD "?") }
    -- spec-side bookkeeping of what the circuit has seen
    let cur := match op with
      | some (.setPin i v) => { s.cur with pinsCur := s.cur.pinsCur.set i v }
      | some .reevaluate => { s.cur with pinsSeen := s.cur.pinsCur }
      | _ => s.cur
    { s with cur := { cur with pendingOp := op } }
  | ["end"] =>
    let s := closeChunk s
    s
  | _ => s

def jsonHist (h : List (String × Nat)) : String :=
  "{" ++ ", ".intercalate (h.map fun (k, n) => s!"\"{k}\": {n}") ++ "}"

partial def loop (h : IO.FS.Stream) (s : St) : IO St := do
  let line ← h.getLine
  if line.isEmpty then return s
  let s := handleLine s line
  let s ← if line.startsWith "end" then do
      for m in s.out.reverse do IO.println m
      pure { s with out := [] }
    else pure s
  loop h s

def main : IO Unit := do
  let stdin ← IO.getStdin
  let s ← loop stdin {}
  IO.println s!"SUMMARY \{\"cases\": {s.cases}, \"diffs\": {s.diffs}, \"propfails\": {s.propfails}, \"ops\": {s.events + s.regchecks}, \"clock_events\": {s.events}, \"reg_checks\": {s.regchecks}, \"hist\": {jsonHist s.hist}}"
